# C01 - safe memory reclamation: no object is destroyed while a guard_ptr protects it
from xvlib import *
from props.reclaim_common import *

PROGS2 = ['swp0:0,swp0:0;acq0:0,tch0,cpy0:1,rst0,tch1',
          'swp0:0,swp1:1;acq0:0,acq1:1,tch0,tch1',
          'swp0:0,swp0:0;acqe0:0,tch0,acq0:1,tch1',
          'rgn1,acq0:0,tch0,rgn0;swp0:0,swp0:0',
          'acq0:0,mov0:1,tch1,swg1:2,tch2;swp0:0,swp0:1',
          'swp0:0,acq0:1,tch1;swp0:0,acq0:1,tch1',
          # many guards acquired in pairwise different eras / epochs while another thread retires what they protect (dynamic slot growth)
          'acq0:0,swp1:1,acq2:2,swp3:3,acq3:3,tch0,tch2,tch3,acq1:1,tch1;swp0:0,swp2:2,swp3:3',
          'swp3:3,acq0:0,swp3:3,acq1:1,swp3:3,acq2:2,swp3:2,acq3:3,tch0,tch1,tch3;swp0:0,swp1:1,swp0:0',
          # era ladder: each guard protects an object constructed in a later era than the previous guard's (dynamic slot growth while guards are live)
          'acq0:0,swp3:3,swp1:3,acq1:1,swp1:3,acq2:2,swp3:3,tch1,tch0,tch2,acq3:3,swp2:3,tch1',
          'acq0:0,swp3:3,swp1:3,acq1:1,acq3:3,acq2:2,tch1,tch2;swp2:0,swp1:0,swp3:0,swp2:0']
PROGS3 = ['swp0:0;swp0:0;acq0:0,tch0,cpy0:1,rst0,tch1',
          'swp0:0,swp0:0;acq0:0,tch0;acqe0:0,tch0',
          'rgn1,acq0:0,acq0:1,rgn0;swp0:0;swp0:1,swp0:0']


def run(ctx):
    build(['reclaim'])
    q = ctx.quick
    from props import reclaim_models
    reclaim_models.run_models(ctx, 'C01')
    jobs = []
    for c in ALL:
        K = SLOTTED.get(c, 99)
        for i, p in enumerate(PROGS2 + PROGS3):
            if guards_needed(';' + p) > K:
                continue
            many = 'acq3:3' in p
            if q and c not in CORE and (i + ctx.seed + ALL.index(c)) % 4 != 0 and not (many and c in ('hpd1', 'hed1')):
                continue
            if q and i >= len(PROGS2) and c not in ('hp3', 'ebr0', 'stamp', 'qsbr'):
                continue
            jobs.append('%s;;%s' % (c, p))
    run_client(ctx, jobs, pb=2 if q else 3, max_exec=800 if q else 20000)
    djobs = ['%s;;%s' % (c, p) for c in ((CORE + ['lfrc2', 'hpd1', 'hed1']) if q else ALL) for p in DIRECTED if guards_needed(';' + p) <= SLOTTED.get(c, 99)]
    run_client(ctx, djobs, pb=2 if q else 3, max_exec=3000 if q else 40000, tag='rd')
    if not q:
        run_client(ctx, jobs, pb=5, max_exec=0, mode='random', runs=800)
    for r in ctx.tv[:2]:
        ctx.samples.append({'driver': 'reclaim', 'history': canonical_sample(execution_lines(r['trace'], 2), 80)})
    return finish(ctx,
                  'M: TLC explores all interleavings of the generic client over the reclaimer impl specs; T: the generic client (publish / acquire / '
                  'acquire_if_equal / copy / move / swap / unlink+reclaim / region_guard) runs on every reclaimer configuration under every schedule with '
                  'preemption bound 2/3 (+ random schedules in thorough); every event stream is validated by TLC against abs/Reclamation; '
                  'non-trivial = overlapping operations of different threads',
                  ['sequential consistency at atomic-access granularity (weak executions: C03)',
                   'guard release is logged just before the releasing call, acquisition just after it returns (never a false alarm; a window of one call is not observed)'])
