# C02 - retired objects are destroyed exactly once by their own deleter, never leaked
from xvlib import *
from props.reclaim_common import *

# threads retire and exit with pending nodes (a reader still protects them); later generations / the flush must destroy them
PROGS = ['acq0:0,acq1:1,tch0,tch1;swp0:0,swp1:1',
         'swp0:0,swp0:0;acq0:0,tch0,cpy0:1,rst0,tch1',
         'acq0:0;swp0:0,swp0:1;@1:swp0:0,acq1:0',
         'rgn1,acq0:0,swp1:1,rgn0;swp0:0,swp1:1',
         'swp0:0,swp1:1,swp2:2;acq0:0,acq1:1,acq2:2',
         'acq0:0,swp1:1;swp0:0;@0:swp0:0;@1:acq0:0,swp0:0']


CHAIN = ['swp0:0,swp0:0;acq0:0,tch0,rst0', 'swp0:0;swp1:1;@0:swp0:0', 'rgn1,swp0:0,rgn0;swp1:1,swp1:1',
         # a thread exits with reclaimable nodes in its local list (another thread was inside a region when they were retired and has left since)
         'wai2,swp0:0,sig3,wai1;rgn1,sig2,wai3,rgn0,sig1', 'wai2,swp0:0,swp1:0,sig3,wai1;rgn1,acq0:0,sig2,wai3,rst0,rgn0,sig1']


def run(ctx):
    build(['reclaim'])
    q = ctx.quick
    from props import reclaim_models
    reclaim_models.run_models(ctx, 'C02')
    jobs = []
    for c in ALL:
        K = SLOTTED.get(c, 99)
        for i, p in enumerate(PROGS):
            if guards_needed(';' + p) > K:
                continue
            if q and c not in CORE and (i + ctx.seed + ALL.index(c)) % 3 != 0:
                continue
            cfg = c if (c in NO_CUSTOM_DELETER or (i % 2 == 1)) else c + '+d'
            jobs.append('%s;;%s' % (cfg, p))
    run_client(ctx, jobs, pb=2 if q else 3, max_exec=500 if q else 20000)
    # deleters that use the reclaimer themselves (config suffix +c: destroying a first-generation node retires a child node through a guard_ptr, from
    # inside a scan / an epoch change / a thread exit): the child must be destroyed exactly once as well, the interrupted reclamation pass must survive
    cjobs = ['%s+d+c;;%s' % (c, p) for c in (CORE if q else ALL) if c not in NO_CUSTOM_DELETER for p in CHAIN]
    run_client(ctx, cjobs, pb=1 if q else 2, max_exec=120 if q else 5000, tag='chain')
    if not q:
        run_client(ctx, jobs, pb=5, max_exec=0, mode='random', runs=800)
    for r in ctx.tv[:2]:
        ctx.samples.append({'driver': 'reclaim', 'history': canonical_sample(execution_lines(r['trace'], 2), 80)})
    return finish(ctx,
                  'M: TLC checks destroy-at-most-once, destroy-only-after-retire and leak freedom at quiescence (after the scheme\'s reclamation point) '
                  'for all interleavings of the generic client over the reclaimer impl specs; T: programs in which threads retire objects and exit at '
                  'operation boundaries (two generations), with stateful custom deleters, run on every reclaimer configuration; each execution ends with a '
                  'public-API flush and a census checked by TLC (retired = destroyed, deleter tag = object); non-trivial = overlapping operations',
                  ['sequential consistency at atomic-access granularity',
                   'the flush is 3 rounds of 24 idle guard cycles + 1 retire cycle by the main thread (validated natively for all configurations)'])
