# C03 - correct under the C++ memory model: race-free, robust to weak executions
import json, re
from xvlib import *
from props import c12 as P12, c14 as P14, c13 as P13, queue_models as QM, reclaim_models as RM

RANK = {'none': -1, 'rlx': 0, 'con': 0, 'acq': 1, 'rel': 1, 'ar': 2, 'sc': 3}


def strip_pc(src, dst):
    with open(dst, 'w') as f:
        for l in open(src):
            r = json.loads(l)
            r.pop('pc', None)
            f.write(json.dumps(r, separators=(',', ':')) + '\n')


def keep_in_ops(recs, keep, anywhere=False):
    """step records of a client thread are kept only inside an operation (between its call and ret records) and only if
       keep(record) holds for the labelled record (fn / ctx from call-site symbolization); everything else passes"""
    inop = {}
    for r in recs:
        if r['e'] == 'call':
            inop[r['t']] = True
        elif r['e'] == 'ret':
            inop[r['t']] = False
        if r.get('fn', '') == '' and 'ln' in r and r['e'] in ('ld', 'st', 'cas', 'xchg', 'faa', 'fas', 'for', 'fence') and r['t'] != 9:
            pass
        if r['e'] in ('ld', 'st', 'cas', 'xchg', 'faa', 'fas', 'for', 'fence', 'lock', 'unlock') and r['t'] != 9:
            if not (anywhere or inop.get(r['t'])) or not keep(r):
                continue
        yield r


import itertools
_SB_COUNTER = itertools.count()


def step_bind(ctx, spec, driver, progs, consts, pb=2, max_exec=150, keep=None, anywhere=False):
    """run the real code with step logging, validate every execution against <spec>_Step, collect the order table"""
    uid = '%s_%d' % (spec, next(_SB_COUNTER))      # several bindings of one spec may run side by side
    xs = explore(ctx, 'steps_%s' % uid, driver, progs, mode='dfs', pb=pb, max_exec=max_exec, steps=True)
    d = ctx.sub('sb_' + uid)
    stage_specs(d)
    tr = os.path.join(d, 'steps.ndjson')
    if keep:
        lab = os.path.join(d, 'labelled.ndjson')
        label_steps(os.path.join(BUILD, driver), xs['trace'], lab)
        with open(tr, 'w') as f:
            for r in keep_in_ops((json.loads(l) for l in open(lab)), keep, anywhere):
                for k in ('fn', 'ln', 'ctx'):
                    r.pop(k, None)
                f.write(json.dumps(r, separators=(',', ':')) + '\n')
    else:
        strip_pc(xs['trace'], tr)
    open(os.path.join(d, 'sb.cfg'), 'w').write(cfg_text(None, consts, constraints=['Progress'], postcondition='Report', init='SInit', next_='SNext'))
    t0 = time.time()
    rc, out = sh('cd %s && timeout 900 tlc -workers 1 -metadir %s/md -config sb.cfg %s_Step.tla' % (d, d, spec), tmo=930, env={'TRACE': tr, 'JAVA_TOOL_OPTIONS': '-Xmx6g'})
    shutil.rmtree(os.path.join(d, 'md'), ignore_errors=True)
    if 'states generated' not in out or 'Error:' in out:
        open(os.path.join(d, 'tlc.out'), 'w').write(out)
        log(out[-2500:])
        raise Infra('step-level validation of %s failed to run' % spec)
    total = set(json.loads(l)['a'] for l in open(tr) if l.startswith('{"e":"reset"'))
    acc = set(int(x) for x in re.findall(r'<<"ACC", (\d+)>>', out))
    tab = {}
    for m in re.finditer(r'<<"ORD", \d+, \[(.*?)\]>>', out, re.S):
        for lab, vals in re.findall(r'(\w+) \|-> \{([^}]*)\}', m.group(1)):
            tab.setdefault(lab, set()).update(v.strip().strip('"') for v in vals.split(',') if v.strip())
    m = RE_STATES.findall(out)
    res = {'name': 'steps_' + spec, 'module': spec + '_Step', 'driver': driver, 'executions': len(total), 'accepted': len(acc), 'rejected': sorted(total - acc)[:5],
           'wall_s': round(time.time() - t0, 1), 'tlc_distinct': int(m[-1][1]) if m else 0, 'tlc_generated': int(m[-1][0]) if m else 0, 'trace': tr,
           'executions_run': xs['executions'], 'programs': len(progs), 'truncated': xs['truncated'], 'nontrivial': count_nontrivial(tr)}
    ctx.tv.append(res)
    log('  S %-28s executions=%d accepted by the impl spec=%d labels with orders=%d %.1fs' % (spec, len(total), len(acc), len(tab), res['wall_s']))
    if len(acc) < len(total):
        ctx.binding.append({'spec': spec, 'diverged': '%d of %d step traces not matched by the impl spec (first: %s)' % (len(total) - len(acc), len(total), sorted(total - acc)[:3])})
        log('BINDING-DIVERGED %s: %d of %d step traces are not behaviours of the impl spec' % (spec, len(total) - len(acc), len(total)))
    return tab, len(acc), len(total)


def site_orders(ctx, name, driver, progs, sites, max_exec=12):
    """order table by CALL SITE: the real code is run with one record per atomic access, every record is symbolized to its innermost xenium
       function and source line, and the memory order of the accesses of kind `kind` inside function `fn` (the rank-th distinct source line of
       that kind in that function) becomes the order of spec label `label`.  sites: {label: (kind, fn substring, rank)}.
       Weaker than the step-level binding (the structure of the code is not compared with the spec), used for the reclaimer kernels."""
    xs = explore(ctx, 'sites_%s' % name, driver, progs, mode='dfs', pb=1, max_exec=max_exec, steps=True)
    d = ctx.sub('so_' + name)
    lab = os.path.join(d, 'labelled.ndjson')
    label_steps(os.path.join(BUILD, driver), xs['trace'], lab)
    seen = {}
    for l in open(lab):
        r = json.loads(l)
        if r['e'] in ('ld', 'st', 'cas', 'xchg', 'faa', 'fas', 'for', 'fence') and r['t'] != 9 and r.get('fn'):
            seen.setdefault((r['fn'], r['e']), {}).setdefault(r['ln'], set()).add(r['op'])
    tab, missing = {}, []
    for label, (kind, fnsub, rank) in sites.items():
        lines = {}
        for (fn, k), byln in seen.items():
            if k == kind and fnsub in fn:
                for ln, ords in byln.items():
                    lines.setdefault(ln, set()).update(ords)
        order = sorted(lines)
        if rank < len(order):
            tab[label] = set(lines[order[rank]])
        else:
            missing.append(label)
    ctx.binding.append({'spec': name, 'orders_extracted_by_call_site': {k: sorted(v) for k, v in tab.items()}, 'sites_not_observed': missing})
    log('  S %-28s call-site order extraction: %d labels, not observed: %s' % (name, len(tab), missing))
    return tab, missing


def ord_module(spec, tab, extra=''):
    """<spec>_RA.tla: the order table extracted from the code (labels never observed keep the value of OrdCode)"""
    ex = []
    amb = []
    for lab, vals in sorted(tab.items()):
        if not vals:
            continue
        v = min(vals, key=lambda x: RANK.get(x, 0))
        if len(vals) > 1:
            amb.append((lab, sorted(vals)))
        ex.append('!.%s = "%s"' % (lab, v))
    body = '[OrdCode EXCEPT %s]' % ', '.join(ex) if ex else 'OrdCode'
    return '---- MODULE %s_RA ----\nEXTENDS %s\nOrdX == %s\n%s====\n' % (spec, spec, body, extra), amb


def toggle_module(spec, tab, weaken, extra=''):
    """as ord_module, with some labels weakened (mechanism toggle)"""
    t2 = {k: set(v) for k, v in tab.items()}
    for lab, o in weaken.items():
        t2[lab] = {o}
    txt, _ = ord_module(spec, t2, extra)
    return txt


def race_sweep(ctx):
    """H: happens-before race detection on the real code.  Every container and reclaimer is run under the scheduler with --race: the runtime
       keeps vector clocks that follow the memory orders and fences the code declares (release / acquire, release sequences, fences,
       seq_cst, mutexes, thread start / join) and reports every plain access or free that conflicts with an access of another thread
       not ordered before it.  A race record has no action in the history specs: TLC rejects the execution."""
    import xvlib
    from props import reclaim_common as RC, queue_common as QC, hm_common as HC, vy_common as VC
    q = ctx.quick
    build(['deque', 'seqlock', 'leftright', 'reclaim', 'queue_ms', 'queue_ram', 'queue_nik', 'queue_bounded', 'queue_kirsch', 'hm', 'vy'])
    xvlib.EXTRA_ALL[0] = '--race'
    try:
        n0 = len(ctx.tv)
        pb, mx = (2, 250) if q else (3, 6000)
        # reclaimers: every scheme, dynamic slot growth (more guards than K), thread exit, region guards, directed three-role scenarios
        rprogs = ['acq0:0,tch0,cpy0:1,rst0,tch1;swp0:0,swp0:0', 'acq0:0,acq1:1,acq2:2,tch0,tch1,tch2;swp3:3,swp0:3', 'rgn1,acq0:0,tch0,rgn0;swp0:0,swp0:0',
                  'swp0:0,acq1:1;acqe0:0,tch0,swp1:1', RC.DIRECTED[0], RC.DIRECTED[2]]
        cfgs = RC.CORE + ['hpd1', 'hed1', 'lfrc2', 'geb_all_always_none', 'geb_one_always_lazy', 'geb_n2_thr2_none'] + ([] if q else [c for c in RC.ALL if c not in RC.CORE])
        jobs = ['%s;;%s' % (c, p) for c in dict.fromkeys(cfgs) for p in rprogs if RC.guards_needed(';' + p) <= RC.SLOTTED.get(c, 99)]
        RC.run_client(ctx, jobs, pb=pb, max_exec=mx, tag='race_rc')
        # queues
        recl = ['hp3', 'he3', 'ebr0', 'nebr0', 'debra0', 'qsbr', 'stamp', 'lfrc']
        qjobs = []
        for r in recl:
            qjobs += ['ms/%s/I;push1;push2,pop;pop,push3' % r, 'ms/%s/U;;push1,push2;pop,pop' % r, 'ram21/%s/P;push1;push2,push3;pop,pop' % r, 'ram10/%s/I;;push1,push2;pop,pop' % r,
                      'nik10/%s/I;push1;push2,pop;pop,push3' % r, 'nik21/%s/U;;push1,push2,push3;pop,pop' % r]
            if r != 'lfrc':
                qjobs += ['kf2/%s/P;push1;push2,pop;pop,push3' % r, 'kf1/%s/U;;push1,push2;pop,pop' % r]
        qjobs += ['nkb2/-/I;push1;push2,pop;pop,push3', 'vyu2/-/I;push1;push2,pop;pop,push3', 'vyu2/-/U;;push1,wpush2;pop,wpop', 'bkf2s2/-/P;push1;push2,pop;pop,push3']
        QC.run_queues(ctx, qjobs, pb=pb, max_exec=mx, tagx='race_')
        # Harris-Michael set / map incl. iteration; vyukov map incl. extension lists, grow, iterators (storage modes without the known findings)
        hjobs = []
        for r in ['hp3', 'he3', 'ebr0', 'qsbr', 'stamp', 'lfrc']:
            hjobs += ['set/%s;emp1,emp3;emp2,era1;con2,era3' % r, 'map2mc/%s;emp1,emp2;era1,goe3;trav' % r, 'map1mh/%s;emp1,emp2,emp3;trave1;era2,emp2' % r]
        HC.run_hm(ctx, hjobs, pb=pb, max_exec=mx, tagx='race_')
        vjobs = []
        for r in ['hp3', 'ebr0', 'stamp', 'qsbr']:
            vjobs += ['vy128iic/%s;emp1,emp2,emp3,emp4,emp5;era4,emp6;get5,get4' % r, 'vy8iih/%s;emp1,emp2;emp3,era1;get1,get3' % r,
                      'vy128isc/%s;emp1,emp2,emp3,emp4;trave3;get4,emp5' % r]
        VC.run_vy(ctx, vjobs, pb=pb, max_exec=mx, tagx='race_', max_steps=8000)
        # deque (fixed capacity), seqlock, left_right
        from props import c12 as P12, c13 as P13, c14 as P14
        for drv, mod, hc, progs in [('deque', 'Deque_Hist', P12.HCONSTS, ['f4;push1;push2,pop,pop;steal,steal', 'f2;;push1,push2,pop;steal;steal']),
                                    ('seqlock', 'Register_Hist', P14.HCONSTS, ['s2b16;;store2,update10;load,load', 's1b24;;store2,store3;load;load', 's3b12;;store2,update5;load,load']),
                                    ('leftright', 'LeftRight_Hist', P13.HCONSTS, ['lr;;update10,update5;load,load', 'lr;;update10;load;load'])]:
            x = explore(ctx, 'race_%s' % drv, drv, progs, mode='dfs', pb=pb, max_exec=mx * 2)
            add_tv_stats(check_histories(ctx, x['name'], drv, mod, hc, x), [x])
        log('  H race sweep: %d explorations validated' % (len(ctx.tv) - n0))
    finally:
        xvlib.EXTRA_ALL[0] = ''


WEAK_KNOWN = {}


def weak_programs(q):
    """(driver, oracle kind of spec/trace/WeakSafe.tla, programs) of the weak-memory executions of the real code"""
    recl = ['hp3', 'he3', 'ebr0', 'nebr0', 'debra0', 'qsbr', 'lfrc', 'stamp', 'hpd1', 'hed1'] + ([] if q else ['hp1', 'he1', 'ebr1', 'lfrc2'])
    rp = ['acq0:0,tch0,rst0;swp0:0,swp0:0', 'acq0:0,tch0,cpy0:1,rst0,tch1;swp0:0,swp0:0', 'swp0:0,acq1:1;acqe0:0,tch0,swp1:1']
    from props import reclaim_common as RC
    out = [('reclaim', 'reclaim', ['%s;;%s' % (c, p) for c in recl for p in rp if RC.guards_needed(';' + p) <= RC.SLOTTED.get(c, 99)] +
            ['%s;%s' % (c, RC.DIRECTED[0]) for c in ('hp3', 'he3', 'ebr0', 'nebr0', 'qsbr', 'stamp')])]
    qr = ['hp3', 'he3', 'ebr0', 'stamp', 'qsbr'] if q else ['hp3', 'he3', 'ebr0', 'stamp', 'nebr0', 'debra0', 'qsbr', 'lfrc']
    out.append(('queue_ms', 'queue', ['ms/%s/I;push1;push2,pop;pop,push3' % r for r in qr] + ['ms/%s/I;;push1,push2;pop,pop' % r for r in qr]))
    out.append(('queue_ram', 'queue', ['ram10/%s/I;;push1,push2;pop,pop' % r for r in qr] + ['ram21/%s/P;push1;push2,push3;pop,pop' % r for r in qr[:2]]))
    out.append(('queue_nik', 'queue', ['nik10/%s/I;push1;push2,pop;pop,push3' % r for r in qr[:3]]))
    out.append(('queue_kirsch', 'queue', ['kf2/%s/P;push1;push2,pop;pop,push3' % r for r in qr[:3]] + ['bkf2s2/-/P;push1;push2,pop;pop,push3']))
    out.append(('queue_bounded', 'queue', ['vyu2/-/I;push1;push2,pop;pop,push3', 'vyu2/-/I;;push1,push2,push3;pop,pop', 'nkb2/-/I;push1;push2,pop;pop,push3', 'vyu2/-/I;;push1,wpush2;pop,wpop']))
    out.append(('deque', 'queue', ['g2;;push1,push2,pop;steal,steal', 'g2;push1;push2,pop,pop;steal', 'g2;push40,steal,push41,steal;push1,push2,push3,pop;steal,steal', 'f2;;push1,push2,pop;steal;steal']))
    out.append(('seqlock', 'reg', ['s1b16;;store2,store3;load,load', 's2b16;;store2,update10;load,load', 's3b24;;update10,store5;load;load', 's2b12;;store2,store3;load;load']))
    out.append(('leftright', 'reg', ['lr;;update10,update5;load,load', 'lr;update3;update10;load,load,load', 'lr;;update10;load;load']))
    out.append(('hm', 'set', ['set/%s;emp1,emp3;emp2,era1;con2,era3' % r for r in qr[:4]] + ['set/%s;emp2;emp1,era2;emp2,con1' % r for r in qr[:2]]))
    out.append(('vy', 'map', ['vy1iic/%s;;emp2,era2,emp1;get1' % r for r in ('hp3', 'ebr0')] + ['vy1iic/hp3;emp1,emp2;era1,emp3;get2,get3', 'vy128iic/hp3;emp1,emp2,emp3,emp4,emp5;era4,emp6;get5,get4',
                             'vy8iic/ebr0;emp1;emp2,era1;get2,get1']))
    return out


def weak_sweep(ctx):
    """W: weak-memory EXECUTIONS of the real code.  xvrt --weak keeps per-location message histories and per-thread views (the operational model of
       common/Mem.tla) and lets a bounded number of loads per execution return an older message the C++ memory model still allows; every such
       choice is a recorded decision, so executions replay.  TLC validates the histories against spec/trace/WeakSafe.tla: the memory-model
       independent part of the properties (conservation, a value found belongs to its key, no torn value, no reader inside a written instance,
       no access to destroyed objects, no crash / hang / use after free)."""
    import xvlib
    q = ctx.quick
    build(['deque', 'seqlock', 'leftright', 'reclaim', 'queue_ms', 'queue_ram', 'queue_nik', 'queue_bounded', 'queue_kirsch', 'hm', 'vy'])
    n0 = len(ctx.tv)
    # two passes: ONE stale read per execution at every position of (nearly) sequential schedules - complete within the budget, since the depth-first
    # enumeration varies the LAST decisions first and a budget cut would otherwise never reach stale reads early in an operation -, then two stale
    # reads under preemption
    for tag, flag, pb, mx in (('weak1', '--weak 1', 1, 12000 if q else 60000), ('weak', '--weak 2', 1 if q else 2, 1200 if q else 40000)):
        xvlib.EXTRA_ALL[0] = flag
        try:
            def one(drv, kind, progs):
                x = explore(ctx, '%s_%s' % (tag, drv), drv, progs, mode='dfs', pb=pb, max_exec=(mx // 5 if drv == 'reclaim' and tag == 'weak1' else mx), max_steps=6000)
                add_tv_stats(check_histories(ctx, x['name'], drv, 'WeakSafe', {'Kind': kind}, x, known_preds=WEAK_KNOWN.get(drv, ())), [x])
            run_parallel([lambda d=d, k=k, p=p: one(d, k, p) for d, k, p in weak_programs(q)], maxw=6)
        finally:
            xvlib.EXTRA_ALL[0] = ''
    # third pass: THREE stale reads per execution, complete at preemption bound 1, for the smallest two-thread guard programs: a thread that got a
    # pointer through a relaxed load can read every field behind it stale (stamp_it: next->prev, next->stamp, the re-validation - all three)
    xvlib.EXTRA_ALL[0] = '--weak 3'
    try:
        w3 = ['stamp', 'hp3', 'ebr0'] if q else ['stamp', 'hp3', 'he3', 'ebr0', 'nebr0', 'debra0', 'qsbr', 'lfrc']
        def one3(c):
            x = explore(ctx, 'weak3_%s' % c, 'reclaim', ['%s;;acq0:0,rst0;acq0:0,rst0' % c], mode='dfs', pb=1, max_exec=30000 if q else 200000, max_steps=6000)
            add_tv_stats(check_histories(ctx, x['name'], 'reclaim', 'WeakSafe', {'Kind': 'reclaim'}, x, known_preds=WEAK_KNOWN.get('reclaim', ())), [x])
        run_parallel([lambda c=c: one3(c) for c in w3], maxw=4)
    finally:
        xvlib.EXTRA_ALL[0] = ''
    log('  W weak-memory executions: %d explorations validated' % (len(ctx.tv) - n0))


def run(ctx):
    build(['deque', 'seqlock', 'leftright', 'queue_bounded'])
    q = ctx.quick
    jobs = []
    bind = {}
    tabs_all = {}
    HPF = 'basic_hp_thread_control_block::hazard_pointer::'
    build(['deque', 'seqlock', 'leftright', 'queue_bounded', 'queue_ram', 'reclaim', 'queue_ms', 'hm'])

    def _sec_0():
        # ---------------- ChaseLev
        cl_step = P12.mc_consts(Cap0=2, MaxCap=8, Start=2, MaxPush=4, MaxPop=4, MaxSteal=4, NThieves=1, StaleCapOK=True)
        tab, a, n = step_bind(ctx, 'ChaseLev', 'deque', ['g2;push40,steal,push41,steal;push1,push2,push3,pop;steal,steal'], cl_step)
        bind['ChaseLev'] = (a, n); tabs_all['ChaseLev'] = tab
        ctx.binding.append({'spec': 'ChaseLev', 'orders_extracted': {k: sorted(v) for k, v in tab.items() if v}})
        cl_ra = P12.mc_consts(Weak=True, Ord='<-OrdX', Cap0=2, MaxCap=2, Start=2, MaxPush=2, MaxPop=1, MaxSteal=2, StaleCapOK=True)
        mod, amb = ord_module('ChaseLev', tab)
        INV_CL = ['NoDataRace', 'Conservation', 'ConservedAtEnd']
        jobs.append(lambda: tlc_mc(ctx, 'ra_chaselev', 'ChaseLev_RA', cl_ra, invariants=INV_CL, view='mcview', constraints=['MsgBound5'], workers=6, extra_files={'ChaseLev_RA.tla': mod}))
        jobs.append(lambda: tlc_mc(ctx, 'ra_chaselev_start0', 'ChaseLev_RA', dict(cl_ra, Start=0, MaxPop=2, MaxSteal=1), invariants=INV_CL, view='mcview', constraints=['MsgBound5'], workers=6,
                                   extra_files={'ChaseLev_RA.tla': mod}))
        jobs.append(lambda: tlc_mc(ctx, 'ra_toggle_chaselev_bottom_rlx', 'ChaseLev_RA', cl_ra, invariants=INV_CL, view='mcview', constraints=['MsgBound5'], workers=4, expect='violation',
                                   extra_files={'ChaseLev_RA.tla': toggle_module('ChaseLev', tab, {'pu_bot': 'rlx'})}))
        jobs.append(lambda: tlc_mc(ctx, 'ra_toggle_chaselev_no_sc', 'ChaseLev_RA', cl_ra, invariants=INV_CL, view='mcview', constraints=['MsgBound5'], workers=4, expect='violation',
                                   extra_files={'ChaseLev_RA.tla': toggle_module('ChaseLev', tab, {'po_bs': 'rel', 'po_t2': 'acq'})}))

    def _sec_1():
        # ---------------- Seqlock
        sl_step = P14.mc_consts(Slots=2, NW=2, CW=2, NWriters=1, NReaders=1, MaxWrites=4, MaxLoads=4)
        tabs, a, n = step_bind(ctx, 'Seqlock', 'seqlock', ['s2b16;;store2,update10,store3;load,load'], sl_step)
        bind['Seqlock'] = (a, n); tabs_all['Seqlock'] = tabs
        ctx.binding.append({'spec': 'Seqlock', 'orders_extracted': {k: sorted(v) for k, v in tabs.items() if v}})
        mods, _ = ord_module('Seqlock', tabs)
        sl_ra = P14.mc_consts(Weak=True, Ord='<-OrdX', Slots=2, NW=2, CW=2, MaxWrites=2, MaxLoads=1)
        jobs.append(lambda: tlc_mc(ctx, 'ra_seqlock', 'Seqlock_RA', sl_ra, invariants=['NoTornLoad'], view='mcview', constraints=['MsgBound5'], workers=6, extra_files={'Seqlock_RA.tla': mods}, tmo=1200))
        jobs.append(lambda: tlc_mc(ctx, 'ra_seqlock_1slot', 'Seqlock_RA', dict(sl_ra, Slots=1, MaxWrites=1), invariants=['NoTornLoad'], view='mcview', constraints=['MsgBound5'], workers=6,
                                   extra_files={'Seqlock_RA.tla': mods}, tmo=1200))
        jobs.append(lambda: tlc_mc(ctx, 'ra_toggle_seqlock_nofence', 'Seqlock_RA', sl_ra, invariants=['NoTornLoad'], view='mcview', constraints=['MsgBound5'], workers=4, expect='violation',
                                   extra_files={'Seqlock_RA.tla': toggle_module('Seqlock', tabs, {'rd_fence': 'none'})}, tmo=1200))
        jobs.append(lambda: tlc_mc(ctx, 'ra_toggle_seqlock_release_rlx', 'Seqlock_RA', sl_ra, invariants=['NoTornLoad'], view='mcview', constraints=['MsgBound5'], workers=4, expect='violation',
                                   extra_files={'Seqlock_RA.tla': toggle_module('Seqlock', tabs, {'sd_fence': 'none', 'rl_st': 'rlx'})}, tmo=1200))

    def _sec_2():
        # ---------------- LeftRight
        lr_step = P13.mc_consts(NWriters=1, NReaders=1, MaxUpdates=4, MaxReads=4)
        tabl, a, n = step_bind(ctx, 'LeftRight', 'leftright', ['lr;;update10,update10;load,load'], lr_step)
        bind['LeftRight'] = (a, n); tabs_all['LeftRight'] = tabl
        ctx.binding.append({'spec': 'LeftRight', 'orders_extracted': {k: sorted(v) for k, v in tabl.items() if v}})
        modl, _ = ord_module('LeftRight', tabl)
        lr_ra = P13.mc_consts(Weak=True, Ord='<-OrdX', MaxUpdates=1, MaxReads=1)
        jobs.append(lambda: tlc_mc(ctx, 'ra_leftright', 'LeftRight_RA', lr_ra, invariants=['NoDataRace', 'NoMixture'], view='mcview', constraints=['MsgBound5'], workers=6,
                                   extra_files={'LeftRight_RA.tla': modl}, tmo=1500))
        jobs.append(lambda: tlc_mc(ctx, 'ra_toggle_leftright_depart_rlx', 'LeftRight_RA', lr_ra, invariants=['NoDataRace', 'NoMixture'], view='mcview', constraints=['MsgBound5'], workers=4,
                                   expect='violation', extra_files={'LeftRight_RA.tla': toggle_module('LeftRight', tabl, {'rd_dep': 'rlx', 'up_unlock': 'rlx'})}, tmo=1500))

    def _sec_3():
        # ---------------- VyukovBounded
        vb_step = QM.vy_consts(Cap=2, MaxPush=4, MaxPop=4, AllowWeak=True)
        tabv, a, n = step_bind(ctx, 'VyukovBounded', 'queue_bounded', ['vyu2/-/I;;push1,push2,wpush3;pop,wpop,pop'], dict(vb_step, AbsStep='<-QStep'))
        bind['VyukovBounded'] = (a, n); tabs_all['VyukovBounded'] = tabv
        ctx.binding.append({'spec': 'VyukovBounded', 'orders_extracted': {k: sorted(v) for k, v in tabv.items() if v}})
        modv, _ = ord_module('VyukovBounded', tabv)
        vb_ra = QM.vy_consts(Weak=True, Ord='<-OrdX', MaxPush=2 if not q else 1, MaxPop=1)
        jobs.append(lambda: tlc_mc(ctx, 'ra_vyukov', 'VyukovBounded_RA', vb_ra, invariants=['NoDataRace', 'Conservation'], view='mcview', constraints=['MsgBound5'], workers=6,
                                   extra_files={'VyukovBounded_RA.tla': modv}, tmo=1500))
        jobs.append(lambda: tlc_mc(ctx, 'ra_toggle_vyukov_publish_rlx', 'VyukovBounded_RA', vb_ra, invariants=['NoDataRace', 'Conservation'], view='mcview', constraints=['MsgBound5'], workers=4,
                                   expect='violation', extra_files={'VyukovBounded_RA.tla': toggle_module('VyukovBounded', tabv, {'u_pub': 'rlx'})}, tmo=1500))

    def _sec_4():
        # ---------------- Ramalhete (step binding: index words and entries exactly)
        build(['queue_ram'])
        keepr = lambda r: r.get('fn', '').startswith('ramalhete_queue::') and 'node::' not in r.get('fn', '')
        tabr, a, n = step_bind(ctx, 'Ramalhete', 'queue_ram', ['ram10/nebr0/P;;push1,push2,pop;pop,push3'], QM.rq_consts(Progs='<-ProgStep', NNodes=7), pb=2, max_exec=100 if q else 2000,
                               keep=keepr)
        bind['Ramalhete'] = (a, n); tabs_all['Ramalhete'] = tabr
        ctx.binding.append({'spec': 'Ramalhete', 'orders_extracted': {k: sorted(v) for k, v in tabr.items() if v}})
        modr, _ = ord_module('Ramalhete', tabr)
        INV_RW = ['NoDataRace', 'Conservation', 'Ownership', 'ConservedAtEnd']
        rq_ra = QM.rq_consts(Weak=True, Ord='<-OrdX', Progs='<-ProgPP')
        jobs.append(lambda: tlc_mc(ctx, 'ra_ramalhete', 'Ramalhete_RA', rq_ra, invariants=INV_RW, view='mcview', constraints=['MsgBound5'], workers=6, extra_files={'Ramalhete_RA.tla': modr}, tmo=1500))
        if not q:
            jobs.append(lambda: tlc_mc(ctx, 'ra_ramalhete_lost', 'Ramalhete_RA', dict(rq_ra, Progs='<-ProgLost'), invariants=INV_RW, view='mcview', constraints=['MsgBound5'], workers=8,
                                       extra_files={'Ramalhete_RA.tla': modr}, tmo=2400, heap='24g'))
        jobs.append(lambda: tlc_mc(ctx, 'ra_toggle_ramalhete_entry_cas_rlx', 'Ramalhete_RA', dict(rq_ra, Progs='<-ProgP1'), invariants=INV_RW, view='mcview', constraints=['MsgBound5'], workers=4,
                                   expect='violation', extra_files={'Ramalhete_RA.tla': toggle_module('Ramalhete', tabr, {'p_cas': 'rlx'})}, tmo=1500))
        jobs.append(lambda: tlc_mc(ctx, 'ra_toggle_ramalhete_link_rlx', 'Ramalhete_RA', rq_ra, invariants=INV_RW, view='mcview', constraints=['MsgBound5'], workers=4,
                                   expect='violation', extra_files={'Ramalhete_RA.tla': toggle_module('Ramalhete', tabr, {'p_link': 'rlx'})}, tmo=1500))
        jobs.append(lambda: tlc_mc(ctx, 'ra_toggle_ramalhete_take_rlx', 'Ramalhete_RA', dict(rq_ra, Progs='<-ProgP1'), invariants=INV_RW, view='mcview', constraints=['MsgBound5'], workers=4,
                                   expect='violation', extra_files={'Ramalhete_RA.tla': toggle_module('Ramalhete', tabr, {'q_ldacq': 'rlx', 'q_xchg': 'rlx'})}, tmo=1500))

    def _sec_5():
        # ---------------- kernels without step binding yet: hazard pointer publish / scan, michael-scott queue (orders as read from the code)
        build(['reclaim'])
        hp_sites = {'a_ld1': ('ld', 'hazard_pointer::guard_ptr::acquire', 0), 'a_ld2': ('ld', 'hazard_pointer::guard_ptr::acquire', 1), 'a_link': ('ld', HPF + 'get_link', 0),
                    'a_set': ('st', HPF + 'set_object', 0), 'a_fence': ('fence', HPF + 'set_object', 0), 'r_st': ('st', HPF + 'set_link', 0),
                    's_fence8': ('fence', 'hazard_pointer::thread_data::scan', 0), 's_fence9': ('fence', 'hazard_pointer::thread_data::scan', 1), 's_ld': ('ld', HPF + 'try_get_object', 0),
                    's_act': ('ld', 'thread_block_list::entry::is_active', 0), 'x_abandon': ('cas', 'thread_block_list::abandon_retired_nodes', 0),
                    'x_release': ('st', 'thread_block_list::entry::abandon', 0)}
        tabh, missh = site_orders(ctx, 'HazardPointer', 'reclaim', ['hp3;;acq0:0,tch0,rst0,acq1:1;swp0:0,swp0:0,swp1:1'], hp_sites)
        tabs_all['HazardPointer'] = tabh
        bind['HazardPointer'] = (1, 1) if not missh else (0, 1)      # complete call-site table: a counterexample with it is reported
        modh, _ = ord_module('HazardPointer', tabh)
        hp_ra = RM.hp_consts(Weak=True, MaxOps=1, NNodes=2, K=1, NG=1, Ord='<-OrdX')
        jobs.append(lambda: tlc_mc(ctx, 'ra_hazardpointer', 'HazardPointer_RA', hp_ra, invariants=['Safe', 'NoDataRace'], view='mcview', constraints=['MsgBound5'], workers=6, tmo=1500,
                                   extra_files={'HazardPointer_RA.tla': modh}))
        hpt = '---- MODULE HazardPointer_RA ----\nEXTENDS HazardPointer\nOrdX == [OrdCode EXCEPT !.a_fence = "none"]\n====\n'
        jobs.append(lambda: tlc_mc(ctx, 'ra_toggle_hp_publishfence_acqrel', 'HazardPointer_RA', hp_ra, invariants=['Safe', 'NoDataRace'], view='mcview', constraints=['MsgBound5'],
                                   workers=4, expect='violation', extra_files={'HazardPointer_RA.tla': toggle_module('HazardPointer', tabh, {'a_fence': 'ar'})}, tmo=1500))
        jobs.append(lambda: tlc_mc(ctx, 'ra_toggle_hp_nopublishfence', 'HazardPointer_RA', dict(hp_ra, Ord='<-OrdX'), invariants=['Safe', 'NoDataRace'], view='mcview', constraints=['MsgBound5'],
                                   workers=4, expect='violation', extra_files={'HazardPointer_RA.tla': hpt}, tmo=1500))

    def _sec_6():
        # ---------------- MSQueue and HarrisMichael: order tables from their step bindings (the guarded loads happen inside the reclaimer: those labels keep OrdCode)
        build(['queue_ms', 'hm'])
        keepm = lambda r: r.get('fn', '').startswith('michael_scott_queue::') and 'node::' not in r.get('fn', '')
        tabm, a, n = step_bind(ctx, 'MSQueue', 'queue_ms', ['ms/nebr0/I;;push1,push2,pop;pop,push3'], QM.ms_consts(NNodes=7, MaxPush=2, MaxPop=2), pb=2, max_exec=12 if q else 600, keep=keepm)
        bind['MSQueue'] = (a, n); tabs_all['MSQueue'] = tabm
        ctx.binding.append({'spec': 'MSQueue', 'orders_extracted': {k: sorted(v) for k, v in tabm.items() if v}})
        modm, _ = ord_module('MSQueue', tabm)
        ms_ra = QM.ms_consts(Weak=True, MaxPush=1, MaxPop=1, Ord='<-OrdX')
        INV_MSW = ['NoDataRace', 'Conservation', 'MemorySafe']
        jobs.append(lambda: tlc_mc(ctx, 'ra_msqueue', 'MSQueue_RA', ms_ra, invariants=INV_MSW, view='mcview', constraints=['MsgBound5'], workers=6, tmo=1500, extra_files={'MSQueue_RA.tla': modm}))
        jobs.append(lambda: tlc_mc(ctx, 'ra_toggle_ms_link_rlx', 'MSQueue_RA', ms_ra, invariants=INV_MSW, view='mcview', constraints=['MsgBound5'], workers=4, expect='violation',
                                   extra_files={'MSQueue_RA.tla': toggle_module('MSQueue', tabm, {'p_link': 'rlx', 'q_acqn': 'rlx'})}, tmo=1500))
        from props import hm_models as HMM
        keeph = lambda r: r.get('fn', '').startswith('harris_michael_list_based_set::') and 'node::' not in r.get('fn', '')
        tabhm, a, n = step_bind(ctx, 'HarrisMichael', 'hm', ['set/nebr0;emp1,emp3;emp2,era1;con2,era3'], HMM.hm_consts(NNodes=6, Keys0Set='={1, 3}', KeySet='={1, 2, 3}', MaxOps=3), pb=2,
                                max_exec=40 if q else 600, keep=keeph)
        bind['HarrisMichael'] = (a, n); tabs_all['HarrisMichael'] = tabhm
        ctx.binding.append({'spec': 'HarrisMichael', 'orders_extracted': {k: sorted(v) for k, v in tabhm.items() if v}})
        modhm, _ = ord_module('HarrisMichael', tabhm)
        hm_ra = HMM.hm_consts(Weak=True, Ord='<-OrdX', MaxOps=1, NNodes=3, Keys0Set='={1}', KeySet='={1, 2}')
        jobs.append(lambda: tlc_mc(ctx, 'ra_harrismichael', 'HarrisMichael_RA', hm_ra, invariants=['NoDataRace', 'MemorySafe'], view='mcview', constraints=['MsgBound5'], workers=6, tmo=1500,
                                   extra_files={'HarrisMichael_RA.tla': modhm}))
        jobs.append(lambda: tlc_mc(ctx, 'ra_toggle_hm_insert_cas_rlx', 'HarrisMichael_RA', hm_ra, invariants=['NoDataRace', 'MemorySafe'], view='mcview', constraints=['MsgBound5'], workers=4,
                                   expect='violation', extra_files={'HarrisMichael_RA.tla': toggle_module('HarrisMichael', tabhm, {'x_cas': 'rlx', 'f_acq': 'rlx'})}, tmo=1500))

    def _sec_7():
        # ---------------- thread_block_list: plain next_entry / retired-node links published by release CASes (orders as written in the code)
        TB = 'thread_block_list::'
        tb_sites = {'a_ldh': ('ld', TB + 'adopt_or_create_entry', 0), 'a_ldst': ('ld', TB + 'entry::try_adopt', 0), 'a_cas': ('cas', TB + 'entry::try_adopt', 0),
                    'a_init': ('st', TB + 'adopt_or_create_entry', 0), 'a_ldh2': ('ld', TB + 'add_entry', 0), 'a_push': ('cas', TB + 'add_entry', 0),
                    'x_rel': ('st', TB + 'entry::abandon', 0), 'b_ld': ('ld', TB + 'abandon_retired_nodes', 0), 'b_cas': ('cas', TB + 'abandon_retired_nodes', 0),
                    'd_ld': ('ld', TB + 'adopt_abandoned_retired_nodes', 0)}
        tabt, misst = site_orders(ctx, 'ThreadBlockList', 'reclaim', ['hp3;;acq0:0,tch0,rst0,acq1:1;swp0:0,swp0:0,swp1:1', 'hp3;;swp0:0,swp1:1;@0:acq0:0,swp0:0;swp1:1'], tb_sites)
        tabs_all['ThreadBlockList'] = tabt; bind['ThreadBlockList'] = (1, 1) if not misst else (0, 1)
        modt, _ = ord_module('ThreadBlockList', tabt)
        tb_ra = RM.tb_consts(Weak=True, Lives=1, NNodes=2, MaxRetire=1, Ord='<-OrdX')
        INV_TBW = ['NoDataRace', 'Exclusive', 'NoNodeLost']
        jobs.append(lambda: tlc_mc(ctx, 'ra_threadblocklist', 'ThreadBlockList_RA', tb_ra, invariants=INV_TBW, view='mcview', constraints=['MsgBound5'], workers=4, tmo=1200,
                                   extra_files={'ThreadBlockList_RA.tla': modt}))
        for nm, chg in (('push_rlx', '!.a_push = "rlx"'), ('head_load_rlx', '!.a_ldh = "rlx"'), ('abandon_cas_rlx', '!.b_cas = "rlx"'),
                        ('adopt_cas_rlx', '!.a_cas = "rlx"')):     # the new owner's plain accesses to the record vs. the previous owner's (seeded change c03_5)
            tbt = '---- MODULE ThreadBlockList_RA ----\nEXTENDS ThreadBlockList\nOrdX == [OrdCode EXCEPT %s]\n====\n' % chg
            jobs.append(lambda nm=nm, tbt=tbt: tlc_mc(ctx, 'ra_toggle_tbl_' + nm, 'ThreadBlockList_RA', dict(tb_ra, Ord='<-OrdX'), invariants=INV_TBW, view='mcview', constraints=['MsgBound5'],
                                                        workers=3, expect='violation', extra_files={'ThreadBlockList_RA.tla': tbt}, tmo=1200))

    def _sec_8():
        # ---------------- dynamic hazard-pointer blocks: initialised slots and the plain block->next published by a release store of hp_block
        DHP = 'dynamic_hp_thread_control_block::'
        hd_sites = {'a_ld1': ('ld', 'hazard_pointer::guard_ptr::acquire', 0), 'a_ld2': ('ld', 'hazard_pointer::guard_ptr::acquire', 1), 'a_link': ('ld', HPF + 'get_link', 0),
                    'a_pub': ('st', HPF + 'set_object', 0), 'a_fence': ('fence', HPF + 'set_object', 0), 'b_init': ('st', HPF + 'set_link', 0),
                    'b_ldh': ('ld', DHP + 'allocate_new_hazard_pointer_block', 0), 'b_pub': ('st', DHP + 'allocate_new_hazard_pointer_block', 0), 's_ldb': ('ld', DHP + 'next_block', 0),
                    's_fence1': ('fence', 'hazard_pointer::thread_data::scan', 0), 's_fence2': ('fence', 'hazard_pointer::thread_data::scan', 1), 's_ld': ('ld', HPF + 'try_get_object', 0)}
        tabd, missd = site_orders(ctx, 'HPDynamic', 'reclaim', ['hpd1;;acq0:0,acq1:1,acq2:2,tch0,tch2;swp0:0,swp1:1,swp2:2'], hd_sites)
        tabs_all['HPDynamic'] = tabd; bind['HPDynamic'] = (1, 1) if not missd else (0, 1)
        modd, _ = ord_module('HPDynamic', tabd)
        hd_ra = RM.hd_consts(Weak=True, NBlocks=1, NCells=2, NObj=3, MaxScans=1, Ord='<-OrdX')
        INV_HDW = ['NoDataRace', 'Safe', 'SlotsIntact']
        jobs.append(lambda: tlc_mc(ctx, 'ra_hpdynamic', 'HPDynamic_RA', hd_ra, invariants=INV_HDW, constraints=['MsgBound5'], workers=4, tmo=1200, extra_files={'HPDynamic_RA.tla': modd}))
        for nm, chg in (('publish_rlx', '!.b_pub = "rlx"'), ('block_load_rlx', '!.s_ldb = "rlx"'), ('no_publish_fence', '!.a_fence = "none"')):
            hdt = '---- MODULE HPDynamic_RA ----\nEXTENDS HPDynamic\nOrdX == [OrdCode EXCEPT %s]\n====\n' % chg
            jobs.append(lambda nm=nm, hdt=hdt: tlc_mc(ctx, 'ra_toggle_hpdyn_' + nm, 'HPDynamic_RA', dict(hd_ra, Ord='<-OrdX'), invariants=INV_HDW, constraints=['MsgBound5'],
                                                        workers=3, expect='violation', extra_files={'HPDynamic_RA.tla': hdt}, tmo=1200))

    def _sec_9():
        # ---------------- hazard_eras, generic_epoch_based, quiescent_state_based: call-site order tables; the deletion of an object is a plain write
        # that must be ordered after every access made under a guard (`delete races with an access to the object`), a reader / a reclaimer role
        # per thread keeps the runs small (OpsOf / FlushOf / MayStart are overridable definitions of the specs)
        HEF = 'basic_he_thread_control_block::hazard_era::'
        he_sites = {'a_ld': ('ld', 'hazard_eras::guard_ptr::acquire', 0), 'a_era': ('ld', 'hazard_eras::guard_ptr::acquire', 1), 'a_link': ('ld', HEF + 'get_link', 0),
                    'a_set': ('st', HEF + 'set_era', 0), 'a_fence': ('fence', HEF + 'set_era', 0), 'r_st': ('st', HEF + 'set_link', 0),
                    'n_era': ('ld', 'hazard_eras::enable_concurrent_ptr::enable_concurrent_ptr', 0), 'x_faa': ('faa', 'hazard_eras::guard_ptr::reclaim', 0),
                    's_fence9': ('fence', 'hazard_eras::thread_data::scan', 0), 's_ld': ('ld', HEF + 'try_get_era', 0), 's_fence10': ('fence', 'hazard_eras::thread_data::scan', 1)}
        SITEP = ['%s;;acq0:0,tch0,rst0,acq1:1;swp0:0,swp0:0,swp1:1', '%s;;swp0:0,swp1:1;@0:acq0:0,swp0:0;swp1:1']
        tabe, misse = site_orders(ctx, 'HazardEras', 'reclaim', [x % 'he3' for x in SITEP], he_sites)
        tabs_all['HazardEras'] = tabe; bind['HazardEras'] = (1, 1) if not misse else (0, 1)
        he_ra = RM.he_consts(Weak=True, MaxOps=1, NNodes=2, Ord='<-OrdX', Roles='<-RolesNoIfEq')
        hex_ = 'RolesNoIfEq == [t \\in ThreadsDef |-> {<<o, c>> : o \\in {"acquire", "replace", "reset", "copy"}, c \\in Cells}]\n'
        INV_R = ['Safe', 'NoDataRace']
        jobs.append(lambda: tlc_mc(ctx, 'ra_hazarderas', 'HazardEras_RA', he_ra, invariants=INV_R, view='mcview', constraints=['MsgBound5'], workers=4, tmo=1200,
                                   extra_files={'HazardEras_RA.tla': ord_module('HazardEras', tabe, hex_)[0]}))
        for nm, chg in (('publishfence_acqrel', {'a_fence': 'ar'}), ('scanfence_acqrel', {'s_fence9': 'ar'}), ('retire_faa_rlx', {'x_faa': 'rlx'})):
            jobs.append(lambda nm=nm, chg=chg: tlc_mc(ctx, 'ra_toggle_he_' + nm, 'HazardEras_RA', he_ra, invariants=INV_R, view='mcview', constraints=['MsgBound5'], workers=3,
                                                        expect='violation', tmo=1200, extra_files={'HazardEras_RA.tla': toggle_module('HazardEras', tabe, chg, hex_)}))
        GE = 'generic_epoch_based::thread_data::'
        eb_sites = {'a_ld1': ('ld', 'generic_epoch_based::guard_ptr::acquire', 0), 'a_ld2': ('ld', 'generic_epoch_based::guard_ptr::acquire', 1),
                    'c_flag': ('st', GE + 'set_critical_region_flag', 0), 'c_fence': ('fence', GE + 'set_critical_region_flag', 0),
                    'c_ge': ('ld', GE + 'do_enter_critical', 0), 'c_le': ('ld', GE + 'do_enter_critical', 1), 's_crit': ('ld', 'scan::all_threads', 0), 's_le': ('ld', 'scan::all_threads', 0),
                    'u_le': ('ld', GE + 'update_local_epoch', 0), 'u_stle': ('st', GE + 'update_local_epoch', 0), 'g_ld': ('ld', GE + 'update_global_epoch', 0),
                    'g_fence': ('fence', GE + 'update_global_epoch', 0), 'g_cas': ('cas', GE + 'update_global_epoch', 0), 'l_flag': ('st', GE + 'clear_critical_region_flag', 0),
                    'o_add': ('cas', 'orphan_list::add', 0), 'o_adopt': ('xchg', 'orphan_list::adopt', 0)}
        tabb, missb = site_orders(ctx, 'EpochBased', 'reclaim', [x % 'ebr0' for x in SITEP], eb_sites)
        tabs_all['EpochBased'] = tabb; bind['EpochBased'] = (1, 1) if not missb else (0, 1)
        ROLE = ('MsgB == MsgBound(9)\nOpsX(t) == IF t = 0 THEN 2 ELSE 1\nFlushX(t) == IF t = 0 THEN %d ELSE 3\n'
                'StartX(t, op) == IF t = 0 THEN op \\in {"acquire", "reset", "exit"%s} ELSE op \\in {"replace", "flushcycle", "exit"}\n')
        LEAVES, STAYS = ROLE % (0, ''), ROLE % (3, ', "flushcycle"')        # the reader exits after its program / stays and takes part in the epoch protocol
        ov = dict(OpsOf='<-OpsX', FlushOf='<-FlushX', MayStart='<-StartX', Ord='<-OrdX')
        eb_ra = RM.eb_consts(Weak=True, MaxOps=2, NNodes=2, MaxFlush=3, MaxEpoch=6, **ov)
        jobs.append(lambda: tlc_mc(ctx, 'ra_epochbased', 'EpochBased_RA', eb_ra, invariants=INV_R, view='mcview', constraints=['MsgB'], workers=8, tmo=1500,
                                   extra_files={'EpochBased_RA.tla': ord_module('EpochBased', tabb, LEAVES)[0]}))
        for nm, chg in (('enterfence_acqrel', {'c_fence': 'ar'}), ('leave_store_rlx', {'l_flag': 'rlx'}), ('no_scan_fence', {'g_fence': 'none'}))[:1 if q else 3]:
            jobs.append(lambda nm=nm, chg=chg: tlc_mc(ctx, 'ra_toggle_eb_' + nm, 'EpochBased_RA', eb_ra, invariants=INV_R, view='mcview', constraints=['MsgB'], workers=8,
                                                        expect='violation', tmo=1500, extra_files={'EpochBased_RA.tla': toggle_module('EpochBased', tabb, chg, LEAVES)}))
        QS = 'quiescent_state_based::thread_data::'
        qs_sites = {'a_ld1': ('ld', 'quiescent_state_based::guard_ptr::acquire', 0), 'a_ld2': ('ld', 'quiescent_state_based::guard_ptr::acquire', 1),
                    'b_ldge': ('ld', QS + 'ensure_has_control_block', 0), 'b_stle': ('st', QS + 'ensure_has_control_block', 0), 'b_cas': ('cas', QS + 'ensure_has_control_block', 0),
                    'q_ldge': ('ld', QS + 'quiescent_state', 0), 'q_ldle': ('ld', QS + 'quiescent_state', 1), 'q_stle': ('st', QS + 'quiescent_state', 0),
                    't_ldle': ('ld', QS + 'try_update_epoch', 0), 't_ldge': ('ld', QS + 'try_update_epoch', 1), 't_fence': ('fence', QS + 'try_update_epoch', 0),
                    't_cas': ('cas', QS + 'try_update_epoch', 0), 't_act': ('ld', 'thread_block_list::entry::is_active', 0),
                    't_adopt': ('xchg', 'thread_block_list::adopt_abandoned_retired_nodes', 0), 'r_ldle': ('ld', QS + 'add_retired_node', 0), 'x_ldge': ('ld', QS + '~thread_data', 0),
                    'x_abandon': ('cas', 'thread_block_list::abandon_retired_nodes', 0), 'x_release': ('st', 'thread_block_list::entry::abandon', 0)}
        tabq, missq = site_orders(ctx, 'QSBR', 'reclaim', [x % 'qsbr' for x in SITEP], qs_sites)
        tabs_all['QSBR'] = tabq; bind['QSBR'] = (1, 1) if not missq else (0, 1)
        qs_ra = RM.qs_consts(Weak=True, MaxOps=2, NNodes=2, MaxFlush=3, **ov)
        jobs.append(lambda: tlc_mc(ctx, 'ra_qsbr', 'QSBR_RA', qs_ra, invariants=INV_R, view='mcview', constraints=['MsgB'], workers=6, tmo=1500,
                                   extra_files={'QSBR_RA.tla': ord_module('QSBR', tabq, LEAVES)[0]}))
        for nm, chg, role in (('no_update_fence', {'t_fence': 'none'}, LEAVES), ('register_cas_rlx', {'b_cas': 'rlx'}, LEAVES), ('quiescent_store_rlx', {'q_stle': 'rlx'}, STAYS))[:1 if q else 3]:
            jobs.append(lambda nm=nm, chg=chg, role=role: tlc_mc(ctx, 'ra_toggle_qsbr_' + nm, 'QSBR_RA', qs_ra, invariants=INV_R, view='mcview', constraints=['MsgB'], workers=6,
                                                                   expect='violation', tmo=1500, extra_files={'QSBR_RA.tla': toggle_module('QSBR', tabq, chg, role)}))
        if not q:
            jobs.append(lambda: tlc_mc(ctx, 'ra_qsbr_reader_stays', 'QSBR_RA', qs_ra, invariants=INV_R, view='mcview', constraints=['MsgB'], workers=8, tmo=3000, heap='24g',
                                       extra_files={'QSBR_RA.tla': ord_module('QSBR', tabq, STAYS)[0]}))
            jobs.append(lambda: tlc_mc(ctx, 'ra_epochbased_reader_stays', 'EpochBased_RA', eb_ra, invariants=INV_R, view='mcview', constraints=['MsgB'], workers=8, tmo=3000, heap='24g',
                                       extra_files={'EpochBased_RA.tla': ord_module('EpochBased', tabb, STAYS)[0]}))

    def _sec_10():
        # ---------------- vyukov_hash_map bucket: lock-free reader against writer stores.  Real-time order means nothing between unsynchronized
        # threads, so the weak run checks HbRegular (a read answers with the content after SOME writer operation not older than what the reader
        # had already seen of the bucket state; a value never belongs to another key).  The fences of the repaired tree (fix: C03-vyukov-key-value-tear)
        # are taken from the tree by call site; absent fences are modelled as absent.
        build(['vy'])
        from props import vy_models as VYM
        VM = 'vyukov_hash_map::'
        vy_sites = {'w_fence': ('fence', VM + 'lock_bucket', 0), 'r_fence': ('fence', VM + 'try_get_value', 0), 'r_st': ('ld', VM + 'try_get_value', 0)}
        tabv, missv = site_orders(ctx, 'VyukovMap', 'vy', ['vy1iic/hp3;emp1,emp2;era1,emp3;get2,get3'], vy_sites)
        for lab in missv:
            if lab.endswith('fence'):
                tabv[lab] = {'none'}
        tabs_all['VyukovMap'] = tabv; bind['VyukovMap'] = (0, 1)        # three labels only: a counterexample of this run is a warning; W below runs the real code
        vm_ra = VYM.vm_consts(Weak=True, Ord='<-OrdX', MaxWrites=3, MaxReads=1, NKeys=3, B=2, P=1)
        INV_VM = ['HbRegular', 'NoDataRace']
        jobs.append(lambda: tlc_mc(ctx, 'ra_vyukovmap', 'VyukovMap_RA', vm_ra, invariants=INV_VM, view='mcview', constraints=['MsgBound6'], workers=6, tmo=1200,
                                   extra_files={'VyukovMap_RA.tla': ord_module('VyukovMap', tabv)[0]}))
        for nm, chg in (('no_writer_fence', {'w_fence': 'none'}), ('no_reader_fence', {'r_fence': 'none'})):
            jobs.append(lambda nm=nm, chg=chg: tlc_mc(ctx, 'ra_toggle_vyukovmap_' + nm, 'VyukovMap_RA', vm_ra, invariants=INV_VM, view='mcview', constraints=['MsgBound6'], workers=4,
                                                        expect='violation', tmo=1200, extra_files={'VyukovMap_RA.tla': toggle_module('VyukovMap', tabv, chg)}))

    def _sec_11():
        # ---------------- stamp_it::thread_order_queue (step binding: stamps exactly, links by control block + mark / tag).  The client ops of the
        # reclaim driver enter and leave regions; records of thread_data / thread_block_list / the client are filtered out by call site.
        build(['reclaim'])
        SIQ_FN = ('thread_order_queue::push', 'thread_order_queue::remove', 'thread_order_queue::set_mark_flag', 'thread_order_queue::make_clean_marked',
                  'thread_order_queue::mark_next', 'thread_order_queue::update_tail_stamp', 'thread_order_queue::save_next_as_last')
        keeps = lambda r: any(f in r.get('fn', '') for f in SIQ_FN)
        tabq, a, n = step_bind(ctx, 'StampItQueue', 'reclaim', ['stamp;;acq0:0,rst0;acq0:0,rst0', 'stamp;;acq0:0,rst0,acq0:0,rst0;acq0:0,rst0'],
                               RM.siq_consts(MaxOps=20, MaxOps0=20, Exits=True), pb=2, max_exec=120 if q else 1500, keep=keeps, anywhere=True)
        bind['StampItQueue'] = (a, n); tabs_all['StampItQueue'] = tabq
        ctx.binding.append({'spec': 'StampItQueue', 'orders_extracted': {k: sorted(v) for k, v in tabq.items() if v}})
        XQ = 'MsgBound8 == MsgBound(8)\n'
        modq, _ = ord_module('StampItQueue', tabq, XQ)
        sq_ra = RM.siq_consts(Weak=True, Ord='<-OrdX')
        # memory-model independent part: the tail stamp never overtakes a thread inside its region, no null pointer is followed.  (The code's
        # assertions on stamp flags in update_tail_stamp CAN fail under the C++ model - a stale tail->next next to a fresh NotInList stamp - with
        # no consequence for TailSafe; they are checked in the SC runs only.)
        INV_SQ = ['TailSafe', 'NoNullDeref']
        jobs.append(lambda: tlc_mc(ctx, 'ra_stampitqueue', 'StampItQueue_RA', sq_ra, invariants=INV_SQ, view='mcview', constraints=['MsgBound8'], workers=8, tmo=240 if q else 3000,
                                   extra_files={'StampItQueue_RA.tla': modq}))    # several million states when complete: partial in the quick tier
        jobs.append(lambda: tlc_mc(ctx, 'ra_toggle_stampitqueue_own_next_rlx', 'StampItQueue_RA', sq_ra, invariants=INV_SQ, view='mcview', constraints=['MsgBound8'], workers=4,
                                   expect='violation', tmo=1500,
                                   extra_files={'StampItQueue_RA.tla': toggle_module('StampItQueue', tabq, {'r_ldnext': 'rlx', 'r_marknext': 'rlx', 'r_marknextf': 'rlx', 'f_ldnextb': 'rlx'}, XQ)}))
        jobs.append(lambda: tlc_mc(ctx, 'ra_toggle_stampitqueue_prev_prev_rlx', 'StampItQueue_RA', sq_ra, invariants=['Asserts'], view='mcview', constraints=['MsgBound8'], workers=4,
                                   expect='violation', tmo=1500, extra_files={'StampItQueue_RA.tla': toggle_module('StampItQueue', tabq, {'f_ldpp': 'rlx'}, XQ)}))

    # the sections (binding + order extraction of one spec each) are independent: they run side by side, then all model runs
    run_parallel([_sec_0, _sec_1, _sec_2, _sec_3, _sec_4, _sec_5, _sec_6, _sec_7, _sec_8, _sec_9, _sec_10, _sec_11], maxw=6)
    tab = tabs_all['ChaseLev']
    run_parallel(jobs, maxw=4)
    race_sweep(ctx)
    weak_sweep(ctx)
    # A counterexample of the weak-memory model instantiated with the order table EXTRACTED from this tree is reported if the step-level
    # binding of that spec accepted every real execution in this run (the model then mirrors the code on the steps involved).
    bound_ok = {sp: (acc == tot and tot > 0) for sp, (acc, tot) in bind.items()}
    for r in ctx.mc:
        if r['expect'] == 'ok' and r['status'] in ('violation', 'assert'):
            sp = r['module'].replace('_RA', '')
            if bound_ok.get(sp):
                p = os.path.join(REPLAYS, 'C03_%s_cex.txt' % r['name'])
                open(p, 'w').write('weak-memory counterexample of %s with the order table extracted from the code\n\nextracted orders: %s\n\n%s' %
                                   (r['module'], json.dumps({k: sorted(v) for k, v in tabs_all.get(sp, {}).items() if v}), r.get('cex', '')))
                ctx.violations.append({'what': 'weak-memory model %s (orders extracted from the code, step binding accepted %d/%d executions): %s violated' %
                                               (r['name'], bind[sp][0], bind[sp][1], r.get('violated')), 'replay': p})
    ctx.samples.append({'model': 'ChaseLev under Mem with Weak = TRUE', 'constants': ctx.mc[0]['consts']})
    ctx.samples.append({'extracted_orders_chaselev': {k: sorted(v) for k, v in tab.items() if v}})
    return finish(ctx,
                  'S: the real code is run with one record per atomic access / fence; each execution is validated action by action against the impl spec '
                  '(ChaseLev, Seqlock, LeftRight, VyukovBounded, Ramalhete) and the memory-order table of the spec is extracted from those records; M: the impl specs '
                  '(+ HazardPointer and MSQueue with orders as written in the code) are model-checked under the view-based release/acquire + fences + seq_cst '
                  'model of common/Mem.tla with the extracted table: NoDataRace on plain payloads and the memory-model independent safety part of each property '
                  '(conservation, no torn value, no access to reclaimed memory); weakening a required order or dropping a fence must produce a counterexample',
                  ['the memory model explores a subset of RC11 (append-only modification order, RMWs read the latest message, seq_cst accesses join a global view, no load buffering): sound for reporting, incomplete for absence',
                   'precedence between operations is happens-before: the real-time linearizability monitor is not used in the weak runs',
                   'HazardPointer / MSQueue weak runs use the order table read from the code (no step-level binding for them yet)'])
