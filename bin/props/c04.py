# C04 - michael_scott, ramalhete and nikolaev queues are linearizable FIFO queues
from xvlib import *
from props.queue_common import *

PROGS = [';push1,push2;pop,pop', ';push1,push2,push3;pop', ';pop,pop;push1,push2,push3', 'push1;push2,pop;pop,push3', ';push1,pop;push2,pop', 'push1,push2;pop,pop;pop,push3',
         ';push1,push2,push3;pop,pop,pop', ';push1,push2;push3,pop;pop,pop', 'push1;opop,push2;opop,opop', ';push1,push2;push3,push4;pop,pop']
DIRECTED = 'push1;push2,sig2;pop,pop,sig1,wai2;wai1,push3'
DIRECTED2 = 'push1,push2;push3,sig2;pop,pop,pop,sig1,wai2;wai1,push4'      # the same with two entries per node
QCFG = ['ms', 'ram10', 'ram21', 'ram31', 'ram40', 'nik10', 'nik21', 'nik41']


def run(ctx):
    build(['queue_ms', 'queue_ram', 'queue_nik'])
    q = ctx.quick
    from props import queue_models
    queue_models.run_models(ctx, 'C04')
    jobs = []
    k = 0
    for qc in QCFG:
        for r in RECL:
            for i, p in enumerate(PROGS):
                k += 1
                if q and r not in ('hp3', 'ebr0') and (k + ctx.seed) % 5 != 0:
                    continue
                if q and i >= 5 and (k + ctx.seed) % 2 != 0:
                    continue
                jobs.append('%s/%s/I;%s' % (qc, r, p))
    # node sizes that share a factor with the index step of ramalhete_queue (11): sequential fill across nodes and drain, and short races
    seqp = ';;%s,%s' % (','.join('push%d' % i for i in range(1, 15)), ','.join(['pop'] * 15))
    for qc, r in (('ram110', 'hp3'), ('ram220', 'ebr0')) + (() if q else (('ram110', 'stamp'), ('ram220', 'he3'))):
        jobs.append('%s/%s/I%s' % (qc, r, seqp))
        jobs.append('%s/%s/I;push1,push2;push3,pop;pop,push4' % (qc, r))
        jobs.append('%s/%s/I;;push1,push2,push3;pop,pop' % (qc, r))
    # budgets large enough that the iteratively deepened search completes preemption bound 1 for every program
    run_queues(ctx, jobs, pb=2 if q else 3, max_exec=400 if q else 20000, per_driver={'queue_nik': 1500, 'queue_ram': 700} if q else None)
    if not q:
        run_queues(ctx, jobs, pb=5, max_exec=0, mode='random', runs=600, tagx='r')
    # directed three-role scenario (harness-level waits): a push has linked a new node but not yet swung _tail, a popper drains the old
    # node, moves _head past it and retires it, a third thread pushes (acquires _tail) and the popper's thread exits (its exit scan reclaims).
    # Found by the Ramalhete impl spec (HelpTail); on the real code it needs two preemptions at the right places among ~150 steps.
    djobs = ['%s/%s/I;%s' % (qc, r, DIRECTED2 if qc in ('ram21', 'nik21') else DIRECTED) for qc in ('ram10', 'nik10', 'ms', 'ram21', 'nik21') for r in (('he3', 'stamp') if q else RECL)]
    # a node that has just got a free slot back (setup: fill, pop): one push takes the slot and is stopped before it publishes the value, a second push
    # finds the node full, links a successor (and closes the node), a popper drains the node and moves on - the stopped push must not lose its value
    # (the node is closed BEFORE the successor is linked; seeded change c04_5 moved the finalization behind the link).  Two preemptions.
    djobs += ['%s/%s/I;push1,push2,pop;push4;push3;pop,pop' % (qc, r) for qc in ('nik21', 'ram21') for r in (('ebr0', 'hp3') if q else RECL)]
    run_queues(ctx, djobs, pb=2, max_exec=12000 if q else 80000, tagx='d')
    # A: address reuse.  The heap quarantine never hands out an address twice; with --reuse the children recycle freed blocks (LIFO per size
    # class), so that a node pointer compared by a CAS can belong to a NEW node at the old address (ABA through head / tail / next / entries)
    import xvlib
    xvlib.EXTRA_ALL[0] = '--reuse'
    try:
        ajobs = []
        for r in (['hp3', 'lfrc'] if q else ['hp3', 'he3', 'lfrc', 'ebr0', 'stamp']):
            ajobs += ['ms/%s/I;push1;push2,pop;pop,push3' % r, 'ms/%s/I;push1,push2;pop,pop,push3;pop,push4' % r, 'ram10/%s/I;push1;push2,pop;pop,push3' % r,
                      'ram21/%s/P;push1,push2;push3,pop,pop;pop,push4' % r, 'nik10/%s/I;push1;push2,pop;pop,push3' % r, 'nik21/%s/I;push1,push2;pop,pop,push3;pop,push4' % r]
        run_queues(ctx, ajobs, pb=2, max_exec=2000 if q else 40000, tagx='reuse_')
    finally:
        xvlib.EXTRA_ALL[0] = ''
    # S: the impl specs are bound to the code at the grain of single atomic accesses; the bindings are independent and run side by side
    from props.c03 import step_bind
    sb = []
    # NikolaevQueue: ring words match exactly
    nq = queue_models.nq_consts(Progs='<-ProgStep', SetupOps=0, MaxNodes=7)
    keep = lambda r: ('nikolaev_queue' in r.get('ctx', '') or 'nikolaev_scq' in r.get('ctx', '')) and 'nikolaev_scq::nikolaev_scq' not in r.get('ctx', '')
    for rc in (['nebr0'] if q else ['nebr0', 'ebr0', 'debra0', 'qsbr', 'stamp']):
        sb.append(lambda rc=rc: step_bind(ctx, 'NikolaevQueue', 'queue_nik', ['nik10/%s/I;;push1,push2,pop;pop,push3' % rc], nq, pb=2, max_exec=400 if q else 20000, keep=keep))
    # Ramalhete: index words and entries match exactly (raw-pointer elements from a named array)
    rq = queue_models.rq_consts(Progs='<-ProgStep', NNodes=7)
    keepr = lambda r: r.get('fn', '').startswith('ramalhete_queue::') and 'node::' not in r.get('fn', '')
    for rc in (['nebr0'] if q else ['nebr0', 'hp3', 'he3', 'stamp']):
        sb.append(lambda rc=rc: step_bind(ctx, 'Ramalhete', 'queue_ram', ['ram10/%s/P;;push1,push2,pop;pop,push3' % rc], rq, pb=2, max_exec=100 if q else 5000, keep=keepr))
    if not q:
        sb.append(lambda: step_bind(ctx, 'Ramalhete', 'queue_ram', ['ram21/nebr0/P;;push1,push2,pop;pop,push3'], dict(rq, EPN=2, PopRetries=1), pb=2, max_exec=5000, keep=keepr))
    # MSQueue: pointer-valued words (kind of access, CAS outcome, null / non-null)
    keepm = lambda r: r.get('fn', '').startswith('michael_scott_queue::') and 'node::' not in r.get('fn', '')
    for rc in (['nebr0'] if q else ['nebr0', 'hp3', 'stamp']):
        sb.append(lambda rc=rc: step_bind(ctx, 'MSQueue', 'queue_ms', ['ms/%s/I;;push1,push2,pop;pop,push3' % rc], queue_models.ms_consts(NNodes=7, MaxPush=2, MaxPop=2), pb=2,
                                          max_exec=15 if q else 1500, keep=keepm))
    run_parallel(sb, maxw=4)
    for r in ctx.tv[:3]:
        ctx.samples.append({'driver': r['driver'], 'history': canonical_sample(execution_lines(r['trace'], 2), 60)})
    return finish(ctx,
                  'M: TLC explores all interleavings of all push/pop programs of the queue impl specs over the adversarial abstract reclaimer; '
                  'T: push / try_pop / pop programs of 2-3 threads on michael_scott_queue, ramalhete_queue (entries_per_node 1..4, pop_retries 0/1) and '
                  'nikolaev_queue (entries_per_node 1,2,4) with every reclaimer, all schedules up to preemption bound 2/3 (+random), followed by a drain; '
                  'every distinct history is checked by TLC for linearizability w.r.t. the FIFO of abs/Queues; non-trivial = overlapping operations',
                  ['sequential consistency at atomic-access granularity (weak executions: C03)', 'values are distinct per push'])
