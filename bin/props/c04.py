# C04 - michael_scott, ramalhete and nikolaev queues are linearizable FIFO queues
from xvlib import *
from props.queue_common import *

PROGS = [';push1,push2;pop,pop', ';push1,push2,push3;pop', ';pop,pop;push1,push2,push3', 'push1;push2,pop;pop,push3', ';push1,pop;push2,pop', 'push1,push2;pop,pop;pop,push3',
         ';push1,push2,push3;pop,pop,pop', ';push1,push2;push3,pop;pop,pop', 'push1;opop,push2;opop,opop', ';push1,push2;push3,push4;pop,pop']
QCFG = ['ms', 'ram10', 'ram21', 'ram31', 'ram40', 'nik10', 'nik21', 'nik41']


def run(ctx):
    build(['queue_ms', 'queue_ram', 'queue_nik'])
    q = ctx.quick
    from props import queue_models
    queue_models.run_models(ctx, 'C04')
    jobs = []
    k = 0
    for qc in QCFG:
        for r in RECL:
            for i, p in enumerate(PROGS):
                k += 1
                if q and r not in ('hp3', 'ebr0') and (k + ctx.seed) % 5 != 0:
                    continue
                if q and i >= 5 and (k + ctx.seed) % 2 != 0:
                    continue
                jobs.append('%s/%s/I;%s' % (qc, r, p))
    # budgets large enough that the iteratively deepened search completes preemption bound 1 for every program
    run_queues(ctx, jobs, pb=2 if q else 3, max_exec=400 if q else 20000, per_driver={'queue_nik': 1500, 'queue_ram': 700} if q else None)
    if not q:
        run_queues(ctx, jobs, pb=5, max_exec=0, mode='random', runs=600, tagx='r')
    # S: the impl spec NikolaevQueue is bound to the code at the grain of single atomic accesses (ring words match exactly)
    from props.c03 import step_bind
    nq = queue_models.nq_consts(Progs='<-ProgStep', SetupOps=0, MaxNodes=7)
    keep = lambda r: ('nikolaev_queue' in r.get('ctx', '') or 'nikolaev_scq' in r.get('ctx', '')) and 'nikolaev_scq::nikolaev_scq' not in r.get('ctx', '')
    for rc in (['nebr0'] if q else ['nebr0', 'ebr0', 'debra0', 'qsbr', 'stamp']):
        step_bind(ctx, 'NikolaevQueue', 'queue_nik', ['nik10/%s/I;;push1,push2,pop;pop,push3' % rc], nq, pb=2, max_exec=400 if q else 20000, keep=keep)
    for r in ctx.tv[:3]:
        ctx.samples.append({'driver': r['driver'], 'history': canonical_sample(execution_lines(r['trace'], 2), 60)})
    return finish(ctx,
                  'M: TLC explores all interleavings of all push/pop programs of the queue impl specs over the adversarial abstract reclaimer; '
                  'T: push / try_pop / pop programs of 2-3 threads on michael_scott_queue, ramalhete_queue (entries_per_node 1..4, pop_retries 0/1) and '
                  'nikolaev_queue (entries_per_node 1,2,4) with every reclaimer, all schedules up to preemption bound 2/3 (+random), followed by a drain; '
                  'every distinct history is checked by TLC for linearizability w.r.t. the FIFO of abs/Queues; non-trivial = overlapping operations',
                  ['sequential consistency at atomic-access granularity (weak executions: C03)', 'values are distinct per push'])
