# C05 - vyukov_bounded and nikolaev_bounded queues are linearizable bounded FIFOs
from xvlib import *
from props.queue_common import *

# strong and weak mixes; enough operations for several laps of a small ring
PROGS = [';push1,push2,push3;pop,pop', 'push1;push2,pop,push4;pop,push3', ';push1,pop,push2,pop;push3,pop', 'push1,push2;pop,push3;pop,push4',
         ';wpush1,push2,wpop;pop,wpush3,pop', 'push1;wpop,push2,push3;wpush4,pop,pop', ';push1,push2;push3,push4;pop,pop',
         'push1,pop,push2,pop;push3,pop,push4;pop,push5,pop']
NPROGS = [p for p in PROGS if 'w' not in p.replace('wp', 'XX') or True]


def run(ctx):
    build(['queue_bounded'])
    q = ctx.quick
    from props import queue_models
    queue_models.run_models(ctx, 'C05')
    jobs = []
    for cap in ([1, 2, 3, 4] if q else [1, 2, 3, 4, 8]):
        for p in PROGS:
            if cap >= 2 and (cap & (cap - 1)) == 0:
                jobs.append('vyu%d/-/I;%s' % (cap, p))      # vyukov: size must be a power of two >= 2
            pn = p.replace('wpush', 'push').replace('wpop', 'pop')
            jobs.append('nkb%d/-/I;%s' % (cap, pn))
    # capacities that are not powers of two (rounded up): sequential fill / drain across wrap-arounds, and one concurrent program
    for cap in ([5, 6, 7] if q else [5, 6, 7, 9, 12, 15, 17]):
        fill = ','.join('push%d' % i for i in range(1, cap + 3))
        drain = ','.join(['pop'] * (cap // 2 + 1))
        more = ','.join('push%d' % i for i in range(40, 40 + cap))
        jobs.append('nkb%d/-/I;;%s,%s,%s,%s,%s' % (cap, fill, drain, more, drain, drain))
        jobs.append('nkb%d/-/I;%s;pop,push50,pop;pop,push51' % (cap, ','.join('push%d' % i for i in range(1, cap))))
    # elements that own something (Tracked / unique_ptr<Tracked>; life-cycle calls are scheduling points): a slot handed back to the producers before the
    # popper is done with the object in it lets a push build its element under the pending destructor - a popped element that has lost its payload
    # (seeded change c05_6 = c07_5: nikolaev_bounded_queue::do_pop returns the slot index before it destroys the moved-from element)
    for c, cap in (('nkb2/-/T', 2), ('nkb2/-/U', 2), ('nkb1/-/U', 1), ('vyu2/-/T', 2)):
        fill = ','.join('push%d' % i for i in range(1, cap + 1))
        jobs.append('%s;%s;pop;push%d' % (c, fill, cap + 1))
        jobs.append('%s;%s;pop,pop;push%d,push%d' % (c, fill, cap + 1, cap + 2))
    run_queues(ctx, jobs, pb=2 if q else 3, max_exec=600 if q else 30000)
    if not q:
        run_queues(ctx, jobs, pb=5, max_exec=0, mode='random', runs=1500, tagx='r')
        # more threads than entries (known finding C05-scq-threshold-underflow lives here)
        many = ['nkb1/-/I;;push1,pop,push5,pop;push2,pop,push6,pop;push3,pop,pop;push4,pop,pop', 'nkb2/-/I;;push1,push5,pop,pop;push2,pop,push6,pop;push3,pop,pop;push4,pop,pop',
                'nkb1/-/I;;push1,pop,push5;push2,pop;pop,push3', 'vyu2/-/I;;push1,pop,push5,pop;push2,pop,push6,pop;push3,pop,pop;push4,pop,pop']
        run_queues(ctx, many, pb=10, max_exec=0, mode='random', runs=40000, tagx='many', nsh=4)
    for r in ctx.tv[:3]:
        ctx.samples.append({'driver': r['driver'], 'history': canonical_sample(execution_lines(r['trace'], 2), 60)})
    return finish(ctx,
                  'M: TLC explores all interleavings of the VyukovBounded impl spec (ring with per-cell sequence numbers, several laps); T: strong/weak mixes on '
                  'vyukov_bounded_queue (capacities 2,4,8) and nikolaev_bounded_queue (capacities 1,2,3,4,8 incl. non powers of two, capacity() read back) under '
                  'all schedules up to preemption bound 2/3, then a drain; TLC checks linearizability w.r.t. the bounded FIFO of abs/Queues with exactly the '
                  'statement\'s slack (weak operations may fail; nikolaev: operations in progress count as occupied slots)',
                  ['sequential consistency at atomic-access granularity', 'strong vyukov operations may wait for a pending operation (blocking by design)'])
