# C06 - Kirsch k-FIFO queues conserve elements with at most k-1 overtaking
from xvlib import *
from props.queue_common import *

PROGS = [';push1,push2,push3;pop,pop', 'push1;push2,pop;pop,push3', ';push1,pop,push2;push3,pop,pop', 'push1,push2,push3;pop,push4;pop,pop',
         ';push1,push2;push3,push4;pop,pop', 'push1,push2;pop,pop,pop;push3,pop']
RECLK = ['hp3', 'he3', 'ebr0', 'nebr0', 'debra0', 'qsbr', 'stamp']


def run(ctx):
    build(['queue_kirsch'])
    q = ctx.quick
    from props import queue_models
    queue_models.run_models(ctx, 'C06')
    jobs = []
    n = 0
    for k in (1, 2, 3):
        for r in RECLK:
            for p in PROGS:
                n += 1
                if q and r not in ('hp3', 'ebr0') and (n + ctx.seed) % 4 != 0:
                    continue
                jobs.append('kf%d/%s/P;%s' % (k, r, p))
        for s in (1, 2, 3):
            for p in PROGS:
                jobs.append('bkf%ds%d/-/P;%s' % (k, s, p))
    # sequential fill to the limit and beyond, then drain (rejection rule: only with >= (segments-1)*k+1 stored), incl. k that is not a power of two
    for k in (1, 2, 3, 5, 6, 7):
        for s in (1, 2, 3, 4):
            if k * s > 30:
                continue
            fill = ','.join('push%d' % i for i in range(1, k * s + 2))
            drain = ','.join(['pop'] * (k * s + 1))
            jobs.append('bkf%ds%d/-/P;;%s,%s,%s' % (k, s, fill, drain, fill))
    for k in (1, 2, 3, 5):
        jobs.append('kf%d/hp3/P;;%s,%s' % (k, ','.join('push%d' % i for i in range(1, 2 * k + 3)), ','.join(['pop'] * (2 * k + 3))))
    # a ring that looks full while its head segment has been popped PARTIALLY: the next push must be rejected or go elsewhere - never may the head move
    # past a segment that still holds values (they would be overtaken by every later push: seeded change c06_5, segment_empty as any_of)
    for k, sg in ((2, 2), (3, 2), (2, 3), (3, 3)):
        n = k * sg
        for j in range(1, k):
            jobs.append('bkf%ds%d/-/P;;%s,%s,push%d,push%d,%s' % (k, sg, ','.join('push%d' % i for i in range(1, n + 1)), ','.join(['pop'] * j), n + 1, n + 2,
                                                                   ','.join(['pop'] * (n + 2))))
    run_queues(ctx, jobs, pb=2 if q else 3, max_exec=400 if q else 20000)
    if not q:
        run_queues(ctx, jobs, pb=5, max_exec=0, mode='random', runs=800, tagx='r')
    # S: the impl spec KirschKfifo is bound to the code at the grain of single atomic accesses (slot values and tags match exactly)
    from props.c03 import step_bind
    keepk = lambda r: r.get('fn', '').startswith('kirsch_kfifo_queue::') and not any(x in r.get('fn', '') for x in ('alloc_segment', 'release_segment', 'segment::'))
    for cfgk, kk, rc in ([('kf1', 1, 'nebr0')] if q else [('kf1', 1, 'nebr0'), ('kf2', 2, 'nebr0'), ('kf1', 1, 'hp3'), ('kf2', 2, 'stamp')]):
        step_bind(ctx, 'KirschKfifo', 'queue_kirsch', ['%s/%s/P;;push1,push2,pop;pop,push3' % (cfgk, rc)], queue_models.kf_consts(Progs='<-ProgStep', NSegs=7, K=kk),
                  pb=2, max_exec=60 if q else 3000, keep=keepk)
    for r in ctx.tv[:3]:
        ctx.samples.append({'driver': r['driver'], 'history': canonical_sample(execution_lines(r['trace'], 2), 60)})
    return finish(ctx,
                  'T: programs of 2-3 threads on kirsch_kfifo_queue (k = 1..3, every reclaimer that accepts a custom deleter) and kirsch_bounded_kfifo_queue '
                  '(k = 1..3 x 1..3 segments); the random start index is a recorded scheduler decision (enumerated by the DFS); all schedules up to preemption '
                  'bound 2/3; TLC checks every distinct history against the k-FIFO of abs/Queues (one of the k oldest; empty only with < k stored and overlap; '
                  'bounded: reject only with >= (segments-1)*k+1 stored); M: TLC model-checks the KirschKfifo impl spec (tagged slots, committed, advance_head / advance_tail, segment reclamation, destructor) with mechanism toggles; S: every atomic access of real executions is matched against that spec (values and tags exactly)',
                  ['sequential consistency at atomic-access granularity', 'elements are non-null pointers (the queues reject nullptr)'])
