# C07 - queues own their elements: each value is moved out or destroyed exactly once
from xvlib import *
from props.queue_common import *

# pushes and pops, then the queue is destroyed with what is left inside (+keep)
PROGS = [';push1,push2,push3;pop', 'push1,push2;push3,pop;push4', ';push1,push2;push3,push4', 'push1;pop,push2,push3;pop,push4,push5',
         'push1,push2,push3;pop,pop;push4', ';push1,push2,push3,push4,push5;pop,pop']


def run(ctx):
    build(['queue_ms', 'queue_ram', 'queue_nik', 'queue_bounded', 'queue_kirsch'])
    q = ctx.quick
    from props import queue_models
    queue_models.run_models(ctx, 'C07')
    cfgs = []
    for r in ('hp3', 'ebr0'):
        cfgs += ['ms/%s/U' % r, 'ms/%s/T' % r, 'ram10/%s/U' % r, 'ram21/%s/U' % r, 'ram31/%s/U' % r, 'ram21/%s/P' % r,
                 'nik21/%s/U' % r, 'nik21/%s/T' % r, 'kf1/%s/U' % r, 'kf2/%s/U' % r]
    cfgs += ['vyu2/-/U', 'vyu2/-/T', 'vyu4/-/U', 'nkb1/-/U', 'nkb2/-/U', 'nkb3/-/T', 'bkf1s1/-/U', 'bkf2s2/-/U', 'bkf2s1/-/U', 'ram21/stamp/U', 'ms/qsbr/T',
             'nik21/lfrc/U', 'ms/lfrc/U', 'kf2/stamp/U']
    jobs = []
    for c in cfgs:
        for i, p in enumerate(PROGS):
            jobs.append('%s+keep;%s' % (c, p))
            if i % 2 == 0:
                jobs.append('%s;%s' % (c, p))
    # a full ring: the pop that frees a cell against the push that is waiting for exactly that cell (element life-cycle calls are scheduling points)
    for c, cap in (('vyu2/-/T', 2), ('vyu2/-/U', 2), ('vyu4/-/T', 4), ('nkb2/-/U', 2), ('nkb3/-/T', 4), ('nkb1/-/U', 1), ('bkf1s1/-/U', 1), ('bkf2s1/-/U', 2)):
        fill = ','.join('push%d' % i for i in range(1, cap + 1))
        jobs.append('%s+keep;%s;pop;push%d' % (c, fill, cap + 1))
        jobs.append('%s;%s;pop,pop;push%d,push%d' % (c, fill, cap + 1, cap + 2))
    run_queues(ctx, jobs, pb=2 if q else 3, max_exec=200 if q else 15000)
    if not q:
        run_queues(ctx, jobs, pb=5, max_exec=0, mode='random', runs=600, tagx='r')
    for r in ctx.tv[:3]:
        ctx.samples.append({'driver': r['driver'], 'history': canonical_sample(execution_lines(r['trace'], 2), 60)})
    return finish(ctx,
                  'T: every queue type with owning element types (std::unique_ptr<Tracked>, non-trivial movable Tracked; raw pointers as control) runs push/pop '
                  'programs of 2-3 threads (several producers hitting a full node/segment) under all schedules up to preemption bound 2/3 and is then destroyed '
                  'with 0..n elements inside; element construction/move/destruction events are validated by TLC against the ownership monitor of abs/Queues '
                  '(each accepted value popped once or destroyed once with the queue, rejected values stay with the caller, nothing leaks); heap quarantine '
                  'reports double frees; M: queue impl specs with destructor index ranges',
                  ['sequential consistency at atomic-access granularity',
                   'for try_push taking its argument by value a rejected move-only value is destroyed with the parameter (once); "left with the caller" is checked where the API forwards (vyukov)'])
