# C07 - queues own their elements: each value is moved out or destroyed exactly once
from xvlib import *
from props.queue_common import *
import json

# pushes and pops, then the queue is destroyed with what is left inside (+keep)
PROGS = [';push1,push2,push3;pop', 'push1,push2;push3,pop;push4', ';push1,push2;push3,push4', 'push1;pop,push2,push3;pop,push4,push5',
         'push1,push2,push3;pop,pop;push4', ';push1,push2,push3,push4,push5;pop,pop']


BY_VALUE = {'bkf': 'kirsch_bounded_kfifo_queue::try_push', 'nkb': 'nikolaev_bounded_queue::try_push'}


def rejected_by_value(ctx, xs):
    """"a value rejected by a failed try_push is left with the caller": queues whose try_push takes value_type BY VALUE destroy a rejected owning element
       with the parameter.  The drivers record that as `lostbv` (the monitor accepts the record, everything else about the execution is still validated);
       here every such record is attributed to its call site.  A call site listed in known-findings.json (status known, property C07) is a KNOWN-FINDING,
       any other one is a violation."""
    seen = {}
    for x in xs:
        sched = read_sched(x['trace'])
        num = None
        for l in open(x['trace']):
            if l.startswith('{"e":"reset"'):
                num = json.loads(l)['a']
            elif '"op":"lostbv"' in l and num is not None:
                prog = sched.get(num, ('?',))[0]
                site = next((fn for pre, fn in BY_VALUE.items() if prog.startswith(pre)), 'unlisted: ' + prog.split(';')[0])
                seen.setdefault(site, (x, num, prog))
    for site, (x, num, prog) in sorted(seen.items()):
        kf = next((k for k in ctx.known if k['property'] == 'C07' and k['status'] == 'known' and k.get('site') == site), None)
        if kf:
            txt = '%s: %s' % (kf['id'], kf['title'])
            if txt not in ctx.known_hits:
                ctx.known_hits.append(txt)
        else:
            diag = {'sched': sched_of(x, num), 'record': 'lostbv', 'lines': []}
            p = write_replay(ctx, x['name'], x['driver'], 'Queue_Hist', {}, diag, num, '')
            ctx.violations.append({'what': 'a rejected try_push consumed the caller\'s value (%s, program %s)' % (site, prog), 'replay': p})


def sched_of(x, num):
    return read_sched(x['trace']).get(num)


def run(ctx):
    build(['queue_ms', 'queue_ram', 'queue_nik', 'queue_bounded', 'queue_kirsch'])
    q = ctx.quick
    from props import queue_models
    queue_models.run_models(ctx, 'C07')
    cfgs = []
    for r in ('hp3', 'ebr0'):
        cfgs += ['ms/%s/U' % r, 'ms/%s/T' % r, 'ram10/%s/U' % r, 'ram21/%s/U' % r, 'ram31/%s/U' % r, 'ram21/%s/P' % r,
                 'nik21/%s/U' % r, 'nik21/%s/T' % r, 'kf1/%s/U' % r, 'kf2/%s/U' % r]
    cfgs += ['vyu2/-/U', 'vyu2/-/T', 'vyu4/-/U', 'nkb1/-/U', 'nkb2/-/U', 'nkb3/-/T', 'bkf1s1/-/U', 'bkf2s2/-/U', 'bkf2s1/-/U', 'ram21/stamp/U', 'ms/qsbr/T',
             'nik21/lfrc/U', 'ms/lfrc/U', 'kf2/stamp/U']
    jobs = []
    for c in cfgs:
        for i, p in enumerate(PROGS):
            jobs.append('%s+keep;%s' % (c, p))
            if i % 2 == 0:
                jobs.append('%s;%s' % (c, p))
    # a full ring: the pop that frees a cell against the push that is waiting for exactly that cell (element life-cycle calls are scheduling points)
    for c, cap in (('vyu2/-/T', 2), ('vyu2/-/U', 2), ('vyu4/-/T', 4), ('nkb2/-/U', 2), ('nkb3/-/T', 4), ('nkb1/-/U', 1), ('bkf1s1/-/U', 1), ('bkf2s1/-/U', 2)):
        fill = ','.join('push%d' % i for i in range(1, cap + 1))
        jobs.append('%s+keep;%s;pop;push%d' % (c, fill, cap + 1))
        jobs.append('%s;%s;pop,pop;push%d,push%d' % (c, fill, cap + 1, cap + 2))
    xs = run_queues(ctx, jobs, pb=2 if q else 3, max_exec=200 if q else 15000)
    if not q:
        xs += run_queues(ctx, jobs, pb=5, max_exec=0, mode='random', runs=600, tagx='r')
    rejected_by_value(ctx, xs)
    for r in ctx.tv[:3]:
        ctx.samples.append({'driver': r['driver'], 'history': canonical_sample(execution_lines(r['trace'], 2), 60)})
    return finish(ctx,
                  'T: every queue type with owning element types (std::unique_ptr<Tracked>, non-trivial movable Tracked; raw pointers as control) runs push/pop '
                  'programs of 2-3 threads (several producers hitting a full node/segment) under all schedules up to preemption bound 2/3 and is then destroyed '
                  'with 0..n elements inside; element construction/move/destruction events are validated by TLC against the ownership monitor of abs/Queues '
                  '(each accepted value popped once or destroyed once with the queue, rejected values stay with the caller, nothing leaks); heap quarantine '
                  'reports double frees; M: queue impl specs with destructor index ranges',
                  ['sequential consistency at atomic-access granularity',
                   'for try_push taking its argument by value (kirsch_bounded_kfifo_queue, nikolaev_bounded_queue) a rejected owning value is destroyed with the parameter: recorded per call site as known finding C07-try-push-by-value-*; "left with the caller" holds where the API forwards (vyukov_bounded_queue)'])
