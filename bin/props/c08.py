# C08 - Harris-Michael list set and hash map are linearizable sets/maps
import random
from xvlib import *
from props.hm_common import *

SETP = ['emp1,emp3;emp2,era1;con2,era3,emp1', 'emp2;era2,emp2;era2,con2', 'emp1,emp2,emp3;era2;era2;fnd2,con3', ';emp1,era1;emp1,con1;eog1',
        'emp1,emp2;fer1,emp1;era2,fnd1', 'emp2,emp3;emp1,era3;era2,emp3,con1']
MAPP = ['emp1,emp2;era1,emp3,fnd2;goe1,idx4,con3', 'emp1,emp2;era1,con2;era1,fnd2', 'emp1,emp2,emp3;era2,era3;era2,era1;con2', 'emp1;gol2,era1;eog2,idx1', ';goe1,era1;gol1,fnd1;idx1', 'emp1,emp2,emp3;fer2,goe2;era3,gol3,con2',
        'emp1,emp2;era1,era2;emp2,emp1,fnd1']


# std::string keys (a moved-from key is empty): insertions through get_or_emplace(_lazy) / operator[] that lose their CAS to a neighbour and retry
SKINDS = ['smap1nc', 'smap2mh', 'smap1mc', 'sset']
SMAPP = [';goe3,fnd3;emp1,emp2', 'emp5;gol4,con4;emp3,era5', ';idx2,con2;emp1,era1', 'emp2;goe3,idx1;era2,emp2,fnd3', ';gol2,goe1;goe2,gol1;con1,con2']
SSETP = [';eog3,con3;emp1,emp2', 'emp2;emp3,era2;emp1,con3']


def run(ctx):
    build(['hm'])
    q = ctx.quick
    from props import hm_models
    hm_models.run_models(ctx, 'C08')
    jobs = []
    n = 0
    for kind in KINDS:
        for r in RECL:
            for p in (SETP if kind == 'set' else MAPP):
                n += 1
                if q and r not in ('hp3', 'ebr0') and (n + ctx.seed) % 5 != 0:
                    continue
                jobs.append('%s/%s;%s' % (kind, r, p))
    for kind in SKINDS:
        for r in (['hp3', 'ebr0'] if q else RECL):
            for p in (SSETP if kind == 'sset' else SMAPP):
                jobs.append('%s/%s;%s' % (kind, r, p))
    # long single-threaded random sequences (sequential histories are the trivial case of linearizability)
    rnd = random.Random(ctx.seed)
    for kind in KINDS:
        ops = ['emp', 'era', 'con', 'fnd', 'eog', 'fer'] + ([] if kind == 'set' else ['goe', 'gol', 'idx'])
        for i in range(6 if q else 60):
            seq = ','.join('%s%d' % (rnd.choice(ops), rnd.randint(1, 5)) for _ in range(30))
            jobs.append('%s/%s;;%s' % (kind, rnd.choice(RECL), seq))
    run_hm(ctx, jobs, pb=2 if q else 3, max_exec=700 if q else 20000)
    # A: address reuse (ABA).  The heap quarantine of xvrt never hands out an address twice, which hides every defect that needs the address of a
    # freed node to come back; with --reuse the children recycle freed blocks (LIFO per size class).  An insertion between prev and cur while cur
    # is erased, reclaimed and its address handed to a new node that becomes prev's successor
    import xvlib
    xvlib.EXTRA_ALL[0] = '--reuse'
    try:
        ajobs = []
        for r in (['hp3', 'lfrc'] if q else ['hp3', 'he3', 'lfrc', 'ebr0', 'stamp']):
            for ins in ('goe3', 'gol3', 'idx3', 'emp3', 'eog3'):
                for kind in ('map1nc', 'map1mh'):
                    ajobs.append('%s/%s;emp1,emp5;%s;era5,emp2' % (kind, r, ins))
                    ajobs.append('%s/%s;emp1,emp4,emp5;%s;era4,emp2,con4' % (kind, r, ins))
            for ins in ('emp3', 'eog3'):
                ajobs.append('set/%s;emp1,emp5;%s;era5,emp2' % (r, ins))
        run_hm(ctx, ajobs, pb=2, max_exec=1500 if q else 20000, tagx='reuse_')
    finally:
        xvlib.EXTRA_ALL[0] = ''
    if not q:
        run_hm(ctx, jobs, pb=5, max_exec=0, mode='random', runs=600, tagx='r')
    # S: the impl spec HarrisMichael is bound to the code at the grain of single atomic accesses (link words: null / non-null and delete mark)
    from props.c03 import step_bind
    keeph = lambda r: r.get('fn', '').startswith('harris_michael_list_based_set::') and 'node::' not in r.get('fn', '')
    hc = hm_models.hm_consts(NNodes=6, Keys0Set='={1, 3}', KeySet='={1, 2, 3}', MaxOps=3)
    for rc, prog in ([('nebr0', 'emp2,era1;con2,era3')] if q else [('nebr0', 'emp2,era1;con2,era3'), ('hp3', 'emp2,era1;con2,era3'), ('stamp', 'era1,emp2;era1,con3'), ('nebr0', 'era3,emp3;emp2,era3,con1')]):
        step_bind(ctx, 'HarrisMichael', 'hm', ['set/%s;emp1,emp3;%s' % (rc, prog)], hc, pb=2, max_exec=80 if q else 3000, keep=keeph)
    for r in ctx.tv[:3]:
        ctx.samples.append({'driver': 'hm', 'history': canonical_sample(execution_lines(r['trace'], 2), 70)})
    return finish(ctx,
                  'M: TLC explores all interleavings of the HarrisMichael impl spec (find with helping unlink, insert CAS, mark-then-unlink erase) over the '
                  'adversarial abstract reclaimer; T: emplace / emplace_or_get / get_or_emplace(_lazy) / operator[] / erase(key) / erase(iterator) / find / '
                  'contains programs of 2-3 threads over keys 1..5 on the set and on hash maps with 1-2 buckets, memoize_hash on/off, identity and colliding '
                  'hash, int and std::string keys, every reclaimer, all schedules up to preemption bound 2/3, plus long single-threaded random sequences; every distinct history is '
                  'checked by TLC for linearizability w.r.t. abs/SetMap; non-trivial = overlapping operations',
                  ['sequential consistency at atomic-access granularity', 'map values are 10*key (value integrity = no value of another key)'])
