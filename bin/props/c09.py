# C09 - Harris-Michael iterators stay valid and weakly consistent under updates
from xvlib import *
from props.hm_common import *

PROGS = ['emp1,emp3;trav;emp2', 'emp1,emp2,emp3;trav;era2', 'emp1,emp2,emp3;trave1;era2,emp2', 'emp1,emp2,emp3,emp4;trave0;era1,era2',
         'emp1,emp2,emp3;trave2;era3,emp4', 'emp2,emp4;trav;emp1,emp3,era2', 'emp1,emp2,emp3;trave1,trav;era2;emp2',
         'emp1,emp2;trav;era1,emp1', 'emp1,emp2,emp3;trave0;trave1', 'emp1,emp2,emp3,emp4;trav;fer2,fer3']


def run(ctx):
    build(['hm'])
    q = ctx.quick
    from props import hm_models
    hm_models.run_models(ctx, 'C09')
    jobs = []
    n = 0
    for kind in KINDS:
        for r in RECL:
            for p in PROGS:
                n += 1
                if q and r not in ('hp3', 'ebr0', 'he3') and (n + ctx.seed) % 6 != 0:
                    continue
                if q and kind not in ('set', 'map2mc') and (n + ctx.seed) % 3 != 0:
                    continue
                jobs.append('%s/%s;%s' % (kind, r, p))
    # std::string keys (heap-allocated): an iterator that keeps a reference into a node it no longer guards reads a destroyed key - with the
    # type-stable node memory of lock_free_ref_count only the key's own buffer tells (seeded change c09_6: `const Key& key = info.cur->key` in operator++)
    for kind in ('sset', 'smap1nc', 'smap2mh'):
        for r in (('lfrc', 'hp3') if q else RECL):
            for p in (PROGS if kind == 'sset' or not q else PROGS[:4]):
                jobs.append('%s/%s;%s' % (kind, r, p))
    run_hm(ctx, jobs, pb=2 if q else 3, max_exec=250 if q else 20000)
    # A: the same iterator programs with address reuse (xvrt --reuse, see C08): a guard dropped too early shows as a traversal that continues in a NEW
    # node at the old address
    import xvlib
    xvlib.EXTRA_ALL[0] = '--reuse'
    try:
        run_hm(ctx, ['%s/%s;%s' % (k, r, p) for k in ('set', 'map1nc', 'map2mc') for r in (['hp3', 'lfrc'] if q else ['hp3', 'he3', 'lfrc', 'ebr0']) for p in PROGS],
               pb=2, max_exec=1500 if q else 30000, tagx='reuse_')
    finally:
        xvlib.EXTRA_ALL[0] = ''
    if not q:
        run_hm(ctx, jobs, pb=5, max_exec=0, mode='random', runs=600, tagx='r')
    for r in ctx.tv[:3]:
        ctx.samples.append({'driver': 'hm', 'history': canonical_sample(execution_lines(r['trace'], 2), 70)})
    return finish(ctx,
                  'M: HarrisMichael impl spec incl. iterator advance / erase(iterator) over the adversarial abstract reclaimer (an iterator never touches a '
                  'reclaimed node); T: a traversing thread (begin, *, ++, erase(iterator) at every position) against 1-2 updating threads on the set and the '
                  'hash map variants, every reclaimer (HP/HE with the guards an iterator holds), all schedules up to preemption bound 2/3; TLC validates each '
                  'history against the traversal clauses of abs/SetMap: every yielded key was present at some instant of the traversal, no key twice unless '
                  're-inserted, keys present throughout are yielded by a full traversal, erase(iterator) removes exactly the referenced element',
                  ['sequential consistency at atomic-access granularity', 'heap quarantine reports any access to reclaimed memory'])
