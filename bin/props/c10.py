# C10 - vyukov_hash_map is a linearizable map, including lock-free reads and resizing
import random
from xvlib import *
from props.vy_common import *

# keys share buckets (colliding hash) -> bucket overflow into extension items; capacity 1 -> repeated grows
PROGS = ['emp1,emp2;era1,emp3,get2;goe1,get3,ext2', 'emp1,emp2,emp3;emp4,era2;get4,get2,get1', 'emp1,emp2,emp3,emp4;era4,emp5;get5,get4,get1',
         'emp1,emp2,emp3,emp4,emp5;ext1,emp6;get6,get5,get1', ';emp1,emp2,emp3,emp4;emp5,emp6,get1;get2,get6',
         'emp1;gol2,era1,gol1;goe2,get1,get2', 'emp1,emp2,emp3,emp4;era1,era4;get4,get3;fnd2', 'emp1,emp2,emp3;era2,emp2;get2,get2']
# removals from the middle of a populated extension list (keys 4.. live in extension items once the table has 128 buckets) against lock-free
# readers of the keys behind / before the removed item
EXTP = ['emp1,emp2,emp3,emp4,emp5,emp6;era5;get4', 'emp1,emp2,emp3,emp4,emp5,emp6;ext5,emp5;get4,get6', 'emp1,emp2,emp3,emp4,emp5,emp6;era4,era6;get5,get4',
        'emp1,emp2,emp3,emp4,emp5,emp6,emp7;era6,era5;get4;get7', 'emp1,emp2,emp3,emp4,emp5,emp6;era5,emp7;get4,get7']
# every key has the same hash value (non-trivial keys are stored as their hash): lookups have to tell the keys of one extension list apart
EQH = ['emp1,emp2,emp3,emp4,emp5,emp6;get4,get6;get5,era5', 'emp1,emp2,emp3,emp4,emp5;emp6,get4;get5,get1', ';emp1,emp2,emp3,emp4,emp5,get4,get5,era4,get5,emp6,get6,get1']
# a reader between its key match and its value load while the key is erased and ANOTHER key takes the freed slot (array part of the bucket,
# last item / middle item / full array): only the version the removal bumps tells the reader that the slot changed hands
SLOT = ['emp1,emp2;era2,emp3;get2,get3', 'emp1;era1,emp2;get1,get2', 'emp1,emp2,emp3;era3,emp4;get3,get4', 'emp1,emp2,emp3;era1,emp4;get3,get1', 'emp1,emp2;ext2,emp3;get2;get3']
# a 128-bucket block whose extension items are all in use (3 array slots + 10 extension items in one bucket): the next emplace grows the table while a
# lock-free reader looks for a key that lives in an extension item - grow must not change what a reader of the OLD block sees (seeded change c10_5)
GROWEXT = [','.join('emp%d' % i for i in range(1, 14)) + ';emp14;get5', ','.join('emp%d' % i for i in range(1, 14)) + ';emp14,get13;get9,get4']
GROW = [';emp1,emp2,emp3,emp4,emp5;get1,emp6,get5', ';emp1,emp2,emp3,emp4;emp5,emp6,emp7,emp8;get3,get7', 'emp1,emp2,emp3;emp4,emp5,era1;emp6,get1,get4']


def run(ctx):
    build(['vy'])
    q = ctx.quick
    from props import vy_models
    vy_models.run_models(ctx, 'C10')
    rnd = random.Random(ctx.seed)
    jobs = []
    deep = []
    n = 0
    for m in MODES:
        for r in RECL:
            for p in PROGS:
                n += 1
                if q and not (m in ('ii', 'sm') and r == 'hp3') and (n + ctx.seed) % 12 != 0:
                    continue
                jobs.append('vy1%sc/%s;%s' % (m, r, p))
                if not q:
                    jobs.append('vy8%sc/%s;%s' % (m, r, p))
            for p in EXTP:
                n += 1
                if q and not (m in ('ii', 'sm') and r == 'hp3') and (n + ctx.seed) % 9 != 0:
                    continue
                deep.append('vy128%sc/%s;%s' % (m, r, p))
                if not q:
                    deep.append('vy1%sc/%s;%s' % (m, r, p))
            for p in GROWEXT:
                if (m in ('ii', 'sm') and r in ('ebr0', 'hp3')) or not q:
                    deep.append('vy128%sc/%s;%s' % (m, r, p))
            for p in SLOT:
                n += 1
                if q and not (m in ('ii', 'is') and r in ('hp3', 'ebr0')) and (n + ctx.seed) % 9 != 0:
                    continue
                deep.append('vy8%sc/%s;%s' % (m, r, p))
            for p in EQH:
                n += 1
                if m in ('si', 'sm', 'ii') and (not q or r in ('hp3', 'ebr0')):
                    jobs.append('vy128%se/%s;%s' % (m, r, p))
            for p in GROW:
                n += 1
                if q and (n + ctx.seed) % 9 != 0 and not (m == 'is' and r == 'hp3'):
                    continue
                jobs.append('vy1%sh/%s;%s' % (m, r, p))      # identity hash, capacity 1: every overflow grows the table
                jobs.append('vy2%sh/%s;%s' % (m, r, p))
    # long single-threaded random sequences
    ops = ['emp%d', 'era%d', 'get%d', 'goe%d', 'gol%d', 'ext%d', 'fnd%d']
    for m in MODES:
        for i in range(5 if q else 60):
            seq = ','.join(rnd.choice(ops) % rnd.randint(1, 8) for _ in range(40))
            jobs.append('vy%d%s%s/%s;;%s' % (rnd.choice([1, 2, 8]), m, rnd.choice('hc'), rnd.choice(RECL), seq))
    run_vy(ctx, deep, pb=2 if q else 3, max_exec=4000 if q else 60000, max_steps=8000, tagx='d')
    run_vy(ctx, jobs, pb=2 if q else 3, max_exec=500 if q else 30000, max_steps=8000)
    if not q:
        run_vy(ctx, jobs, pb=5, max_exec=0, mode='random', runs=500, tagx='r', max_steps=8000)
    for r in ctx.tv[:3]:
        ctx.samples.append({'driver': 'vy', 'history': canonical_sample(execution_lines(r['trace'], 2), 70)})
    return finish(ctx,
                  'T: emplace / get_or_emplace(_lazy) / erase / extract / try_get_value / find programs of 2-3 threads over keys that share a bucket (3 array '
                  'slots + extension items), initial capacities 1, 2, 8 (capacity 1 and 2 with the identity hash force repeated concurrent grows), all five '
                  'key/value storage modes (int, std::string, managed_ptr), 7 reclaimers, all schedules up to preemption bound 2/3 (iteratively deepened), plus '
                  'long single-threaded random sequences; TLC checks every distinct history for linearizability w.r.t. abs/SetMap - a lock-free read may only '
                  'return absent or a value the key held at some instant of the call; M: VyukovMap impl spec (reader protocol vs the three removal shapes)',
                  ['sequential consistency at atomic-access granularity', 'values are 10*key (a value of another key is detectable)'])
