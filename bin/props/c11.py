# C11 - vyukov_hash_map iterators: exclusive traversal, erase(iterator), no lost locks
import itertools, random
from xvlib import *
from props.vy_common import *

# populated extension lists: with the colliding hash all keys share a bucket (3 array slots, then extension items)
CONC = ['emp1,emp2,emp3,emp4;trave0;get4', 'emp1,emp2,emp3,emp4,emp5;trave3;get5,get4', 'emp1,emp2,emp3,emp4;trave1;get3,get4;emp5',
        'emp1,emp2,emp3,emp4,emp5;trave4,emp6;get4,get6', 'emp1,emp2;trav;emp3,era1', 'emp1,emp2,emp3,emp4;fer4,emp5;get1,get5',
        'emp1,emp2,emp3;trave2;emp4,era2', 'emp1,emp2,emp3,emp4;itmv2,emp5;get2,era3']
ITW = [ # erase(iterator) in the middle of the extension list (traversal order: 3 array slots, then the extension list from its head) while
        # writers want the same bucket: the iterator has to keep the bucket locked until it moves on
        'emp1,emp2,emp3,emp4,emp5,emp6;fer6,emp8;emp7,era1', 'emp1,emp2,emp3,emp4,emp5,emp6,emp7;fer6,emp8;era7,emp9', 'emp1,emp2,emp3,emp4,emp5,emp6;fer5,emp8;era2,emp7',
        'emp1,emp2,emp3,emp4,emp5,emp6;trave3;emp7,era2']


def seqs(rnd, n, length):
    ops = ['emp%d', 'era%d', 'fer%d', 'itmv%d', 'get%d', 'fnd%d', 'ext%d', 'ftrav%d', 'ftrave%d']
    out = []
    for i in range(n):
        s = ['emp%d' % k for k in range(1, rnd.randint(4, 7))]
        for _ in range(length):
            r = rnd.random()
            if r < 0.2:
                s.append('trave%d' % rnd.randint(0, 5))
            elif r < 0.3:
                s.append('trav')
            else:
                s.append(rnd.choice(ops) % rnd.randint(1, 6))
        out.append(','.join(s))
    return out


def run(ctx):
    build(['vy'])
    q = ctx.quick
    from props import vy_models
    vy_models.run_models(ctx, 'C11')
    rnd = random.Random(ctx.seed)
    jobs = []
    deep = []
    n = 0
    for m in MODES:
        for r in RECL:
            for p in CONC:
                n += 1
                if q and not (m == 'ii' and r == 'ebr0') and (n + ctx.seed) % 14 != 0:
                    continue
                (deep if (m == 'ii' and r == 'ebr0') else jobs).append('vy1%sc/%s;%s' % (m, r, p))
                if not q:
                    jobs.append('vy2%sh/%s;%s' % (m, r, p))
    # single-threaded sequences of begin/find/++/erase(iterator)/reset mixed with ordinary operations
    for m in MODES:
        # bounded exhaustive: erase(iterator) at every position of maps with 1..6 elements
        for size in range(1, 7):
            for pos in range(size):
                jobs.append('vy1%sc/hp3;;%s,trave%d,trav' % (m, ','.join('emp%d' % k for k in range(1, size + 1)), pos))
                jobs.append('vy1%sc/ebr0;;%s,fer%d,emp%d,trav' % (m, ','.join('emp%d' % k for k in range(1, size + 1)), pos + 1, 7))
        # traversals that START at find(k) (also on extension items: 128 buckets, colliding hash) and run to end(); erase of the element after it
        for size in (2, 4, 5, 6):
            fill = ','.join('emp%d' % k for k in range(1, size + 1))
            for k in range(1, size + 1):
                jobs.append('vy128%sc/hp3;;%s,ftrav%d,trav' % (m, fill, k))
                jobs.append('vy1%sc/ebr0;;%s,ftrav%d,trav' % (m, fill, k))
                if k < size:
                    jobs.append('vy128%sc/ebr0;;%s,ftrave%d,trav' % (m, fill, k))
        for s in seqs(rnd, 6 if q else 80, 8):
            jobs.append('vy1%sc/%s;;%s' % (m, rnd.choice(RECL), s))
            jobs.append('vy4%sh/%s;;%s' % (m, rnd.choice(RECL), s))
    # erase(iterator) on ARRAY items of a bucket with a populated extension list (the slot is refilled from the list head) against readers of the moved key
    ARR = ['emp1,emp2,emp3,emp4;trave0;get4', 'emp1,emp2,emp3,emp4,emp5;trave1;get5,get4', 'emp1,emp2,emp3,emp4,emp5;trave2,emp6;get5,get6', 'emp1,emp2,emp3,emp4;fer2;get4;get3']
    itw = ['vy1iic/ebr0;' + p for p in ITW] + ['vy128iic/ebr0;' + p for p in ARR] + ['vy128isc/hp3;' + p for p in ARR[:2]] + ([] if q else ['vy128%sc/%s;%s' % (m, r, p) for p in ITW for m in ('is', 'sm') for r in ('hp3', 'stamp')])
    run_vy(ctx, itw, pb=2 if q else 3, max_exec=15000 if q else 100000, max_steps=6000, tagx='w', nsh=len(itw))
    run_vy(ctx, deep, pb=2 if q else 3, max_exec=2500 if q else 40000, max_steps=6000, tagx='d')
    # an exception from the key comparison inside find() / iterator construction (key type with a throwing operator==, driver mode `ti`, op fndx):
    # the half-built iterator must release the bucket - every later locking operation on it hangs otherwise (seeded change c11_6)
    for r in (('ebr0', 'hp3') if q else RECL):
        jobs += ['vy8tic/%s;;emp1,emp2,fndx1,emp3,era1,get2,trav' % r, 'vy8tic/%s;emp1,emp2;fndx2,emp3;get1,emp4' % r, 'vy128tic/%s;emp1,emp2,emp3,emp4,emp5;fndx5,era5;get4,emp6' % r]
    run_vy(ctx, jobs, pb=2 if q else 3, max_exec=300 if q else 30000, max_steps=6000)
    if not q:
        run_vy(ctx, jobs, pb=5, max_exec=0, mode='random', runs=500, tagx='r', max_steps=6000)
    for r in ctx.tv[:3]:
        ctx.samples.append({'driver': 'vy', 'history': canonical_sample(execution_lines(r['trace'], 2), 70)})
    return finish(ctx,
                  'T: (i) bounded-exhaustive single-threaded sequences: erase(iterator) at every position of maps with 1..6 colliding elements (3 array slots + '
                  'extension items), erase(find(k)) for every k, iterator move-assignment, plus random sequences of iterator and ordinary operations; (ii) an '
                  'iterating/erasing thread against try_get_value readers and emplace/erase writers, all schedules up to preemption bound 2/3, five storage modes; '
                  'each execution ends with a probe of every key and a full traversal (a lost bucket lock shows as a hang = recorded outcome). TLC validates every '
                  'history against abs/SetMap: traversal yields each element once, erase(iterator) removes exactly the current element, lock-free readers never '
                  'report a key absent that was present throughout (version validation must see removals made through the iterator); M: VyukovMap impl spec',
                  ['sequential consistency at atomic-access granularity', 'a colliding hash policy forces all keys into one bucket (populated extension lists)'])
