# C12 - chase_work_stealing_deque hands out every pushed item exactly once
import itertools, json
from xvlib import *

HCONSTS = {'AbsInit': '<-DequeInit', 'AbsCfg': '<-DequeCfg', 'AbsStep': '<-DequeStep', 'AbsFinal': '<-DequeFinal', 'AbsEv': '<-NoEv'}


def mc_consts(**kw):
    c = {'Threads': '<-ThreadsDef', 'MThreads': '<-ThreadsDef', 'Locs': '<-LocsDef', 'InitVal': '<-InitValDef',
         'AbsStep': '<-DequeStep', 'Ord': '<-OrdCode', 'Weak': False, 'Cap0': 2, 'MaxCap': 4, 'Start': 0, 'MaxPush': 3,
         'MaxPop': 1, 'MaxSteal': 2, 'NThieves': 1, 'GrowIdx': 'and', 'StaleCapOK': False}
    c.update(kw)
    return c


ACTIONS = ['StartPush', 'pu_cap', 'gr_cap', 'gr_ld', 'gr_st', 'gr_pub', 'pu_bot', 'StartPop', 'po_t', 'po_bs', 'po_ge',
           'po_t2', 'po_cas', 'po_b2', 'StartSteal', 'st_b', 'st_cas']


def programs(quick):
    progs = []
    prior = [0, 2, 3] if quick else [0, 1, 2, 3, 5, 6]
    caps = ['g2'] if quick else ['g2', 'g4']
    owner_seqs = []
    for n in ((2, 3) if quick else (2, 3, 4)):
        owner_seqs += list(itertools.product(['push', 'pop'], repeat=n))
    for cfg in caps:
        cap = int(cfg[1:])
        for st in prior:
            for fill in sorted({0, 1, cap}):
                setup = []
                for k in range(st):
                    setup += ['push%d' % (40 + k), 'steal']
                setup += ['push%d' % (i + 1) for i in range(fill)]
                for oseq in owner_seqs:
                    nv = fill
                    ops = []
                    for o in oseq:
                        if o == 'push':
                            nv += 1; ops.append('push%d' % nv)
                        else:
                            ops.append('pop')
                    for thieves in (['steal'], ['steal,steal'], ['steal', 'steal']):
                        if not quick or len(thieves) == 1 or (len(oseq) <= 2):
                            progs.append('%s;%s;%s;%s' % (cfg, ','.join(setup), ','.join(ops), ';'.join(thieves)))
    # fixed-size container: push fails only when full
    for cfg in ('f2', 'f4'):
        cap = int(cfg[1:])
        for fill in (0, cap - 1, cap):
            setup = ['push%d' % (i + 1) for i in range(fill)]
            for oseq in (('push', 'push'), ('push', 'pop', 'push'), ('pop', 'push', 'push')):
                nv = fill; ops = []
                for o in oseq:
                    if o == 'push':
                        nv += 1; ops.append('push%d' % nv)
                    else:
                        ops.append('pop')
                progs.append('%s;%s;%s;steal,steal' % (cfg, ','.join(setup), ','.join(ops)))
    return progs


def run(ctx):
    build(['deque'])
    q = ctx.quick
    jobs = []
    # ---- M: all interleavings / all client programs of the impl spec within bounds.
    # The capacity read of get() is idealised (StaleCapOK = FALSE) in the runs that must hold; the faithful
    # two-step read is known finding C12-stale-capacity and is checked to (a) still be what breaks the
    # property and (b) be the ONLY thing that does (invariant LinearizableOrStaleCap).
    for start in ([0, 2, 3] if q else [0, 1, 2, 3, 5, 6, 7]):
        jobs.append(lambda s=start: tlc_mc(ctx, 'cl_start%d' % s, 'ChaseLev', mc_consts(Start=s, MaxCap=4 if s < 5 else 4),
                                           invariants=['Linearizable', 'WindowOK'], view='mcview', must_cover=ACTIONS if s == 2 else ()))
    jobs.append(lambda: tlc_mc(ctx, 'cl_faithful_s2', 'ChaseLev', mc_consts(Start=2, StaleCapOK=True),
                               invariants=['LinearizableOrStaleCap'], view='mcview'))
    jobs.append(lambda: tlc_mc(ctx, 'cl_2thieves', 'ChaseLev', mc_consts(Start=2, NThieves=2, MaxSteal=1, MaxPush=3, MaxPop=1),
                               invariants=['Linearizable', 'WindowOK'], view='mcview'))
    if not q:
        jobs.append(lambda: tlc_mc(ctx, 'cl_cap4to8', 'ChaseLev', mc_consts(Cap0=4, MaxCap=8, Start=5, MaxPush=5, MaxPop=2, MaxSteal=2),
                                   invariants=['Linearizable', 'WindowOK'], view='mcview', tmo=1500, workers=8))
        jobs.append(lambda: tlc_mc(ctx, 'cl_2thieves_deep', 'ChaseLev', mc_consts(Start=3, NThieves=2, MaxSteal=2, MaxPush=4, MaxPop=2, MaxCap=8),
                                   invariants=['Linearizable', 'WindowOK'], view='mcview', tmo=1500, workers=8))
    # mechanism toggles: must produce a counterexample, else the spec does not see the mechanism
    jobs.append(lambda: tlc_mc(ctx, 'toggle_grow_mod', 'ChaseLev', mc_consts(Start=2, GrowIdx='mod'),
                               invariants=['Linearizable', 'WindowOK'], view='mcview', expect='violation'))
    jobs.append(lambda: tlc_mc(ctx, 'toggle_stale_cap', 'ChaseLev', mc_consts(Start=2, StaleCapOK=True),
                               invariants=['Linearizable'], view='mcview', expect='violation'))
    run_parallel(jobs, maxw=4)

    # ---- T: real executions, history level
    progs = programs(q)
    import random
    random.Random(ctx.seed).shuffle(progs)
    nsh = 14
    xs = run_parallel([lambda i=i: explore(ctx, 'deque_dfs_%d' % i, 'deque', progs[i::nsh], mode='dfs', pb=2 if q else 3,
                                           max_exec=2500 if q else 40000) for i in range(nsh)], maxw=nsh)
    if not q:
        xs += run_parallel([lambda i=i: explore(ctx, 'deque_rnd_%d' % i, 'deque', progs[i::nsh], mode='random', pb=4, runs=300)
                            for i in range(nsh)], maxw=nsh)
    def tv(x):
        res = check_histories(ctx, x['name'], 'deque', 'Deque_Hist', HCONSTS, x, known_preds=['C12_StaleCapacity'])
        add_tv_stats(res, [x])
    run_parallel([lambda x=x: tv(x) for x in xs], maxw=8)
    for x in xs[:3]:
        ctx.samples.append({'driver': 'deque', 'history': canonical_sample(execution_lines(x['trace'], 2))})
    ctx.samples.append({'model': 'ChaseLev', 'constants': ctx.mc[0]['consts']})
    return finish(ctx,
                  'M: TLC explores every interleaving of every client program of the ChaseLev impl spec within the stated constants; '
                  'T: every schedule (preemption bound 2/3) of enumerated owner/thief programs is run on the real code, distinct histories '
                  'validated by TLC against abs/Deque; non-trivial = at least two overlapping operations of different threads',
                  ['xvrt schedules at atomic-access granularity under sequential consistency (weak executions: C03)',
                   'model constants are small (capacity 2->4->8, <=5 pushes, 1-2 thieves)',
                   'known finding C12-stale-capacity: the faithful two-step capacity/entry read is excused only when the finding predicate matches'])
