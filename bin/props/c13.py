# C13 - left_right: readers always see one consistent, fully updated instance
from xvlib import *

HCONSTS = {'AbsInit': '<-LRInit', 'AbsCfg': '<-LRCfg', 'AbsStep': '<-LRStep', 'AbsFinal': '<-LRFinal', 'AbsEv': '<-LREv'}


def mc_consts(**kw):
    c = {'Threads': '<-ThreadsDef', 'MThreads': '<-ThreadsDef', 'Locs': '<-LocsDef', 'InitVal': '<-InitValDef',
         'AbsStep': '<-RegStep', 'Ord': '<-OrdCode', 'Weak': False, 'NWriters': 1, 'NReaders': 1, 'MaxUpdates': 2, 'MaxReads': 2,
         'WaitNext': True, 'WaitCur': True, 'Toggle': True, 'ArriveFirst': True}
    c.update(kw)
    return c


INV = ['Linearizable', 'NoReaderOnWrittenInstance', 'InstancesAgree']
ACTIONS = ['StartRead', 'LdTo', 'rd_arr', 'rf0', 'rf1', 'rd_dep', 'StartUpdate', 'up_lock', 'up_lr', 'uf0', 'uf1', 'up_st',
           'tv_vi', 'WaitStep', 'tv_st', 'up_unlock']


def programs(quick):
    P = ['lr;;update10,update5;load,load', 'lr;;update10,update5,update2;load,load',
         'lr;;update10,update5,update2;load',
         'lr;update3;update10;load,load,load',
         'lr;;update10;update5;load,load',
         'lr;;update10,update5;load;load',
         'lr;update3;update10,update5;load,load;load',
         'lr;;update10;update5;load;load']
    if not quick:
        P += ['lr;;update10,update5,update2;load,load;load,load',
              'lr;;update10,update2;update5,update3;load,load',
              'lr;update7;update10,update5;load;load;load',
              'lr;;update10,update5,update2,update3;load,load,load']
    return P


def run(ctx):
    build(['leftright'])
    q = ctx.quick
    jobs = [
        lambda: tlc_mc(ctx, 'lr_1w1r', 'LeftRight', mc_consts(MaxUpdates=3, MaxReads=3), invariants=INV, view='mcview', must_cover=ACTIONS),
        lambda: tlc_mc(ctx, 'lr_1w2r', 'LeftRight', mc_consts(NReaders=2, MaxUpdates=2, MaxReads=2 if not q else 1), invariants=INV, view='mcview', workers=6),
        lambda: tlc_mc(ctx, 'lr_2w1r', 'LeftRight', mc_consts(NWriters=2, MaxUpdates=1, MaxReads=2), invariants=INV, view='mcview'),
        lambda: tlc_mc(ctx, 'toggle_nowaitnext', 'LeftRight', mc_consts(WaitNext=False), invariants=INV, view='mcview', expect='violation'),
        lambda: tlc_mc(ctx, 'toggle_nowaitcur', 'LeftRight', mc_consts(WaitCur=False), invariants=INV, view='mcview', expect='violation'),
        lambda: tlc_mc(ctx, 'toggle_arrivelate', 'LeftRight', mc_consts(ArriveFirst=False), invariants=INV, view='mcview', expect='violation'),
    ]
    if not q:
        jobs += [
            lambda: tlc_mc(ctx, 'lr_1w3r', 'LeftRight', mc_consts(NReaders=3, MaxUpdates=2, MaxReads=1), invariants=INV, view='mcview', workers=8, tmo=1800),
            lambda: tlc_mc(ctx, 'lr_2w2r', 'LeftRight', mc_consts(NWriters=2, NReaders=2, MaxUpdates=2, MaxReads=2), invariants=INV, view='mcview', workers=8, tmo=2400),
        ]
    run_parallel(jobs, maxw=4)
    ctx.note('mechanism "version toggle" (Toggle = FALSE) yields no safety counterexample: without the toggle the writer waits for both '
             'read indicators, which is safe but lets readers starve the writer - a progress mechanism, not needed for C13')
    progs = programs(q)
    xs = run_parallel([lambda i=i: explore(ctx, 'lr_dfs_%d' % i, 'leftright', [progs[i]], mode='dfs', pb=3 if q else 4,
                                           max_exec=9000 if q else 120000) for i in range(len(progs))], maxw=12)
    xs += run_parallel([lambda i=i: explore(ctx, 'lr_rq_%d' % i, 'leftright', [progs[i]], mode='random', pb=5, runs=1500 if q else 6000)
                        for i in range(len(progs))], maxw=12)
    # the smallest three-party programs COMPLETELY at preemption bound 3 (28 k / ~100 k executions): a reader in flight, a second reader stopped between
    # reading the version index and arriving, the writer stopped inside its wait for the readers of that index (seeded change c13_6: an ingress / egress
    # read indicator whose emptiness test reads the two counters in the wrong order)
    small = ['lr;;update10;load;load', 'lr;;update10;load,load;load']
    xs += run_parallel([lambda i=i: explore(ctx, 'lr_full3_%d' % i, 'leftright', [small[i]], mode='dfs', pb=3, max_exec=60000 if q else 400000) for i in range(len(small))], maxw=4)
    if not q:
        xs += run_parallel([lambda i=i: explore(ctx, 'lr_rnd_%d' % i, 'leftright', [progs[i]], mode='random', pb=6, runs=3000)
                            for i in range(len(progs))], maxw=12)

    def tv(x):
        res = check_histories(ctx, x['name'], 'leftright', 'LeftRight_Hist', HCONSTS, x)
        add_tv_stats(res, [x])
    run_parallel([lambda x=x: tv(x) for x in xs], maxw=8)
    for x in xs[:2]:
        ctx.samples.append({'driver': 'leftright', 'history': canonical_sample(execution_lines(x['trace'], 2), 60)})
    ctx.samples.append({'model': 'LeftRight', 'constants': ctx.mc[0]['consts']})
    return finish(ctx,
                  'M: TLC explores every interleaving (functor field accesses are separate steps) of update/read programs of the LeftRight impl spec '
                  'for 1-2 writers and 1-3 readers; T: the real left_right<T> is run under every schedule (preemption bound 2/3, a scheduling point inside '
                  'each functor), functor entry/exit events and results validated by TLC against abs/LRReg; non-trivial = overlapping operations',
                  ['sequential consistency at atomic-access granularity (weak executions: C03)',
                   'std::mutex and sched_yield are interposed by xvrt (cooperative blocking)'])
