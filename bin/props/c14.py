# C14 - seqlock::load returns exactly some stored value, never torn or truncated
import itertools, json, math
from xvlib import *

HCONSTS = {'AbsInit': '<-RegInit', 'AbsCfg': '<-RegCfg', 'AbsStep': '<-RegStep', 'AbsFinal': '<-RegFinal', 'AbsEv': '<-NoEv'}


def mc_consts(**kw):
    c = {'Threads': '<-ThreadsDef', 'MThreads': '<-ThreadsDef', 'Locs': '<-LocsDef', 'InitVal': '<-InitValDef',
         'AbsStep': '<-RegStep', 'Ord': '<-OrdCode', 'Weak': False, 'Slots': 2, 'NW': 2, 'CW': 2, 'NWriters': 1, 'NReaders': 1,
         'MaxWrites': 2, 'MaxLoads': 2, 'DistSlack': 0, 'SpinOdd': True, 'WriteNext': True}
    c.update(kw)
    return c


ACTIONS = ['StartLoad', 'LdSeq', 'rd_w', 'rd_fence', 'ld_seq2', 'StartStore', 'StartUpdate', 'AlLd', 'al_cas', 'up_func',
           'sd_fence', 'sd_w', 'rl_st']


def extract_words(ctx, sizes):
    """words copied by read_data for each sizeof(T), counted on a step trace of the real code"""
    progs = ['s2b%d;;load' % b for b in sizes]
    xs = explore(ctx, 'extract_cw', 'seqlock', progs, mode='dfs', pb=0, max_exec=1, steps=True)
    lab = os.path.join(ctx.sub('extract'), 'lab.ndjson')
    recs = label_steps(os.path.join(BUILD, 'seqlock'), xs['trace'], lab)
    res, cur = {}, None
    for r in [json.loads(l) for l in open(lab)]:
        if r['e'] == 'reset':
            cur = sizes[int(r['op'][1:])]
            res[cur] = 0
        elif r['e'] == 'ld' and r['t'] == 0 and 'read_data' in r['fn']:
            res[cur] += 1
    return res


def programs(quick):
    progs = []
    sizes = [12, 16, 20, 24] if quick else [12, 16, 20, 24, 40]
    slots = [1, 2, 3] if quick else [1, 2, 3, 4, 8]
    for b in sizes:
        for s in slots:
            c = 's%db%d' % (s, b)
            progs.append('%s;;store2,store3;load,load' % c)
            progs.append('%s;;store2,update10;load,load' % c)
            progs.append('%s;;update10,store5;load;load' % c)
            progs.append('%s;;store2;update10;load' % c)
            progs.append('%s;;update10;update10;load,load' % c)
            if not quick:
                progs.append('%s;;store2,store3,store4;load,load' % c)
                progs.append('%s;store9;store2,update10,store3;load;load,load' % c)
                progs.append('%s;;update10,update10;update10;load,load' % c)
    # "for every number of writes": the version counter starts just below 2^33 (config suffix w, white box: first word of the object), so that the
    # slot arithmetic is exercised where version >> 1 no longer fits 32 bits (seeded change c14_6: slot index computed from a truncated version)
    for b in (16, 24):
        for s in ((3,) if quick else (3, 2, 4)):
            c = 's%db%dw' % (s, b)
            progs.append('%s;;store2,load,store3,load,store5,load,store7,load,update10,load' % c)
            progs.append('%s;;store2,store3,store5;load,load,load' % c)
    return progs


def run(ctx):
    build(['seqlock'])
    q = ctx.quick
    sizes = [12, 16, 20, 24, 40]
    try:
        cw = extract_words(ctx, sizes)
        ctx.binding.append({'extracted': 'words copied by read_data per sizeof(T)', 'values': {str(k): v for k, v in cw.items()}})
    except Infra:
        raise
    pairs = sorted({(math.ceil(b / 8), cw[b]) for b in sizes if cw.get(b)})
    if not pairs:
        ctx.binding.append({'diverged': 'no read_data loads found in step trace; model uses CW = NW'})
        log('BINDING-DIVERGED seqlock::read_data word count')
        pairs = [(2, 2), (3, 3)]
    jobs = []
    for (nw, c) in pairs:
        if nw > 3:
            continue
        tag = 'nw%dcw%d' % (nw, c)
        jobs.append(lambda nw=nw, c=c, tag=tag: tlc_mc(ctx, 'sl1_' + tag, 'Seqlock', mc_consts(Slots=1, NW=nw, CW=c, MaxWrites=2, MaxLoads=2),
                                                      invariants=['Linearizable'], view='mcview', must_cover=ACTIONS))
        jobs.append(lambda nw=nw, c=c, tag=tag: tlc_mc(ctx, 'sl2_' + tag, 'Seqlock', mc_consts(Slots=2, NW=nw, CW=c, NWriters=2, MaxWrites=1 if q else 2, MaxLoads=1 if q else 2),
                                                      invariants=['Linearizable'], view='mcview', tmo=1200))
        jobs.append(lambda nw=nw, c=c, tag=tag: tlc_mc(ctx, 'sl2w3_' + tag, 'Seqlock', mc_consts(Slots=2, NW=nw, CW=c, MaxWrites=3, MaxLoads=2),
                                                      invariants=['Linearizable'], view='mcview'))
    jobs.append(lambda: tlc_mc(ctx, 'sl3_2readers', 'Seqlock', mc_consts(Slots=3, NReaders=2, MaxWrites=3, MaxLoads=1),
                               invariants=['Linearizable'], view='mcview', workers=6))
    if not q:
        for s in (4, 8):
            jobs.append(lambda s=s: tlc_mc(ctx, 'sl%d' % s, 'Seqlock', mc_consts(Slots=s, NWriters=2, MaxWrites=2, MaxLoads=2),
                                           invariants=['Linearizable'], view='mcview', tmo=1800, workers=6))
        jobs.append(lambda: tlc_mc(ctx, 'sl1_2w2r', 'Seqlock', mc_consts(Slots=1, NWriters=2, NReaders=2, MaxWrites=2, MaxLoads=1),
                                   invariants=['Linearizable'], view='mcview', tmo=1800, workers=6))
    # toggles
    jobs.append(lambda: tlc_mc(ctx, 'toggle_truncate', 'Seqlock', mc_consts(NW=2, CW=1, MaxWrites=1, MaxLoads=1), invariants=['Linearizable'], view='mcview', expect='violation'))
    jobs.append(lambda: tlc_mc(ctx, 'toggle_dist', 'Seqlock', mc_consts(DistSlack=1, MaxWrites=2, MaxLoads=1), invariants=['Linearizable'], view='mcview', expect='violation'))
    jobs.append(lambda: tlc_mc(ctx, 'toggle_nospin', 'Seqlock', mc_consts(Slots=1, SpinOdd=False, MaxWrites=1, MaxLoads=1), invariants=['Linearizable'], view='mcview', expect='violation'))
    jobs.append(lambda: tlc_mc(ctx, 'toggle_samewslot', 'Seqlock', mc_consts(WriteNext=False, MaxWrites=1, MaxLoads=1), invariants=['Linearizable'], view='mcview', expect='violation'))
    run_parallel(jobs, maxw=4)

    progs = programs(q)
    import random
    random.Random(ctx.seed).shuffle(progs)
    nsh = 12
    xs = run_parallel([lambda i=i: explore(ctx, 'seqlock_dfs_%d' % i, 'seqlock', progs[i::nsh], mode='dfs', pb=2 if q else 3,
                                           max_exec=1500 if q else 30000) for i in range(nsh)], maxw=nsh)
    if not q:
        xs += run_parallel([lambda i=i: explore(ctx, 'seqlock_rnd_%d' % i, 'seqlock', progs[i::nsh], mode='random', pb=5, runs=400)
                            for i in range(nsh)], maxw=nsh)

    def tv(x):
        res = check_histories(ctx, x['name'], 'seqlock', 'Register_Hist', HCONSTS, x)
        add_tv_stats(res, [x])
    run_parallel([lambda x=x: tv(x) for x in xs], maxw=8)
    for x in xs[:3]:
        ctx.samples.append({'driver': 'seqlock', 'history': canonical_sample(execution_lines(x['trace'], 2))})
    ctx.samples.append({'model': 'Seqlock', 'constants': ctx.mc[0]['consts']})
    return finish(ctx,
                  'M: TLC explores every interleaving of every store/update/load program of the Seqlock impl spec for slots 1..3 (4, 8 thorough), '
                  'with the number of copied words extracted from the real code; T: the real template instantiated for 12/16/20/24(/40)-byte payloads '
                  '(alignment 4 and 8) x slots is run under every schedule (preemption bound 2/3), results compared byte-wise in the harness, histories '
                  'validated by TLC against abs/Register; non-trivial = at least two overlapping operations',
                  ['sequential consistency at atomic-access granularity (weak executions: C03)',
                   'seqlock constructed with an explicit initial value (the default constructor leaves the value indeterminate by design)'])
