# C15 - marked_ptr, concurrent_ptr and guard_ptr obey their smart-pointer algebra
import re, shutil
from xvlib import *
from props.reclaim_common import *


def marked_ptr_vectors(ctx):
    """(a) translation validation of the real marked_ptr against abs/MarkedPtr"""
    xs = explore(ctx, 'mp_vectors', 'markedptr', ['x'], mode='dfs', pb=0, max_exec=1)
    d = ctx.sub('tv_mpvec')
    stage_specs(d)
    open(os.path.join(d, 'v.cfg'), 'w').write('INIT Init\nNEXT Next\nCHECK_DEADLOCK FALSE\n')
    rc, out = sh('cd %s && timeout 600 tlc -workers 1 -metadir %s/md -config v.cfg MarkedPtr_Vec.tla' % (d, d), tmo=630, env={'TRACE': xs['trace']})
    m = re.search(r'<<"MPVEC", (\d+), (\d+), (\d+)>>', out)
    if not m:
        log(out[-2000:])
        raise Infra('marked_ptr vector validation did not run')
    n, bad, first = int(m.group(1)), int(m.group(2)), int(m.group(3))
    res = {'name': 'mp_vectors', 'module': 'MarkedPtr_Vec', 'driver': 'markedptr', 'executions': n, 'accepted': n - bad, 'rejected': [first] if bad else [],
           'wall_s': xs['wall_s'], 'tlc_distinct': 1, 'tlc_generated': 1, 'trace': xs['trace'], 'executions_run': n, 'programs': 33, 'truncated': 0, 'nontrivial': n}
    ctx.tv.append(res)
    log('  T %-28s vectors=%d disagreeing=%d' % ('mp_vectors', n, bad))
    if bad:
        lines = open(xs['trace']).read().splitlines()
        p = os.path.join(REPLAYS, 'C15_markedptr_vectors.ndjson')
        shutil.copy(xs['trace'], p)
        ctx.violations.append({'what': 'marked_ptr vector at record %d disagrees with abs/MarkedPtr: %s' % (first, lines[first - 1] if first <= len(lines) else ''), 'replay': p})
    ctx.samples.append({'driver': 'markedptr', 'vector': open(xs['trace']).read().splitlines()[1:3]})


def guard_sequences(ctx, maxlen):
    """behaviours of the GuardAlgebra spec (all operation sequences of length maxlen)"""
    r = tlc_mc(ctx, 'guard_algebra_len%d' % maxlen, 'GuardAlgebra', {'NGuards': 3, 'NCells': 2, 'MaxLen': maxlen}, invariants=['Protected'],
               properties=['Laws'], constraints=['Emit'], workers=1, tmo=900)
    out = open(os.path.join(r['dir'], 'tlc.out')).read()
    seqs = set()
    for m in re.finditer(r'<<"SEQ", <<(.*?)>>>>', out):
        seqs.add(','.join(x.strip().strip('"') for x in m.group(1).split(',')))
    if not seqs:
        raise Infra('GuardAlgebra emitted no sequences')
    return sorted(seqs)


def run(ctx):
    build(['reclaim', 'markedptr'])
    q = ctx.quick
    tlc_mc(ctx, 'marked_ptr_all_widths', 'MarkedPtrMC', {'Us': '={0, 1, 3, 7, 8, 12, 16, 20}'}, invariants=['AllRoundTrip', 'AllDisjoint'], workers=2)
    marked_ptr_vectors(ctx)
    seqs = guard_sequences(ctx, 2)
    if not q:
        seqs3 = guard_sequences(ctx, 3)
    import random
    rnd = random.Random(ctx.seed)
    jobs = []
    cfgs = CORE if q else [c for c in ALL if SLOTTED.get(c, 3) >= 3]
    for c in cfgs:
        pick = seqs if not q else [s for i, s in enumerate(seqs) if (i + ctx.seed) % 4 == 0]
        for s in pick:
            jobs.append('%s+g;;acq0:0,acq1:1,%s,tch0,tch1,tch2' % (c, s))
        if not q:
            for s in rnd.sample(seqs3, 1500):
                jobs.append('%s+g;;%s,tch0,tch1,tch2' % (c, s))
        # (c) snapshot / acquire_if_equal under a concurrent writer
        jobs.append('%s+g;;acq0:0,acqe0:1,acq0:2,tch0,tch1,tch2;swp0:0,swp0:0' % c)
        jobs.append('%s+g;;acqe0:0,tch0,acqe0:1,tch1;swp0:0;swp0:0' % c)
        jobs.append('%s+g;;acq0:0,cpy0:1,rst0,acqe0:0,tch1,mov1:2,tch2;swp0:1,swp0:1' % c)
        # the snapshot of a guard includes the mark bits: same object, mark changed between two acquisitions into the same guard
        jobs.append('%s+g;;acq0:0,mrk0:1,acq0:0,tch0,acqe0:0,mrk0:2,acqe0:0,acq0:1,mrk0:0,acq0:1,acq0:0,swp0:2' % c)
        jobs.append('%s+g;;acq0:0,acq0:0,acqe0:1,acq0:1,tch0,tch1;mrk0:1,mrk0:3,swp0:0,mrk0:2' % c)
        # protection travels WITH the pointer: after swap / move / copy between two protecting guards one of them is released, the objects are
        # retired through a third guard (reclamation point) and the surviving guard is dereferenced
        for op in ('swg0:1', 'mov0:1', 'cpy0:1', 'swg0:1,swg0:1', 'swg1:0', 'mov1:0'):
            for k in (0, 1):
                jobs.append('%s+g;;acq0:0,acq1:1,%s,rst%d,swp0:2,swp1:2,swp2:2,rst2,tch0,tch1' % (c, op, k))
        # guards that hold a MARKED NULL pointer (operator bool is true, get() is null): copy / move / swap / assignment / reset of such a
        # guard must leave the protection of the thread's other guards intact (region nesting, slot ownership), also across reclamation points
        tail = 'swp1:3,swp2:3,swp2:3,swp2:3,rgn1,rgn0,rgn1,rgn0,rgn1,rgn0,tch2'
        for mid in ('cpy0:1,rst1,rst0', 'mov0:1,rst1,rst0', 'cpy0:1,cpy1:0,sfa0,rst0,rst1', 'cgd0:0,swg0:1,rst1,rst0', 'acqe0:1,cpy1:0,rst0,rst1'):
            jobs.append('%s+g;;acq1:2,nul0:1,acq0:0,%s,%s' % (c, mid, tail))
        jobs.append('%s+g;;acq1:2,nul0:1,acq0:0,cpy0:1,rst1,rst0,sig1,wai2,tch2;wai1,swp1:0,swp2:0,swp2:0,rgn1,rgn0,rgn1,rgn0,sig2' % c)
    run_client(ctx, jobs, pb=2 if q else 3, max_exec=300 if q else 10000)
    for r in ctx.tv[1:3]:
        ctx.samples.append({'driver': 'reclaim', 'history': canonical_sample(execution_lines(r['trace'], 2), 80)})
    return finish(ctx,
                  '(a) TLC checks the marked_ptr bit algebra for every width 0..32 and upper-bit budgets {0,8,16}; the real marked_ptr<T,M> is evaluated on '
                  'generator vectors (single-bit / all-ones pointers and marks) for every M and TLC recomputes each word from the TLA+ definition; '
                  '(b) TLC enumerates ALL guard operation sequences of length 2 (3: thorough sample) of the GuardAlgebra spec; each is replayed on the real '
                  'reclaimers where the observed guard contents, liveness of the objects and the exactly-once census are validated against abs/Reclamation; '
                  '(c) acquire / acquire_if_equal race with a thread replacing the source (all schedules, bound 2/3): results must be linearizable w.r.t. the '
                  'cell as an atomic pointer; (d) the same operations on guards that hold a marked null pointer, followed by retirement of what the thread\'s other guard protects and by reclamation points; non-trivial = distinct sequences / overlapping histories',
                  ['pointer identities are heap block numbers (never dereferenced)', 'MaxUpperMarkBits is the default 16 in the real instantiations'])
