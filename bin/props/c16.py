# C16 - lock-free operations finish in bounded solo steps from every reachable state
import json, re
from xvlib import *

# (driver, program, solo-every, max carrier executions)
PROBES = [
    ('deque', 'g2;push1,push2;push3,pop,push4;steal,steal', 2), ('deque', 'g2;push40,steal,push41,steal,push1,push2;push3,pop;steal;steal', 3),
    ('queue_ms', 'ms/hp3/I;push1;push2,pop;pop,push3', 4), ('queue_ms', 'ms/ebr0/I;;push1,push2;pop,pop', 4), ('queue_ms', 'ms/stamp/I;push1;push2,pop;pop', 5),
    ('queue_ram', 'ram21/hp3/I;push1;push2,push3;pop,pop', 4), ('queue_ram', 'ram10/qsbr/I;;push1,push2;pop,pop', 4),
    # a popper next to a pusher that is stopped between linking a new node and swinging _tail (helping, not waiting)
    ('queue_ram', 'ram10/ebr0/I;push1;push2;pop,pop', 3), ('queue_nik', 'nik10/ebr0/I;push1;push2;pop,pop', 5), ('queue_ms', 'ms/ebr0/I;push1;push2;pop,pop', 3),
    ('queue_nik', 'nik21/ebr0/I;push1;push2,pop;pop,push3', 6), ('queue_nik', 'nik10/hp3/I;;push1,push2;pop,pop', 6),
    ('queue_bounded', 'nkb2/-/I;push1;push2,pop;pop,push3', 4), ('queue_bounded', 'vyu2/-/I;push1;wpush2,wpop;wpop,wpush3', 3),
    ('queue_kirsch', 'kf2/hp3/P;push1;push2,pop;pop,push3', 5), ('queue_kirsch', 'bkf2s2/-/P;push1;push2,pop;pop,push3', 4),
    ('hm', 'set/hp3;emp1,emp3;emp2,era1;con2,era3', 5), ('hm', 'map2mc/ebr0;emp1,emp2;era1,goe3;trav', 5), ('hm', 'set/he3;emp1,emp2,emp3;trave1;era2,emp2', 6),
    ('vy', 'vy1iic/hp3;emp1,emp2,emp3,emp4;get4,get1;get2', 6),
    # a lock-free reader against an eraser that is stopped inside its critical section (delete marker set, key being moved): complete bound-1 carriers
    ('vy', 'vy1iic/ebr0;emp1,emp2,emp3;era1;get3,get1', 1, 400), ('vy', 'vy128iic/ebr0;emp1,emp2,emp3,emp4,emp5;era2;get5,get2', 1, 400),
    ('vy', 'vy128sic/hp3;emp1,emp2,emp3,emp4;ext1;get4,get1', 2, 200),
    ('seqlock', 's2b16;;store2,update10;load,load', 2), ('seqlock', 's3b24;;store2,store3;load;load', 2),
    ('leftright', 'lr;;update10,update5;load,load', 2),
    ('reclaim', 'hp3;;swp0:0,acq1:1;acq0:0,cpy0:1,rst0,tch1', 5), ('reclaim', 'ebr0;;swp0:0,swp0:0;acq0:0,tch0', 5), ('reclaim', 'he3;;swp0:0,acq1:1;acqe0:0,tch0', 5),
    ('reclaim', 'stamp;;swp0:0,swp1:1;acq0:0,acq1:1', 7), ('reclaim', 'qsbr;;swp0:0;acq0:0,tch0', 5), ('reclaim', 'lfrc;;swp0:0,swp0:0;acq0:0,tch0', 4),
    ('reclaim', 'nebr0;;rgn1,acq0:0,rgn0;swp0:0,swp0:0', 5), ('reclaim', 'debra0;;swp0:0,acq1:1;acq0:0', 5),
    # guard release / reclaim are operations of their own (call / ret around reset() and reclaim()): a leaving thread next to a thread stopped anywhere
    # inside its region entry (stamp_it: between the inserting CAS and the store that completes the pending stamp) - complete bound-1 carriers
    ('reclaim', 'stamp;;acq0:0,rst0;acq0:0,rst0', 1, 400), ('reclaim', 'stamp;;acq0:0,rst0;swp0:0', 2, 200),
    ('reclaim', 'ebr0;;acq0:0,rst0;swp0:0,swp0:0', 3), ('reclaim', 'qsbr;;acq0:0,rst0;swp0:0,swp0:0', 3), ('reclaim', 'he3;;acq0:0,rst0;swp0:0,swp0:0', 3),
    ('reclaim', 'hp3;;acq0:0,rst0;swp0:0,swp0:0', 3), ('reclaim', 'lfrc;;acq0:0,rst0;swp0:0,swp0:0', 3),
]
BOUND = 400


def solo_validate(ctx, name, xs):
    d = ctx.sub('tv_' + name)
    stage_specs(d)
    open(os.path.join(d, 'v.cfg'), 'w').write('INIT Init\nNEXT Next\nCHECK_DEADLOCK FALSE\n')
    rc, out = sh('cd %s && timeout 600 tlc -workers 1 -metadir %s/md -config v.cfg Solo_Check.tla' % (d, d), tmo=630, env={'TRACE': xs['trace'], 'SOLO_BOUND': str(BOUND)})
    shutil.rmtree(os.path.join(d, 'md'), ignore_errors=True)
    m = re.search(r'<<"SOLO", (\d+), (\d+), (\d+), (\d+)>>', out)
    if not m:
        log(out[-2000:])
        raise Infra('solo validation did not run')
    n, bad, first, mx = (int(x) for x in m.groups())
    res = {'name': name, 'module': 'Solo_Check', 'driver': xs['driver'], 'executions': n, 'accepted': n - bad, 'rejected': [first] if bad else [], 'wall_s': xs['wall_s'],
           'tlc_distinct': 1, 'tlc_generated': 1, 'trace': xs['trace'], 'executions_run': xs['executions'], 'programs': 1, 'truncated': xs['truncated'],
           'nontrivial': n, 'max_solo_steps': mx}
    ctx.tv.append(res)
    log('  T %-28s solo probes=%d blocked/over bound=%d max steps=%d' % (name, n, bad, mx))
    if bad:
        lines = open(xs['trace']).read().splitlines()
        rec = json.loads(lines[first - 1])
        # the reset record before it carries the trace number -> schedule
        num = None
        for l in reversed(lines[:first - 1]):
            if l.startswith('{"e":"reset"'):
                num = json.loads(l)['a']
                break
        sched = read_sched(xs['trace']).get(num)
        diag = {'sched': sched, 'record': lines[first - 1], 'lines': [lines[first - 1]]}
        p = write_replay(ctx, name, xs['driver'], 'Solo_Check', {}, diag, num, '--solo-at %d --solo-thread %d' % (rec['a'], rec['t']))
        ctx.violations.append({'what': '%s: solo continuation of %s (thread %d at point %d) did not finish: %s' % (name, rec['op'], rec['t'], rec['a'], lines[first - 1]), 'replay': p})
    return res


def run(ctx):
    drivers = sorted({p[0] for p in PROBES})
    build(drivers)
    q = ctx.quick
    from props import solo_models
    solo_models.run_models(ctx)

    def one(i):
        drv, prog, every = PROBES[i][:3]
        deep = PROBES[i][3] if len(PROBES[i]) > 3 else 0
        xs = explore(ctx, 'solo_%d_%s' % (i, drv), drv, [prog], mode='solo', pb=1 if q else 2, max_exec=max(deep, 12) if q else max(150, 4 * deep),
                     extra='--solo-every %d' % (every if q else max(1, every // 2)), tmo=1500)
        return solo_validate(ctx, xs['name'], xs)
    run_parallel([lambda i=i: one(i) for i in range(len(PROBES))], maxw=14)
    ctx.samples.append({'solo_probe': 'driver %s program %s' % (PROBES[0][0], PROBES[0][1]), 'record': '{"e":"solo","t":0,"op":"push","a":1,"r":8,"v":1}'})
    return finish(ctx,
                  'M: every impl spec is extended with a solo mode (from ANY reachable state one thread inside a lock-free operation runs alone; it must '
                  'return within a bounded number of its own steps and never be disabled) and TLC checks it exhaustively; T: for explored interleavings of the '
                  'real code (deque, all queues, Harris-Michael set/map incl. iteration, vyukov try_get_value, seqlock load with >1 slot, left_right read, guard '
                  'operations of every reclaimer scheme) xvrt replays a prefix, stops all other threads where they are and runs one thread alone until its '
                  'operation returns; TLC checks that every probe completes within %d steps; non-trivial = probes started with another thread mid-operation' % BOUND,
                  ['operations documented as blocking (strong vyukov, seqlock store/update/1-slot load, left_right update, locking hash-map operations) are excluded',
                   'a thread that re-reads unchanged locations 3 times without any write is considered waiting (4 wake-ups tolerated)'])
