# C17 - dynamic threads: bookkeeping is recycled; exited threads never block or leak
from xvlib import *
from props.reclaim_common import *

# generations: @k = starts when thread k has exited
PROGS = ['swp0:0,acq1:0;@0:acq0:0,swp1:1;@1:swp0:0,acq1:0',
         'acq0:0,swp1:1;swp0:0,acq1:1;@0:swp0:0,tch0;@1:acq1:1,swp1:0',
         'rgn1,acq0:0,rgn0,swp0:0;@0:swp0:0,swp0:1;@1:acq0:0,swp0:1;@2:swp0:0',
         'swp0:0;acq0:0,tch0,swp1:1;@0:swp0:0,swp1:1;@2:acq0:0,acq1:1']


def run(ctx):
    build(['reclaim'])
    q = ctx.quick
    from props import reclaim_models
    reclaim_models.run_models(ctx, 'C17')
    jobs = []
    cfgs = [c for c in ALL if not c.startswith('lfrc')] + ['lfrc']
    for c in cfgs:
        K = SLOTTED.get(c, 99)
        for i, p in enumerate(PROGS):
            if guards_needed(';' + p) > K:
                continue
            if q and c not in CORE and (i + ctx.seed + ALL.index(c)) % 2 != 0:
                continue
            jobs.append('%s;;%s' % (c, p))
    run_client(ctx, jobs, pb=2 if q else 3, max_exec=400 if q else 15000)
    djobs = ['%s;;%s' % (c, p) for c in (CORE if q else cfgs) for p in DIRECTED if guards_needed(';' + p) <= SLOTTED.get(c, 99)]
    run_client(ctx, djobs, pb=2 if q else 3, max_exec=3000 if q else 40000, tag='rd')
    if not q:
        run_client(ctx, jobs, pb=5, max_exec=0, mode='random', runs=600)
    for r in ctx.tv[:2]:
        ctx.samples.append({'driver': 'reclaim', 'history': canonical_sample(execution_lines(r['trace'], 2), 80)})
    return finish(ctx,
                  'T: programs of 2-4 generations of overlapping threads (a thread starts when an earlier one has exited) performing guarded accesses and '
                  'retirements run on every reclaimer under every schedule (bound 2/3); TLC checks on each execution: C01/C02 monitors across record reuse, '
                  'the census after the flush (an exited thread never keeps objects from being reclaimed), and that the number of thread records allocated '
                  '(allocations made inside thread_block_list, found by call-site symbolization) stays <= peak number of simultaneously live threads + 1; '
                  'M: HazardPointer impl spec (slot/record state under all interleavings)',
                  ['sequential consistency at atomic-access granularity', 'lock_free_ref_count has no per-thread records (only the C01/C02 part applies)'])
