# C18 - hazard pointer / era slots: K available, exhaustion reported, slots reusable
import random, itertools
from xvlib import *
from props.reclaim_common import *


def seqs(K, rnd, n_random, length):
    ng = min(K + 2, 4)
    ops = []
    for g in range(ng):
        for c in range(3):
            ops.append('acq%d:%d' % (c, g))
        ops.append('rst%d' % g)
        ops.append('acqe%d:%d' % (g % 3, g))
    for g in range(ng):
        for h in range(ng):
            if g != h:
                ops += ['cpy%d:%d' % (g, h), 'mov%d:%d' % (g, h)]
    ops += ['swg0:1', 'swp0:0', 'swp1:1', 'cgd0:0', 'cgd0:1']
    out = []
    # bounded exhaustive: fill K+1 guards in every order, then release one and retry
    for perm in itertools.permutations(range(ng), min(ng, K + 1)):
        s = ['acq%d:%d' % (i % 3, g) for i, g in enumerate(perm)]
        s += ['rst%d' % perm[0], 'acq0:%d' % perm[-1], 'tch%d' % perm[-1]]
        out.append(','.join(s))
    for a in ops[:12]:
        for b in ops:
            out.append('acq0:0,acq1:1,%s,%s,tch0,tch1' % (a, b) if K >= 2 else 'acq0:0,%s,%s,tch0' % (a, b))
    # era-sensitive patterns (hazard eras share a slot between guards of the same era): guards copied from each other,
    # then the era advances (swp retires a node) and one of the sharing guards re-acquires
    for adv in ('swp2:3', 'swp1:3,swp2:3'):
        for re in ('acqe1:1', 'acq1:1', 'acqe0:1', 'acq2:1', 'cpy0:2,acq1:2'):
            out.append('acq0:0,cpy0:1,%s,%s,tch0,tch1,%s,rst0,%s,tch1' % (adv, re, adv, re))
            out.append('acq0:0,cpy0:1,cpy1:2,%s,%s,%s,tch0,tch1,tch2' % (adv, re, re.replace(':1', ':2')))
    # exhaustion reached by a copy / an acquisition onto an EMPTY guard: the guard that failed must stay empty (or really protect);
    # afterwards a slot is released, the object is retired through another guard (scan) and the failed guard is used again
    if K + 1 <= ng:
        fill = ','.join('acq%d:%d' % (i % 3, i) for i in range(K))
        other = 1 if K >= 2 else 0
        for fail in ('cpy0:%d' % K, 'acq0:%d' % K, 'acqe0:%d' % K, 'mov0:%d,cpy%d:0' % (K, K)):
            out.append('%s,%s,rst0,swp0:%d,tch%d' % (fill, fail, other, K))
            out.append('%s,%s,rst%d,acq0:%d,rst0,swp0:%d,tch%d' % (fill, fail, other, K, other, K))
            out.append('%s,%s,rst%d,acq0:%d,tch%d,rst0,swp0:%d,swp1:%d,tch%d' % (fill, fail, other, K, K, other, other, K))
    # guards that hold a (marked) NULL pointer - acquired from a cell that was emptied (nul) - are copy-constructed and dropped; no slot may get lost:
    # afterwards the thread cycles a guard and fills all its K guards again (seeded change c18_5: copy construction of an empty hazard_eras guard
    # shared the era slot without counting the copy).  K >= 2 only: the empty guard and its copy may each occupy a slot.
    if K >= 2:
        kk = min(K, 4)
        refill = ','.join('acq%d:%d' % (1 + i % 2, i) for i in range(kk)); tch = ','.join('tch%d' % i for i in range(kk)); drop = ','.join('rst%d' % i for i in range(kk))
        cyc = 'acq1:0,tch0,rst0'
        for use in ('cgd0:0', 'cgd0:0,cgd0:0'):
            out.append('nul0:1,acq0:0,%s,rst0,%s,%s,%s,%s,%s' % (use, refill, tch, drop, refill, tch))
            out.append('nul0:1,acq0:0,%s,rst0,%s,%s,%s,%s,%s' % (use, cyc, cyc, cyc, refill, tch))
            out.append('nul0:1,acq0:0,%s,acq1:0,tch0,rst0,%s,%s,%s' % (use, cyc, refill, tch))
    for i in range(n_random):
        out.append(','.join(rnd.choice(ops) for _ in range(length)))
    return out


def era_ladder_exhaustion(K, sharing):
    """two threads, ordered by sig / wai: thread 0 fills its K slots with guards taken in K DIFFERENT eras (thread 1 retires a node between them, which
       advances the era clock), the victim cell V gets a node born after the newest slot's era, an acquisition of V fails for lack of slots, a guard is
       released (or - sharing - only a copy that shared the newest slot, so that no slot becomes free), the acquisition is retried, thread 1 retires the
       victim and scans, thread 0 dereferences what the retried guard holds.  Whatever the retry answers, a guard that was handed out must protect."""
    V, X = K, K + (1 if sharing else 0)
    t0, t1, f = [], [], 1
    for i in range(K):
        t0 += ['acq%d:%d' % (i, i), 'sig%d' % f]
        t1 += ['wai%d' % f, 'swp%d:0' % V] + (['swp%d:0' % V] if i == K - 1 else []) + ['sig%d' % (f + 1)]
        t0 += ['wai%d' % (f + 1)]
        f += 2
    if sharing:
        t0.insert(len(t0) - 2, 'cpy%d:%d' % (K - 1, K))          # before the era moves on: shares the newest slot
    t0 += ['acq%d:%d' % (V, X), 'rst%d' % (K if sharing else 0), 'acq%d:%d' % (V, X), 'sig%d' % f]
    t1 += ['wai%d' % f, 'swp%d:0' % V, 'swp%d:0' % V, 'sig%d' % (f + 1)]
    t0 += ['wai%d' % (f + 1), 'tch%d' % X] + ['tch%d' % i for i in range(1, K)]
    return ';%s;%s' % (','.join(t0), ','.join(t1))


def run(ctx):
    build(['reclaim'])
    q = ctx.quick
    from props import reclaim_models
    reclaim_models.run_models(ctx, 'C18')
    rnd = random.Random(ctx.seed)
    jobs = []
    for c, K in list(SLOTTED.items()) + [('hpd1', 0), ('hed1', 0)]:
        kk = K if K else 2
        for sq in seqs(kk, rnd, 25 if q else 400, 10 if q else 16):
            jobs.append('%s+g;;%s' % (c, sq))
        if K and K <= 3:
            jobs.append('%s+g;%s' % (c, era_ladder_exhaustion(K, False)))
            if K <= 2:
                jobs.append('%s+g;%s' % (c, era_ladder_exhaustion(K, True)))
        # interleaved with thread exit and control-block reuse, and with a second thread retiring
        jobs.append('%s+g;;acq0:0,acq1:1,acq2:2,rst0;@0:acq0:0,acq1:1,acq2:2,acq0:3;swp0:0,swp1:0' % c)
        jobs.append('%s+g;;acq0:0,cpy0:1,cpy1:2,mov2:3;swp0:0,swp0:0;@0:acq0:0,acq1:1,acq2:2' % c)
    run_client(ctx, jobs, pb=1 if q else 2, max_exec=60 if q else 3000)
    for r in ctx.tv[:2]:
        ctx.samples.append({'driver': 'reclaim', 'history': canonical_sample(execution_lines(r['trace'], 2), 80)})
    return finish(ctx,
                  'M: HazardPointer impl spec - slot free list conserved in every reachable state; T: guard-operation sequences (fill K+1 guards in every '
                  'order, all pairs of follow-up operations, random sequences of 10-16 operations) for K in {1,2,3,5} and the dynamic strategy, hazard '
                  'pointers and hazard eras, also across thread exit / control-block reuse; TLC checks against abs/Reclamation: exhaustion is reported '
                  'only when K guards of the thread hold a slot, all guard contents stay as the smart-pointer model predicts (existing guards keep '
                  'protecting), no object is destroyed under a guard, acquisition succeeds again after a release; non-trivial = sequences that reach exhaustion or overlap',
                  ['a copy-assignment target counts as holding a slot even if empty (the statement does not forbid it)',
                   'cells are null only in the marked-null copy-construction sequences'])
