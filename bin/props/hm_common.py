# shared by C08 / C09: harris_michael set / hash map on the real code, validated against abs/SetMap
from xvlib import *

HCONSTS = {'AbsInit': '<-SMInit', 'AbsCfg': '<-SMCfg', 'AbsStep': '<-SMStep', 'AbsFinal': '<-SMFinal', 'AbsEv': '<-SMEv'}
RECL = ['hp3', 'he3', 'lfrc', 'ebr0', 'nebr0', 'debra0', 'qsbr', 'stamp']
KINDS = ['set', 'map1mh', 'map2nh', 'map2mc', 'map1nc', 'map2mh']


def run_hm(ctx, jobs, pb, max_exec, mode='dfs', runs=0, nsh=14, tagx=''):
    import random
    jobs = list(jobs)
    random.Random(ctx.seed).shuffle(jobs)
    n = max(1, min(nsh, len(jobs) // 3 + 1))
    xs = run_parallel([lambda i=i: explore(ctx, '%shm_%s_%d' % (tagx, mode, i), 'hm', jobs[i::n], mode=mode, pb=pb, max_exec=max_exec, runs=runs)
                       for i in range(n)], maxw=n)

    def tv(x):
        res = check_histories(ctx, x['name'], 'hm', 'SetMap_Hist', HCONSTS, x)
        add_tv_stats(res, [x])
    run_parallel([lambda x=x: tv(x) for x in xs], maxw=8)
    return xs
