# M runs of the HarrisMichael impl spec (C08, C09)
from xvlib import *


def hm_consts(**kw):
    c = {'Threads': '<-ThreadsDef', 'MThreads': '<-ThreadsDef', 'Locs': '<-LocsDef', 'InitVal': '<-InitValDef', 'AbsStep': '<-SMStep',
         'Ord': '<-OrdCode', 'Weak': False, 'NT': 2, 'NNodes': 3, 'Keys0Set': '={1}', 'KeySet': '={1, 2}', 'MaxOps': 2, 'AllowIter': False,
         'RecheckPrev': True, 'MarkCheck': True, 'IterRetry': True, 'KeepCurGuard': True}
    c.update(kw)
    return c


INV = ['Linearizable', 'MemorySafe']
ACT_OPS = ['StartContains', 'StartErase', 'StartEmplace', 'f_start', 'f_ld0', 'f_acq', 'f_ldn', 'f_ldn2', 'f_unlink', 'f_chk', 'f_cmp', 'f_done', 'x_stn', 'x_cas', 'e_mark',
           'e_unlink', 'Destroy']
ACT_IT = ['StartTraversal', 'b_acq', 'it_pos', 'n_ld', 'n_acq', 'n_find']


def run_models(ctx, pid):
    q = ctx.quick
    jobs = []
    if pid == 'C08':
        jobs += [
            lambda: tlc_mc(ctx, 'hm_2t_2ops', 'HarrisMichael', hm_consts(), invariants=INV, view='mcview', workers=8, must_cover=ACT_OPS),
            lambda: tlc_mc(ctx, 'hm_2t_keys13', 'HarrisMichael', hm_consts(Keys0Set='={1, 3}', KeySet='={2, 3}', NNodes=4), invariants=INV, view='mcview', workers=8, tmo=1200),
            lambda: tlc_mc(ctx, 'hm_toggle_nomarkcheck', 'HarrisMichael', hm_consts(MarkCheck=False), invariants=INV, view='mcview', expect='violation', workers=6),
            # the guard on the successor dropped before the insertion CAS (harris_michael_hash_map::do_get_or_emplace_lazy before fix 25944dc): the
            # successor is destroyed, its id is handed to a new node that becomes prev's successor, the CAS succeeds at the wrong position (ABA)
            lambda: tlc_mc(ctx, 'hm_toggle_drop_successor_guard', 'HarrisMichael', hm_consts(Keys0Set='={1, 4}', KeySet='={2, 3, 4}', NNodes=3, MaxOps=3, KeepCurGuard=False),
                           invariants=INV, view='mcview', expect='violation', workers=10, tmo=900),
        ]
        if not q:
            jobs += [lambda: tlc_mc(ctx, 'hm_3t', 'HarrisMichael', hm_consts(NT=3, MaxOps=1, NNodes=4), invariants=INV, view='mcview', workers=12, tmo=3000, heap='24g'),
                     lambda: tlc_mc(ctx, 'hm_2t_3ops', 'HarrisMichael', hm_consts(MaxOps=3, NNodes=4), invariants=INV, view='mcview', workers=12, tmo=3000, heap='24g')]
        ctx.note('mechanism "re-read *prev after cur->next" (RecheckPrev = FALSE) yields no counterexample within the bounds: acquire_if_equal on the next '
                 'iteration and the CASes on *prev subsume it - not needed by any listed property')
    else:
        jobs += [
            lambda: tlc_mc(ctx, 'hm_iter_small', 'HarrisMichael', hm_consts(Keys0Set='={1, 3}', KeySet='={2}', MaxOps=1, AllowIter=True), invariants=INV,
                           view='mcview', workers=4),
            lambda: tlc_mc(ctx, 'hm_iter_2ops', 'HarrisMichael', hm_consts(Keys0Set='={1, 2}', KeySet='={1, 2}', MaxOps=2, AllowIter=True, NNodes=3), invariants=INV,
                           view='mcview', workers=10, tmo=1500, must_cover=ACT_IT),
            lambda: tlc_mc(ctx, 'hm_toggle_iter_oldcode', 'HarrisMichael', hm_consts(Keys0Set='={1, 3}', KeySet='={2}', MaxOps=1, AllowIter=True, IterRetry=False),
                           invariants=INV, view='mcview', expect='violation', workers=4),
        ]
        if not q:
            jobs += [lambda: tlc_mc(ctx, 'hm_iter_3keys', 'HarrisMichael', hm_consts(Keys0Set='={1, 2}', KeySet='={1, 2, 3}', MaxOps=2, AllowIter=True, NNodes=4),
                                    invariants=INV, view='mcview', workers=14, tmo=3000, heap='24g'),
                     lambda: tlc_mc(ctx, 'hm_iter_3t', 'HarrisMichael', hm_consts(NT=3, Keys0Set='={1, 2}', KeySet='={1, 2}', MaxOps=1, AllowIter=True, NNodes=4),
                                    invariants=INV, view='mcview', workers=14, tmo=3000, heap='24g')]
    run_parallel(jobs, maxw=3)
    ctx.samples.append({'model': 'HarrisMichael', 'constants': ctx.mc[0]['consts']})
