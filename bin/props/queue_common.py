# shared by C04-C07: queue drivers on the real code, validated against abs/Queues
from xvlib import *

HCONSTS = {'AbsInit': '<-QInit', 'AbsCfg': '<-QCfg', 'AbsStep': '<-QStep', 'AbsFinal': '<-QFinal', 'AbsEv': '<-QEv'}
RECL = ['hp3', 'he3', 'lfrc', 'ebr0', 'nebr0', 'debra0', 'qsbr', 'stamp']


def driver_of(cfg):
    p = cfg.split('/')[0]
    if p.startswith('ms'):
        return 'queue_ms'
    if p.startswith('ram'):
        return 'queue_ram'
    if p.startswith('nik'):
        return 'queue_nik'
    if p.startswith('vyu') or p.startswith('nkb'):
        return 'queue_bounded'
    return 'queue_kirsch'


def run_queues(ctx, jobs, pb, max_exec, mode='dfs', runs=0, nsh=14, tagx='', per_driver=None):
    """jobs: program strings (config first). Grouped by driver, explored in shards, validated against Queue_Hist."""
    import random
    by = {}
    for j in jobs:
        by.setdefault(driver_of(j.split(';')[0]), []).append(j)
    tasks = []
    for drv, js in by.items():
        random.Random(ctx.seed).shuffle(js)
        n = max(1, min(nsh, len(js) // 4 + 1))
        for i in range(n):
            tasks.append((drv, '%s%s_%s_%d' % (tagx, drv, mode, i), js[i::n]))
    pd = per_driver or {}
    xs = run_parallel([lambda t=t: explore(ctx, t[1], t[0], t[2], mode=mode, pb=pb, max_exec=pd.get(t[0], max_exec), runs=runs) for t in tasks], maxw=14)

    def tv(x):
        res = check_histories(ctx, x['name'], x['driver'], 'Queue_Hist', HCONSTS, x, known_preds=['C06_HeadTagBump'] if x['driver'] == 'queue_kirsch' else (['C05_ThresholdUnderflow'] if x['driver'] == 'queue_bounded' else ()))
        add_tv_stats(res, [x])
    run_parallel([lambda x=x: tv(x) for x in xs], maxw=8)
    return xs
