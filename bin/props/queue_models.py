# M runs of the queue impl specs
from xvlib import *
import re, os


def ms_consts(**kw):
    c = {'Threads': '<-ThreadsDef', 'MThreads': '<-ThreadsDef', 'Locs': '<-LocsDef', 'InitVal': '<-InitValDef', 'AbsStep': '<-QStep',
         'Ord': '<-OrdCode', 'Weak': False, 'NT': 2, 'NNodes': 3, 'MaxPush': 1, 'MaxPop': 2, 'HelpTail': True, 'HeadRecheck': True}
    c.update(kw)
    return c


def vy_consts(**kw):
    c = {'Threads': '<-ThreadsDef', 'MThreads': '<-ThreadsDef', 'Locs': '<-LocsDef', 'InitVal': '<-InitValDef', 'AbsStep': '<-QStep',
         'Ord': '<-OrdCode', 'Weak': False, 'NT': 2, 'Cap': 2, 'MaxPush': 2, 'MaxPop': 2, 'AllowWeak': False, 'StrongRecheck': True}
    c.update(kw)
    return c


def nq_consts(**kw):
    c = {'MThreads': '<-Threads', 'AbsStep': '<-QStep', 'NT': 2, 'Cap': 1, 'PopRetries': 0, 'MaxNodes': 3, 'Progs': '<-ProgLost', 'SetupOps': 1,
         'Bounded': False, 'KeepFin': True, 'SecondLook': True, 'HelpTail': nikolaev_helps_tail()}
    c.update(kw)
    return c


def rq_consts(**kw):
    c = {'Threads': '<-ThreadsDef', 'MThreads': '<-ThreadsDef', 'Locs': '<-LocsDef', 'InitVal': '<-InitValDef', 'AbsStep': '<-QStep', 'Ord': '<-OrdCode', 'Weak': False,
         'NT': 2, 'NNodes': 3, 'EPN': 1, 'PopRetries': 0, 'Progs': '<-ProgLost', 'SetupOps': 0,
         'Invalidate': True, 'ResetPushIdx': True, 'DtorClamp': True, 'EmptyNeedsNext': True, 'HelpTail': ramalhete_helps_tail()}
    c.update(kw)
    if 'StepSz' not in c:
        c['StepSz'] = ramalhete_step_size(c['EPN'])
    return c


def ramalhete_step_size(epn=1):
    """step_size is a private constant of ramalhete_queue: read from the tree - a literal, or (since fix: C04-ramalhete-step-size) the first prime of a
       list that does not divide entries_per_node (default 11)"""
    try:
        src = open(os.path.join(REPO, 'xenium/ramalhete_queue.hpp')).read()
        m = re.search(r'static constexpr unsigned step_size = (\d+);', src)
        if m:
            return int(m.group(1))
        m = re.search(r'primes\[\] = \{([0-9, ]+)\}', src)
        if m and 'calc_step_size(entries_per_node)' in src:
            for p in [int(x) for x in m.group(1).split(',')]:
                if epn % p != 0:
                    return p
            return 1
        return 11
    except Exception:
        return 11


def nikolaev_helps_tail():
    """structural parameter read from the tree: does do_pop() write _tail? (the step-level binding checks the accesses themselves)"""
    try:
        src = open(os.path.join(REPO, 'xenium/nikolaev_queue.hpp')).read()
        body = src[src.index('::do_pop(SuccessFunc successFunc'):]
        return '_tail.compare_exchange' in body
    except Exception:
        return True


def ramalhete_helps_tail():
    """structural parameter of the impl spec read from the tree: does pop() touch _tail at all? (a pop that never writes _tail cannot
       keep it from lagging behind _head; the step-level binding checks the accesses themselves)"""
    try:
        src = open(os.path.join(REPO, 'xenium/ramalhete_queue.hpp')).read()
        body = src[src.index('::pop() -> std::optional'):]
        return '_tail.compare_exchange' in body
    except Exception:
        return True


def kf_consts(**kw):
    c = {'Threads': '<-ThreadsDef', 'MThreads': '<-ThreadsDef', 'Locs': '<-LocsDef', 'InitVal': '<-InitValDef', 'AbsStep': '<-QStep', 'Ord': '<-OrdCode', 'Weak': False,
         'NT': 2, 'K': 1, 'NSegs': 3, 'Progs': '<-ProgLost', 'SetupOps': 0, 'Committed': True, 'MarkDeleted': True, 'HeadTagBump': True, 'TailFirst': True}
    c.update(kw)
    return c


def kb_consts(**kw):
    c = {'Threads': '<-ThreadsDef', 'MThreads': '<-ThreadsDef', 'Locs': '<-LocsDef', 'InitVal': '<-InitValDef', 'AbsStep': '<-QStep', 'Ord': '<-OrdCode', 'Weak': False,
         'NT': 2, 'K': 1, 'NSegsB': 3, 'IdxBits': 16, 'Progs': '<-ProgLost', 'SetupOps': 0, 'Committed': True, 'HeadTagBump': True, 'FullChecksTag': True, 'PopMovesTail': True}
    c.update(kw)
    return c


KB_ACTIONS = ['StartPush', 'b_ldt', 'b_ldh', 'f_rnd', 'f_ld', 'b_ldt2', 'b_cas', 'k_ld', 'k_ldt', 'k_ldh', 'k_bump', 'b_done', 'b_qf', 's_ld', 'b_tinc',
              'StartPop', 'p_ldh', 'p_ldt', 'p_ldh2', 'p_tinc', 'p_cas', 'p_ldt2', 'p_hinc', 'QueueDtor']
KF_ACTIONS = ['StartPush', 'u_acqt', 'f_rnd', 'f_ld', 'u_ldt', 'u_cas', 'c_ld', 'c_del', 'c_ldh', 'c_bump', 'u_done', 't_ldn', 't_ldt', 't_swing', 't_alloc', 't_link', 't_swing2',
              'StartPop', 'o_acqh', 'o_ldh', 'o_ldt', 'o_cas', 'o_ldt2', 'h_ldn', 'h_ldh', 'h_del', 'h_cas', 'Destroy', 'QueueDtor']
INV_KF = ['Linearizable', 'Conservation', 'Ownership', 'ConservedAtEnd']
RQ_ACTIONS = ['StartPush', 'p_acqt', 'p_faa', 'p_ldt', 'p_ldn', 'p_new', 'p_link', 'p_swing', 'p_reset', 'p_del', 'p_ldn2', 'p_help', 'p_cas', 'StartPop', 'q_acqh',
              'q_ldpop', 'q_ldpush', 'q_ldnx0', 'q_faa', 'q_ldnx', 'q_ldt', 'q_help', 'q_cas', 'q_ldent', 'q_ldacq', 'q_xchg', 'Destroy', 'QueueDtor']
INV_RQ = ['Linearizable', 'Conservation', 'Ownership', 'ConservedAtEnd']
NQ_ACTIONS = ['StartPush', 'StartPop', 'e_faa', 'e_ld', 'e_chk', 'e_cas', 'e_thr', 'e_sthr', 'd_thr', 'd_faa', 'd_ld', 'd_chk', 'd_for', 'd_cas', 'd_after',
              'c_cas', 'd_fsube', 'd_fsub', 'p_tail', 'p_next', 'p_help', 'tp_deq', 'tp_enq', 'p_new', 'p_link', 'p_swing', 'q_head', 'q_deq1', 'q_thr',
              'q_deq2', 'q_cas', 'q_take', 'q_done', 'Destroy']
INV_NQ = ['Linearizable', 'Conservation', 'ConservedAtEnd', 'MemorySafe']
MS_ACTIONS = ['StartPush', 'p_init', 'p_acqt', 'p_ldn', 'p_help', 'p_link', 'p_swing', 'StartPop', 'q_acqh', 'q_acqn', 'q_ldh', 'q_null', 'q_ldt',
              'q_help', 'q_cas', 'q_data', 'Destroy']
VY_ACTIONS = ['StartPush', 'LdTo', 'u_seq', 'u_cas', 'u_pos2', 'u_deq', 'u_data', 'u_pub', 'StartPop', 'o_seq', 'o_cas', 'o_pos2', 'o_enq', 'o_data', 'o_pub']
INV_MS = ['Linearizable', 'MemorySafe']


def run_models(ctx, pid):
    q = ctx.quick
    jobs = []
    if pid in ('C04', 'C07'):
        jobs += [
            lambda: tlc_mc(ctx, 'ms_2t_1push2pop', 'MSQueue', ms_consts(), invariants=INV_MS, view='mcview', workers=6),
            lambda: tlc_mc(ctx, 'ms_2t_2push1pop', 'MSQueue', ms_consts(NNodes=4, MaxPush=2, MaxPop=1), invariants=INV_MS, view='mcview', workers=8, tmo=1500,
                           must_cover=MS_ACTIONS),
            lambda: tlc_mc(ctx, 'ms_toggle_nohelp', 'MSQueue', ms_consts(HelpTail=False), invariants=INV_MS, view='mcview', expect='violation'),
        ]
        # nikolaev_queue over the bit-level SCQ rings: node hand-over, finalization, the second look of do_pop
        jobs += [
            lambda: tlc_mc(ctx, 'nq_stalled_push', 'NikolaevQueue', nq_consts(), invariants=INV_NQ, view='mcview', workers=6, must_cover=NQ_ACTIONS),
            lambda: tlc_mc(ctx, 'nq_2push_2pop', 'NikolaevQueue', nq_consts(Progs='<-ProgPP', SetupOps=0), invariants=INV_NQ, view='mcview', workers=4),
            lambda: tlc_mc(ctx, 'nq_toggle_catchup_drops_finalized', 'NikolaevQueue', nq_consts(KeepFin=False), invariants=INV_NQ, view='mcview',
                           workers=4, expect='violation'),
            lambda: tlc_mc(ctx, 'nq_lagging_tail', 'NikolaevQueue', nq_consts(Progs='<-ProgTail', SetupOps=0), invariants=INV_NQ, view='mcview', workers=4,
                           must_cover=['q_ldt', 'q_helpt']),
            lambda: tlc_mc(ctx, 'nq_toggle_tail_lags', 'NikolaevQueue', nq_consts(Progs='<-ProgTail', SetupOps=0, HelpTail=False), invariants=INV_NQ, view='mcview',
                           workers=4, expect='violation'),
            lambda: tlc_mc(ctx, 'nq_toggle_no_second_look', 'NikolaevQueue', nq_consts(Progs='<-ProgPP', SetupOps=0, SecondLook=False), invariants=INV_NQ,
                           view='mcview', workers=4, expect='violation'),
        ]
        # ramalhete_queue over the adversarial abstract reclaimer, incl. element ownership and the node / queue destructors
        jobs += [
            lambda: tlc_mc(ctx, 'rq_lost', 'Ramalhete', rq_consts(), invariants=INV_RQ, view='mcview', workers=6, must_cover=RQ_ACTIONS),
            lambda: tlc_mc(ctx, 'rq_full_node', 'Ramalhete', rq_consts(Progs='<-ProgFull', NNodes=4), invariants=INV_RQ, view='mcview', workers=4),
            lambda: tlc_mc(ctx, 'rq_epn2_retries', 'Ramalhete', rq_consts(Progs='<-ProgFull', EPN=2, PopRetries=1), invariants=INV_RQ, view='mcview', workers=4),
            # index step and node size not coprime (entries_per_node a multiple of 11 before fix: C04-ramalhete-step-size): the index sequence
            # does not visit every entry once
            lambda: tlc_mc(ctx, 'rq_toggle_step_not_coprime', 'Ramalhete', rq_consts(Progs='<-ProgFull', EPN=2, StepSz=2, NNodes=4), invariants=INV_RQ, view='mcview', workers=4,
                           expect='violation'),
            lambda: tlc_mc(ctx, 'rq_toggle_tail_lags', 'Ramalhete', rq_consts(Progs='<-ProgTail', HelpTail=False), invariants=INV_RQ, view='mcview', workers=4, expect='violation'),
            lambda: tlc_mc(ctx, 'rq_toggle_no_invalidate', 'Ramalhete', rq_consts(Progs='<-ProgPP', Invalidate=False), invariants=INV_RQ, view='mcview', workers=4,
                           expect='violation'),
            lambda: tlc_mc(ctx, 'rq_toggle_empty_ignores_next', 'Ramalhete', rq_consts(Progs='<-ProgPP', EmptyNeedsNext=False), invariants=INV_RQ, view='mcview',
                           workers=4, expect='violation'),
            lambda: tlc_mc(ctx, 'rq_toggle_no_dtor_clamp', 'Ramalhete', rq_consts(Progs='<-ProgPP', DtorClamp=False), invariants=INV_RQ, view='mcview',
                           workers=4, expect='violation'),
            lambda: tlc_mc(ctx, 'rq_toggle_no_pushidx_reset', 'Ramalhete', rq_consts(Progs='<-ProgFull', ResetPushIdx=False), invariants=INV_RQ, view='mcview',
                           workers=4, expect='violation'),
        ]
        if not q:
            jobs += [lambda: tlc_mc(ctx, 'rq_mix', 'Ramalhete', rq_consts(Progs='<-ProgMix'), invariants=INV_RQ, view='mcview', workers=6),
                     lambda: tlc_mc(ctx, 'rq_mix_epn2', 'Ramalhete', rq_consts(Progs='<-ProgMix', EPN=2), invariants=INV_RQ, view='mcview', workers=6),
                     lambda: tlc_mc(ctx, 'rq_3t', 'Ramalhete', rq_consts(NT=3, Progs='<-Prog3', NNodes=4), invariants=INV_RQ, view='mcview', workers=12, tmo=3000, heap='24g'),
                     lambda: tlc_mc(ctx, 'rq_3producers', 'Ramalhete', rq_consts(NT=3, Progs='<-Prog3P', NNodes=4), invariants=INV_RQ, view='mcview', workers=12, tmo=3000,
                                    heap='24g')]
        if not q:
            jobs += [lambda: tlc_mc(ctx, 'nq_mix', 'NikolaevQueue', nq_consts(Progs='<-ProgMix', SetupOps=0), invariants=INV_NQ, view='mcview', workers=8, tmo=1500),
                     lambda: tlc_mc(ctx, 'nq_mix_cap2', 'NikolaevQueue', nq_consts(Progs='<-ProgMix', SetupOps=0, Cap=2), invariants=INV_NQ, view='mcview', workers=8, tmo=1500),
                     lambda: tlc_mc(ctx, 'nq_retries', 'NikolaevQueue', nq_consts(PopRetries=1), invariants=INV_NQ, view='mcview', workers=8, tmo=1500),
                     lambda: tlc_mc(ctx, 'nq_3t', 'NikolaevQueue', nq_consts(NT=3, Progs='<-Prog3', SetupOps=0, MaxNodes=4), invariants=INV_NQ, view='mcview',
                                    workers=12, tmo=3000, heap='24g')]
        if not q:
            jobs += [lambda: tlc_mc(ctx, 'ms_2t_2push2pop', 'MSQueue', ms_consts(NNodes=4, MaxPush=2, MaxPop=2), invariants=INV_MS, view='mcview', workers=8, tmo=1500),
                     lambda: tlc_mc(ctx, 'ms_3t', 'MSQueue', ms_consts(NT=3, NNodes=4, MaxPush=1, MaxPop=1), invariants=INV_MS, view='mcview', workers=12,
                                    tmo=3000, heap='24g'),
                     lambda: tlc_mc(ctx, 'ms_2t_3ops', 'MSQueue', ms_consts(NNodes=5, MaxPush=3, MaxPop=3), invariants=INV_MS, view='mcview', workers=12,
                                    tmo=3000, heap='24g')]
        ctx.note('mechanism "head re-check in pop_node" (HeadRecheck = FALSE) yields no counterexample: the payload is read only after the head CAS, '
                 'which subsumes the check - not needed by any listed property')
    if pid in ('C05', 'C07'):
        # nikolaev_bounded_queue: the same bit-level SCQ rings, one pair of them
        jobs += [
            lambda: tlc_mc(ctx, 'nkb_cap1', 'NikolaevQueue', nq_consts(Bounded=True, Progs='<-ProgFill', SetupOps=0, MaxNodes=1), invariants=INV_NQ, view='mcview', workers=6,
                           must_cover=['b_deq', 'b_enq', 'b_pdeq', 'd_for', 'e_cas', 'c_cas']),
            lambda: tlc_mc(ctx, 'nkb_cap2', 'NikolaevQueue', nq_consts(Bounded=True, Cap=2, Progs='<-ProgFill', SetupOps=0, MaxNodes=1), invariants=INV_NQ, view='mcview',
                           workers=6, tmo=900),
        ]
        if not q:
            jobs += [lambda: tlc_mc(ctx, 'nkb_cap2_retries', 'NikolaevQueue', nq_consts(Bounded=True, Cap=2, PopRetries=1, Progs='<-ProgMix', SetupOps=0, MaxNodes=1),
                                    invariants=INV_NQ, view='mcview', workers=8, tmo=1500),
                     lambda: tlc_mc(ctx, 'nkb_3t', 'NikolaevQueue', nq_consts(Bounded=True, Cap=2, NT=3, Progs='<-Prog3', SetupOps=0, MaxNodes=1), invariants=INV_NQ,
                                    view='mcview', workers=12, tmo=3000, heap='24g')]
        jobs += [
            lambda: tlc_mc(ctx, 'vy_strong', 'VyukovBounded', vy_consts(), invariants=['Linearizable'], view='mcview', workers=6),
            lambda: tlc_mc(ctx, 'vy_weakmix', 'VyukovBounded', vy_consts(AllowWeak=True), invariants=['Linearizable'], view='mcview', workers=8,
                           tmo=1500, must_cover=VY_ACTIONS),
            lambda: tlc_mc(ctx, 'vy_toggle_norecheck', 'VyukovBounded', vy_consts(StrongRecheck=False), invariants=['Linearizable'], view='mcview',
                           expect='violation'),
        ]
        if not q:
            jobs += [lambda: tlc_mc(ctx, 'vy_cap4', 'VyukovBounded', vy_consts(Cap=4, MaxPush=3, MaxPop=3), invariants=['Linearizable'], view='mcview',
                                    workers=12, tmo=3000, heap='24g'),
                     lambda: tlc_mc(ctx, 'vy_3laps', 'VyukovBounded', vy_consts(MaxPush=3, MaxPop=3), invariants=['Linearizable'], view='mcview',
                                    workers=12, tmo=3000, heap='24g')]
    if pid in ('C06', 'C07'):
        # kirsch_kfifo_queue: segments, tagged slots, `committed`, advance_head / advance_tail, segment reclamation and the destructor
        jobs += [
            lambda: tlc_mc(ctx, 'kf_k1_lost', 'KirschKfifo', kf_consts(), invariants=INV_KF, view='mcview', workers=4, must_cover=KF_ACTIONS),
            lambda: tlc_mc(ctx, 'kf_k1_pp', 'KirschKfifo', kf_consts(Progs='<-ProgPP'), invariants=INV_KF, view='mcview', workers=3),
            lambda: tlc_mc(ctx, 'kf_toggle_no_committed', 'KirschKfifo', kf_consts(Committed=False), invariants=INV_KF, view='mcview', workers=3, expect='violation'),
            lambda: tlc_mc(ctx, 'kf_toggle_no_deleted_flag', 'KirschKfifo', kf_consts(MarkDeleted=False), invariants=INV_KF, view='mcview', workers=3, expect='violation'),
            lambda: tlc_mc(ctx, 'kf_toggle_no_head_tag_bump', 'KirschKfifo', kf_consts(HeadTagBump=False), invariants=INV_KF, view='mcview', workers=3, expect='violation'),
        ]
        if not q:
            jobs += [lambda: tlc_mc(ctx, 'kf_k2_lost', 'KirschKfifo', kf_consts(K=2), invariants=INV_KF, view='mcview', workers=6, tmo=900)]
        if not q:
            jobs += [lambda: tlc_mc(ctx, 'kf_k2_mix', 'KirschKfifo', kf_consts(K=2, Progs='<-ProgMix'), invariants=INV_KF, view='mcview', workers=6, tmo=1500),
                     lambda: tlc_mc(ctx, 'kf_k2_drain', 'KirschKfifo', kf_consts(K=2, Progs='<-ProgDrain'), invariants=INV_KF, view='mcview', workers=6, tmo=1500),
                     lambda: tlc_mc(ctx, 'kf_k1_full', 'KirschKfifo', kf_consts(Progs='<-ProgFull', NSegs=4), invariants=INV_KF, view='mcview', workers=6, tmo=1500),
                     lambda: tlc_mc(ctx, 'kf_k1_3t', 'KirschKfifo', kf_consts(NT=3, Progs='<-Prog3', NSegs=4), invariants=INV_KF, view='mcview', workers=12, tmo=3000, heap='24g')]
        # kirsch_bounded_kfifo_queue: ring of segments with tagged indices
        jobs += [
            lambda: tlc_mc(ctx, 'kb_k1s3_lost', 'KirschBounded', kb_consts(), invariants=INV_KF, view='mcview', workers=3),
            lambda: tlc_mc(ctx, 'kb_k2s1_lost', 'KirschBounded', kb_consts(K=2, NSegsB=1), invariants=INV_KF, view='mcview', workers=4, must_cover=KB_ACTIONS),
            lambda: tlc_mc(ctx, 'kb_k1s4_fill', 'KirschBounded', kb_consts(NSegsB=4, Progs='<-ProgFill'), invariants=INV_KF, view='mcview', workers=4),
            lambda: tlc_mc(ctx, 'kb_toggle_no_committed', 'KirschBounded', kb_consts(Committed=False), invariants=INV_KF, view='mcview', workers=3, expect='violation'),
            lambda: tlc_mc(ctx, 'kb_toggle_no_head_tag_bump', 'KirschBounded', kb_consts(HeadTagBump=False), invariants=INV_KF, view='mcview', workers=3, expect='violation'),
        ]
        if pid == 'C06':
            # the known findings of the bounded queue are behaviours of the impl spec; their counterexamples are replayed on the real code (R)
            def finding(name, consts, prog, preds):
                r = tlc_mc(ctx, name, 'KirschBounded', consts, invariants=INV_KF, view='mcview', workers=3, expect='violation')
                from props.queue_common import HCONSTS
                replay_model_cex(ctx, name, r, 'queue_kirsch', prog, 'Queue_Hist', HCONSTS, known_preds=preds)
            jobs += [lambda: finding('kb_finding_push_rollback', kb_consts(NSegsB=1), 'bkf1s1/-/P;;push1,push2,pop;pop,push3', ['C06_PushRollback', 'C06_HeadTagBump']),
                     lambda: finding('kb_finding_head_tag', kb_consts(NSegsB=2), 'bkf1s2/-/P;;push1,push2,pop;pop,push3', ['C06_PushRollback', 'C06_HeadTagBump'])]
        if not q:
            jobs += [lambda: tlc_mc(ctx, 'kb_k2s2_lost', 'KirschBounded', kb_consts(K=2, NSegsB=2), invariants=INV_KF, view='mcview', workers=6, tmo=1500),
                     lambda: tlc_mc(ctx, 'kb_k2s1_fill', 'KirschBounded', kb_consts(K=2, NSegsB=1, Progs='<-ProgFill'), invariants=INV_KF, view='mcview', workers=6, tmo=1500),
                     lambda: tlc_mc(ctx, 'kb_k1s4_mix', 'KirschBounded', kb_consts(NSegsB=4, Progs='<-ProgMix'), invariants=INV_KF, view='mcview', workers=4),
                     lambda: tlc_mc(ctx, 'kb_k3s2_lost', 'KirschBounded', kb_consts(K=3, NSegsB=2), invariants=INV_KF, view='mcview', workers=8, tmo=2400, heap='24g')]
        ctx.note('mechanism "a pop that takes from the segment _tail points to advances _tail first" (PopMovesTail = FALSE) yields no counterexample within the bounds')
        ctx.note('mechanism "advance_head swings a tail_ that points to the head segment first" (TailFirst = FALSE) yields no counterexample: advance_head is only '
                 'reached with head = tail when tail_ has already moved on - not needed by any listed property')
    kinds = {'C04': [('fifo', 0, 1, 0)], 'C05': [('bounded', 2, 1, 0), ('nikbounded', 3, 1, 0)],
             'C06': [('kfifo', 0, 1, 0), ('kfifo', 0, 2, 0), ('kfifo', 0, 3, 0), ('bkfifo', 0, 2, 2), ('bkfifo', 0, 1, 1), ('bkfifo', 0, 3, 1), ('bkfifo', 0, 2, 3)],
             'C07': [('kfifo', 0, 2, 0)]}[pid]
    for (kind, cap, k, segs) in kinds:
        jobs.append(lambda kind=kind, cap=cap, k=k, segs=segs: tlc_mc(
            ctx, 'oracle_%s_c%dk%ds%d' % (kind, cap, k, segs), 'QueuesMC', {'Kind': kind, 'CapV': cap, 'KV': k, 'SegsV': segs, 'MaxOps': 7 if q else 9},
            invariants=['Conservation', 'KBound', 'CapBound'], properties=['SeqRules'], workers=2))
    if jobs:
        run_parallel(jobs, maxw=3)
        ctx.samples.append({'model': ctx.mc[0]['module'], 'constants': ctx.mc[0]['consts']})
