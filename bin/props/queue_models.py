# M runs of the queue impl specs
from xvlib import *


def ms_consts(**kw):
    c = {'Threads': '<-ThreadsDef', 'MThreads': '<-ThreadsDef', 'Locs': '<-LocsDef', 'InitVal': '<-InitValDef', 'AbsStep': '<-QStep',
         'Ord': '<-OrdCode', 'Weak': False, 'NT': 2, 'NNodes': 3, 'MaxPush': 1, 'MaxPop': 2, 'HelpTail': True, 'HeadRecheck': True}
    c.update(kw)
    return c


def vy_consts(**kw):
    c = {'Threads': '<-ThreadsDef', 'MThreads': '<-ThreadsDef', 'Locs': '<-LocsDef', 'InitVal': '<-InitValDef', 'AbsStep': '<-QStep',
         'Ord': '<-OrdCode', 'Weak': False, 'NT': 2, 'Cap': 2, 'MaxPush': 2, 'MaxPop': 2, 'AllowWeak': False, 'StrongRecheck': True}
    c.update(kw)
    return c


def nq_consts(**kw):
    c = {'MThreads': '<-Threads', 'AbsStep': '<-QStep', 'NT': 2, 'Cap': 1, 'PopRetries': 0, 'MaxNodes': 3, 'Progs': '<-ProgLost', 'SetupOps': 1,
         'Bounded': False, 'KeepFin': True, 'SecondLook': True}
    c.update(kw)
    return c


NQ_ACTIONS = ['StartPush', 'StartPop', 'e_faa', 'e_ld', 'e_chk', 'e_cas', 'e_thr', 'e_sthr', 'd_thr', 'd_faa', 'd_ld', 'd_chk', 'd_for', 'd_cas', 'd_after',
              'c_cas', 'd_fsube', 'd_fsub', 'p_tail', 'p_next', 'p_help', 'tp_deq', 'tp_enq', 'p_new', 'p_link', 'p_swing', 'q_head', 'q_deq1', 'q_thr',
              'q_deq2', 'q_cas', 'q_take', 'q_done']
INV_NQ = ['Linearizable', 'Conservation', 'ConservedAtEnd']
MS_ACTIONS = ['StartPush', 'p_init', 'p_acqt', 'p_ldn', 'p_help', 'p_link', 'p_swing', 'StartPop', 'q_acqh', 'q_acqn', 'q_ldh', 'q_null', 'q_ldt',
              'q_help', 'q_cas', 'q_data', 'Destroy']
VY_ACTIONS = ['StartPush', 'LdTo', 'u_seq', 'u_cas', 'u_pos2', 'u_deq', 'u_data', 'u_pub', 'StartPop', 'o_seq', 'o_cas', 'o_pos2', 'o_enq', 'o_data', 'o_pub']
INV_MS = ['Linearizable', 'MemorySafe']


def run_models(ctx, pid):
    q = ctx.quick
    jobs = []
    if pid in ('C04', 'C07'):
        jobs += [
            lambda: tlc_mc(ctx, 'ms_2t_1push2pop', 'MSQueue', ms_consts(), invariants=INV_MS, view='mcview', workers=6),
            lambda: tlc_mc(ctx, 'ms_2t_2push1pop', 'MSQueue', ms_consts(NNodes=4, MaxPush=2, MaxPop=1), invariants=INV_MS, view='mcview', workers=8, tmo=1500,
                           must_cover=MS_ACTIONS),
            lambda: tlc_mc(ctx, 'ms_toggle_nohelp', 'MSQueue', ms_consts(HelpTail=False), invariants=INV_MS, view='mcview', expect='violation'),
        ]
        # nikolaev_queue over the bit-level SCQ rings: node hand-over, finalization, the second look of do_pop
        jobs += [
            lambda: tlc_mc(ctx, 'nq_stalled_push', 'NikolaevQueue', nq_consts(), invariants=INV_NQ, view='mcview', workers=6, must_cover=NQ_ACTIONS),
            lambda: tlc_mc(ctx, 'nq_2push_2pop', 'NikolaevQueue', nq_consts(Progs='<-ProgPP', SetupOps=0), invariants=INV_NQ, view='mcview', workers=4),
            lambda: tlc_mc(ctx, 'nq_toggle_catchup_drops_finalized', 'NikolaevQueue', nq_consts(KeepFin=False), invariants=INV_NQ, view='mcview',
                           workers=4, expect='violation'),
            lambda: tlc_mc(ctx, 'nq_toggle_no_second_look', 'NikolaevQueue', nq_consts(Progs='<-ProgPP', SetupOps=0, SecondLook=False), invariants=INV_NQ,
                           view='mcview', workers=4, expect='violation'),
        ]
        if not q:
            jobs += [lambda: tlc_mc(ctx, 'nq_mix', 'NikolaevQueue', nq_consts(Progs='<-ProgMix', SetupOps=0), invariants=INV_NQ, view='mcview', workers=8, tmo=1500),
                     lambda: tlc_mc(ctx, 'nq_mix_cap2', 'NikolaevQueue', nq_consts(Progs='<-ProgMix', SetupOps=0, Cap=2), invariants=INV_NQ, view='mcview', workers=8, tmo=1500),
                     lambda: tlc_mc(ctx, 'nq_retries', 'NikolaevQueue', nq_consts(PopRetries=1), invariants=INV_NQ, view='mcview', workers=8, tmo=1500),
                     lambda: tlc_mc(ctx, 'nq_3t', 'NikolaevQueue', nq_consts(NT=3, Progs='<-Prog3', SetupOps=0, MaxNodes=4), invariants=INV_NQ, view='mcview',
                                    workers=12, tmo=3000, heap='24g')]
        if not q:
            jobs += [lambda: tlc_mc(ctx, 'ms_2t_2push2pop', 'MSQueue', ms_consts(NNodes=4, MaxPush=2, MaxPop=2), invariants=INV_MS, view='mcview', workers=8, tmo=1500),
                     lambda: tlc_mc(ctx, 'ms_3t', 'MSQueue', ms_consts(NT=3, NNodes=4, MaxPush=1, MaxPop=1), invariants=INV_MS, view='mcview', workers=12,
                                    tmo=3000, heap='24g'),
                     lambda: tlc_mc(ctx, 'ms_2t_3ops', 'MSQueue', ms_consts(NNodes=5, MaxPush=3, MaxPop=3), invariants=INV_MS, view='mcview', workers=12,
                                    tmo=3000, heap='24g')]
        ctx.note('mechanism "head re-check in pop_node" (HeadRecheck = FALSE) yields no counterexample: the payload is read only after the head CAS, '
                 'which subsumes the check - not needed by any listed property')
    if pid in ('C05', 'C07'):
        # nikolaev_bounded_queue: the same bit-level SCQ rings, one pair of them
        jobs += [
            lambda: tlc_mc(ctx, 'nkb_cap1', 'NikolaevQueue', nq_consts(Bounded=True, Progs='<-ProgFill', SetupOps=0, MaxNodes=1), invariants=INV_NQ, view='mcview', workers=6,
                           must_cover=['b_deq', 'b_enq', 'b_pdeq', 'd_for', 'e_cas', 'c_cas']),
            lambda: tlc_mc(ctx, 'nkb_cap2', 'NikolaevQueue', nq_consts(Bounded=True, Cap=2, Progs='<-ProgFill', SetupOps=0, MaxNodes=1), invariants=INV_NQ, view='mcview',
                           workers=6, tmo=900),
        ]
        if not q:
            jobs += [lambda: tlc_mc(ctx, 'nkb_cap2_retries', 'NikolaevQueue', nq_consts(Bounded=True, Cap=2, PopRetries=1, Progs='<-ProgMix', SetupOps=0, MaxNodes=1),
                                    invariants=INV_NQ, view='mcview', workers=8, tmo=1500),
                     lambda: tlc_mc(ctx, 'nkb_3t', 'NikolaevQueue', nq_consts(Bounded=True, Cap=2, NT=3, Progs='<-Prog3', SetupOps=0, MaxNodes=1), invariants=INV_NQ,
                                    view='mcview', workers=12, tmo=3000, heap='24g')]
        jobs += [
            lambda: tlc_mc(ctx, 'vy_strong', 'VyukovBounded', vy_consts(), invariants=['Linearizable'], view='mcview', workers=6),
            lambda: tlc_mc(ctx, 'vy_weakmix', 'VyukovBounded', vy_consts(AllowWeak=True), invariants=['Linearizable'], view='mcview', workers=8,
                           tmo=1500, must_cover=VY_ACTIONS),
            lambda: tlc_mc(ctx, 'vy_toggle_norecheck', 'VyukovBounded', vy_consts(StrongRecheck=False), invariants=['Linearizable'], view='mcview',
                           expect='violation'),
        ]
        if not q:
            jobs += [lambda: tlc_mc(ctx, 'vy_cap4', 'VyukovBounded', vy_consts(Cap=4, MaxPush=3, MaxPop=3), invariants=['Linearizable'], view='mcview',
                                    workers=12, tmo=3000, heap='24g'),
                     lambda: tlc_mc(ctx, 'vy_3laps', 'VyukovBounded', vy_consts(MaxPush=3, MaxPop=3), invariants=['Linearizable'], view='mcview',
                                    workers=12, tmo=3000, heap='24g')]
    kinds = {'C04': [('fifo', 0, 1, 0)], 'C05': [('bounded', 2, 1, 0), ('nikbounded', 3, 1, 0)],
             'C06': [('kfifo', 0, 1, 0), ('kfifo', 0, 2, 0), ('kfifo', 0, 3, 0), ('bkfifo', 0, 2, 2), ('bkfifo', 0, 1, 1), ('bkfifo', 0, 3, 1), ('bkfifo', 0, 2, 3)],
             'C07': [('kfifo', 0, 2, 0)]}[pid]
    for (kind, cap, k, segs) in kinds:
        jobs.append(lambda kind=kind, cap=cap, k=k, segs=segs: tlc_mc(
            ctx, 'oracle_%s_c%dk%ds%d' % (kind, cap, k, segs), 'QueuesMC', {'Kind': kind, 'CapV': cap, 'KV': k, 'SegsV': segs, 'MaxOps': 7 if q else 9},
            invariants=['Conservation', 'KBound', 'CapBound'], properties=['SeqRules'], workers=2))
    if jobs:
        run_parallel(jobs, maxw=3)
        ctx.samples.append({'model': ctx.mc[0]['module'], 'constants': ctx.mc[0]['consts']})
