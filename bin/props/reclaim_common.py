# shared by C01, C02, C15, C17, C18: generic reclamation client on the real reclaimers, validated against abs/Reclamation
import json, re
from xvlib import *

HCONSTS = {'AbsInit': '<-RecInit', 'AbsCfg': '<-RecCfg', 'AbsStep': '<-RecStep', 'AbsFinal': '<-RecFinal', 'AbsEv': '<-RecEv'}

CORE = ['hp3', 'he3', 'lfrc', 'ebr0', 'nebr0', 'debra0', 'qsbr', 'stamp']
ALL = CORE + ['hp1', 'hp2', 'hp5', 'hpd1', 'he1', 'he2', 'he5', 'hed1', 'lfrc2', 'ebr1', 'ebr2', 'nebr1', 'debra1', 'debra2',
              'geb_all_always_none', 'geb_all_thr2_eager', 'geb_one_always_lazy', 'geb_n2_never_lazy', 'geb_n2_thr2_none',
              'geb_one_never_eager']
SLOTTED = {'hp1': 1, 'hp2': 2, 'hp3': 3, 'hp5': 5, 'he1': 1, 'he2': 2, 'he3': 3, 'he5': 5}
NO_CUSTOM_DELETER = {'lfrc', 'lfrc2'}


# Directed three-role scenarios (harness-level sig/wai/wex order the threads, so that a low preemption bound reaches them):
# thread 0 runs reclamation points (scan / epoch advance) freely, thread 1 holds a guard on a node, thread 2 retires that node while
# it is held and then exits (abandoned / orphaned retired nodes) or just leaves its critical region (abandon strategies).
DIRECTED = ['swp1:0;acq0:0,sig1,wex2,tch0;wai1,swp0:0',
            'swp1:0,swp1:0;acqe0:0,sig1,wex2,tch0,cpy0:1,rst0,tch1;wai1,swp0:0',
            'swp1:0,acq2:0;acq0:0,sig1,wai2,tch0;wai1,swp0:0,sig2,acq1:1,tch1',
            'rgn1,swp1:0,rgn0;rgn1,acq0:0,sig1,wex2,tch0,rgn0;wai1,swp0:0',
            'swp1:0;acq0:0,sig1,wex2,wex3,tch0;wai1,swp0:0;@2:swp0:0',
            # node recycling under an acquisition in progress (type-stable free lists, immediate reuse of the address): thread 0 acquires cell 0 while
            # thread 1 retires the node it points to, is held back (wai) and then publishes a new node - possibly the recycled one - into the same cell
            'acq0:0,tch0,rst0,acq0:0,tch0;swp0:0,wai1,swp0:0;sig1',
            'acqe0:0,tch0,cpy0:1,rst0,tch1;swp0:0,wai1,swp0:0,swp0:0;sig1',
            # late joiner: thread 0 takes its first guard (acquires its thread record, reads the epoch / era / stamp) while thread 1 and thread 2
            # advance the epoch twice around it; thread 1 exits, thread 2 - one step behind - retires the node thread 0 holds and passes two more
            # reclamation points.  One preemption inside thread 0's first acquisition suffices.
            'wai1,acq0:0,sig4,wai5,tch0;wai1,rgn1,rgn0,sig2,wai3,rgn1,rgn0;rgn1,rgn0,sig1,wai2,rgn1,rgn0,sig3,wex1,wai4,swp0:0,rgn1,rgn0,rgn1,rgn0,sig5']


def guards_needed(prog):
    """largest number of simultaneously used guards per thread (upper bound: distinct guard indices)"""
    m = 0
    for seg in prog.split(';')[1:]:
        gs = set()
        for tok in seg.replace('@', ',').split(','):
            mm = re.match(r'(acq|acqe|swp|cgd)(\d+):(\d+)$', tok)
            if mm:
                gs.add(int(mm.group(3)))
            mm = re.match(r'(cpy|mov|swg)(\d+):(\d+)$', tok)
            if mm:
                gs.add(int(mm.group(2))); gs.add(int(mm.group(3)))
            if tok.startswith('cgd'):
                gs.add(99)
        m = max(m, len(gs))
    return m


def postprocess_allocsites(binary, tracefile):
    """C17: replace allocsite:<pc> records by one tcb_allocs record per execution (allocations made from
       thread_block_list::adopt_or_create_entry, found by call-site symbolization)"""
    lines = open(tracefile).read().splitlines()
    pcs = set()
    for l in lines:
        if '"allocsite:' in l:
            pcs.add(json.loads(l)['op'].split(':')[1])
    sym = symbolize(binary, sorted(pcs)) if pcs else {}
    out, cnt = [], 0
    for l in lines:
        if '"allocsite:' in l:
            r = json.loads(l)
            fn = sym[r['op'].split(':')[1]][0]
            if 'thread_block_list' in fn or 'adopt_or_create_entry' in fn:
                cnt += r['a']
            continue
        if l.startswith('{"e":"quiescent"'):
            out.append('{"e":"ev","t":9,"op":"tcb_allocs","a":%d,"b":0,"r":0,"v":0}' % cnt)
            cnt = 0
        if l.startswith('{"e":"reset"'):
            cnt = 0
        out.append(l)
    open(tracefile, 'w').write('\n'.join(out) + '\n')
    return sym


POST['reclaim'] = postprocess_allocsites


def run_client(ctx, jobs, pb, max_exec, mode='dfs', runs=0, nsh=14, tcb=False, tag='rc'):
    """jobs: list of program strings. Explores in nsh shards, validates against Reclamation_Hist."""
    import random
    jobs = list(jobs)
    random.Random(ctx.seed).shuffle(jobs)
    nsh = max(1, min(nsh, len(jobs)))
    tag = '%s_%s' % (tag, mode)
    xs = run_parallel([lambda i=i: explore(ctx, '%s_%d' % (tag, i), 'reclaim', jobs[i::nsh], mode=mode, pb=pb, max_exec=max_exec, runs=runs)
                       for i in range(nsh)], maxw=nsh)
    for x in xs:
        postprocess_allocsites(os.path.join(BUILD, 'reclaim'), x['trace'])

    def tv(x):
        res = check_histories(ctx, x['name'], 'reclaim', 'Reclamation_Hist', HCONSTS, x)
        add_tv_stats(res, [x])
    run_parallel([lambda x=x: tv(x) for x in xs], maxw=8)
    return xs
