# M runs of the reclaimer impl specs, shared by C01 / C02 / C17 / C18
from xvlib import *


def hp_consts(**kw):
    c = {'Threads': '<-ThreadsDef', 'Locs': '<-LocsDef', 'InitVal': '<-InitValDef', 'Ord': '<-OrdCode', 'Weak': False,
         'NT': 2, 'K': 2, 'NG': 2, 'NCells': 1, 'NNodes': 3, 'MaxOps': 2, 'Revalidate': True, 'Reuse': False, 'Threshold': 0}
    c.update(kw)
    return c


HP_ACTIONS = ['Begin', 'Touch', 'StartFlush', 'AllocTo', 'a_ld1', 'a_set', 'a_fence', 'a_ld2', 'e_ldx', 'e_ld1', 'e_set', 'e_ld2',
              'r_st', 'c_set', 'op_done', 'x_cas', 's_fence8', 's_ld', 's_fence9', 's_free']


def run_models(ctx, pid):
    q = ctx.quick
    inv = {'C01': ['Safe'], 'C02': ['Safe', 'NoLeak'], 'C18': ['Safe', 'SlotsConserved'], 'C17': ['Safe', 'NoLeak']}[pid]
    jobs = [
        lambda: tlc_mc(ctx, 'hp_2t_1cell', 'HazardPointer', hp_consts(MaxOps=2), invariants=inv, view='mcview', workers=8, tmo=900,
                       must_cover=HP_ACTIONS),
        lambda: tlc_mc(ctx, 'hp_2t_reuse', 'HazardPointer', hp_consts(MaxOps=2, NNodes=2, Reuse=True), invariants=inv, view='mcview', workers=8, tmo=900),
        lambda: tlc_mc(ctx, 'hp_toggle_norevalidate', 'HazardPointer', hp_consts(Revalidate=False), invariants=['Safe'], view='mcview',
                       workers=4, expect='violation'),
    ]
    if not q:
        jobs += [
            lambda: tlc_mc(ctx, 'hp_2t_2cells', 'HazardPointer', hp_consts(NCells=2, NNodes=4, MaxOps=3), invariants=inv, view='mcview', workers=12, tmo=3000, heap='24g'),
            lambda: tlc_mc(ctx, 'hp_3t', 'HazardPointer', hp_consts(NT=3, MaxOps=2, NNodes=4), invariants=inv, view='mcview', workers=12, tmo=3000, heap='24g'),
        ]
    run_parallel(jobs, maxw=3)
    ctx.samples.append({'model': 'HazardPointer', 'constants': ctx.mc[0]['consts']})
