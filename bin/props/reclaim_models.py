# M runs of the reclaimer impl specs, shared by C01 / C02 / C17 / C18
from xvlib import *


def hp_consts(**kw):
    c = {'Threads': '<-ThreadsDef', 'Locs': '<-LocsDef', 'InitVal': '<-InitValDef', 'Ord': '<-OrdCode', 'Weak': False,
         'NT': 2, 'K': 2, 'NG': 2, 'NCells': 1, 'NNodes': 3, 'MaxOps': 2, 'Revalidate': True, 'Reuse': False, 'Threshold': 0, 'Roles': '<-RolesAll', 'Exits': False, 'AdoptFirst': True}
    c.update(kw)
    return c


HP_ACTIONS = ['Begin', 'Touch', 'StartFlush', 'AllocTo', 'a_ld1', 'a_set', 'a_fence', 'a_ld2', 'e_ldx', 'e_ld1', 'e_set', 'e_ld2',
              'r_st', 'c_set', 'op_done', 'x_cas', 's_fence8', 's_adopt', 's_act', 's_ld', 's_free']


def eb_consts(**kw):
    c = {'Threads': '<-ThreadsDef', 'Locs': '<-LocsDef', 'InitVal': '<-InitValDef', 'Ord': '<-OrdCode', 'Weak': False,
         'NT': 2, 'NG': 1, 'NCells': 1, 'NNodes': 3, 'MaxOps': 2, 'MaxFlush': 7, 'MaxEpoch': 12, 'ScanFreq': 0, 'ScanN': 0,
         'Abandon': 'never', 'AbT': 1, 'Ext': 'none', 'NumEpochs': 3, 'StaleBlocks': True, 'AdoptFirst': True}
    c.update(kw)
    return c


EB_ACTIONS = ['Begin', 'Touch', 'StartExit', 'x_orph', 'a_ld1', 'a_ld2', 'r_begin', 'ec_begin', 'c_flag', 'c_fence', 'c_ge', 'c_le', 's_crit', 's_le',
              'g_ld', 'g_fence', 'g_cas', 'g_adopt', 'g_giveback', 'g_done', 'u_le', 'u_stle', 'lc_begin', 'l_flag', 'op_done', 'x_cas']


def eb_jobs(ctx, inv):
    """generic_epoch_based: epoch_based / new_epoch_based / debra shaped configurations of spec/impl/EpochBased.tla"""
    q = ctx.quick
    mc = lambda name, **kw: tlc_mc(ctx, name, 'EpochBased', eb_consts(**kw.pop('c', {})), invariants=kw.pop('inv', inv), view='mcview',
                                   constraints=['EpochBound'], **kw)
    jobs = [
        lambda: mc('eb_all_threads', workers=8, tmo=900, must_cover=EB_ACTIONS),
        lambda: mc('eb_toggle_ignore_stale', c={'StaleBlocks': False}, inv=['Safe'], workers=4, expect='violation'),
        lambda: mc('eb_toggle_two_epochs', c={'NumEpochs': 2}, inv=['Safe'], workers=4, expect='violation'),
        # three roles: a thread advancing the epoch, one that retires a node and exits (orphans), one that holds a guard on the node
        lambda: mc('eb_3t_exit', c={'NT': 3, 'MaxOps': 1, 'MaxFlush': 0}, inv=['Safe'], workers=8, tmo=900, must_cover=['g_adopt', 'g_giveback', 'x_orph']),
        lambda: mc('eb_toggle_adopt_after_cas', c={'NT': 3, 'MaxOps': 1, 'MaxFlush': 0, 'AdoptFirst': False}, inv=['Safe'], workers=4, expect='violation'),
    ]
    if not q:
        jobs += [
            lambda: mc('eb_one_thread_scan', c={'ScanN': 1}, workers=8, tmo=1800),
            lambda: mc('eb_scanfreq1', c={'ScanFreq': 1}, workers=8, tmo=1800),
            lambda: mc('eb_region_eager', c={'Ext': 'eager'}, workers=8, tmo=1800, must_cover=['rg_enter', 'rg_leave']),
            lambda: mc('eb_region_lazy', c={'Ext': 'lazy'}, workers=8, tmo=1800, must_cover=['rg_enter', 'rg_leave', 'c_ldflag']),
            lambda: mc('eb_abandon_always', c={'Abandon': 'always'}, workers=8, tmo=1800, must_cover=['l_abandon']),
            lambda: mc('eb_3t_abandon', c={'NT': 3, 'MaxOps': 1, 'MaxFlush': 0, 'Abandon': 'always'}, inv=['Safe'], workers=8, tmo=3000, heap='16g'),
            lambda: mc('eb_3t_2ops', c={'NT': 3, 'MaxOps': 2, 'MaxFlush': 0, 'NNodes': 4}, inv=['Safe'], workers=12, tmo=5000, heap='24g'),
            lambda: mc('eb_abandon_threshold', c={'Abandon': 'thr', 'AbT': 2, 'MaxOps': 3, 'NNodes': 4}, workers=12, tmo=3000, heap='24g'),
        ]
    return jobs


def he_consts(**kw):
    c = {'Threads': '<-ThreadsDef', 'Locs': '<-LocsDef', 'InitVal': '<-InitValDef', 'Ord': '<-OrdCode', 'Weak': False,
         'NT': 2, 'K': 1, 'NG': 1, 'NCells': 1, 'NNodes': 3, 'MaxOps': 2, 'Roles': '<-RolesAll', 'EraLoop': True, 'Threshold': 0}
    c.update(kw)
    return c


HE_ACTIONS = ['Begin', 'Touch', 'StartFlush', 'a_ld', 'a_era', 'a_link', 'a_set', 'a_fence', 'e_ldx', 'e_ld1', 'e_era', 'e_ld2', 'r_begin', 'r_st',
              'op_done', 'n_era', 'x_cas', 'x_faa', 's_fence9', 's_ld', 's_fence10', 's_free']


def he_jobs(ctx, inv):
    """hazard_eras: eras published in slots, objects protected by the interval [construction era, retirement era]"""
    q = ctx.quick
    mc = lambda name, **kw: tlc_mc(ctx, name, 'HazardEras', he_consts(**kw.pop('c', {})), invariants=kw.pop('inv', inv), view='mcview', **kw)
    jobs = [
        lambda: mc('he_2t', workers=6, tmo=900, must_cover=HE_ACTIONS),
        lambda: mc('he_reader_vs_replacer', c={'Roles': '<-RolesRW', 'MaxOps': 3, 'NNodes': 4}, workers=6, tmo=900),
        lambda: mc('he_toggle_no_era_loop', c={'Roles': '<-RolesRW', 'MaxOps': 3, 'NNodes': 4, 'EraLoop': False}, inv=['Safe'], workers=4, expect='violation'),
    ]
    if not q:
        jobs += [
            lambda: mc('he_2t_shared_slots', c={'K': 2, 'NG': 2}, workers=12, tmo=3000, heap='24g', must_cover=['c_copy']),
            lambda: mc('he_3t', c={'NT': 3, 'MaxOps': 1, 'NNodes': 4}, workers=12, tmo=3000, heap='24g'),
            lambda: mc('he_2cells', c={'NCells': 2, 'NNodes': 4, 'K': 2, 'NG': 2, 'MaxOps': 2, 'Roles': '<-RolesRW'}, workers=12, tmo=3000, heap='24g'),
        ]
    return jobs


def qs_consts(**kw):
    c = {'Threads': '<-ThreadsDef', 'Locs': '<-LocsDef', 'InitVal': '<-InitValDef', 'Ord': '<-OrdCode', 'Weak': False,
         'NT': 2, 'NG': 1, 'NCells': 1, 'NNodes': 3, 'MaxOps': 2, 'MaxFlush': 5, 'CheckOld': True, 'FullCycle': True, 'ConfirmEpoch': True}
    c.update(kw)
    return c


QS_ACTIONS = ['Begin', 'Touch', 'StartExit', 'a_ld1', 'a_ld2', 'r_begin', 'er_begin', 'b_ldge', 'b_stle', 'b_cas', 'lr_begin', 'q_ldge', 'q_ldle', 't_ldle', 't_act',
              't_ldge', 't_fence', 't_cas', 't_adopt', 't_done', 'q_stle', 'op_done', 'x_cas', 'r_ldle', 'x_ldge', 'x_abandon', 'x_release']


def qs_jobs(ctx, inv):
    """quiescent_state_based: three epochs, quiescent state when the last region is left, orphans with a target epoch"""
    q = ctx.quick
    mc = lambda name, **kw: tlc_mc(ctx, name, 'QSBR', qs_consts(**kw.pop('c', {})), invariants=kw.pop('inv', inv), view='mcview', **kw)
    jobs = [
        lambda: mc('qsbr_2t', workers=6, tmo=900, must_cover=QS_ACTIONS),
        lambda: mc('qsbr_3t_exit', c={'NT': 3, 'MaxOps': 1, 'MaxFlush': 0}, inv=['Safe'], workers=6, tmo=900),
        lambda: mc('qsbr_toggle_ignore_previous_epoch', c={'CheckOld': False}, inv=['Safe'], workers=4, expect='violation'),
        lambda: mc('qsbr_toggle_orphans_current_epoch', c={'NT': 3, 'MaxOps': 1, 'MaxFlush': 0, 'FullCycle': False}, inv=['Safe'], workers=4, expect='violation'),
    ]
    if not q:
        jobs += [
            lambda: mc('qsbr_2t_2guards', c={'NG': 2, 'MaxOps': 3, 'NNodes': 4}, workers=12, tmo=3000),
            lambda: mc('qsbr_3t_flush', c={'NT': 3, 'MaxOps': 1, 'MaxFlush': 4}, workers=12, tmo=3000),
        ]
    return jobs


def lf_consts(**kw):
    c = {'Threads': '<-ThreadsDef', 'Locs': '<-LocsDef', 'InitVal': '<-InitValDef', 'Ord': '<-OrdCode', 'Weak': False,
         'NT': 2, 'NG': 1, 'NCells': 1, 'NNodes': 3, 'MaxOps': 2, 'TL': 0, 'TLPopAtomic': True, 'Revalidate': True, 'ClaimOnce': True}
    c.update(kw)
    return c


LF_ACTIONS = ['Begin', 'a_reset', 'd_ld', 'd_cas', 'r_claimed', 'r_lddes', 'r_stdes', 'r_dtor', 'f_push', 'fg_ldh', 'fg_stnx', 'fg_cas', 'a_ld1', 'a_faa', 'a_ld2', 'a_got',
              'op_done', 'n_begin', 'n_ldh', 'n_faa', 'n_ldh2', 'n_ldnx', 'n_cas', 'n_fsub', 'n_stnx', 'n_fresh', 'n_ctor', 'x_cas', 'c_fsub']


def lf_jobs(ctx, inv):
    """lock_free_ref_count: optimistic increments on possibly freed nodes, claim bit, type-stable free lists (global + thread-local)"""
    q = ctx.quick
    mc = lambda name, **kw: tlc_mc(ctx, name, 'LFRC', lf_consts(**kw.pop('c', {})), invariants=kw.pop('inv', inv), view='mcview', **kw)
    jobs = [
        lambda: mc('lfrc_2t', workers=6, tmo=900, must_cover=LF_ACTIONS),
        lambda: mc('lfrc_toggle_no_revalidate', c={'Revalidate': False}, inv=['Safe'], workers=3, expect='violation'),
        lambda: mc('lfrc_toggle_claim_not_exclusive', c={'ClaimOnce': False}, inv=['Safe'], workers=3, expect='violation'),
        lambda: mc('lfrc_toggle_tl_pop_plain_store', c={'TL': 1, 'MaxOps': 3, 'TLPopAtomic': False}, inv=['Safe'], workers=4, expect='violation'),
    ]
    if not q:
        jobs += [
            lambda: mc('lfrc_2t_tl1', c={'TL': 1, 'MaxOps': 3}, workers=10, tmo=2400, heap='24g', must_cover=['n_lfaa', 'n_lst']),
            lambda: mc('lfrc_2t_2guards', c={'NG': 2, 'MaxOps': 2, 'NNodes': 4}, workers=10, tmo=2400, heap='24g'),
            lambda: mc('lfrc_2t_2cells', c={'NCells': 2, 'MaxOps': 2, 'NNodes': 4}, workers=10, tmo=2400, heap='24g'),
            lambda: mc('lfrc_3t', c={'NT': 3, 'MaxOps': 1, 'NNodes': 4}, workers=12, tmo=3000, heap='24g'),
        ]
    return jobs


def st_consts(**kw):
    c = {'NT': 2, 'NG': 1, 'NCells': 1, 'NNodes': 3, 'MaxOps': 2, 'MaxFlush': 2, 'TryThr': 1, 'MaxRemain': 0,
         'RetireAtHead': True, 'GuessOk': True, 'RequeueAll': True, 'ExitHandsOver': True}
    c.update(kw)
    return c


ST_ACTIONS = ['Begin', 'StartExit', 'a_ld1', 'a_ld2', 'r_begin', 'er_begin', 'e_push', 'lr_begin', 'l_remove', 'l_tail', 'p_ts', 'p_proc', 'p_add', 'g_ts', 'g_steal', 'g_proc',
              'g_ts2', 'g_add', 'op_done', 'x_cas', 'rt_hs', 'x_hand']


def st_jobs(ctx, inv):
    """stamp_it at the grain of its reclamation rule (thread_order_queue abstracted to its sequential meaning; thread_data step by step)"""
    q = ctx.quick
    mc = lambda name, **kw: tlc_mc(ctx, name, 'StampIt', st_consts(**kw.pop('c', {})), invariants=kw.pop('inv', inv), view='mcview', **kw)
    jobs = [
        lambda: mc('stamp_2t', workers=4, tmo=900, must_cover=ST_ACTIONS),
        lambda: mc('stamp_2t_remain1', c={'MaxRemain': 1}, workers=4, tmo=900),
        lambda: mc('stamp_toggle_retire_with_own_stamp', c={'RetireAtHead': False}, inv=['Safe'], workers=3, expect='violation'),
        lambda: mc('stamp_toggle_tail_stamp_overshoots', c={'GuessOk': False}, inv=['Safe', 'TailBound'], workers=3, expect='violation'),
        lambda: mc('stamp_toggle_requeue_first_chunk_only', c={'RequeueAll': False, 'NT': 3, 'MaxOps': 1, 'MaxFlush': 1}, inv=['Safe', 'OnLists'], workers=4, expect='violation'),
        lambda: mc('stamp_toggle_exit_drops_list', c={'ExitHandsOver': False, 'MaxRemain': 1}, inv=['Safe', 'OnLists'], workers=3, expect='violation'),
    ]
    if not q:
        jobs += [
            lambda: mc('stamp_3t', c={'NT': 3, 'MaxOps': 1, 'MaxFlush': 1}, workers=10, tmo=2400, heap='24g'),
            lambda: mc('stamp_2t_thresholds', c={'TryThr': 2, 'MaxRemain': 1, 'MaxOps': 3, 'NNodes': 4}, workers=10, tmo=2400, heap='24g'),
            lambda: mc('stamp_2t_2guards', c={'NG': 2, 'NCells': 2, 'NNodes': 4, 'MaxOps': 2}, workers=10, tmo=2400, heap='24g'),
        ]
    return jobs


def siq_consts(**kw):
    c = {'Threads': '<-ThreadsDef', 'Locs': '<-LocsDef', 'InitVal': '<-InitValDef', 'Ord': '<-OrdCode', 'Weak': False,
         'NT': 2, 'MaxOps': 1, 'MaxOps0': 1, 'HeadBump': True, 'Recheck': True, 'ClearPending': True, 'MarkChecksStamp': True, 'Exits': False}
    c.update(kw)
    return c


SIQ_ACTIONS = ['Enter', 'Leave', 'LoadStep', 'p_stn', 'p_faa', 'p_stpend', 'p_stprev', 'p_cas', 'p_ststamp', 'p_casnext', 'r_markprev', 'r_marknext', 'f_cas', 'n_cas',
               'k_cas', 's_cas', 'm_cas', 'r_ststamp', 'r_ldprev2', 'u_cashead', 'u_ldts', 'u_cas']
SIQ_INV = ['TailSafe', 'Asserts', 'QuiescentShape', 'ChainOk']


def siq_jobs(ctx, pid):
    """stamp_it::thread_order_queue at the grain of its atomic accesses (spec/impl/StampItQueue.tla): the lock-free doubly linked list of
       control blocks with tags, delete marks, pending stamps and helping.  TailSafe is the C01 obligation the coarse spec StampIt assumes
       (GuessOk); Asserts carries the code's assertions and NoLostTail (C02 / C17); ChainOk / QuiescentShape the shape of the list."""
    q = ctx.quick
    mc = lambda name, **kw: tlc_mc(ctx, name, 'StampItQueue', siq_consts(**kw.pop('c', {})), invariants=kw.pop('inv', SIQ_INV), view='mcview', **kw)
    jobs = []
    if pid in ('C01', 'C02'):
        jobs += [lambda: mc('siq_2t', workers=6, tmo=900, must_cover=SIQ_ACTIONS)]
    if pid == 'C01':
        jobs += [lambda: mc('siq_toggle_head_stamp_without_bump', c={'HeadBump': False}, inv=['TailSafe'], workers=3, expect='violation')]
    if pid == 'C17':
        # threads exit after their region, later threads adopt the abandoned control blocks (stale links, stamps with NotInList, tags)
        jobs += [lambda: mc('siq_2t_adopted_blocks', c={'Exits': True}, workers=6, tmo=900, must_cover=['ExitT'])]
    if not q:
        jobs += [
            lambda: mc('siq_2t_reentry', c={'MaxOps0': 2}, workers=10, tmo=3000, heap='24g'),
            lambda: mc('siq_3t', c={'NT': 3}, workers=10, tmo=3000, heap='24g'),
            lambda: mc('siq_toggle_no_recheck_2_1', c={'MaxOps0': 2, 'Recheck': False}, workers=10, tmo=3000, heap='24g'),
        ]
        if pid != 'C17':
            jobs += [lambda: mc('siq_2t_adopted_blocks', c={'Exits': True, 'MaxOps0': 2}, workers=10, tmo=3000, heap='24g', must_cover=['ExitT'])]
    return jobs


def tb_consts(**kw):
    c = {'Threads': '<-ThreadsDef', 'Locs': '<-LocsDef', 'InitVal': '<-InitValDef', 'Ord': '<-OrdCode', 'Weak': False,
         'NT': 2, 'NEntries': 3, 'NNodes': 3, 'Lives': 2, 'MaxRetire': 2, 'AdoptCas': True, 'ReuseFree': True}
    c.update(kw)
    return c


TB_ACTIONS = ['Start', 'a_ldh', 'a_ldst', 'a_cas', 'a_next', 'a_new', 'a_ldh2', 'a_setn', 'a_push', 'Retire', 'd_ld', 'd_xchg', 'd_walk', 'StartExit', 'b_link', 'b_ld', 'b_setn',
              'b_cas', 'x_rel']
INV_TB = ['Exclusive', 'Bounded', 'NoNodeLost', 'AllReachable']


def tb_jobs(ctx):
    """detail::thread_block_list: record adoption / creation / release over thread generations, abandoned retired nodes"""
    q = ctx.quick
    mc = lambda name, **kw: tlc_mc(ctx, name, 'ThreadBlockList', tb_consts(**kw.pop('c', {})), invariants=kw.pop('inv', INV_TB), view='mcview', **kw)
    jobs = [
        lambda: mc('tbl_2t_2lives', workers=4, must_cover=TB_ACTIONS),
        lambda: mc('tbl_toggle_adopt_without_cas', c={'AdoptCas': False}, inv=['Exclusive'], workers=3, expect='violation'),
        lambda: mc('tbl_toggle_never_reuse', c={'ReuseFree': False}, inv=['Bounded'], workers=3, expect='violation'),
    ]
    if not q:
        jobs += [lambda: mc('tbl_3t', c={'NT': 3, 'Lives': 1, 'MaxRetire': 1}, workers=8, tmo=1500),
                 lambda: mc('tbl_3t_2lives', c={'NT': 3, 'NEntries': 4, 'Lives': 2, 'NNodes': 2, 'MaxRetire': 1}, workers=12, tmo=3000, heap='24g')]
    return jobs


def hd_consts(**kw):
    c = {'Threads': '<-ThreadsDef', 'Locs': '<-LocsDef', 'InitVal': '<-InitValDef', 'Ord': '<-OrdCode', 'Weak': False,
         'K': 1, 'KX': 1, 'NBlocks': 2, 'NCells': 3, 'NObj': 5, 'MaxScans': 2, 'InitThenLink': True, 'Revalidate': True}
    c.update(kw)
    return c


HD_ACTIONS = ['StartAcquire', 'a_ld1', 'a_link', 'b_alloc', 'b_init', 'b_ldh', 'b_setn', 'b_pub', 'a_pub', 'a_fence', 'a_ld2', 'a_got', 'StartReplace', 'x_cas', 's_fence1', 's_ld',
              's_ldb', 's_nextb', 's_fence2', 's_free']
INV_HD = ['Safe', 'SlotsIntact', 'NoSlotTwice']


def hd_jobs(ctx):
    """dynamic allocation strategy of hazard_pointer / hazard_eras: extra slot blocks allocated, initialised, linked and published while guards are live"""
    q = ctx.quick
    mc = lambda name, **kw: tlc_mc(ctx, name, 'HPDynamic', hd_consts(**kw.pop('c', {})), invariants=kw.pop('inv', INV_HD), **kw)
    jobs = [
        lambda: mc('hpdyn_k1_2blocks', workers=4, must_cover=HD_ACTIONS),
        lambda: mc('hpdyn_toggle_link_before_init', c={'InitThenLink': False}, workers=3, expect='violation'),
        lambda: mc('hpdyn_toggle_no_revalidate', c={'Revalidate': False}, workers=3, expect='violation'),
    ]
    if not q:
        jobs += [lambda: mc('hpdyn_k2', c={'K': 2, 'KX': 2, 'NBlocks': 1, 'NCells': 4, 'NObj': 6}, workers=6, tmo=1500),
                 lambda: mc('hpdyn_k2_2blocks', c={'K': 2, 'KX': 1, 'NBlocks': 2, 'NCells': 4, 'NObj': 6, 'MaxScans': 2}, workers=8, tmo=2400, heap='24g')]
    return jobs


def run_models(ctx, pid):
    q = ctx.quick
    inv = {'C01': ['Safe'], 'C02': ['Safe', 'NoLeak'], 'C18': ['Safe', 'SlotsConserved'], 'C17': ['Safe', 'NoLeak']}[pid]
    jobs = [
        lambda: tlc_mc(ctx, 'hp_2t_1cell', 'HazardPointer', hp_consts(MaxOps=2), invariants=inv, view='mcview', workers=8, tmo=900,
                       must_cover=HP_ACTIONS),
        lambda: tlc_mc(ctx, 'hp_2t_reuse', 'HazardPointer', hp_consts(MaxOps=2, NNodes=2, Reuse=True), invariants=inv, view='mcview', workers=8, tmo=900),
        lambda: tlc_mc(ctx, 'hp_toggle_norevalidate', 'HazardPointer', hp_consts(Revalidate=False), invariants=['Safe'], view='mcview',
                       workers=4, expect='violation'),
        # thread exit: a scanner, a holder, and a thread that retires the held node and exits (abandoned retired nodes, adoption in scan)
        lambda: tlc_mc(ctx, 'hp_3t_exit', 'HazardPointer', hp_consts(NT=3, K=1, NG=1, NCells=2, NNodes=4, MaxOps=1, Exits=True, Roles='<-RolesExit3'),
                       invariants=inv, view='mcview', workers=6, tmo=900, must_cover=['StartExit', 'x_abandon', 'x_release', 's_adopt']),
        lambda: tlc_mc(ctx, 'hp_toggle_adopt_after_gather', 'HazardPointer',
                       hp_consts(NT=3, K=1, NG=1, NCells=2, NNodes=4, MaxOps=1, Exits=True, Roles='<-RolesExit3', AdoptFirst=False),
                       invariants=['Safe'], view='mcview', workers=4, expect='violation'),
    ]
    if not q:
        jobs += [
            lambda: tlc_mc(ctx, 'hp_2t_2cells', 'HazardPointer', hp_consts(NCells=2, NNodes=4, MaxOps=3), invariants=inv, view='mcview', workers=12, tmo=3000, heap='24g'),
            lambda: tlc_mc(ctx, 'hp_3t', 'HazardPointer', hp_consts(NT=3, MaxOps=2, NNodes=4), invariants=inv, view='mcview', workers=12, tmo=3000, heap='24g'),
            lambda: tlc_mc(ctx, 'hp_3t_exit_allroles', 'HazardPointer', hp_consts(NT=3, K=1, NG=1, NCells=2, NNodes=4, MaxOps=1, Exits=True),
                           invariants=inv, view='mcview', workers=12, tmo=3000, heap='24g'),
            lambda: tlc_mc(ctx, 'hp_2t_exit', 'HazardPointer', hp_consts(MaxOps=2, NNodes=4, Exits=True), invariants=inv, view='mcview', workers=12, tmo=3000, heap='24g'),
        ]
    if pid in ('C01', 'C02', 'C17'):
        jobs += eb_jobs(ctx, ['Safe'] if pid == 'C01' else inv)
    if pid in ('C01', 'C02', 'C17'):
        jobs += qs_jobs(ctx, ['Safe'] if pid == 'C01' else ['Safe', 'NoLeak'])
    if pid in ('C01', 'C02', 'C17'):
        jobs += lf_jobs(ctx, ['Safe'] if pid == 'C01' else ['Safe', 'NoLeak', 'CountsOk'])
    if pid in ('C01', 'C02', 'C17'):
        jobs += st_jobs(ctx, ['Safe', 'TailBound'] if pid == 'C01' else ['Safe', 'TailBound', 'NoLeak', 'OnLists'])
    if pid in ('C01', 'C02', 'C17'):
        jobs += siq_jobs(ctx, pid)
    if pid == 'C17':
        jobs += tb_jobs(ctx)
    if pid in ('C01', 'C18'):
        jobs += hd_jobs(ctx)
    if pid in ('C01', 'C02', 'C18'):
        jobs += he_jobs(ctx, {'C01': ['Safe'], 'C02': ['Safe', 'NoLeak'], 'C18': ['Safe', 'SlotsConserved']}[pid])
    run_parallel(jobs, maxw=3)
    ctx.samples.append({'model': 'HazardPointer', 'constants': ctx.mc[0]['consts']})
