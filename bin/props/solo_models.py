# M runs for C16: every impl spec in solo mode
from xvlib import *
from props import c12 as P12, c14 as P14, c13 as P13, reclaim_models as RM, queue_models as QM, hm_models as HM, vy_models as VM

INV = ['SoloBound', 'SoloNeverStuck']


def solo(ctx, name, module, consts, bound, workers=6, tmo=1200, expect='ok'):
    c = dict(consts)
    c['Bound'] = bound
    d = ctx.sub('mc_' + name)
    return tlc_mc(ctx, name, module, c, invariants=INV, view='sview', workers=workers, tmo=tmo, spec=None, expect=expect)


def run_models(ctx):
    q = ctx.quick
    jobs = [
        lambda: solo(ctx, 'solo_chaselev', 'ChaseLevSolo', P12.mc_consts(Start=2, StaleCapOK=True), 20),
        lambda: solo(ctx, 'solo_msqueue', 'MSQueueSolo', QM.ms_consts(), 30),
        lambda: solo(ctx, 'solo_vyukov_weak', 'VyukovBoundedSolo', QM.vy_consts(AllowWeak=True, MaxPush=1 if q else 2, MaxPop=1 if q else 2), 12),
        lambda: solo(ctx, 'solo_seqlock', 'SeqlockSolo', P14.mc_consts(Slots=2, MaxWrites=2, MaxLoads=1), 16),
        lambda: solo(ctx, 'solo_leftright', 'LeftRightSolo', P13.mc_consts(MaxUpdates=2, MaxReads=2), 10),
        lambda: solo(ctx, 'solo_hazardpointer', 'HazardPointerSolo', RM.hp_consts(MaxOps=1 if q else 2), 30, workers=8),
        lambda: solo(ctx, 'solo_harrismichael', 'HarrisMichaelSolo', HM.hm_consts(MaxOps=1 if q else 2), 40, workers=8),
        lambda: solo(ctx, 'solo_vyukovmap_reader', 'VyukovMapSolo', VM.vm_consts(MaxWrites=3), 30, workers=8),
        lambda: solo(ctx, 'solo_ramalhete', 'RamalheteSolo', QM.rq_consts(Progs='<-ProgPP' if q else '<-ProgLost', NNodes=5), 40),
        lambda: solo(ctx, 'solo_kirsch_kfifo', 'KirschKfifoSolo', QM.kf_consts(Progs='<-ProgP1' if q else '<-ProgLost', NSegs=5), 60),
        lambda: solo(ctx, 'solo_kirsch_bounded', 'KirschBoundedSolo', QM.kb_consts(Progs='<-ProgPP' if q else '<-ProgLost'), 60),
        lambda: solo(ctx, 'solo_nikolaev', 'NikolaevQueueSolo', QM.nq_consts(Progs='<-ProgPP', SetupOps=0), 120),
        # guard acquisition / release / reclaim of the other reclaimers (lock-free by documentation)
        lambda: solo(ctx, 'solo_lfrc', 'LFRCSolo', RM.lf_consts(MaxOps=2, NNodes=5), 60),
        lambda: solo(ctx, 'solo_stampit', 'StampItSolo', RM.st_consts(MaxFlush=1 if q else 2), 40),
        lambda: solo(ctx, 'solo_qsbr', 'QSBRSolo', RM.qs_consts(MaxFlush=1), 60),
        lambda: solo(ctx, 'solo_hazarderas', 'HazardErasSolo', RM.he_consts(MaxOps=1 if q else 2), 60),
        lambda: solo(ctx, 'solo_epochbased', 'EpochBasedSolo', RM.eb_consts(MaxOps=1 if q else 2, MaxFlush=1), 80),
        # mechanism toggles: waiting instead of helping must be seen as a solo thread that does not finish
        lambda: solo(ctx, 'solo_toggle_seqlock_1slot', 'SeqlockSoloAll', P14.mc_consts(Slots=1, MaxWrites=1, MaxLoads=1), 16, expect='violation'),
        lambda: solo(ctx, 'solo_toggle_vyukov_strong', 'VyukovBoundedSoloAll', QM.vy_consts(MaxPush=2, MaxPop=1), 12, expect='violation'),
    ]
    if not q:
        # stamp_it::thread_order_queue at access grain: push / remove (every guard acquisition and release of stamp_it) finish alone from every reachable
        # state - 7.1 M states, thorough tier only (the quick tier has the solo probes of the real code inside release / acquire, c16.PROBES)
        jobs.append(lambda: solo(ctx, 'solo_stampitqueue', 'StampItQueueSolo', RM.siq_consts(), 60, workers=10, tmo=3000))
        # ... and without the helping CAS that completes a pending stamp a leaving thread waits for the stopped pusher (seeded change c16_5)
        jobs.append(lambda: solo(ctx, 'solo_toggle_stampitqueue_no_pending_help', 'StampItQueueSolo', RM.siq_consts(ClearPending=False), 60, workers=10, tmo=3000, expect='violation'))
    run_parallel(jobs, maxw=4)
    ctx.samples.append({'model': 'ChaseLevSolo', 'constants': ctx.mc[0]['consts']})
