# shared by C10 / C11: vyukov_hash_map on the real code, validated against abs/SetMap
from xvlib import *

HCONSTS = {'AbsInit': '<-SMInit', 'AbsCfg': '<-SMCfg', 'AbsStep': '<-SMStep', 'AbsFinal': '<-SMFinal', 'AbsEv': '<-SMEv'}
RECL = ['hp3', 'he3', 'ebr0', 'nebr0', 'debra0', 'qsbr', 'stamp']
MODES = ['ii', 'is', 'im', 'si', 'sm']


def run_vy(ctx, jobs, pb, max_exec, mode='dfs', runs=0, nsh=14, tagx='', max_steps=None):
    import random
    jobs = list(jobs)
    random.Random(ctx.seed).shuffle(jobs)
    n = max(1, min(nsh, len(jobs) // 3 + 1, 16)) if nsh != len(jobs) else max(1, min(nsh, 16))
    xs = run_parallel([lambda i=i: explore(ctx, '%svy_%s_%d' % (tagx, mode, i), 'vy', jobs[i::n], mode=mode, pb=pb, max_exec=max_exec, runs=runs,
                                           max_steps=max_steps) for i in range(n)], maxw=n)

    def tv(x):
        res = check_histories(ctx, x['name'], 'vy', 'SetMap_Hist', HCONSTS, x, known_preds=['C10_StaleBlockRead', 'C10_NestedAccessorDeref'])
        add_tv_stats(res, [x])
    run_parallel([lambda x=x: tv(x) for x in xs], maxw=8)
    return xs
