# M runs of the VyukovMap impl spec (C10, C11)
from xvlib import *


def vm_consts(**kw):
    c = {'Threads': '<-ThreadsDef', 'MThreads': '<-ThreadsDef', 'Locs': '<-LocsDef', 'InitVal': '<-InitValDef', 'AbsStep': '<-SMStep',
         'Ord': '<-OrdCode', 'Weak': False, 'NReaders': 1, 'B': 2, 'P': 1, 'NKeys': 3, 'MaxWrites': 4, 'MaxReads': 1, 'AllowIterErase': False,
         'VersionKept': True, 'MarkerCheck': True, 'FinalCheck': True}
    c.update(kw)
    return c


def vg_consts(**kw):
    c = {'MThreads': '<-Threads', 'AbsStep': '<-SMStep', 'NT': 2, 'NKeys': 3, 'CAP': 2, 'NBlocks': 2, 'Progs': '<-ProgGrowErase', 'LockAll': True, 'ReacquireBlock': True,
         'NodeStorage': False}
    c.update(kw)
    return c


VG_ACT = ['StartWrite', 'w_acq', 'w_ldst', 'w_lock', 'w_mod', 'gr_unlock', 'gr_ldd', 'gr_lock', 'gr_copy', 'gr_pub', 'gr_rel', 'StartRead', 'r_acq', 'r_st', 'r_rd', 'r_chk', 'Destroy']
INV_VG = ['Linearizable', 'MemorySafe', 'ContentOk']
ACT = ['StartEmplace', 'StartErase', 'w_run', 'StartGet', 'r_st', 'r_k', 'r_v', 'r_st2', 'r_h', 'r_ek', 'r_ev', 'r_st3', 'r_en', 'r_st4', 'r_end']
INV = ['Linearizable']


def run_models(ctx, pid):
    q = ctx.quick
    if pid == 'C10':
        jobs = [
            lambda: tlc_mc(ctx, 'vm_1w1r', 'VyukovMap', vm_consts(), invariants=INV, view='mcview', workers=8, must_cover=ACT),
            lambda: tlc_mc(ctx, 'vm_toggle_nomarker', 'VyukovMap', vm_consts(MarkerCheck=False), invariants=INV, view='mcview', workers=4, expect='violation'),
            lambda: tlc_mc(ctx, 'vm_toggle_nofinalcheck', 'VyukovMap', vm_consts(FinalCheck=False), invariants=INV, view='mcview', workers=4, expect='violation'),
        ]
        # the map across resizing: writers and lock-free readers against grow (lock every bucket, rehash, publish, retire the old block)
        jobs += [
            lambda: tlc_mc(ctx, 'vg_grow_erase', 'VyukovGrow', vg_consts(), invariants=INV_VG, workers=3, must_cover=VG_ACT),
            lambda: tlc_mc(ctx, 'vg_two_growers', 'VyukovGrow', vg_consts(Progs='<-ProgTwoGrowers', NKeys=4, NBlocks=3), invariants=INV_VG, workers=3, must_cover=['gr_wait']),
            lambda: tlc_mc(ctx, 'vg_3t', 'VyukovGrow', vg_consts(NT=3, Progs='<-Prog3'), invariants=INV_VG, workers=4),
            lambda: tlc_mc(ctx, 'vg_toggle_grow_without_locking', 'VyukovGrow', vg_consts(LockAll=False), invariants=INV_VG, workers=3, expect='violation'),
            # known finding C10-stale-block-read is a behaviour of the spec once values live in heap nodes: the reader validates against the cells
            # of a replaced block and dereferences a node erased through the new block
            lambda: tlc_mc(ctx, 'vg_finding_stale_block_read', 'VyukovGrow', vg_consts(NodeStorage=True), invariants=INV_VG, workers=3, expect='violation'),
        ]
        if not q:
            jobs += [lambda: tlc_mc(ctx, 'vm_1w2r', 'VyukovMap', vm_consts(NReaders=2), invariants=INV, view='mcview', workers=12, tmo=3000, heap='24g'),
                     lambda: tlc_mc(ctx, 'vm_pool2_keys4', 'VyukovMap', vm_consts(P=2, NKeys=4, MaxWrites=5), invariants=INV, view='mcview', workers=12, tmo=3000, heap='24g')]
    else:
        jobs = [
            lambda: tlc_mc(ctx, 'vm_iter_erase', 'VyukovMap', vm_consts(AllowIterErase=True, MaxWrites=4 if q else 5), invariants=INV, view='mcview', workers=8,
                           must_cover=ACT + ['StartIterErase', 'IterReset'], tmo=1500),
            lambda: tlc_mc(ctx, 'vm_toggle_version_restored', 'VyukovMap', vm_consts(AllowIterErase=True, MaxWrites=5, VersionKept=False), invariants=INV,
                           view='mcview', workers=8, expect='violation', tmo=1500),
        ]
        if not q:
            jobs += [lambda: tlc_mc(ctx, 'vm_iter_pool2', 'VyukovMap', vm_consts(AllowIterErase=True, P=2, NKeys=4, MaxWrites=5), invariants=INV, view='mcview',
                                    workers=12, tmo=3000, heap='24g'),
                     lambda: tlc_mc(ctx, 'vm_iter_2readers', 'VyukovMap', vm_consts(AllowIterErase=True, NReaders=2, MaxWrites=4), invariants=INV, view='mcview',
                                    workers=12, tmo=3000, heap='24g')]
    run_parallel(jobs, maxw=3)
    ctx.samples.append({'model': 'VyukovMap', 'constants': ctx.mc[0]['consts']})
