# M runs of the VyukovMap impl spec (C10, C11)
from xvlib import *


def vm_consts(**kw):
    c = {'Threads': '<-ThreadsDef', 'MThreads': '<-ThreadsDef', 'Locs': '<-LocsDef', 'InitVal': '<-InitValDef', 'AbsStep': '<-SMStep',
         'Ord': '<-OrdCode', 'Weak': False, 'NReaders': 1, 'B': 2, 'P': 1, 'NKeys': 3, 'MaxWrites': 4, 'MaxReads': 1, 'AllowIterErase': False,
         'VersionKept': True, 'MarkerCheck': True, 'FinalCheck': True}
    c.update(kw)
    return c


ACT = ['StartEmplace', 'StartErase', 'w_run', 'StartGet', 'r_st', 'r_k', 'r_v', 'r_st2', 'r_h', 'r_ek', 'r_ev', 'r_st3', 'r_en', 'r_st4', 'r_end']
INV = ['Linearizable']


def run_models(ctx, pid):
    q = ctx.quick
    if pid == 'C10':
        jobs = [
            lambda: tlc_mc(ctx, 'vm_1w1r', 'VyukovMap', vm_consts(), invariants=INV, view='mcview', workers=8, must_cover=ACT),
            lambda: tlc_mc(ctx, 'vm_toggle_nomarker', 'VyukovMap', vm_consts(MarkerCheck=False), invariants=INV, view='mcview', workers=4, expect='violation'),
            lambda: tlc_mc(ctx, 'vm_toggle_nofinalcheck', 'VyukovMap', vm_consts(FinalCheck=False), invariants=INV, view='mcview', workers=4, expect='violation'),
        ]
        if not q:
            jobs += [lambda: tlc_mc(ctx, 'vm_1w2r', 'VyukovMap', vm_consts(NReaders=2), invariants=INV, view='mcview', workers=12, tmo=3000, heap='24g'),
                     lambda: tlc_mc(ctx, 'vm_pool2_keys4', 'VyukovMap', vm_consts(P=2, NKeys=4, MaxWrites=5), invariants=INV, view='mcview', workers=12, tmo=3000, heap='24g')]
    else:
        jobs = [
            lambda: tlc_mc(ctx, 'vm_iter_erase', 'VyukovMap', vm_consts(AllowIterErase=True, MaxWrites=4 if q else 5), invariants=INV, view='mcview', workers=8,
                           must_cover=ACT + ['StartIterErase', 'IterReset'], tmo=1500),
            lambda: tlc_mc(ctx, 'vm_toggle_version_restored', 'VyukovMap', vm_consts(AllowIterErase=True, MaxWrites=5, VersionKept=False), invariants=INV,
                           view='mcview', workers=8, expect='violation', tmo=1500),
        ]
        if not q:
            jobs += [lambda: tlc_mc(ctx, 'vm_iter_pool2', 'VyukovMap', vm_consts(AllowIterErase=True, P=2, NKeys=4, MaxWrites=5), invariants=INV, view='mcview',
                                    workers=12, tmo=3000, heap='24g'),
                     lambda: tlc_mc(ctx, 'vm_iter_2readers', 'VyukovMap', vm_consts(AllowIterErase=True, NReaders=2, MaxWrites=4), invariants=INV, view='mcview',
                                    workers=12, tmo=3000, heap='24g')]
    run_parallel(jobs, maxw=3)
    ctx.samples.append({'model': 'VyukovMap', 'constants': ctx.mc[0]['consts']})
