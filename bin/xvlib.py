# Shared machinery of /verif/bin/check: build, explore (xvrt), TLC model checking, TLC trace validation,
# evidence, verdicts.  Python stdlib only.
import json, os, re, shutil, subprocess, sys, time, hashlib, glob
from concurrent.futures import ThreadPoolExecutor

VERIF = os.path.dirname(os.path.dirname(os.path.abspath(__file__)))
REPO = os.environ.get('XV_REPO', '/repo')
BUILD = os.environ.get('XV_BUILD', os.path.join(VERIF, '.build'))
# XV_SMOKE=1: every exploration / model run gets a tiny budget - walks through all code paths of a tier (used to test the thorough tier's plumbing)
SMOKE = bool(os.environ.get('XV_SMOKE'))
WORKROOT = os.path.join(VERIF, '.work')
SPEC = os.path.join(VERIF, 'spec')
EVID = os.path.join(VERIF, 'evidence')
REPLAYS = os.path.join(EVID, 'replays')
KNOWN = os.path.join(VERIF, 'known-findings.json')


def log(*a):
    print(*a, file=sys.stderr, flush=True)


class Infra(Exception):
    """nothing can be decided (exit 2)"""


def sh(cmd, tmo=600, env=None, cwd=None):
    e = dict(os.environ)
    if env:
        e.update(env)
    try:
        p = subprocess.run(cmd, shell=isinstance(cmd, str), stdout=subprocess.PIPE, stderr=subprocess.STDOUT,
                           timeout=tmo, env=e, cwd=cwd)
        return p.returncode, p.stdout.decode('utf-8', 'replace')
    except subprocess.TimeoutExpired as ex:
        out = ex.stdout.decode('utf-8', 'replace') if ex.stdout else ''
        return 124, out


# ---------------------------------------------------------------------------------------------
class Ctx:
    def __init__(self, pid, tier, seed):
        self.pid, self.tier, self.seed = pid, tier, seed
        self.t0 = time.time()
        self.work = os.path.join(WORKROOT, '%s-%s-%d' % (pid, tier, os.getpid()))
        shutil.rmtree(self.work, ignore_errors=True)
        os.makedirs(self.work)
        os.makedirs(REPLAYS, exist_ok=True)
        self.mc = []          # model-checking results
        self.tv = []          # trace validation results
        self.violations = []  # dicts: what, replay
        self.known_hits = []  # strings
        self.notes = []
        self.samples = []
        self.binding = []
        self.model_violations = []
        self.quick = tier == 'quick'
        self.known = load_known()

    def sub(self, name):
        d = os.path.join(self.work, name)
        os.makedirs(d, exist_ok=True)
        return d

    def note(self, s):
        log('  note:', s)
        self.notes.append(s)


def load_known():
    if not os.path.exists(KNOWN):
        return []
    return json.load(open(KNOWN))['findings']


# ---------------------------------------------------------------------------------------------
# build
_built = set()
import threading
_build_lock = threading.Lock()


def build(drivers):
    """(re)build xvrt and the named drivers from REPO's current tree (once per process and driver)"""
    with _build_lock:
        drivers = [d for d in drivers if d not in _built]
        if not drivers:
            return
        _build(drivers)


def _build(drivers):
    targets = ' '.join(os.path.join(BUILD, d) for d in drivers)
    rc, out = sh('make -s -C %s/harness -j16 REPO=%s B=%s %s' % (VERIF, REPO, BUILD, targets), tmo=900)
    if rc != 0:
        log(out[-4000:])
        raise Infra('harness build failed (xenium or driver does not compile)')
    for d in drivers:
        _built.add(d)


# ---------------------------------------------------------------------------------------------
# spec staging: TLC wants all modules in one directory
def stage_specs(dst):
    for sub in ('common', 'abs', 'impl', 'trace'):
        for f in glob.glob(os.path.join(SPEC, sub, '*.tla')):
            shutil.copy(f, dst)


def cfg_text(spec='Spec', consts=None, invariants=(), properties=(), view=None, constraints=(), action_constraints=(),
             postcondition=None, symmetry=None, deadlock=False, init=None, next_=None):
    L = []
    if init:
        L += ['INIT %s' % init, 'NEXT %s' % next_]
    else:
        L.append('SPECIFICATION %s' % spec)
    if consts:
        L.append('CONSTANTS')
        for k, v in consts.items():
            if isinstance(v, str) and v.startswith('<-'):
                L.append('  %s %s' % (k, v))
            else:
                L.append('  %s = %s' % (k, tla_val(v)))
    for i in invariants:
        L.append('INVARIANT %s' % i)
    for p in properties:
        L.append('PROPERTY %s' % p)
    for c in constraints:
        L.append('CONSTRAINT %s' % c)
    for c in action_constraints:
        L.append('ACTION_CONSTRAINT %s' % c)
    if view:
        L.append('VIEW %s' % view)
    if symmetry:
        L.append('SYMMETRY %s' % symmetry)
    if postcondition:
        L.append('POSTCONDITION %s' % postcondition)
    L.append('CHECK_DEADLOCK %s' % ('TRUE' if deadlock else 'FALSE'))
    return '\n'.join(L) + '\n'


def tla_val(v):
    if isinstance(v, bool):
        return 'TRUE' if v else 'FALSE'
    if isinstance(v, int):
        return str(v)
    if isinstance(v, str):
        if v.startswith('='):      # raw TLA+ expression allowed in cfg (sets of model values / numbers)
            return v[1:]
        return '"%s"' % v
    if isinstance(v, (set, frozenset, list, tuple)):
        return '{' + ', '.join(tla_val(x) for x in sorted(v, key=str)) + '}'
    raise ValueError(v)


RE_STATES = re.compile(r'(\d+) states generated, (\d+) distinct states found')
RE_COV = re.compile(r'^<(\w+) line (\d+), col \d+ to line \d+, col \d+ of module (\w+)(?: \([\d ]+\))?>: (\d+):(\d+)', re.M)


def tlc_mc(ctx, name, module, consts, invariants=(), properties=(), view=None, constraints=(), workers=4, tmo=600,
           expect='ok', spec='Spec', simulate=None, depth=None, must_cover=(), symmetry=None, heap='8g',
           action_constraints=(), env=None, dump_trace=False, extra_files=None):
    """model-check `module` under a generated cfg. expect: 'ok' or 'violation' (mechanism toggle)."""
    # one model run never takes longer than VERIF_MC_TMO seconds (default 900): a run that does not finish is recorded as partial
    # (a note in the evidence), so that a whole thorough check stays within tens of minutes; raise it for a deeper single run
    tmo = min(tmo, int(os.environ.get('VERIF_MC_TMO', '900')))
    if SMOKE:
        tmo = min(tmo, 60)
    if heap.endswith('g') and int(heap[:-1]) > 12:
        heap = '12g'
    d = ctx.sub('mc_' + name)
    stage_specs(d)
    for fn, txt in (extra_files or {}).items():
        open(os.path.join(d, fn), 'w').write(txt)
    cfgp = os.path.join(d, name + '.cfg')
    open(cfgp, 'w').write(cfg_text(spec, consts, invariants, properties, view, constraints, action_constraints,
                                   symmetry=symmetry, init=None if spec else 'SInit', next_=None if spec else 'SNext'))
    cmd = 'cd %s && JAVA_TOOL_OPTIONS=-Xmx%s timeout %d tlc' % (d, heap, tmo)
    cmd += ' -workers %d -metadir %s/md -coverage 1' % (workers, d)
    if simulate:
        cmd += ' -simulate num=%d' % simulate
        if depth:
            cmd += ' -depth %d' % depth
    if dump_trace:
        cmd += ' -dumpTrace json %s/cex.json' % d
    cmd += ' -config %s.cfg %s.tla' % (name, module)
    t0 = time.time()
    rc, out = sh(cmd, tmo=tmo + 30, env=env)
    wall = time.time() - t0
    open(os.path.join(d, 'tlc.out'), 'w').write(out)
    shutil.rmtree(os.path.join(d, 'md'), ignore_errors=True)
    res = {'name': name, 'module': module, 'consts': {k: str(v) for k, v in consts.items()}, 'wall_s': round(wall, 1),
           'expect': expect, 'invariants': list(invariants) + list(properties), 'dir': d}
    m = RE_STATES.findall(out)
    res['generated'], res['distinct'] = (int(m[-1][0]), int(m[-1][1])) if m else (0, 0)
    if not m:
        # a run stopped by its timeout has only progress lines ("1,234 states generated (...), 567 distinct states found")
        pm = re.findall(r'([\d,]+) states generated \([^)]*\), ([\d,]+) distinct states found', out)
        if pm:
            res['generated'], res['distinct'] = int(pm[-1][0].replace(',', '')), int(pm[-1][1].replace(',', ''))
    viol = re.search(r'Error: Invariant (\w+) is violated|Error: Action property (\w+) is violated|Error: Temporal properties were violated|is violated', out)
    if 'Parsing or semantic analysis failed' in out or 'Error: TLC threw' in out or 'TLC encountered an unexpected exception' in out \
            or ('Error:' in out and not viol and 'Error: The behavior up to' not in out):
        # evaluation errors (Assert failures included) are reported separately
        if 'Assert' in out or 'The first argument of Assert evaluated to FALSE' in out:
            res['status'] = 'assert'
        else:
            res['status'] = 'error'
    elif viol:
        res['status'] = 'violation'
        res['violated'] = next((g for g in viol.groups() if g), 'property') if viol.groups() else 'property'
    elif rc == 124 or 'states generated' not in out:
        res['status'] = 'timeout'
    else:
        res['status'] = 'ok'
    res['exhaustive'] = res['status'] == 'ok' and not simulate and '0 states left on queue' in out
    cov = {}
    for a, line, mod, dist, gen in RE_COV.findall(out):
        if a in ('Init',):
            continue
        cov[a] = cov.get(a, 0) + int(gen)
    res['coverage'] = cov
    res['uncovered'] = [a for a in must_cover if cov.get(a, 0) == 0]
    if res['status'] in ('violation', 'assert'):
        # keep the counterexample text
        i = out.find('Error:')
        res['cex'] = out[i:i + 20000]
    ctx.mc.append(res)
    log('  M %-28s %-9s gen=%d distinct=%d %.1fs %s' % (name, res['status'], res['generated'], res['distinct'], wall,
                                                      ('UNCOVERED ' + ','.join(res['uncovered'])) if res['uncovered'] else ''))
    if expect == 'ok' and res['status'] in ('violation', 'assert'):
        log('MODEL-VIOLATION %s/%s: %s violated in the model instantiated from the current tree (reported as VIOLATION only '
            'when a real execution shows it)' % (module, name, res.get('violated', 'assertion')))
        ctx.model_violations.append({'run': name, 'module': module, 'violated': res.get('violated', 'assertion'), 'cex_head': res['cex'][:3000]})
    if res['status'] == 'error':
        log(out[-3000:])
        raise Infra('TLC failed on %s/%s' % (module, name))
    if expect == 'ok' and res['status'] == 'timeout' and not simulate:
        ctx.note('model run %s did not finish within %ds (partial: %d distinct states, no violation so far)' % (name, tmo, res['distinct']))
    if expect == 'violation' and res['status'] == 'timeout':
        # a toggle that ran out of time says nothing about the spec (machine load); it is recorded, not treated as vacuity
        ctx.note('mechanism toggle %s did not finish within %ds (%d distinct states, no counterexample yet)' % (name, tmo, res['distinct']))
        return res
    if expect == 'violation' and res['status'] not in ('violation', 'assert'):
        raise Infra('mechanism toggle %s produced no counterexample: the spec does not see this mechanism' % name)
    if res['uncovered'] and expect == 'ok' and res['status'] == 'ok':
        raise Infra('model run %s never took action(s) %s: vacuous' % (name, res['uncovered']))
    return res


# ---------------------------------------------------------------------------------------------
# exploration of the real code
def explore(ctx, name, driver, progs, mode='dfs', pb=2, max_exec=20000, runs=0, steps=False, extra='', tmo=900, shard=None,
            max_steps=None):
    if SMOKE:
        max_exec, runs, tmo = min(max_exec or 300, 300), min(runs, 40), min(tmo, 150)
    d = ctx.sub('x_' + name)
    pf = os.path.join(d, 'progs.txt')
    open(pf, 'w').write('\n'.join(progs) + '\n')
    out = os.path.join(d, 'traces.ndjson')
    cmd = 'timeout %d %s --progs %s --out %s --mode %s --pb %d --max-exec %d --seed %d' % (
        tmo, os.path.join(BUILD, driver), pf, out, mode, pb, max_exec, ctx.seed)
    if runs:
        cmd += ' --runs %d' % runs
    if steps:
        cmd += ' --steps'
    if shard:
        cmd += ' --shard %s' % shard
    if max_steps:
        cmd += ' --max-steps %d' % max_steps
    cmd += ' --time-budget %d' % int(tmo * 0.85)
    cmd += ' ' + extra + ' ' + EXTRA_ALL[0]
    t0 = time.time()
    rc, o = sh(cmd, tmo=tmo + 30)
    m = re.search(r'XVSUMMARY (\{.*\})', o)
    if not m:
        log(o[-3000:])
        raise Infra('exploration %s produced no summary (rc=%d)' % (name, rc))
    s = json.loads(m.group(1))
    s.update({'name': name, 'driver': driver, 'mode': mode, 'pb': pb, 'trace': out, 'wall_s': round(time.time() - t0, 1),
              'nprogs': len(progs)})
    log('  X %-28s exec=%d distinct=%d trunc=%d outcomes=%s %.1fs' % (name, s['executions'], s['distinct'], s['truncated'],
                                                                   s['outcomes'], s['wall_s']))
    return s


def read_sched(tracefile):
    """trace number -> (prog, outcome, dec line, tids line)"""
    m = {}
    p = tracefile + '.sched'
    if os.path.exists(p):
        for line in open(p):
            f = line.rstrip('\n').split('\t')
            if len(f) >= 5:
                m[int(f[0])] = (f[1], f[2], f[3], f[4], int(f[5]) if len(f) > 5 else 2)
    return m


def split_trace(tracefile, chunk):
    """split into files of at most `chunk` executions; returns list of (path, [exec numbers])"""
    parts, cur, nums = [], [], []
    idx = 0

    def flush():
        nonlocal cur, nums, idx
        if cur:
            p = '%s.part%d' % (tracefile, idx)
            open(p, 'w').write(''.join(cur))
            parts.append((p, nums))
            idx += 1
            cur, nums = [], []

    for line in open(tracefile):
        if line.startswith('{"e":"reset"'):
            if len(nums) >= chunk:
                flush()
            nums.append(json.loads(line)['a'])
        cur.append(line)
    flush()
    return parts


def execution_lines(tracefile, num):
    out, on = [], False
    for line in open(tracefile):
        if line.startswith('{"e":"reset"'):
            on = json.loads(line)['a'] == num
        if on:
            out.append(line)
    return out


def validate(ctx, name, module, xs, consts, chunk=1500, tmo=900, constraints=('Progress',)):
    """TLC trace validation of every execution in the exploration result xs against trace spec `module`.
       Returns dict with accepted / rejected execution numbers and diagnosis of rejected ones."""
    tracefile = xs['trace']
    d = ctx.sub('tv_' + name)
    stage_specs(d)
    cfgp = os.path.join(d, 'tv.cfg')
    open(cfgp, 'w').write(cfg_text('Spec', consts, constraints=constraints, postcondition='Report'))
    parts = split_trace(tracefile, chunk)
    t0 = time.time()

    def one(i_part):
        i, (p, nums) = i_part
        cmd = 'cd %s && timeout %d tlc -workers 1 -metadir %s/md%d -config tv.cfg %s.tla' % (d, tmo, d, i, module)
        rc, out = sh(cmd, tmo=tmo + 30, env={'TRACE': p, 'JAVA_TOOL_OPTIONS': '-Xmx6g'})
        shutil.rmtree('%s/md%d' % (d, i), ignore_errors=True)
        if 'Model checking completed' not in out and 'states generated' not in out:
            open(os.path.join(d, 'tlc_part%d.out' % i), 'w').write(out)
            log(out[-3000:])
            raise Infra('trace validation %s failed to run' % name)
        if 'Error:' in out:
            open(os.path.join(d, 'tlc_part%d.out' % i), 'w').write(out)
            log(out[-3000:])
            raise Infra('trace validation %s: TLC error' % name)
        acc = set(int(x) for x in re.findall(r'<<"ACC", (\d+)>>', out))
        m = RE_STATES.findall(out)
        st = (int(m[-1][0]), int(m[-1][1])) if m else (0, 0)
        return set(nums), acc, st

    with ThreadPoolExecutor(max_workers=6) as ex:
        rs = list(ex.map(one, enumerate(parts)))
    total, acc, gen, dist = set(), set(), 0, 0
    for n, a, st in rs:
        total |= n
        acc |= a
        gen += st[0]
        dist += st[1]
    rejected = sorted(total - acc)
    res = {'name': name, 'module': module, 'executions': len(total), 'accepted': len(acc), 'rejected': rejected,
           'tlc_generated': gen, 'tlc_distinct': dist, 'wall_s': round(time.time() - t0, 1), 'trace': tracefile,
           'driver': xs['driver'], 'diag': {}, 'mode': xs.get('mode', 'dfs')}
    # diagnosis: furthest record for the first few rejected executions
    sched = read_sched(tracefile)
    for num in rejected[:3]:
        lines = execution_lines(tracefile, num)
        one_p = os.path.join(d, 'rej_%d.ndjson' % num)
        open(one_p, 'w').write(''.join(lines))
        cmd = 'cd %s && timeout 300 tlc -workers 1 -metadir %s/mdr%d -config tv.cfg %s.tla' % (d, d, num, module)
        rc, out = sh(cmd, tmo=330, env={'TRACE': one_p, 'ONLY': str(num)})
        shutil.rmtree('%s/mdr%d' % (d, num), ignore_errors=True)
        m = re.search(r'<<"FURTHEST", (\d+), "OF", (\d+)>>', out)
        fur = int(m.group(1)) if m else 0
        res['diag'][num] = {'furthest': fur, 'record': lines[fur - 1].strip() if 0 < fur <= len(lines) else '<end>',
                            'sched': sched.get(num), 'lines': [l.strip() for l in lines]}
    ctx.tv.append(res)
    log('  T %-28s executions=%d accepted=%d rejected=%d %.1fs' % (name, len(total), len(acc), len(rejected), res['wall_s']))
    return res


def write_replay(ctx, tag, driver, module, consts, diag, num, extra_args=''):
    """replay file for a rejected execution; returns path"""
    prog, outcome, dec, tids, pbv = diag['sched'] if diag.get('sched') else ('', '', '#DEC', '#TIDS', 2)
    body = {'property': ctx.pid, 'driver': driver, 'trace_spec': module, 'consts': consts, 'program': prog,
            'dec': dec, 'tids': tids, 'pb': pbv, 'outcome': outcome, 'furthest_record': diag.get('record'),
            'history': diag.get('lines'), 'extra_args': extra_args}
    h = hashlib.sha1(json.dumps(body, sort_keys=True).encode()).hexdigest()[:10]
    p = os.path.join(REPLAYS, '%s_%s_%s.json' % (ctx.pid, tag, h))
    json.dump(body, open(p, 'w'), indent=1)
    return p


EXTRA_ALL = ['']   # extra driver arguments applied to every exploration and replay while set (C03: --race)
POST = {}   # driver -> post-processing of raw traces (applied to explorations by the property module and to replays here)


def replay(ctx, path, steps=False):
    """re-run a replay file against the current tree; returns (rejected?, validation result)"""
    body = json.load(open(path))
    build([body['driver']])
    d = ctx.sub('replay_%d' % (hash(path) % 100000))
    rf = os.path.join(d, 'replay.txt')
    open(rf, 'w').write(body['program'] + '\n' + body['dec'] + '\n')
    out = os.path.join(d, 'traces.ndjson')
    cmd = 'timeout 120 %s --mode replay --replay %s --out %s --pb %d %s %s' % (os.path.join(BUILD, body['driver']), rf, out, body.get('pb', 2),
                                                                        '--steps' if steps else '', body.get('extra_args', ''))
    rc, o = sh(cmd, tmo=150)
    m = re.search(r'XVSUMMARY (\{.*\})', o)
    if not m:
        raise Infra('replay did not run')
    xs = json.loads(m.group(1))
    xs.update({'trace': out, 'driver': body['driver']})
    if body['driver'] in POST and not steps:
        POST[body['driver']](os.path.join(BUILD, body['driver']), out)
    if steps:
        return xs
    res = validate(ctx, 'replay_%d' % (hash(path) % 100000), body['trace_spec'], xs, body['consts'])
    ctx.tv.remove(res)
    return bool(res['rejected']), res


# ---------------------------------------------------------------------------------------------
# R: a counterexample of an impl spec, replayed on the real code
def cex_thread_sequence(tlc_out):
    """thread ids of the access steps (the access counter last.n advances, kind is not call) of a TLC counterexample"""
    i = tlc_out.find('Error: The behavior')
    if i < 0:
        return []
    blocks = re.split(r'\nState (\d+): ', tlc_out[i:])
    seq, prevn = [], 0
    for k in range(1, len(blocks), 2):
        body = ' '.join(blocks[k + 1].split())
        m = re.search(r'/\\ last = (.*?)(?= /\\ \w+ = |$)', body)
        if not m:
            continue
        last = m.group(1)
        n = int(re.search(r'\bn \|-> (\d+)', last).group(1)); t = int(re.search(r'\bt \|-> (-?\d+)', last).group(1))
        kind = re.search(r'\bk \|-> "(\w+)"', last).group(1)
        if n > prevn and kind not in ('call', 'init'):
            seq.append(t)
        prevn = n
    return seq


def replay_model_cex(ctx, name, res, driver, program, module, consts, known_preds=(), unbound_per_op=0):
    """Takes the counterexample of model run `res` (an impl spec whose actions are the atomic accesses of the code), turns its
       thread order into a directed schedule (#SEG: one entry per scheduling point, +1 for each thread's start), runs the REAL code
       under it and validates the resulting history with the history-level trace spec `module`.  A rejected history is a violation
       shown on the real code - reported unless a known-finding predicate matches.  Returns 'aligned-rejected' | 'aligned-accepted' |
       'not-aligned' (the code did not follow the model's thread order: binding note, no verdict)."""
    out = open(os.path.join(res['dir'], 'tlc.out')).read()
    seq = cex_thread_sequence(out)
    if not seq:
        ctx.note('R %s: no counterexample to replay' % name); return 'none'
    segs, seen = [], set()
    for t in seq:
        if segs and segs[-1][0] == t:
            segs[-1][1] += 1
        else:
            segs.append([t, 1])
    for sg in segs:
        if sg[0] not in seen:
            seen.add(sg[0]); sg[1] += 1          # the thread's start is a scheduling point of its own
    nthreads = max(seq) + 1
    dec = '#SEG ' + ' '.join('%d*%d' % (t, c) for t, c in segs) + ' ' + ' '.join('%d*100000' % t for t in range(nthreads))
    build([driver])
    d = ctx.sub('rcex_' + name)
    rf = os.path.join(d, 'replay.txt'); open(rf, 'w').write(program + '\n' + dec + '\n')
    st = os.path.join(d, 'steps.ndjson')
    rc, o = sh('timeout 120 %s --mode replay --replay %s --out %s --pb 99 --steps' % (os.path.join(BUILD, driver), rf, st), tmo=150)
    if 'XVSUMMARY' not in o:
        raise Infra('replay of model counterexample %s did not run' % name)
    real = [json.loads(l) for l in open(st) if l.strip()]
    acc = [r['t'] for r in real if r['e'] in ('ld', 'st', 'cas', 'xchg', 'faa', 'fas', 'for', 'fand', 'fxor', 'fence') and r['t'] != 9]
    aligned = acc[:len(seq)] == seq
    body = {'property': ctx.pid, 'driver': driver, 'trace_spec': module, 'consts': consts, 'program': program, 'dec': dec, 'tids': dec, 'pb': 99,
            'outcome': 'model-counterexample', 'furthest_record': None, 'history': None, 'extra_args': '', 'from_model': res['name']}
    h = hashlib.sha1(json.dumps(body, sort_keys=True).encode()).hexdigest()[:10]
    p = os.path.join(REPLAYS, '%s_%s_%s.json' % (ctx.pid, name, h))
    json.dump(body, open(p, 'w'), indent=1)
    rej, vres = replay(ctx, p)
    vres['name'] = 'rcex_' + name; vres['executions_run'] = 1; vres['programs'] = 1
    ctx.tv.append(vres)
    log('  R %-28s model counterexample of %s replayed on the real code: %s, history %s' % (name, res['name'], 'thread order followed' if aligned else 'NOT aligned',
                                                                                        'REJECTED' if rej else 'accepted'))
    if not aligned:
        ctx.binding.append({'replay': name, 'diverged': 'the real code did not follow the thread order of the model counterexample'})
    if not rej:
        os.remove(p)
        return 'aligned-accepted' if aligned else 'not-aligned'
    # rejected on the real code: known finding?
    lab = os.path.join(d, 'lab.ndjson'); label_steps(os.path.join(BUILD, driver), st, lab)
    with open(lab) as f:
        lines = f.readlines()
    with open(lab, 'w') as f:
        f.write(json.dumps({'e': 'reset', 't': 9, 'op': 'p0', 'a': 1, 'b': 0, 'r': 0, 'v': 0, 'fn': '', 'ln': 0, 'ctx': ''}, separators=(',', ':')) + '\n')
        for l in lines:
            if not l.startswith('{"e":"reset"'):
                f.write(l)
    for k in [k for k in ctx.known if k['property'] == ctx.pid and k['status'] == 'known' and k.get('predicate') in set(known_preds)]:
        if known_finding_tla(ctx, k['predicate'], lab, 'rcex_' + name).get(1):
            txt = '%s: %s' % (k['id'], k['title'])
            if txt not in ctx.known_hits:
                ctx.known_hits.append(txt)
            os.remove(p)
            return 'aligned-rejected'
    ctx.violations.append({'what': 'R %s: the counterexample of model run %s, replayed on the real code, gives a history that %s rejects' % (name, res['name'], module), 'replay': p})
    return 'aligned-rejected'


# ---------------------------------------------------------------------------------------------
# verdicts
def check_histories(ctx, name, driver, module, consts, xs, known_preds=(), extra_args=''):
    extra_args = (extra_args + ' ' + EXTRA_ALL[0]).strip()
    """validate; every rejected execution is confirmed by an immediate replay; known findings are matched"""
    res = validate(ctx, name, module, xs, consts)
    kfs = match_known_batch(ctx, driver, res['trace'], res['rejected'], set(known_preds), extra_args, name, use_tids=res.get('mode') == 'random') if known_preds else {}
    res['known_finding_executions'] = len(kfs)
    for num in res['rejected']:
        diag = res['diag'].get(num)
        if diag is None:
            diag = {'sched': read_sched(res['trace']).get(num), 'lines': [l.strip() for l in execution_lines(res['trace'], num)]}
        kf = kfs.get(num)
        if kf:
            if kf not in ctx.known_hits:
                ctx.known_hits.append(kf)
            continue
        if res.get('mode') == 'random' and diag.get('sched'):
            # random schedules are replayed by their thread list (one entry per scheduling point), not by DFS decisions
            sc = diag['sched']
            diag = dict(diag, sched=(sc[0], sc[1], sc[3], sc[3], sc[4]))
        p = write_replay(ctx, name, driver, module, consts, diag, num, extra_args)
        # confirm (executions are deterministic; a non-repeat is an xvrt bug -> infrastructure failure)
        rej, _ = replay(ctx, p)
        if not rej:
            raise Infra('rejected execution %d of %s did not repeat from its replay file %s' % (num, name, p))
        ctx.violations.append({'what': '%s: execution %d rejected by %s at record %s' % (name, num, module, diag.get('record')),
                               'replay': p})
        if len(ctx.violations) >= 3:
            break
    return res


def canonical_sample(lines, limit=40):
    out = []
    for l in lines[:limit]:
        try:
            r = json.loads(l)
        except Exception:
            continue
        if r['e'] == 'call':
            out.append('t%d:%s(%s)' % (r['t'], r['op'], r['a'] if not r['b'] else '%s,%s' % (r['a'], r['b'])))
        elif r['e'] == 'ret':
            out.append('t%d:ret(%s,%s)' % (r['t'], r['r'], r['v']))
        elif r['e'] not in ('reset',):
            out.append('%s:%s' % (r['e'], r['op']))
    return ' '.join(out)


def count_nontrivial(tracefile):
    """distinct executions whose history has at least two overlapping operations of different threads"""
    n, open_ops, overl, cur = 0, set(), False, False
    for line in open(tracefile):
        if line.startswith('{"e":"reset"'):
            if cur and overl:
                n += 1
            open_ops, overl, cur = set(), False, True
            continue
        if line.startswith('{"e":"call"'):
            t = json.loads(line)['t']
            if open_ops - {t}:
                overl = True
            open_ops.add(t)
        elif line.startswith('{"e":"ret"'):
            open_ops.discard(json.loads(line)['t'])
    if cur and overl:
        n += 1
    return n


def finish(ctx, level_rule, assumptions, extra_cov=None):
    """write evidence, print verdict, return exit code"""
    states = sum(r['distinct'] for r in ctx.mc)
    trans = sum(r['generated'] for r in ctx.mc)
    traces = sum(r['accepted'] for r in ctx.tv)
    evals = sum(r.get('executions_run', 0) for r in ctx.tv)
    nontriv = sum(r.get('nontrivial', 0) for r in ctx.tv)
    samples = ctx.samples[:6]
    if not samples:
        samples = ['(no sample recorded)']
    cov = {
        'states': states, 'transitions': trans, 'traces_validated_against_impl': traces, 'samples': samples,
        'evaluations': evals, 'distinct_nontrivial': nontriv, 'rule': level_rule,
        'exhaustive': bool(ctx.mc) and all(r['exhaustive'] for r in ctx.mc if r['expect'] == 'ok'),
        'model_runs': [{k: r[k] for k in ('name', 'module', 'consts', 'status', 'expect', 'generated', 'distinct', 'exhaustive', 'wall_s', 'invariants')}
                       | {'min_action_count': min(r['coverage'].values()) if r['coverage'] else 0,
                          'actions': len(r['coverage'])} for r in ctx.mc],
        'trace_validation': [{k: r[k] for k in ('name', 'module', 'driver', 'executions', 'accepted', 'wall_s', 'tlc_distinct')}
                             | {'rejected': len(r['rejected']), 'executions_run': r.get('executions_run', 0),
                                'programs': r.get('programs', 0), 'truncated_programs': r.get('truncated', 0)} for r in ctx.tv],
        'toggles_exercised': [r['name'] for r in ctx.mc if r['expect'] == 'violation' and r['status'] in ('violation', 'assert')],
        'binding': ctx.binding, 'model_violations_not_transferred': ctx.model_violations, 'notes': ctx.notes, 'known_findings_hit': ctx.known_hits,
    }
    if extra_cov:
        cov.update(extra_cov)
    ev = {'property_id': ctx.pid, 'tier': ctx.tier, 'seed': ctx.seed, 'level': 'model_checking', 'coverage': cov,
          'assumptions': assumptions, 'wall_s': round(time.time() - ctx.t0, 1), 'violations': len(ctx.violations)}
    os.makedirs(EVID, exist_ok=True)
    if not os.environ.get('XV_NOEVIDENCE'):
        json.dump(ev, open(os.path.join(EVID, ctx.pid + '.json'), 'w'), indent=1)
    for k in ctx.known_hits:
        print('KNOWN-FINDING: property=%s %s' % (ctx.pid, k))
    for v in ctx.violations:
        log('  ' + v['what'])
        print('VIOLATION property=%s replay=%s' % (ctx.pid, v['replay']))
    if not os.environ.get('XV_KEEP'):
        shutil.rmtree(ctx.work, ignore_errors=True)
    print('%s %s: %s  (states=%d traces=%d wall=%.0fs)' % (ctx.pid, ctx.tier, 'VIOLATED' if ctx.violations else 'ok', states, traces,
                                                         time.time() - ctx.t0))
    return 1 if ctx.violations else 0


def run_parallel(jobs, maxw=4):
    """jobs: list of callables; exceptions propagate"""
    with ThreadPoolExecutor(max_workers=maxw) as ex:
        futs = [ex.submit(j) for j in jobs]
        return [f.result() for f in futs]


def add_tv_stats(res, xs_list):
    res['executions_run'] = sum(x['executions'] for x in xs_list)
    res['programs'] = sum(x['nprogs'] for x in xs_list)
    res['truncated'] = sum(x['truncated'] for x in xs_list)
    res['nontrivial'] = sum(count_nontrivial(x['trace']) for x in xs_list)


# ---------------------------------------------------------------------------------------------
# call-site symbolization of step-level traces ("sites instead of hooks")
_symcache = {}
WRAPPERS = ('std::', '__gnu_cxx::', 'xenium::marked_ptr', 'xenium::reclamation::detail::concurrent_ptr',
            'xenium::detail::marked_ptr')


SWRAPPERS = ('std::', '__gnu_cxx::', 'marked_ptr', 'detail::concurrent_ptr', 'concurrent_ptr')


def _strip_templates(s):
    out, depth = [], 0
    for ch in s:
        if ch == '<':
            depth += 1
        elif ch == '>':
            depth -= 1
        elif depth == 0:
            out.append(ch)
    return ''.join(out)


def simplify_fn(fn):
    fn = _strip_templates(fn)
    fn = re.sub(r'\(.*$', '', fn).strip()
    fn = re.sub(r'^.* ', '', fn)   # drop return types
    fn = fn.replace('xenium::reclamation::', '').replace('xenium::detail::', '').replace('xenium::', '')
    return fn


def symbolize(binary, pcs):
    """pc (hex string) -> (function, file, line) of the innermost xenium algorithm frame"""
    todo = [p for p in pcs if (binary, p) not in _symcache]
    if todo:
        addrs = ' '.join(hex(int(p, 16) - 1) for p in todo)
        rc, out = sh('addr2line -e %s -f -i -C %s' % (binary, addrs), tmo=300)
        # output: for each address, pairs of lines (function, file:line), inlined frames innermost first;
        # addresses are not delimited, so query one by one when ambiguous: use -a to delimit
        rc, out = sh('addr2line -a -e %s -f -i -C %s' % (binary, addrs), tmo=300)
        cur, frames = None, {}
        lines = out.splitlines()
        i = 0
        while i < len(lines):
            if lines[i].startswith('0x') and ' ' not in lines[i]:
                cur = lines[i]
                frames[cur] = []
                i += 1
                continue
            if cur is not None and i + 1 < len(lines):
                frames[cur].append((lines[i], lines[i + 1]))
                i += 2
            else:
                i += 1
        for p in todo:
            key = '0x%016x' % (int(p, 16) - 1)
            best = ('?', '?', 0)
            ctx = []
            for fn, loc in frames.get(key, []):
                # thin wrappers are recognised on the simplified name (a return type such as std::pair<...> must not hide the function)
                if '/xenium/' in loc and not simplify_fn(fn).startswith(SWRAPPERS):
                    f, _, ln = loc.partition(':')
                    ln = int(re.sub(r'\D.*$', '', ln) or 0)
                    if best[0] == '?':
                        best = (simplify_fn(fn), f[f.index('/xenium/') + 1:], ln)
                    # container-level context: frames outside the reclamation layer and its helpers
                    if '/xenium/reclamation/' not in loc and '/xenium/acquire_guard.hpp' not in loc:
                        ctx.append(simplify_fn(fn))
            _symcache[(binary, p)] = best + ('<'.join(ctx),)
    return {p: _symcache[(binary, p)] for p in pcs}


def label_steps(binary, tracefile, outfile):
    """adds fn / ln fields to step events (and to all other records, empty) so that records stay uniform"""
    recs = [json.loads(l) for l in open(tracefile) if l.strip()]
    pcs = sorted({p for r in recs if 'pc' in r for p in r['pc'].split(',')})
    sym = symbolize(binary, pcs)
    with open(outfile, 'w') as f:
        for r in recs:
            if 'pc' in r:
                chain = r['pc'].split(',')
                fn, fl, ln, cx = sym[chain[0]]
                # call-stack events (uaf): container context over the whole stack
                cx = '<'.join(x for x in [sym[c][3] for c in chain] if x)
                r['fn'], r['ln'], r['ctx'] = fn, ln, cx
                del r['pc']
            else:
                r['fn'], r['ln'], r['ctx'] = '', 0, ''
            f.write(json.dumps(r, separators=(',', ':')) + '\n')
    return recs


def known_finding_tla(ctx, pred, steptrace, tag=''):
    """evaluate finding predicate `pred` (an operator of spec/trace/KnownFindings.tla) on every execution of a
       labelled step trace; returns {execution number: bool}"""
    d = ctx.sub('kf_' + tag)
    stage_specs(d)
    open(os.path.join(d, 'kf.cfg'), 'w').write('INIT Init\nNEXT Next\nCHECK_DEADLOCK FALSE\n')
    rc, out = sh('cd %s && timeout 300 tlc -workers 1 -metadir %s/md -config kf.cfg KnownFindings.tla' % (d, d), tmo=330,
                 env={'TRACE': steptrace, 'KF': pred})
    shutil.rmtree(os.path.join(d, 'md'), ignore_errors=True)
    m = re.findall(r'<<"KF", "%s", (\d+), (TRUE|FALSE)>>' % pred, out)
    if not m:
        log(out[-2000:])
        raise Infra('known-finding predicate %s could not be evaluated' % pred)
    return {int(n): v == 'TRUE' for n, v in m}


def match_known_batch(ctx, driver, tracefile, nums, pred_names, extra_args='', tag='', use_tids=False):
    """replays the rejected executions with step logging, labels call sites and evaluates the finding
       predicates of the known (not fixed) findings of this property.  Returns {num: finding text}."""
    cands = [k for k in ctx.known if k['property'] == ctx.pid and k['status'] == 'known' and k.get('predicate') in pred_names]
    if not cands or not nums:
        return {}
    sched = read_sched(tracefile)
    d = ctx.sub('kfreplay_' + tag)
    allp = os.path.join(d, 'steps_all.ndjson')
    with open(allp, 'w') as fa:
        for num in nums:
            if num not in sched:
                continue
            prog, outcome, dec, tids, pbv = sched[num]
            rf = os.path.join(d, 'replay.txt')
            open(rf, 'w').write(prog + '\n' + (tids if use_tids else dec) + '\n')    # random schedules replay by their thread list
            out = os.path.join(d, 'steps.ndjson')
            rc, o = sh('timeout 120 %s --mode replay --replay %s --out %s --pb %d --steps %s' % (os.path.join(BUILD, driver), rf, out, pbv, extra_args), tmo=150)
            if 'XVSUMMARY' not in o:
                raise Infra('step replay failed')
            lab = os.path.join(d, 'lab.ndjson')
            label_steps(os.path.join(BUILD, driver), out, lab)
            for line in open(lab):
                if line.startswith('{"e":"reset"'):
                    r = json.loads(line); r['a'] = num; line = json.dumps(r, separators=(',', ':')) + '\n'
                fa.write(line)
    res = {}
    for k in cands:
        hits = known_finding_tla(ctx, k['predicate'], allp, tag)
        for num, v in hits.items():
            if v and num not in res:
                res[num] = '%s: %s' % (k['id'], k['title'])
    return res
