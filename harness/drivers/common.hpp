// shared helpers for driver programs: program strings are
//   <config>;<setup ops>;<thread 0 ops>;<thread 1 ops>;...
// ops are comma separated tokens  name[a[:b]]  e.g. push3, emplace2:7, pop
#pragma once
#include "../rt/xvrt.hpp"
#include <cctype>
#include <cstdlib>
#include <string>
#include <vector>

namespace drv {
struct Op { std::string name; long a = 0, b = 0; };
struct Program { std::string config; std::vector<Op> setup; std::vector<std::vector<Op>> threads; std::vector<int> after; };

inline std::vector<std::string> split(const std::string& s, char sep) {
  std::vector<std::string> out; std::string cur;
  for (char c : s) { if (c == sep) { out.push_back(cur); cur.clear(); } else if (!isspace((unsigned char)c)) cur += c; }
  out.push_back(cur); return out;
}
inline Op parse_op(const std::string& tok) {
  Op o; size_t i = 0;
  while (i < tok.size() && (isalpha((unsigned char)tok[i]) || tok[i] == '_')) i++;
  o.name = tok.substr(0, i);
  if (i < tok.size()) { char* e; o.a = strtol(tok.c_str() + i, &e, 10); if (*e == ':') o.b = strtol(e + 1, &e, 10); }
  return o;
}
inline std::vector<Op> parse_ops(const std::string& s) {
  std::vector<Op> v; for (auto& t : split(s, ',')) if (!t.empty()) v.push_back(parse_op(t)); return v;
}
inline Program parse(const std::string& s) {
  Program p; auto parts = split(s, ';');
  p.config = parts.size() > 0 ? parts[0] : "";
  if (parts.size() > 1) p.setup = parse_ops(parts[1]);
  for (size_t i = 2; i < parts.size(); i++) {
    std::string seg = parts[i]; int aft = -1;
    if (!seg.empty() && seg[0] == '@') { size_t c = seg.find(':'); aft = atoi(seg.c_str() + 1); seg = c == std::string::npos ? "" : seg.substr(c + 1); }
    p.after.push_back(aft); p.threads.push_back(parse_ops(seg));
  }
  return p;
}
} // namespace drv
