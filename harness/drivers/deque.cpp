// driver: chase_work_stealing_deque (C12).  thread 0 = owner (push/pop), others = thieves (steal).
// configs: g<cap> growing_circular_array, f<cap> fixed_size_circular_array
#include "common.hpp"
#include <xenium/chase_work_stealing_deque.hpp>
#include <xenium/detail/fixed_size_circular_array.hpp>
#include <memory>

using namespace xenium;
static int items[64];

template <class D>
xv::Scenario make_scn(const drv::Program& p) {
  auto d = std::make_shared<std::unique_ptr<D>>();
  auto exec = [d](const drv::Op& o) {
    int* r = nullptr;
    if (o.name == "push") { xv::call("push", o.a); bool ok = (*d)->try_push(&items[o.a]); xv::ret(ok, o.a); }
    else if (o.name == "pop") { xv::call("pop"); bool ok = (*d)->try_pop(r); xv::ret(ok, ok ? (long)(r - items) : 0); }
    else if (o.name == "steal") { xv::call("steal"); bool ok = (*d)->try_steal(r); xv::ret(ok, ok ? (long)(r - items) : 0); }
  };
  xv::Scenario s; s.nthreads = (int)p.threads.size();
  s.setup = [=] {
    xv::name_range(items, sizeof(int), 64, 0);
    d->reset(new D);
    if (p.config[0] == 'f') xv::ev("cfg", "fixedcap", atoi(p.config.c_str() + 1));
    for (auto& o : p.setup) exec(o);
  };
  s.body = [=](int t) { for (auto& o : p.threads[t]) exec(o); };
  s.finish = [=] { // drain as the owner
    for (int i = 0; i < 64; i++) { int* r = nullptr; xv::call("pop"); bool ok = (*d)->try_pop(r); xv::ret(ok, ok ? (long)(r - items) : 0); if (!ok) break; }
    xv::ev("quiescent", "end");
  };
  return s;
}

int main(int argc, char** argv) {
  return xv::explore_main(argc, argv, [](const std::string& ps) {
    drv::Program p = drv::parse(ps);
    using namespace xenium::policy;
    if (p.config == "g2") return make_scn<chase_work_stealing_deque<int, capacity<2>>>(p);
    if (p.config == "g4") return make_scn<chase_work_stealing_deque<int, capacity<4>>>(p);
    if (p.config == "g8") return make_scn<chase_work_stealing_deque<int, capacity<8>>>(p);
    if (p.config == "f2") return make_scn<chase_work_stealing_deque<int, capacity<2>, container<detail::fixed_size_circular_array<int, 2>>>>(p);
    if (p.config == "f4") return make_scn<chase_work_stealing_deque<int, capacity<4>, container<detail::fixed_size_circular_array<int, 4>>>>(p);
    fprintf(stderr, "deque: unknown config %s\n", p.config.c_str()); exit(2);
  });
}
