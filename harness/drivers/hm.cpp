// driver: harris_michael_list_based_set / harris_michael_hash_map (C08, C09)
//   config: set/<recl>   |   map<buckets><m|n><h|c>/<recl>   (m = memoize_hash, h = identity hash, c = colliding hash)
//           sset / smap<buckets><m|n><h|c>: the same with std::string keys (heap-allocated, moved-from = empty)
//   ops: emp<k>  eog<k>  goe<k>  gol<k>  idx<k>  era<k>  fnd<k>  con<k>  fer<k> (erase(find(k)))  trav  trave<p> (erase at position p)
//   values: a map stores 10*k with key k
#include "common.hpp"
#include "reclaimers.hpp"
#include <xenium/harris_michael_hash_map.hpp>
#include <xenium/harris_michael_list_based_set.hpp>
#include <memory>
#include <string>

struct IdHash { std::size_t operator()(int k) const noexcept { return (std::size_t)k; } };
struct ColHash { std::size_t operator()(int) const noexcept { return 7; } };
// key conversions: int keys, and std::string keys long enough to live on the heap (a moved-from key is empty: C08 "the value seen for
// a key is the one inserted with it" must not depend on the key argument surviving a failed insertion attempt)
struct IntKey { using type = int; static int mk(int k) { return k; } static long id(const int& k) { return k; } };
struct StrKey { using type = std::string;
  static std::string mk(int k) { return std::string(24, 'k') + std::to_string(k); }
  static long id(const std::string& s) { return s.size() > 24 ? atol(s.c_str() + 24) : -1; } };
struct StrIdHash { std::size_t operator()(const std::string& s) const noexcept { return (std::size_t)StrKey::id(s); } };
struct StrColHash { std::size_t operator()(const std::string&) const noexcept { return 7; } };

template <class S, class KC = IntKey> struct SetOps {
  using K = KC;
  static long key(typename S::iterator& it) { return KC::id(*it); }
  static long val(typename S::iterator&) { return 0; }
  static bool emplace(S& s, int k) { return s.emplace(KC::mk(k)); }
  static std::pair<bool, long> eog(S& s, int k) { auto r = s.emplace_or_get(KC::mk(k)); return {r.second, KC::id(*r.first)}; }
};
template <class M, class KC = IntKey> struct MapOps {
  using K = KC;
  static long key(typename M::iterator& it) { return KC::id(it->first); }
  static long val(typename M::iterator& it) { return it->second; }
  static bool emplace(M& m, int k) { return m.emplace(KC::mk(k), k * 10); }
  static std::pair<bool, long> eog(M& m, int k) { auto r = m.emplace_or_get(KC::mk(k), k * 10); return {r.second, (long)r.first->second}; }
};

template <class C, class Ops, bool IsMap>
xv::Scenario make_scn(const drv::Program& p) {
  auto c = std::make_shared<C*>(nullptr);
  auto exec = [c](const drv::Op& o) {
    using KC = typename Ops::K;
    C& s = **c; const int ki = (int)o.a; const auto k = KC::mk(ki); const std::string& n = o.name;
    if (n == "emp") { xv::call("emplace", ki, IsMap ? ki * 10 : ki); bool ok = Ops::emplace(s, ki); xv::ret(ok, 0); }
    else if (n == "eog") { xv::call("getorput", ki, IsMap ? ki * 10 : ki); auto r = Ops::eog(s, ki); xv::ret(r.first, r.second); }
    else if (n == "era") { xv::call("erase", ki); bool ok = s.erase(k); xv::ret(ok, 0); }
    else if (n == "con") { xv::call("contains", ki); bool ok = s.contains(k); xv::ret(ok, 0); }
    else if (n == "fnd") { xv::call("find", ki); auto it = s.find(k); bool ok = it != s.end(); long v = ok ? (IsMap ? Ops::val(it) : Ops::key(it)) : 0; xv::ret(ok, v); }
    else if (n == "fer") {
      xv::call("find", ki); auto it = s.find(k); bool ok = it != s.end(); long v = ok ? (IsMap ? Ops::val(it) : Ops::key(it)) : 0; xv::ret(ok, v);
      if (ok) { xv::call("it_erase", ki); it = s.erase(std::move(it)); xv::ret(0, 0); }
    }
    else if (n == "trav" || n == "trave") {
      long epos = n == "trave" ? o.a : -1; long pos = 0;
      xv::call("it_begin"); auto it = s.begin(); xv::ret(0, 0);
      while (it != s.end() && pos < 12) {
        long kk = Ops::key(it), vv = Ops::val(it);
        xv::call("it_yield", kk, vv); xv::ret(0, 0);
        if (pos == epos) { xv::call("it_erase", kk); it = s.erase(std::move(it)); xv::ret(0, 0); }
        else ++it;
        pos++;
      }
      xv::call("it_end", pos < 12 ? 1 : 0); xv::ret(0, 0);
    }
    else if constexpr (IsMap) {
      // the key is handed over as an rvalue (it is moved into the node on insertion); the map value must still be the one of THIS key
      if (n == "goe") { xv::call("getorput", ki, ki * 10); auto r = s.get_or_emplace(KC::mk(ki), ki * 10); xv::ret(r.second, Ops::key(r.first) == ki ? (long)r.first->second : -1); }
      else if (n == "gol") { xv::call("getorput", ki, ki * 10); auto r = s.get_or_emplace_lazy(KC::mk(ki), [ki] { return ki * 10; }); xv::ret(r.second, Ops::key(r.first) == ki ? (long)r.first->second : -1); }
      else if (n == "idx") { xv::call("idx", ki); auto acc = s[KC::mk(ki)]; long v = *acc; xv::ret(0, v); }
    }
  };
  xv::Scenario sc; sc.nthreads = (int)p.threads.size(); sc.after = p.after;
  sc.setup = [=] { *c = new C; for (auto& o : p.setup) exec(o); };
  sc.body = [=](int t) { for (auto& o : p.threads[t]) exec(o); };
  sc.finish = [=] {
    drv::Op tr; tr.name = "trav"; exec(tr);                       // final content through a quiescent traversal
    for (int k = 1; k <= 6; k++) { drv::Op o; o.name = "con"; o.a = k; exec(o); }
    delete *c; *c = nullptr;
    xv::ev("quiescent", "end");
  };
  return sc;
}

template <class R> xv::Scenario by_kind(const drv::Program& p, const std::string& kind) {
  using namespace xenium;
  if (kind == "set") { using S = harris_michael_list_based_set<int, policy::reclaimer<R>>; return make_scn<S, SetOps<S>, false>(p); }
#define MAPCFG(name, B, MEMO, H) \
  if (kind == name) { using M = harris_michael_hash_map<int, int, policy::reclaimer<R>, policy::buckets<B>, policy::memoize_hash<MEMO>, policy::hash<H>>; \
                      return make_scn<M, MapOps<M>, true>(p); }
  MAPCFG("map1mh", 1, true, IdHash) MAPCFG("map2nh", 2, false, IdHash) MAPCFG("map2mc", 2, true, ColHash) MAPCFG("map1nc", 1, false, ColHash)
  MAPCFG("map2mh", 2, true, IdHash)
#define SMAPCFG(name, B, MEMO, H) \
  if (kind == name) { using M = harris_michael_hash_map<std::string, int, policy::reclaimer<R>, policy::buckets<B>, policy::memoize_hash<MEMO>, policy::hash<H>>; \
                      return make_scn<M, MapOps<M, StrKey>, true>(p); }
  SMAPCFG("smap1nc", 1, false, StrColHash) SMAPCFG("smap2mh", 2, true, StrIdHash) SMAPCFG("smap1mc", 1, true, StrColHash)
  if (kind == "sset") { using S = harris_michael_list_based_set<std::string, policy::reclaimer<R>>; return make_scn<S, SetOps<S, StrKey>, false>(p); }
  fprintf(stderr, "hm: unknown kind %s\n", kind.c_str()); exit(2);
}

int main(int argc, char** argv) {
  return xv::explore_main(argc, argv, [](const std::string& ps) {
    drv::Program p = drv::parse(ps); auto parts = drv::split(p.config, '/');
    return rc::with_reclaimer(parts.size() > 1 ? parts[1] : "hp3", [&](auto tg) -> xv::Scenario { return by_kind<typename decltype(tg)::type>(p, parts[0]); });
  });
}
