// driver: harris_michael_list_based_set / harris_michael_hash_map (C08, C09)
//   config: set/<recl>   |   map<buckets><m|n><h|c>/<recl>   (m = memoize_hash, h = identity hash, c = colliding hash)
//   ops: emp<k>  eog<k>  goe<k>  gol<k>  idx<k>  era<k>  fnd<k>  con<k>  fer<k> (erase(find(k)))  trav  trave<p> (erase at position p)
//   values: a map stores 10*k with key k
#include "common.hpp"
#include "reclaimers.hpp"
#include <xenium/harris_michael_hash_map.hpp>
#include <xenium/harris_michael_list_based_set.hpp>
#include <memory>

struct IdHash { std::size_t operator()(int k) const noexcept { return (std::size_t)k; } };
struct ColHash { std::size_t operator()(int) const noexcept { return 7; } };

template <class S> struct SetOps {
  static long key(typename S::iterator& it) { return *it; }
  static long val(typename S::iterator&) { return 0; }
  static bool emplace(S& s, int k) { return s.emplace(k); }
  static std::pair<bool, long> eog(S& s, int k) { auto r = s.emplace_or_get(k); return {r.second, (long)*r.first}; }
};
template <class M> struct MapOps {
  static long key(typename M::iterator& it) { return it->first; }
  static long val(typename M::iterator& it) { return it->second; }
  static bool emplace(M& m, int k) { return m.emplace(k, k * 10); }
  static std::pair<bool, long> eog(M& m, int k) { auto r = m.emplace_or_get(k, k * 10); return {r.second, (long)r.first->second}; }
};

template <class C, class Ops, bool IsMap>
xv::Scenario make_scn(const drv::Program& p) {
  auto c = std::make_shared<C*>(nullptr);
  auto exec = [c](const drv::Op& o) {
    C& s = **c; int k = (int)o.a; const std::string& n = o.name;
    if (n == "emp") { xv::call("emplace", k, IsMap ? k * 10 : k); bool ok = Ops::emplace(s, k); xv::ret(ok, 0); }
    else if (n == "eog") { xv::call("getorput", k, IsMap ? k * 10 : k); auto r = Ops::eog(s, k); xv::ret(r.first, r.second); }
    else if (n == "era") { xv::call("erase", k); bool ok = s.erase(k); xv::ret(ok, 0); }
    else if (n == "con") { xv::call("contains", k); bool ok = s.contains(k); xv::ret(ok, 0); }
    else if (n == "fnd") { xv::call("find", k); auto it = s.find(k); bool ok = it != s.end(); long v = ok ? (IsMap ? Ops::val(it) : Ops::key(it)) : 0; xv::ret(ok, v); }
    else if (n == "fer") {
      xv::call("find", k); auto it = s.find(k); bool ok = it != s.end(); long v = ok ? (IsMap ? Ops::val(it) : Ops::key(it)) : 0; xv::ret(ok, v);
      if (ok) { xv::call("it_erase", k); it = s.erase(std::move(it)); xv::ret(0, 0); }
    }
    else if (n == "trav" || n == "trave") {
      long epos = n == "trave" ? o.a : -1; long pos = 0;
      xv::call("it_begin"); auto it = s.begin(); xv::ret(0, 0);
      while (it != s.end() && pos < 12) {
        long kk = Ops::key(it), vv = Ops::val(it);
        xv::call("it_yield", kk, vv); xv::ret(0, 0);
        if (pos == epos) { xv::call("it_erase", kk); it = s.erase(std::move(it)); xv::ret(0, 0); }
        else ++it;
        pos++;
      }
      xv::call("it_end", pos < 12 ? 1 : 0); xv::ret(0, 0);
    }
    else if constexpr (IsMap) {
      if (n == "goe") { xv::call("getorput", k, k * 10); auto r = s.get_or_emplace(k, k * 10); xv::ret(r.second, (long)r.first->second); }
      else if (n == "gol") { xv::call("getorput", k, k * 10); auto r = s.get_or_emplace_lazy(k, [k] { return k * 10; }); xv::ret(r.second, (long)r.first->second); }
      else if (n == "idx") { xv::call("idx", k); auto acc = s[k]; long v = *acc; xv::ret(0, v); }
    }
  };
  xv::Scenario sc; sc.nthreads = (int)p.threads.size(); sc.after = p.after;
  sc.setup = [=] { *c = new C; for (auto& o : p.setup) exec(o); };
  sc.body = [=](int t) { for (auto& o : p.threads[t]) exec(o); };
  sc.finish = [=] {
    drv::Op tr; tr.name = "trav"; exec(tr);                       // final content through a quiescent traversal
    for (int k = 1; k <= 6; k++) { drv::Op o; o.name = "con"; o.a = k; exec(o); }
    delete *c; *c = nullptr;
    xv::ev("quiescent", "end");
  };
  return sc;
}

template <class R> xv::Scenario by_kind(const drv::Program& p, const std::string& kind) {
  using namespace xenium;
  if (kind == "set") { using S = harris_michael_list_based_set<int, policy::reclaimer<R>>; return make_scn<S, SetOps<S>, false>(p); }
#define MAPCFG(name, B, MEMO, H) \
  if (kind == name) { using M = harris_michael_hash_map<int, int, policy::reclaimer<R>, policy::buckets<B>, policy::memoize_hash<MEMO>, policy::hash<H>>; \
                      return make_scn<M, MapOps<M>, true>(p); }
  MAPCFG("map1mh", 1, true, IdHash) MAPCFG("map2nh", 2, false, IdHash) MAPCFG("map2mc", 2, true, ColHash) MAPCFG("map1nc", 1, false, ColHash)
  MAPCFG("map2mh", 2, true, IdHash)
  fprintf(stderr, "hm: unknown kind %s\n", kind.c_str()); exit(2);
}

int main(int argc, char** argv) {
  return xv::explore_main(argc, argv, [](const std::string& ps) {
    drv::Program p = drv::parse(ps); auto parts = drv::split(p.config, '/');
    return rc::with_reclaimer(parts.size() > 1 ? parts[1] : "hp3", [&](auto tg) -> xv::Scenario { return by_kind<typename decltype(tg)::type>(p, parts[0]); });
  });
}
