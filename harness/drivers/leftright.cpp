// driver: left_right (C13).  config: lr ; writers: update<a> ; readers: load
#include "common.hpp"
#include <xenium/left_right.hpp>
#include <memory>

struct Pair { long f0 = 1, f1 = 1; };
using LR = xenium::left_right<Pair>;
static const Pair* inst_addr[2];
static int inst_id(const Pair* p) {
  for (int i = 0; i < 2; i++) { if (inst_addr[i] == p) return i + 1; if (!inst_addr[i]) { inst_addr[i] = p; return i + 1; } }
  return 0;
}

xv::Scenario make_scn(const drv::Program& p) {
  auto s = std::make_shared<std::unique_ptr<LR>>();
  auto exec = [s](const drv::Op& o) {
    if (o.name == "update") {
      long a = o.a, olds[2] = {-2, -2}; int n = 0;
      xv::call_blocking("update", a);
      (*s)->update([&](Pair& d) {
        int id = inst_id(&d);
        xv::ev("ev", "wr_in", id);
        if (n < 2) olds[n] = (d.f0 == d.f1) ? d.f0 : -1;
        n++;
        d.f0 += a; xv::point(); d.f1 += a;
        xv::ev("ev", "wr_out", id);
      });
      xv::ret(0, (n == 2 && olds[0] == olds[1]) ? olds[0] : -1);
    } else if (o.name == "load") {
      xv::call("load");
      long v = (*s)->read([&](const Pair& d) {
        int id = inst_id(&d);
        xv::ev("ev", "rd_in", id);
        long a = d.f0; xv::point(); long b = d.f1;
        xv::ev("ev", "rd_out", id);
        return a == b ? a : -1;
      });
      xv::ret(0, v);
    }
  };
  xv::Scenario sc; sc.nthreads = (int)p.threads.size();
  sc.setup = [=] { inst_addr[0] = inst_addr[1] = nullptr; s->reset(new LR(Pair{})); xv::ev("cfg", "init", 1); for (auto& o : p.setup) exec(o); };
  sc.body = [=](int t) { for (auto& o : p.threads[t]) exec(o); };
  sc.finish = [=] { drv::Op l; l.name = "load"; exec(l); drv::Op u; u.name = "update"; u.a = 0; exec(u); exec(l); xv::ev("quiescent", "end"); };
  return sc;
}

int main(int argc, char** argv) {
  return xv::explore_main(argc, argv, [](const std::string& ps) { return make_scn(drv::parse(ps)); });
}
