// driver: marked_ptr round trip vectors (C15a). No threads: prints one execution with all vectors.
#include "common.hpp"
#include <xenium/marked_ptr.hpp>
#include <cstdint>
#include <cstring>

struct Dummy { int x; };

// U = MaxUpperMarkBits (third template parameter; 16 unless the user says otherwise)
template <uintptr_t M, uintptr_t U = 16>
static void vectors() {
  using MP = xenium::marked_ptr<Dummy, M, U>;
  constexpr uintptr_t lower = M < U ? 0 : M - U;
  constexpr uintptr_t pb = 64 - M;
  auto run = [&](long pbit, long mbit) {
    uintptr_t p = 0;
    if (pbit == 64) { for (uintptr_t k = lower; k < lower + pb; k++) p |= (uintptr_t)1 << k; }
    else if (pbit >= 0) p = (uintptr_t)1 << pbit;
    uintptr_t mk = 0;
    if (mbit == 64) mk = M == 0 ? 0 : (M == 64 ? ~(uintptr_t)0 : (((uintptr_t)1 << M) - 1));
    else if (mbit >= 0) mk = (uintptr_t)1 << mbit;
    Dummy* dp = reinterpret_cast<Dummy*>(p);
    MP a = [&] { if constexpr (M == 0) return MP(dp); else return MP(dp, mk); }();
    MP b = [&] { if constexpr (M == 0) return MP(dp); else return MP(dp, mk); }();
    MP c = [&] { if constexpr (M == 0) return MP(reinterpret_cast<Dummy*>(p ^ ((uintptr_t)1 << lower))); else return MP(dp, mk ^ 1); }();
    long flags = (a.get() == dp ? 1 : 0) | (a.mark() == mk ? 2 : 0) | ((a == b && !(a != b) && a != c) ? 4 : 0);
    uintptr_t w; static_assert(sizeof(MP) == sizeof(uintptr_t), "marked_ptr is one word"); memcpy(&w, &a, sizeof w);
    xv::ev("mp", "vec", (long)M + (U == 16 ? 0 : 100 * (long)U), pbit, mbit, flags);
    xv::ev("mpw", "word", (long)(w & 0x1fffff), (long)((w >> 21) & 0x1fffff), (long)(w >> 42), 0);
  };
  for (long mb = -1; mb <= 64; mb++) {
    if (mb >= (long)M && mb != 64) continue;
    if (M == 0 && mb != -1) continue;
    run(-1, mb); run(64, mb);
    for (long pbit = (long)lower; pbit < (long)(lower + pb); pbit++) if (mb == -1 || mb == 64 || pbit % 7 == 0) run(pbit, mb);
  }
}
template <uintptr_t M> struct All { static void go() { vectors<M>(); All<M - 1>::go(); } };
template <> struct All<0> { static void go() { vectors<0>(); } };

#include <cstring>
int main(int argc, char** argv) {
  return xv::explore_main(argc, argv, [](const std::string&) {
    xv::Scenario s; s.nthreads = 0;
    // every mark width with the default split, and explicit MaxUpperMarkBits below / above the default (the split between upper and lower mark bits)
    s.setup = [] { All<32>::go(); vectors<9, 8>(); vectors<12, 7>(); vectors<20, 12>(); vectors<5, 3>(); vectors<6, 8>(); vectors<24, 20>(); vectors<32, 1>(); };
    return s;
  });
}
