// driver: vyukov_bounded_queue / nikolaev_bounded_queue (C05, C07).  config: vyu<cap> | nkb<cap> /-/<elem>[+keep]
#include "queue_common.hpp"
#include <xenium/nikolaev_bounded_queue.hpp>
#include <xenium/vyukov_bounded_queue.hpp>

static size_t g_cap = 2;
template <class El> struct VYU {
  using E = El; using queue = xenium::vyukov_bounded_queue<typename El::type>;
  static constexpr bool strong_blocks = true;   // strong operations may wait for a pending operation (documented: blocking)
  static constexpr bool keeps_rejected = true;   // try_push forwards its arguments and constructs in place only on success
  static queue* create() { return new queue(g_cap); }
  static void cfg() { xv::ev("cfg", "kind_bounded", (long)g_cap); }
  static bool push(queue& q, typename El::type&& v) { return q.try_push_strong(std::move(v)); }
  static bool wpush(queue& q, typename El::type&& v) { return q.try_push_weak(std::move(v)); }
  static bool pop(queue& q, typename El::type& v) { return q.try_pop_strong(v); }
  static bool wpop(queue& q, typename El::type& v) { return q.try_pop_weak(v); }
  static std::optional<typename El::type> opop(queue& q) { return q.pop(); }
};
template <class El, unsigned PR> struct NKB {
  using E = El; using queue = xenium::nikolaev_bounded_queue<typename El::type, xenium::policy::pop_retries<PR>>;
  static constexpr bool keeps_rejected = false; static constexpr bool strong_blocks = false;  // try_push takes its argument by value
  static queue* create() { return new queue(g_cap); }
  static void cfg() { auto* q = create(); xv::ev("cfg", "kind_nikbounded", (long)q->capacity()); delete q; }
  static bool push(queue& q, typename El::type&& v) { return q.try_push(std::move(v)); }
  static bool wpush(queue& q, typename El::type&& v) { return push(q, std::move(v)); }
  static bool pop(queue& q, typename El::type& v) { return q.try_pop(v); }
  static bool wpop(queue& q, typename El::type& v) { return pop(q, v); }
  static std::optional<typename El::type> opop(queue& q) { return q.pop(); }
};

int main(int argc, char** argv) {
  return xv::explore_main(argc, argv, [](const std::string& ps) {
    drv::Program p = drv::parse(ps); QCfg c = parse_qcfg(p.config);
    g_cap = (size_t)atoi(c.params.c_str() + 3);
    bool vy = c.params.substr(0, 3) == "vyu";
    if (vy) {
      if (c.elem == "I") return queue_scenario<VYU<ElemI>>(p, c.keep);
      if (c.elem == "U") return queue_scenario<VYU<ElemU>>(p, c.keep);
      if (c.elem == "T") return queue_scenario<VYU<ElemT>>(p, c.keep);
    } else {
      if (c.elem == "I") return queue_scenario<NKB<ElemI, 1>>(p, c.keep);
      if (c.elem == "U") return queue_scenario<NKB<ElemU, 1>>(p, c.keep);
      if (c.elem == "T") return queue_scenario<NKB<ElemT, 0>>(p, c.keep);
    }
    fprintf(stderr, "bounded: bad config %s\n", p.config.c_str()); exit(2);
  });
}
