// shared by the queue drivers (C04-C07): element kinds, program interpreter
//   config = <queue params>/<reclaimer>/<elem>[+keep]
//   elem: I int   P raw pointer   U unique_ptr<Tracked>   T Tracked (non-trivial, movable)
//   ops:  push<v>  pop (try_pop)  opop (pop() -> optional)  wpush<v> / wpop (weak, vyukov)
//         sig<f> / wai<f> / wex<t>: harness-level ordering (set flag, wait for flag, wait for thread t's complete exit)
//   +keep: the queue is destroyed with whatever is still inside (C07); otherwise it is drained first (C04-C06)
#pragma once
#include "common.hpp"
#include <memory>
#include <optional>

// Tracked: a non-trivial movable element.  Besides the token it carries (drop = the value itself was destroyed), every OBJECT is tracked
// by its address: a destructor that runs on storage holding no live object (e.g. a moved-from slot destroyed twice) or a constructor
// on storage that still holds one is reported as `dtwice` (C07: no element is destroyed twice).
#include <set>
struct TrackedLife {
  static std::set<const void*>& live() { static std::set<const void*> s; return s; }
  static void born(const void* p) { xv::race_ignore_begin(); bool fresh = live().insert(p).second; xv::race_ignore_end(); if (!fresh) xv::ev("ev", "dtwice", 1); }
  static void died(const void* p) { xv::race_ignore_begin(); bool was = live().erase(p) == 1; xv::race_ignore_end(); if (!was) xv::ev("ev", "dtwice", 2); }
};
struct Tracked {
  long id = 0;
  Tracked() { TrackedLife::born(this); }
  explicit Tracked(long i) : id(i) { TrackedLife::born(this); }
  Tracked(const Tracked&) = delete;
  Tracked& operator=(const Tracked&) = delete;
  // construction from / destruction of an element are scheduling points: the windows between a queue's atomic accesses and the element's
  // life-cycle calls next to them (e.g. a cell handed back to the producers before the moved-from element in it is destroyed) are explored
  Tracked(Tracked&& o) noexcept : id(o.id) { if (xv::in_child()) xv::point(); o.id = 0; TrackedLife::born(this); }
  Tracked& operator=(Tracked&& o) noexcept { if (this != &o) { drop(); id = o.id; o.id = 0; } return *this; }
  ~Tracked() { if (xv::in_child()) xv::point(); drop(); TrackedLife::died(this); }
  void drop() { if (id) { xv::ev("ev", "drop", id); id = 0; } }
};
struct Item { int x; };
static Item g_items[128];

struct ElemI { using type = int; static constexpr bool owned = false;
  static type make(long v) { return (int)v; } static long id(const type& x) { return x; } };
struct ElemP { using type = Item*; static constexpr bool owned = false;
  static type make(long v) { return &g_items[v]; } static long id(const type& x) { return x ? (long)(x - g_items) : 0; } };
struct ElemU { using type = std::unique_ptr<Tracked>; static constexpr bool owned = true;
  static type make(long v) { return std::make_unique<Tracked>(v); } static long id(const type& x) { return x ? x->id : 0; } };
struct ElemT { using type = Tracked; static constexpr bool owned = true;
  static type make(long v) { return Tracked(v); } static long id(const type& x) { return x.id; } };

// Adapter concept: struct A { using queue = ...; using E = Elem...; static queue* create(); static void cfg();
//   static bool push(queue&, E::type&&); static bool wpush(...); static bool pop(queue&, E::type&); static bool wpop(...);
//   static std::optional<E::type> opop(queue&); static constexpr bool bounded, has_weak; }
template <class A>
xv::Scenario queue_scenario(const drv::Program& p, bool keep) {
  using Q = typename A::queue; using E = typename A::E; using V = typename E::type;
  auto q = std::make_shared<Q*>(nullptr);
  auto exec = [q](const drv::Op& o) {
    Q& Qr = **q;
    if (o.name == "push" || o.name == "wpush") {
      V v = E::make(o.a);
      if (A::strong_blocks && o.name == "push") xv::call_blocking("push", o.a); else xv::call(o.name.c_str(), o.a);
      bool ok = o.name == "push" ? A::push(Qr, std::move(v)) : A::wpush(Qr, std::move(v));
      xv::ret(ok, o.a);
      if (!ok && A::keeps_rejected) xv::ev("ev", E::id(v) == o.a ? "kept" : "lost", o.a);
      // try_push takes its argument BY VALUE: a rejected owning element cannot stay with the caller (C07 known finding, decided by the check from this record)
      if (!ok && !A::keeps_rejected && E::owned && E::id(v) != o.a) xv::ev("ev", "lostbv", o.a);
    } else if (o.name == "pop" || o.name == "wpop") {
      V v{};
      if (A::strong_blocks && o.name == "pop") xv::call_blocking("pop"); else xv::call(o.name.c_str());
      bool ok = o.name == "pop" ? A::pop(Qr, v) : A::wpop(Qr, v);
      xv::ret(ok, ok ? E::id(v) : 0);
    } else if (o.name == "opop") {
      xv::call("pop");
      std::optional<V> r = A::opop(Qr);
      xv::ret(r.has_value(), r.has_value() ? E::id(*r) : 0);
    } else if (o.name == "sig") {        // harness-level ordering between client threads (directed scenarios): set flag a
      xv::sync_set((int)o.a);
    } else if (o.name == "wai") {        // wait for flag a
      xv::sync_wait((int)o.a);
    } else if (o.name == "wex") {        // wait until client thread a has exited completely (its reclaimer state is torn down)
      xv::wait_exit((int)o.a);
    }
  };
  xv::Scenario s; s.nthreads = (int)p.threads.size(); s.after = p.after;
  s.setup = [=] { xv::name_range(g_items, sizeof(Item), 128, 0); *q = A::create(); A::cfg(); if (E::owned) xv::ev("cfg", "owned"); for (auto& o : p.setup) exec(o); };
  s.body = [=](int t) { for (auto& o : p.threads[t]) exec(o); };
  s.finish = [=] {
    if (!keep) {
      drv::Op pop; pop.name = "pop"; for (int i = 0; i < 64; i++) { V v{}; xv::call("pop"); bool ok = A::pop(**q, v); xv::ret(ok, ok ? E::id(v) : 0); if (!ok) break; }
      // the drained, quiescent queue must be usable: one more element goes in and comes out again
      drv::Op last; last.name = "push"; last.a = 60; exec(last); last.name = "pop"; exec(last);
    }
    xv::ev("ev", "qdtor_begin"); delete *q; *q = nullptr; xv::ev("ev", "qdtor_end");
    xv::ev("quiescent", "end");
  };
  return s;
}

struct QCfg { std::string params, reclaimer, elem; bool keep = false; };
inline QCfg parse_qcfg(const std::string& c) {
  QCfg r; auto parts = drv::split(c, '/');
  r.params = parts.size() > 0 ? parts[0] : ""; r.reclaimer = parts.size() > 1 ? parts[1] : "-"; r.elem = parts.size() > 2 ? parts[2] : "I";
  size_t k = r.elem.find("+keep"); if (k != std::string::npos) { r.keep = true; r.elem = r.elem.substr(0, k); }
  return r;
}
