// driver: kirsch_kfifo_queue / kirsch_bounded_kfifo_queue (C06, C07).
//   config: kf<k>/<reclaimer>/<elem>[+keep]   |   bkf<k>s<segments>/-/<elem>[+keep]
// The random start index of find_index is a recorded scheduler decision (verif hook in utils::random).
#include "queue_common.hpp"
#include "reclaimers.hpp"
#include <xenium/kirsch_bounded_kfifo_queue.hpp>
#include <xenium/kirsch_kfifo_queue.hpp>

static uint64_t g_k = 1, g_segs = 1;
static uint64_t rnd_hook() { return (uint64_t)xv::choose((long)(g_k > 4 ? 4 : g_k)); }

template <class R, class El> struct KF {
  using E = El; using queue = xenium::kirsch_kfifo_queue<typename El::type, xenium::policy::reclaimer<R>>;
  static constexpr bool keeps_rejected = false; static constexpr bool strong_blocks = false;
  static queue* create() { return new queue(g_k); }
  static void cfg() { xv::ev("cfg", "kind_kfifo", (long)g_k); }
  static bool push(queue& q, typename El::type&& v) { q.push(std::move(v)); return true; }
  static bool wpush(queue& q, typename El::type&& v) { return push(q, std::move(v)); }
  static bool pop(queue& q, typename El::type& v) { return q.try_pop(v); }
  static bool wpop(queue& q, typename El::type& v) { return pop(q, v); }
  static std::optional<typename El::type> opop(queue& q) { return q.pop(); }
};
template <class El> struct BKF {
  using E = El; using queue = xenium::kirsch_bounded_kfifo_queue<typename El::type>;
  static constexpr bool keeps_rejected = false; static constexpr bool strong_blocks = false;
  static queue* create() { return new queue(g_k, g_segs); }
  static void cfg() { xv::ev("cfg", "kind_bkfifo", (long)g_k, (long)g_segs); }
  static bool push(queue& q, typename El::type&& v) { return q.try_push(std::move(v)); }
  static bool wpush(queue& q, typename El::type&& v) { return push(q, std::move(v)); }
  static bool pop(queue& q, typename El::type& v) { return q.try_pop(v); }
  static bool wpop(queue& q, typename El::type& v) { return pop(q, v); }
  static std::optional<typename El::type> opop(queue& q) { return q.pop(); }
};

int main(int argc, char** argv) {
  xenium::utils::verif_random_hook = rnd_hook;
  return xv::explore_main(argc, argv, [](const std::string& ps) {
    drv::Program p = drv::parse(ps); QCfg c = parse_qcfg(p.config);
    if (c.params.substr(0, 3) == "bkf") {
      unsigned k = 1, s = 1; sscanf(c.params.c_str(), "bkf%us%u", &k, &s); g_k = k; g_segs = s;
      if (c.elem == "U") return queue_scenario<BKF<ElemU>>(p, c.keep);
      if (c.elem == "P") return queue_scenario<BKF<ElemP>>(p, c.keep);
      fprintf(stderr, "bkf: bad elem\n"); exit(2);
    }
    g_k = (uint64_t)atoi(c.params.c_str() + 2);
    return rc::with_reclaimer(c.reclaimer, [&](auto tg) -> xv::Scenario {
      using TG = decltype(tg); using R = typename TG::type;
      if constexpr (TG::custom_deleter) {   // the segment deleter is a custom deleter: not usable with lock_free_ref_count
        if (c.elem == "U") return queue_scenario<KF<R, ElemU>>(p, c.keep);
        if (c.elem == "P") return queue_scenario<KF<R, ElemP>>(p, c.keep);
      }
      fprintf(stderr, "kf: bad elem\n"); exit(2);
    });
  });
}
