// driver: michael_scott_queue (C04, C07).  config: ms/<reclaimer>/<elem>[+keep]
#include "queue_common.hpp"
#include "reclaimers.hpp"
#include <xenium/michael_scott_queue.hpp>

template <class R, class El> struct MS {
  using E = El; using queue = xenium::michael_scott_queue<typename El::type, xenium::policy::reclaimer<R>>;
  static constexpr bool keeps_rejected = false; static constexpr bool strong_blocks = false;
  static queue* create() { return new queue; }
  static void cfg() { xv::ev("cfg", "kind_fifo"); }
  static bool push(queue& q, typename El::type&& v) { q.push(std::move(v)); return true; }
  static bool wpush(queue& q, typename El::type&& v) { return push(q, std::move(v)); }
  static bool pop(queue& q, typename El::type& v) { return q.try_pop(v); }
  static bool wpop(queue& q, typename El::type& v) { return pop(q, v); }
  static std::optional<typename El::type> opop(queue& q) { return q.pop(); }
};

int main(int argc, char** argv) {
  return xv::explore_main(argc, argv, [](const std::string& ps) {
    drv::Program p = drv::parse(ps); QCfg c = parse_qcfg(p.config);
    return rc::with_reclaimer(c.reclaimer, [&](auto tg) -> xv::Scenario {
      using R = typename decltype(tg)::type;
      if (c.elem == "I") return queue_scenario<MS<R, ElemI>>(p, c.keep);
      if (c.elem == "U") return queue_scenario<MS<R, ElemU>>(p, c.keep);
      if (c.elem == "T") return queue_scenario<MS<R, ElemT>>(p, c.keep);
      if (c.elem == "P") return queue_scenario<MS<R, ElemP>>(p, c.keep);
      fprintf(stderr, "bad elem\n"); exit(2);
    });
  });
}
