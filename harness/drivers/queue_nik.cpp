// driver: nikolaev_queue (C04, C07).  config: nik<e><r>/<reclaimer>/<elem>[+keep]
#include "queue_common.hpp"
#include "reclaimers.hpp"
#include <xenium/nikolaev_queue.hpp>

template <class R, class El, unsigned EPN, unsigned PR> struct NIK {
  using E = El;
  using queue = xenium::nikolaev_queue<typename El::type, xenium::policy::reclaimer<R>, xenium::policy::entries_per_node<EPN>, xenium::policy::pop_retries<PR>>;
  static constexpr bool keeps_rejected = false; static constexpr bool strong_blocks = false;
  static queue* create() { return new queue; }
  static void cfg() { xv::ev("cfg", "kind_fifo"); }
  static bool push(queue& q, typename El::type&& v) { q.push(std::move(v)); return true; }
  static bool wpush(queue& q, typename El::type&& v) { return push(q, std::move(v)); }
  static bool pop(queue& q, typename El::type& v) { return q.try_pop(v); }
  static bool wpop(queue& q, typename El::type& v) { return pop(q, v); }
  static std::optional<typename El::type> opop(queue& q) { return q.pop(); }
};

template <class R, unsigned EPN, unsigned PR>
xv::Scenario by_elem(const drv::Program& p, const QCfg& c) {
  if (c.elem == "I") return queue_scenario<NIK<R, ElemI, EPN, PR>>(p, c.keep);
  if constexpr (EPN == 2) {
    if (c.elem == "U") return queue_scenario<NIK<R, ElemU, EPN, PR>>(p, c.keep);
    if (c.elem == "T") return queue_scenario<NIK<R, ElemT, EPN, PR>>(p, c.keep);
  }
  fprintf(stderr, "nik: unsupported elem %s\n", c.elem.c_str()); exit(2);
}

int main(int argc, char** argv) {
  return xv::explore_main(argc, argv, [](const std::string& ps) {
    drv::Program p = drv::parse(ps); QCfg c = parse_qcfg(p.config);
    return rc::with_reclaimer(c.reclaimer, [&](auto tg) -> xv::Scenario {
      using R = typename decltype(tg)::type;
      if (c.params == "nik10") return by_elem<R, 1, 0>(p, c);
      if (c.params == "nik21") return by_elem<R, 2, 1>(p, c);
      if (c.params == "nik41") return by_elem<R, 4, 1>(p, c);
      fprintf(stderr, "nik: unknown params %s\n", c.params.c_str()); exit(2);
    });
  });
}
