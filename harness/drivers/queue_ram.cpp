// driver: ramalhete_queue (C04, C07).  config: ram<e><r>/<reclaimer>/<elem>[+keep]   e = entries_per_node, r = pop_retries
#include "queue_common.hpp"
#include "reclaimers.hpp"
#include <xenium/ramalhete_queue.hpp>

template <class R, class El, unsigned EPN, unsigned PR> struct RAM {
  using E = El;
  using queue = xenium::ramalhete_queue<typename El::type, xenium::policy::reclaimer<R>, xenium::policy::entries_per_node<EPN>, xenium::policy::pop_retries<PR>>;
  static constexpr bool keeps_rejected = false; static constexpr bool strong_blocks = false;
  static queue* create() { return new queue; }
  static void cfg() { xv::ev("cfg", "kind_fifo"); }
  static bool push(queue& q, typename El::type&& v) { q.push(std::move(v)); return true; }
  static bool wpush(queue& q, typename El::type&& v) { return push(q, std::move(v)); }
  static bool pop(queue& q, typename El::type& v) { return q.try_pop(v); }
  static bool wpop(queue& q, typename El::type& v) { return pop(q, v); }
  static std::optional<typename El::type> opop(queue& q) { return q.pop(); }
};

template <class R, unsigned EPN, unsigned PR>
xv::Scenario by_elem(const drv::Program& p, const QCfg& c) {
  if (c.elem == "I") return queue_scenario<RAM<R, ElemI, EPN, PR>>(p, c.keep);
  if constexpr (EPN <= 3) {
    if (c.elem == "U") return queue_scenario<RAM<R, ElemU, EPN, PR>>(p, c.keep);
    if (c.elem == "P") return queue_scenario<RAM<R, ElemP, EPN, PR>>(p, c.keep);
  }
  fprintf(stderr, "ram: unsupported elem %s\n", c.elem.c_str()); exit(2);
}

int main(int argc, char** argv) {
  return xv::explore_main(argc, argv, [](const std::string& ps) {
    drv::Program p = drv::parse(ps); QCfg c = parse_qcfg(p.config);
    return rc::with_reclaimer(c.reclaimer, [&](auto tg) -> xv::Scenario {
      using R = typename decltype(tg)::type;
      if (c.params == "ram10") return by_elem<R, 1, 0>(p, c);
      if (c.params == "ram21") return by_elem<R, 2, 1>(p, c);
      if (c.params == "ram31") return by_elem<R, 3, 1>(p, c);
      if (c.params == "ram40") return by_elem<R, 4, 0>(p, c);
      if (c.params == "ram512") return by_elem<R, 512, 1000>(p, c);
      if (c.params == "ram110") return by_elem<R, 11, 0>(p, c);      // entries_per_node a multiple of the index step (11)
      if (c.params == "ram220") return by_elem<R, 22, 0>(p, c);
      fprintf(stderr, "ram: unknown params %s\n", c.params.c_str()); exit(2);
    });
  });
}
