// driver: generic reclamation client (C01, C02, C15, C17, C18).
//   config = <reclaimer>[+d]   (+d: nodes with a stateful custom deleter)
//   cells c0..c3 hold nodes; every thread owns guards g0..g3.
// ops:  acq<c>:<g>   g.acquire(cell c)           acqe<c>:<g>  g.acquire_if_equal(cell c, value just loaded)
//       rst<g>       g.reset()                   cpy<g>:<h>   h = g          mov<g>:<h>  h = std::move(g)
//       nul<c>:<m>   unlink the object of cell c leaving a marked null pointer (mark m) behind; retire the object
//       swg<g>:<h>   g.swap(h)                   sfa<g>       g = g (self assignment)
//       swp<c>:<g>   acquire cell c, replace the node by a fresh one (CAS), retire the old one through g
//       tch<g>       dereference g               rgn1 / rgn0  enter / leave a region_guard
//       mrk<c>:<m>   set the mark bits of the pointer stored in cell c to m (same object)
//       cgd<c>:<g>   construct a second guard from g's marked_ptr value via copy construction and drop it
#define XV_RC_ALL 1
#include "common.hpp"
#include "reclaimers.hpp"
#include <map>
#include <sched.h>
#include <memory>
#include <optional>

static long g_next_id = 0;
static bool g_chain = false;   // config suffix +c: the deleter of a first-generation node retires a child node (a deleter that uses the reclaimer itself)
static constexpr int NG = 4, NC = 4;

template <class R> struct NodeC;
template <class R> struct DelC {
  long tag = -1;
  void operator()(NodeC<R>* n) const;
};
template <class R> struct NodeC : R::template enable_concurrent_ptr<NodeC<R>, 2, DelC<R>> {
  static constexpr bool custom = true;
  long id; unsigned magic = 0xA11CE; int gen = 0;
  NodeC() : id(++g_next_id) { xv::ev("ev", "alloc", 0, id); }
  ~NodeC() { magic = 0xDEAD; xv::ev("ev", "destroy", 0, id); }
};
template <class R> void DelC<R>::operator()(NodeC<R>* n) const {
  xv::ev("ev", "deleter", tag, n->id);
  if (g_chain && n->gen == 0) {
    // destroying a parent retires its child: the reclaimer is re-entered from inside a deleter (from a scan, an epoch change, a thread exit ...)
    using CP = typename R::template concurrent_ptr<NodeC<R>>;
    NodeC<R>* c = new NodeC<R>; c->gen = 1; long cid = c->id;
    typename CP::guard_ptr g{typename CP::marked_ptr(c)};
    xv::ev("ev", "retire", 0, cid);
    g.reclaim(DelC<R>{cid});
  }
  delete n;
}
template <class R> struct NodeD : R::template enable_concurrent_ptr<NodeD<R>, 2> {
  static constexpr bool custom = false;
  long id; unsigned magic = 0xA11CE;
  NodeD() : id(++g_next_id) { xv::ev("ev", "alloc", 0, id); }
  ~NodeD() { magic = 0xDEAD; xv::ev("ev", "destroy", 0, id); }
};

template <class R, class N, int K>
struct Client {
  using CP = typename R::template concurrent_ptr<N>;
  using G = typename CP::guard_ptr;
  using MP = typename CP::marked_ptr;
  CP cells[NC];

  static long oid(const G& g) { return g.get() ? g->id : 0; }   // a guard may hold a marked null pointer (operator bool is true then)
  static int gk(int g) { return xv::tid() * 10 + g; }

  template <class Gd> static void do_reclaim(Gd& g, long id) {
    if constexpr (!N::custom) { (void)id; g.reclaim(); }
    else g.reclaim(DelC<R>{id});
  }

  struct Thread {
    G g[NG];
    std::optional<typename R::region_guard> rg;
  };

  bool want_gs = false;
  void log_gs(Thread& th) { if (want_gs) for (int i = 0; i < NG; i++) xv::ev("ev", "gs", gk(i), oid(th.g[i])); }

  // small pointer identities: heap block numbers in order of first appearance (never dereferenced)
  static long blk(const void* p) {
    static std::map<long, long> ids; if (!p) return 0;
    struct Quiet { Quiet() { xv::race_ignore_begin(); } ~Quiet() { xv::race_ignore_end(); } } quiet;   // harness bookkeeping shared by the client threads
    long b = (long)xv::block_of(p); auto it = ids.find(b); if (it != ids.end()) return it->second;
    long id = (long)ids.size() + 1; ids[b] = id; return id;
  }
  // value of a marked pointer in the history: block number + 100 * mark (mark 0 unless a program uses mrk)
  static long mval(const MP& p) { return blk(p.get()) + 100 * (long)p.mark(); }
  static long gval(const G& g) { return blk(g.get()) + 100 * (long)MP(g).mark(); }
  void exec(Thread& th, const drv::Op& o) {
    const std::string& n = o.name; int a = (int)o.a, b = (int)o.b;
    bool open_call = false;
    try {
      if (n == "acq") {
        xv::ev("ev", "rel", gk(b));
        xv::call("acquire", a); open_call = true;
        th.g[b].acquire(cells[a], std::memory_order_acquire);
        open_call = false; xv::ret(0, gval(th.g[b]));
        xv::ev("ev", "set", gk(b), oid(th.g[b]));
        if (th.g[b].get()) xv::ev("ev", "touch", th.g[b]->magic == 0xA11CE, th.g[b]->id);
      } else if (n == "mrk") {       // set the mark bits of the pointer in cell a to b (the object stays the same)
        xv::call("setmark", a, b);
        MP cur = cells[a].load(std::memory_order_relaxed); bool ok = false;
        while (cur.get() != nullptr && !(ok = cells[a].compare_exchange_weak(cur, MP(cur.get(), (uintptr_t)b), std::memory_order_release, std::memory_order_relaxed))) {}
        xv::ret(ok, 0);
      } else if (n == "acqe") {
        MP exp = cells[a].load(std::memory_order_relaxed);
        xv::ev("ev", "rel", gk(b));
        xv::call("acqe", a, mval(exp)); open_call = true;   // block number (+ mark): identifies the pointer without touching it
        bool ok = th.g[b].acquire_if_equal(cells[a], exp, std::memory_order_acquire);
        open_call = false; xv::ret(ok, ok ? gval(th.g[b]) : 0);
        xv::ev("ev", "set", gk(b), oid(th.g[b]));
        if (!ok && th.g[b]) xv::ev("ev", "bad", 1, 0);            // must be empty after failure
        if (ok && MP(th.g[b]) != exp) xv::ev("ev", "bad", 2, 0);    // snapshot equals expected
        if (th.g[b].get()) xv::ev("ev", "touch", th.g[b]->magic == 0xA11CE, th.g[b]->id);
      } else if (n == "rst") {
        // release is an operation of its own (a call / ret pair), so that solo probes start inside it (C16: guard release is lock-free)
        xv::ev("ev", "rel", gk(a)); xv::call("release", a); open_call = true; th.g[a].reset(); open_call = false; xv::ret(0, 0);
      } else if (n == "cpy") {
        if (a != b) xv::ev("ev", "rel", gk(b));
        th.g[b] = th.g[a];
        xv::ev("ev", "set", gk(b), oid(th.g[b])); xv::ev("ev", "occ", gk(b));
        if (oid(th.g[b]) != oid(th.g[a])) xv::ev("ev", "bad", 3, 0);
      } else if (n == "mov") {
        if (a != b) { xv::ev("ev", "rel", gk(b)); th.g[b] = std::move(th.g[a]); xv::ev("ev", "mv", gk(a), gk(b)); }
      } else if (n == "swg") {
        th.g[a].swap(th.g[b]); xv::ev("ev", "swapg", gk(a), gk(b));
      } else if (n == "sfa") {
        G& r = th.g[a]; th.g[a] = r;
      } else if (n == "cgd") {
        G tmp(th.g[b]);   // copy construction: shared protection
        xv::ev("ev", "set", gk(NG) , oid(tmp));
        if (tmp.get()) xv::ev("ev", "touch", tmp->magic == 0xA11CE, tmp->id);
        xv::ev("ev", "rel", gk(NG));
      } else if (n == "tch") {
        if (th.g[a].get()) xv::ev("ev", "touch", th.g[a]->magic == 0xA11CE, th.g[a]->id);
      } else if (n == "swp") {
        xv::ev("ev", "rel", gk(b));
        xv::call("acquire", a); open_call = true;
        th.g[b].acquire(cells[a], std::memory_order_acquire);
        open_call = false; xv::ret(0, gval(th.g[b]));
        xv::ev("ev", "set", gk(b), oid(th.g[b]));
        if (th.g[b].get()) {
          xv::ev("ev", "touch", th.g[b]->magic == 0xA11CE, th.g[b]->id);
          N* fresh = new N; long fid = fresh->id; long old = th.g[b]->id;
          MP exp = th.g[b];
          long eb = mval(exp);
          xv::call("cas", a * 1000 + eb, blk(fresh));
          bool ok = cells[a].compare_exchange_strong(exp, MP(fresh), std::memory_order_release, std::memory_order_relaxed);
          xv::ret(ok, ok ? eb : 0);
          if (ok) {
            xv::ev("ev", "pub", 0, fid);
            xv::ev("ev", "rel", gk(b)); xv::ev("ev", "retire", 0, old);
            xv::call("reclaim", a); open_call = true; do_reclaim(th.g[b], old); open_call = false; xv::ret(0, 0);
          } else {
            delete fresh;
          }
        }
      } else if (n == "nul") {       // unlink the object of cell a, leaving a MARKED NULL pointer (mark b) behind, and retire it
        G tmp;
        xv::ev("ev", "rel", gk(NG));
        xv::call("acquire", a); open_call = true;
        tmp.acquire(cells[a], std::memory_order_acquire);
        open_call = false; xv::ret(0, gval(tmp));
        xv::ev("ev", "set", gk(NG), oid(tmp));
        if (tmp.get()) {
          xv::ev("ev", "touch", tmp->magic == 0xA11CE, tmp->id);
          long old = tmp->id; MP exp = tmp; long eb = mval(exp);
          xv::call("cas", a * 1000 + eb, 100 * b);
          bool ok = cells[a].compare_exchange_strong(exp, MP(nullptr, (uintptr_t)b), std::memory_order_release, std::memory_order_relaxed);
          xv::ret(ok, ok ? eb : 0);
          if (ok) { xv::ev("ev", "rel", gk(NG)); xv::ev("ev", "retire", 0, old); do_reclaim(tmp, old); }
        }
        xv::ev("ev", "rel", gk(NG));
      } else if (n == "rgn") {
        if (a) th.rg.emplace(); else th.rg.reset();
      } else if (n == "sig") {        // harness-level ordering between client threads (directed scenarios): set flag a
        xv::sync_set(a);
      } else if (n == "wai") {        // wait for flag a
        xv::sync_wait(a);
      } else if (n == "wex") {        // wait until client thread a has exited completely (its reclaimer state is torn down)
        xv::wait_exit(a);
      }
    } catch (const std::exception& e) {
      // bad_hazard_pointer_alloc / bad_hazard_era_alloc
      int tg = (n == "rst" || n == "tch" || n == "sfa") ? a : b;
      xv::ev("ev", "throw", gk(tg), K);
      if (open_call) xv::ev("abort", "exception");
      // whatever the throwing guard holds now is what it claims to protect
      if (th.g[tg].get()) { xv::ev("ev", "set", gk(tg), oid(th.g[tg])); xv::ev("ev", "touch", th.g[tg]->magic == 0xA11CE, th.g[tg]->id); }
    }
    log_gs(th);
  }
};

template <class R, class N, int K>
xv::Scenario make_scn(const drv::Program& p, bool gs) {
  using C = Client<R, N, K>;
  auto c = std::make_shared<std::unique_ptr<C>>();
  xv::Scenario s; s.nthreads = (int)p.threads.size(); s.after = p.after;
  s.setup = [=] {
    g_next_id = 0;
    c->reset(new C); (*c)->want_gs = gs;
    xv::ev("cfg", "slots", K);
    for (int i = 0; i < NC; i++) { N* n = new N; (*c)->cells[i].store(n, std::memory_order_release); xv::ev("ev", "pub", 0, n->id); xv::ev("cfg", "cell", i, C::blk(n)); }
    typename C::Thread th;
    for (auto& o : p.setup) (*c)->exec(th, o);
    for (int i = 0; i < NG; i++) { xv::ev("ev", "rel", C::gk(i)); th.g[i].reset(); }
  };
  s.body = [=](int t) {
    xv::ev("ev", "tstart", t);
    {
      typename C::Thread th;
      for (auto& o : p.threads[t]) (*c)->exec(th, o);
      for (int i = 0; i < NG; i++) { xv::ev("ev", "rel", C::gk(i)); th.g[i].reset(); }
    }
    xv::ev("ev", "texit", t);
  };
  s.finish = [=] {
    using G = typename C::G; using MP = typename C::MP;
    // unlink and retire what is still reachable
    for (int i = 0; i < NC; i++) {
      G g; g.acquire((*c)->cells[i], std::memory_order_acquire);
      if (g.get()) { long id = g->id; xv::call("store", i, 0); (*c)->cells[i].store(nullptr, std::memory_order_release); xv::ret(0, 0); xv::ev("ev", "retire", 0, id); C::do_reclaim(g, id); }
    }
    // public-API flush: idle guard cycles on a live object, one retire cycle, idle cycles again
    N* live = new N; typename C::CP dc(live);
    for (int round = 0; round < 3; round++) {
      for (int i = 0; i < 24; i++) { G g; g.acquire(dc, std::memory_order_acquire); g.reset(); }
      N* d = new N; if constexpr (N::custom) d->gen = 1; G g{MP(d)}; xv::ev("ev", "retire", 0, d->id); C::do_reclaim(g, d->id);
    }
    for (int i = 0; i < 24; i++) { G g; g.acquire(dc, std::memory_order_acquire); g.reset(); }
    xv::dump_alloc_sites();
    xv::ev("quiescent", "end", 0, live->id);
  };
  return s;
}

int main(int argc, char** argv) {
  return xv::explore_main(argc, argv, [](const std::string& ps) {
    drv::Program p = drv::parse(ps);
    std::string name = p.config; bool custom = false, gs = false, chain = false;
    for (;;) {
      if (name.size() > 2 && name.substr(name.size() - 2) == "+d") { custom = true; name = name.substr(0, name.size() - 2); }
      else if (name.size() > 2 && name.substr(name.size() - 2) == "+g") { gs = true; name = name.substr(0, name.size() - 2); }
      else if (name.size() > 2 && name.substr(name.size() - 2) == "+c") { chain = true; name = name.substr(0, name.size() - 2); }
      else break;
    }
    g_chain = chain;
    return rc::with_reclaimer(name, [&](auto tg) -> xv::Scenario {
      using T = decltype(tg); using R = typename T::type;
      if constexpr (T::custom_deleter) { if (custom) return make_scn<R, NodeC<R>, T::K>(p, gs); }
      return make_scn<R, NodeD<R>, T::K>(p, gs);
    });
  });
}
