// reclaimer configurations shared by all drivers
#pragma once
#include <xenium/reclamation/generic_epoch_based.hpp>
#include <xenium/reclamation/hazard_eras.hpp>
#include <xenium/reclamation/hazard_pointer.hpp>
#include <xenium/reclamation/lock_free_ref_count.hpp>
#include <xenium/reclamation/quiescent_state_based.hpp>
#include <xenium/reclamation/stamp_it.hpp>
#include <cstdio>
#include <cstdlib>
#include <string>

namespace rc {
using namespace xenium;
using namespace xenium::reclamation;
template <class R, int K_ = 0, bool CustomDel = true> struct tag { using type = R; static constexpr int K = K_; static constexpr bool custom_deleter = CustomDel; };

template <size_t K> using HPS = hazard_pointer<>::with<policy::allocation_strategy<hp_allocation::static_strategy<K, 0, 0>>>;
template <size_t K> using HPD = hazard_pointer<>::with<policy::allocation_strategy<hp_allocation::dynamic_strategy<K, 0, 0>>>;
template <size_t K> using HES = hazard_eras<>::with<policy::allocation_strategy<he_allocation::static_strategy<K, 0, 0>>>;
template <size_t K> using HED = hazard_eras<>::with<policy::allocation_strategy<he_allocation::dynamic_strategy<K, 0, 0>>>;
template <size_t F> using EBR = epoch_based<>::with<policy::scan_frequency<F>>;
template <size_t F> using NEBR = new_epoch_based<>::with<policy::scan_frequency<F>>;
template <size_t F> using DEBRA = debra<>::with<policy::scan_frequency<F>>;
template <class Scan, class Ab, region_extension Ext, size_t F = 0>
using GEB = generic_epoch_based<>::with<policy::scan_frequency<F>, policy::scan<Scan>, policy::abandon<Ab>, policy::region_extension<Ext>>;

// level: which configurations are compiled into a driver (compile time grows with the list)
//  XV_RC_ALL   every configuration (reclaimer-centric drivers)
//  otherwise   one representative per scheme
template <class F>
auto with_reclaimer(const std::string& n, F&& f) {
  if (n == "hp3") return f(tag<HPS<3>, 3>{});
  if (n == "lfrc") return f(tag<lock_free_ref_count<>, 0, false>{});
  if (n == "he3") return f(tag<HES<3>, 3>{});
  if (n == "ebr0") return f(tag<EBR<0>>{});
  if (n == "nebr0") return f(tag<NEBR<0>>{});
  if (n == "debra0") return f(tag<DEBRA<0>>{});
  if (n == "qsbr") return f(tag<quiescent_state_based>{});
  if (n == "stamp") return f(tag<stamp_it>{});
#ifdef XV_RC_ALL
  if (n == "hp1") return f(tag<HPS<1>, 1>{});
  if (n == "hp2") return f(tag<HPS<2>, 2>{});
  if (n == "hp5") return f(tag<HPS<5>, 5>{});
  if (n == "hpd1") return f(tag<HPD<1>, -1>{});
  if (n == "he1") return f(tag<HES<1>, 1>{});
  if (n == "he2") return f(tag<HES<2>, 2>{});
  if (n == "he5") return f(tag<HES<5>, 5>{});
  if (n == "hed1") return f(tag<HED<1>, -1>{});
  if (n == "lfrc2") return f(tag<lock_free_ref_count<>::with<policy::thread_local_free_list_size<2>>, 0, false>{});
  if (n == "ebr1") return f(tag<EBR<1>>{});
  if (n == "ebr2") return f(tag<EBR<2>>{});
  if (n == "nebr1") return f(tag<NEBR<1>>{});
  if (n == "debra1") return f(tag<DEBRA<1>>{});
  if (n == "debra2") return f(tag<DEBRA<2>>{});
  if (n == "geb_all_always_none") return f(tag<GEB<scan::all_threads, abandon::always, region_extension::none>>{});
  if (n == "geb_all_thr2_eager") return f(tag<GEB<scan::all_threads, abandon::when_exceeds_threshold<2>, region_extension::eager>>{});
  if (n == "geb_one_always_lazy") return f(tag<GEB<scan::one_thread, abandon::always, region_extension::lazy>>{});
  if (n == "geb_n2_never_lazy") return f(tag<GEB<scan::n_threads<2>, abandon::never, region_extension::lazy>>{});
  if (n == "geb_n2_thr2_none") return f(tag<GEB<scan::n_threads<2>, abandon::when_exceeds_threshold<2>, region_extension::none>>{});
  if (n == "geb_one_never_eager") return f(tag<GEB<scan::one_thread, abandon::never, region_extension::eager>>{});
#endif
  fprintf(stderr, "unknown reclaimer configuration '%s'\n", n.c_str());
  exit(2);
}
} // namespace rc
