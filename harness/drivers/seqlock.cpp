// driver: seqlock (C14).  config: s<slots>b<bytes>  e.g. s2b12 ; threads: any mix of store<v> / update<a> / load
#include "common.hpp"
#include <xenium/seqlock.hpp>
#include <cstring>
#include <memory>

template <unsigned N> struct W4 { uint32_t w[N]; };   // alignment 4, size 4*N
template <unsigned N> struct W8 { uint64_t w[N]; };   // alignment 8, size 8*N

template <class T> T mk(long v) { T t; for (auto& x : t.w) x = (decltype(t.w[0] + 0))v; return t; }
template <class T> long val_of(const T& t) {
  // byte-wise: every element must carry the same id
  const unsigned char* p = reinterpret_cast<const unsigned char*>(&t);
  constexpr size_t es = sizeof(t.w[0]);
  for (size_t i = es; i < sizeof(T); i++) if (p[i] != p[i % es]) return -1;
  long v = (long)t.w[0];
  return (v >= 0 && v < 100000) ? v : -1;
}

// config suffix w ("wide versions"): the sequence counter starts just below 2^33, i.e. the object behaves as after 2^32 - 2 completed writes - the
// property holds for EVERY number of writes, and 2^32 of them cannot be run.  White box: the counter is the first word of the object.  The layout
// is checked first (the word is 0 after construction and 2 after one store); if it is not what we expect nothing is preset.
static bool g_wide = false;
template <class T, unsigned S>
xv::Scenario make_scn(const drv::Program& p) {
  using SL = xenium::seqlock<T, xenium::policy::slots<S>>;
  auto s = std::make_shared<std::unique_ptr<SL>>();
  auto exec = [s](const drv::Op& o) {
    if (o.name == "store") { xv::call_blocking("store", o.a); (*s)->store(mk<T>(o.a)); xv::ret(0, 0); }
    else if (o.name == "update") { long old = -2; long a = o.a; xv::call_blocking("update", a);
      (*s)->update([&](T& d) { old = val_of(d); d = mk<T>(old < 0 ? 77777 : old + a); }); xv::ret(0, old); }
    else if (o.name == "load") { if (S == 1) xv::call_blocking("load"); else xv::call("load"); T r = (*s)->load(); xv::ret(0, val_of(r)); }
  };
  xv::Scenario sc; sc.nthreads = (int)p.threads.size();
  sc.setup = [=] {
    s->reset(new SL(mk<T>(1))); xv::ev("cfg", "init", 1);
    if (g_wide && S > 1) {
      auto* w = reinterpret_cast<std::atomic<uintptr_t>*>(s->get());
      bool ok = w->load(std::memory_order_relaxed) == 0;
      if (ok) { (*s)->store(mk<T>(1)); ok = w->load(std::memory_order_relaxed) == 2; }
      if (ok) {
        // version 2n with the current value in slot n % S: choose n = 2^32 - 2 and put the value where it belongs with one more store
        w->store(((uintptr_t)1 << 33) - 6, std::memory_order_relaxed);
        (*s)->store(mk<T>(1));
        xv::ev("cfg", "wide", 1);
      } else xv::ev("cfg", "wide", 0);
    }
    for (auto& o : p.setup) exec(o);
  };
  sc.body = [=](int t) { for (auto& o : p.threads[t]) exec(o); };
  sc.finish = [=] { xv::call("load"); T r = (*s)->load(); xv::ret(0, val_of(r)); xv::ev("quiescent", "end"); };
  return sc;
}

template <class T> xv::Scenario by_slots(const drv::Program& p, int slots) {
  switch (slots) {
    case 1: return make_scn<T, 1>(p);
    case 2: return make_scn<T, 2>(p);
    case 3: return make_scn<T, 3>(p);
    case 4: return make_scn<T, 4>(p);
    case 8: return make_scn<T, 8>(p);
  }
  fprintf(stderr, "seqlock: unsupported slots %d\n", slots); exit(2);
}

int main(int argc, char** argv) {
  return xv::explore_main(argc, argv, [](const std::string& ps) {
    drv::Program p = drv::parse(ps);
    int slots = 0, bytes = 0;
    g_wide = !p.config.empty() && p.config.back() == 'w';
    if (sscanf(p.config.c_str(), "s%db%d", &slots, &bytes) != 2) { fprintf(stderr, "seqlock: bad config %s\n", p.config.c_str()); exit(2); }
    switch (bytes) {
      case 12: return by_slots<W4<3>>(p, slots);
      case 16: return by_slots<W8<2>>(p, slots);
      case 20: return by_slots<W4<5>>(p, slots);
      case 24: return by_slots<W8<3>>(p, slots);
      case 40: return by_slots<W8<5>>(p, slots);
    }
    fprintf(stderr, "seqlock: unsupported size %d\n", bytes); exit(2);
  });
}
