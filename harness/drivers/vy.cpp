// driver: vyukov_hash_map (C10, C11)
//   config: vy<cap><kv><h>/<recl>   kv in {ii, is, im, si, sm} (key/value storage: int, string, managed_ptr)   h in {h (default hash), c (all keys share a bucket), e (all keys have the same hash value)}
//   ops: emp<k> goe<k> gol<k> era<k> ext<k> get<k> (try_get_value) fnd<k> (find, read, release)
//        trav  trave<p> (erase(iterator&) at position p)  fer<k> (erase(find(k)))  itmv<k> (iterator move-assignment while holding a bucket)
//   values: key k maps to 10*k
#include "common.hpp"
#include "reclaimers.hpp"
#include <xenium/vyukov_hash_map.hpp>
#include <memory>
#include <string>

template <class R> struct VNode : R::template enable_concurrent_ptr<VNode<R>> { int v; explicit VNode(int v) : v(v) {} };

struct KeyI { using type = int; static type mk(long k) { return (int)k; } static long id(const type& k) { return k; } };
struct KeyS { using type = std::string; static type mk(long k) { return "k" + std::to_string(k); } static long id(const type& k) { return atol(k.c_str() + 1); } };
// a key whose comparison can throw (armed by the op fndx): an exception must not leave a bucket locked (C11: "iterator use leaves the map fully usable")
static thread_local bool g_throw_cmp = false;   // per thread: only the find() of the arming thread throws
struct ThrowingKey { std::string s;
  friend bool operator==(const ThrowingKey& a, const ThrowingKey& b) { if (g_throw_cmp) { g_throw_cmp = false; throw std::runtime_error("key comparison"); } return a.s == b.s; }
  friend bool operator!=(const ThrowingKey& a, const ThrowingKey& b) { return !(a == b); } };
struct KeyT { using type = ThrowingKey; static type mk(long k) { return ThrowingKey{"k" + std::to_string(k)}; } static long id(const type& k) { return atol(k.s.c_str() + 1); } };
struct ValI { template <class R> using type = int; template <class R> static int mk(long v) { return (int)v; }
  template <class A> static long of_acc(A& a) { return *a; } template <class V> static long of_it(const V& v) { return v; } static constexpr bool managed = false; };
struct ValS { template <class R> using type = std::string; template <class R> static std::string mk(long v) { return std::to_string(v); }
  template <class A> static long of_acc(A& a) { return atol((*a).c_str()); } template <class V> static long of_it(const V& v) { return atol(v.c_str()); } static constexpr bool managed = false; };
struct ValM { template <class R> using type = xenium::managed_ptr<VNode<R>, R>; template <class R> static VNode<R>* mk(long v) { return new VNode<R>((int)v); }
  template <class A> static long of_acc(A& a) { return a->v; } template <class V> static long of_it(const V& v) { return v->v; } static constexpr bool managed = true; };

template <class K> struct ColHash { std::size_t operator()(const typename K::type& k) const noexcept { return (std::size_t)K::id(k) * 4096; } };
// every key has the same hash value: distinct non-trivial keys then share the stored (hashed) key and only differ in compare_nontrivial_key
template <class K> struct EqHash { std::size_t operator()(const typename K::type&) const noexcept { return 7 * 4096; } };
template <class K> struct StdHash { std::size_t operator()(const typename K::type& k) const noexcept { return (std::size_t)K::id(k); } };

static size_t g_cap = 1;

template <class M, class K, class V, class R>
xv::Scenario make_scn(const drv::Program& p) {
  auto m = std::make_shared<M*>(nullptr);
  auto exec = [m](const drv::Op& o) {
    M& s = **m; long k = o.a; const std::string& n = o.name;
    using accessor = typename M::accessor;
    if (n == "emp") { xv::call_blocking("emplace", k, 10 * k); bool ok = s.emplace(K::mk(k), V::template mk<R>(10 * k)); xv::ret(ok, 0); }
    else if (n == "goe") { xv::call_blocking("getorput", k, 10 * k); auto r = s.get_or_emplace(K::mk(k), V::template mk<R>(10 * k)); xv::ret(r.second, V::of_acc(r.first)); }
    else if (n == "gol") { xv::call_blocking("getorput", k, 10 * k);
      auto r = s.get_or_emplace_lazy(K::mk(k), [k] { return typename M::value_type(V::template mk<R>(10 * k)); }); xv::ret(r.second, V::of_acc(r.first)); }
    else if (n == "era") { xv::call_blocking("erase", k); bool ok = s.erase(K::mk(k)); xv::ret(ok, 0); }
    else if (n == "ext") { xv::call_blocking("extract", k); accessor acc; bool ok = s.extract(K::mk(k), acc); long v = ok ? V::of_acc(acc) : 0; xv::ret(ok, v);
    }
    else if (n == "get") { xv::call("xget", k); accessor acc; bool ok = s.try_get_value(K::mk(k), acc); long v = ok ? V::of_acc(acc) : 0; xv::ret(ok, v); }
    else if (n == "fnd") { xv::call_blocking("find", k); auto it = s.find(K::mk(k)); bool ok = it != s.end(); long v = ok ? V::of_it((*it).second) : 0; it.reset(); xv::ret(ok, v); }
    else if (n == "fndx") {   // find() whose key comparison throws: the exception reaches the caller, afterwards the bucket must be usable
      xv::call_blocking("find", k); g_throw_cmp = true;
      try { auto it = s.find(K::mk(k)); bool ok = it != s.end(); long v = ok ? V::of_it((*it).second) : 0; it.reset(); g_throw_cmp = false; xv::ret(ok, v); }
      catch (const std::runtime_error&) { g_throw_cmp = false; xv::ev("abort", "exception"); }
    }
    else if (n == "fer") {
      xv::call_blocking("find", k); auto it = s.find(K::mk(k)); bool ok = it != s.end(); long v = ok ? V::of_it((*it).second) : 0; xv::ret(ok, v);
      if (ok) { xv::call_blocking("it_erase", k); s.erase(it); it.reset(); xv::ret(0, 0); }
    }
    else if (n == "itmv") {
      // move-assign a second iterator over one that holds a bucket lock; afterwards every bucket must be usable again
      xv::call_blocking("find", k); auto it = s.find(K::mk(k)); bool ok = it != s.end(); long v = ok ? V::of_it((*it).second) : 0; xv::ret(ok, v);
      it = typename M::iterator();
      it.reset();
    }
    else if (n == "trav" || n == "trave") {
      long epos = n == "trave" ? o.a : -1; long pos = 0;
      xv::call_blocking("it_begin"); auto it = s.begin(); xv::ret(0, 0);
      while (it != s.end() && pos < 16) {
        long kk = K::id((*it).first), vv = V::of_it((*it).second);
        xv::call("it_yield", kk, vv); xv::ret(0, 0);
        if (pos == epos) { xv::call_blocking("it_erase", kk); s.erase(it); xv::ret(0, 0); }
        else ++it;
        pos++;
      }
      it.reset();
      xv::call("it_end", pos < 16 ? 1 : 0); xv::ret(0, 0);
    }
    else if (n == "ftrav" || n == "ftrave") {
      // a traversal that starts at find(k) and runs to end(): a partial traversal for the oracle (every key at most once per incarnation,
      // values belong to their keys, no completeness claim); ftrave: the element AFTER the found one is erased through the iterator
      xv::call_blocking("it_begin"); auto it = s.find(K::mk(k)); xv::ret(0, 0);
      long pos = 0;
      while (it != s.end() && pos < 16) {
        long kk = K::id((*it).first), vv = V::of_it((*it).second);
        xv::call("it_yield", kk, vv); xv::ret(0, 0);
        if (n == "ftrave" && pos == 1) { xv::call_blocking("it_erase", kk); s.erase(it); xv::ret(0, 0); }
        else ++it;
        pos++;
      }
      it.reset();
      xv::call("it_end", 0); xv::ret(0, 0);
    }
  };
  xv::Scenario sc; sc.nthreads = (int)p.threads.size(); sc.after = p.after;
  sc.setup = [=] { *m = new M(g_cap); xv::ev("cfg", "exclusive_iter"); for (auto& o : p.setup) exec(o); };
  sc.body = [=](int t) { for (auto& o : p.threads[t]) exec(o); };
  sc.finish = [=] {
    // every bucket must be usable (no lost lock): emplace / erase a fresh key per key slot, then read everything back
    for (int k = 1; k <= 8; k++) { drv::Op o; o.name = "get"; o.a = k; exec(o); }
    for (int k = 1; k <= 8; k++) { drv::Op o; o.name = "goe"; o.a = k; exec(o); }
    drv::Op tr; tr.name = "trav"; exec(tr);
    delete *m; *m = nullptr;
    xv::ev("quiescent", "end");
  };
  return sc;
}

template <class R, class K, class V> xv::Scenario by_hash(const drv::Program& p, char h) {
  using namespace xenium;
  using KT = typename K::type; using VT = typename V::template type<R>;
  if (h == 'c') { using M = vyukov_hash_map<KT, VT, policy::reclaimer<R>, policy::hash<ColHash<K>>>; return make_scn<M, K, V, R>(p); }
  if (h == 'e') { using M = vyukov_hash_map<KT, VT, policy::reclaimer<R>, policy::hash<EqHash<K>>>; return make_scn<M, K, V, R>(p); }
  using M = vyukov_hash_map<KT, VT, policy::reclaimer<R>, policy::hash<StdHash<K>>>; return make_scn<M, K, V, R>(p);
}

int main(int argc, char** argv) {
  return xv::explore_main(argc, argv, [](const std::string& ps) {
    drv::Program p = drv::parse(ps); auto parts = drv::split(p.config, '/');
    unsigned cap = 1; char kv[3] = "ii"; char h = 'c';
    sscanf(parts[0].c_str(), "vy%u%c%c%c", &cap, &kv[0], &kv[1], &h); g_cap = cap;
    std::string mode(kv, 2);
    return rc::with_reclaimer(parts.size() > 1 ? parts[1] : "hp3", [&](auto tg) -> xv::Scenario {
      using TG = decltype(tg); using R = typename TG::type;
      if constexpr (TG::custom_deleter) {   // vyukov_hash_map is not usable with lock_free_ref_count (block allocation)
        if (mode == "ii") return by_hash<R, KeyI, ValI>(p, h);
        if (mode == "is") return by_hash<R, KeyI, ValS>(p, h);
        if (mode == "si") return by_hash<R, KeyS, ValI>(p, h);
        if (mode == "ti") return by_hash<R, KeyT, ValI>(p, h);
        if (mode == "im") return by_hash<R, KeyI, ValM>(p, h);
        if (mode == "sm") return by_hash<R, KeyS, ValM>(p, h);
      }
      fprintf(stderr, "vy: unsupported mode %s\n", mode.c_str()); exit(2);
    });
  });
}
