// xvrt runtime: tsan-interface interception, cooperative scheduler, fork-per-execution explorer,
// heap quarantine, event log.  Compiled WITHOUT -fsanitize=thread.
#include "xvrt.hpp"

#include <atomic>
#include <climits>
#include <csignal>
#include <cstdarg>
#include <cstdio>
#include <cstdlib>
#include <cstring>
#include <ctime>
#include <dlfcn.h>
#include <exception>
#include <fstream>
#include <linux/futex.h>
#include <map>
#include <new>
#include <pthread.h>
#include <sched.h>
#include <sstream>
#include <string>
#include <sys/mman.h>
#include <sys/syscall.h>
#include <sys/wait.h>
#include <thread>
#include <unistd.h>
#include <unordered_map>
#include <unordered_set>
#include <vector>

namespace xv {

// ------------------------------------------------------------------------------------------
// heap arena + quarantine: bump allocation, never reused; 1 shadow byte + 4 byte block id per 16 bytes
// ------------------------------------------------------------------------------------------
static constexpr size_t ARENA = 1ull << 30;
static constexpr size_t GRAN = 16;
static char* arena_base = nullptr;
static unsigned char* shadow = nullptr;   // 0 none, 1 live, 2 freed
static uint32_t* blkid = nullptr;
static std::atomic<size_t> arena_off{0};
static std::atomic<uint32_t> alloc_seq{0};
static std::atomic<int> arena_state{0};

static void arena_init() {
  int exp = 0;
  if (arena_state.compare_exchange_strong(exp, 1)) {
    arena_base = (char*)mmap(nullptr, ARENA, PROT_READ | PROT_WRITE, MAP_PRIVATE | MAP_ANONYMOUS | MAP_NORESERVE, -1, 0);
    shadow = (unsigned char*)mmap(nullptr, ARENA / GRAN, PROT_READ | PROT_WRITE, MAP_PRIVATE | MAP_ANONYMOUS | MAP_NORESERVE, -1, 0);
    blkid = (uint32_t*)mmap(nullptr, ARENA / GRAN * 4, PROT_READ | PROT_WRITE, MAP_PRIVATE | MAP_ANONYMOUS | MAP_NORESERVE, -1, 0);
    if (arena_base == MAP_FAILED || shadow == MAP_FAILED || blkid == MAP_FAILED) { write(2, "xvrt: mmap failed\n", 18); _exit(2); }
    arena_state.store(2);
  } else {
    while (arena_state.load() != 2) {}
  }
}
static inline bool in_arena(const void* p) { return (size_t)((const char*)p - arena_base) < ARENA && arena_base; }

struct AllocSite { void* pc; long n; };
static AllocSite alloc_sites[512]; static int n_alloc_sites = 0; static bool track_sites = false;
static void note_site(void* pc) {
  if (!track_sites) return;
  for (int i = 0; i < n_alloc_sites; i++) if (alloc_sites[i].pc == pc) { alloc_sites[i].n++; return; }
  if (n_alloc_sites < 512) alloc_sites[n_alloc_sites++] = {pc, 1};
}
// The exploring parent process recycles its own blocks (size classes: multiples of 16 up to 1 KiB, then powers of two); only the
// forked children, which run the code under test, never reuse memory.  Without this the parent grows with every execution
// and fork() gets slower and slower.
static bool g_in_child = false;
static bool g_reuse = false;       // --reuse: the children recycle freed blocks too (LIFO per size class): address reuse / ABA scenarios become reachable,
                                   // at the price of the heap quarantine (no use-after-free reports in this mode)
static void* parent_free[128];
static inline int parent_class(size_t need) {
  if (need <= 1024) return (int)(need / GRAN);                     // 1..64
  int c = 65; size_t s = 2048; while (s < need && c < 127) { s <<= 1; c++; }
  return c;
}
static inline size_t parent_class_size(int c) { return c <= 64 ? (size_t)c * GRAN : (size_t)2048 << (c - 65); }
static void* arena_alloc(size_t size, size_t align) {
  if (arena_state.load(std::memory_order_acquire) != 2) arena_init();
  if (align < GRAN) align = GRAN;
  size_t need = ((size + GRAN - 1) & ~(GRAN - 1));
  if (need == 0) need = GRAN;
  if ((!g_in_child || g_reuse) && align == GRAN) {
    int c = parent_class(need);
    need = parent_class_size(c);
    if (parent_free[c]) { void* p = parent_free[c]; parent_free[c] = *(void**)p; return p; }
  }
  size_t total = need + align + GRAN; // header granule + alignment slack
  size_t off = arena_off.fetch_add(total);
  if (off + total > ARENA) { write(2, "xvrt: arena exhausted\n", 22); _exit(2); }
  uintptr_t start = (uintptr_t)arena_base + off + GRAN;
  start = (start + align - 1) & ~(uintptr_t)(align - 1);
  size_t* hdr = (size_t*)(start - GRAN);
  hdr[0] = need;
  uint32_t id = alloc_seq.fetch_add(1) + 1;
  size_t g0 = (start - (uintptr_t)arena_base) / GRAN;
  for (size_t g = 0; g < need / GRAN; g++) { shadow[g0 + g] = 1; blkid[g0 + g] = id; }
  return (void*)start;
}
static void race_free(const void* p, size_t need, void* pc);
static void arena_free(void* p) {
  if (!p) return;
  if (!in_arena(p)) return; // not ours (never happens for operator new memory)
  size_t* hdr = (size_t*)((uintptr_t)p - GRAN);
  size_t need = hdr[0];
  size_t g0 = ((uintptr_t)p - (uintptr_t)arena_base) / GRAN;
  if (shadow[g0] == 2) {
    // double free: report as event; handled by report_df below
    extern void report_double_free(const void*);
    report_double_free(p);
    return;
  }
  if ((!g_in_child || g_reuse) && need == parent_class_size(parent_class(need)) && shadow[g0] == 1 && hdr == (size_t*)(((uintptr_t)hdr + GRAN - 1) & ~(uintptr_t)(GRAN - 1))) {
    int c = parent_class(need); *(void**)p = parent_free[c]; parent_free[c] = p; return;
  }
  race_free(p, need, __builtin_return_address(0));
  for (size_t g = 0; g < need / GRAN; g++) shadow[g0 + g] = 2;
  memset(p, 0xDD, need);
}
uint32_t block_of(const void* p) {
  if (!in_arena(p)) return 0;
  return blkid[((uintptr_t)p - (uintptr_t)arena_base) / GRAN];
}

// ------------------------------------------------------------------------------------------
// child-side state
// ------------------------------------------------------------------------------------------
// set while runtime code runs: template code shared with the instrumented driver (COMDAT folding) must not be taken for the code under test
static thread_local int race_busy = 0;
struct RaceBusy { RaceBusy() { race_busy++; } ~RaceBusy() { race_busy--; } };
static constexpr int MAXT = 8;
enum Status { RUNNABLE = 0, PARKED = 1, BLOCKED = 2, DONE = 3, WAITSTART = 4 };
static int start_after[8];
enum Mode { M_DFS = 0, M_RANDOM = 1, M_REPLAY_TIDS = 2, M_REPLAY_SEGS = 3 };

static volatile bool active = false;
static thread_local int my_tid = -1;
static int nthreads = 0;
static int status[MAXT];
static const void* blocked_on[MAXT];
static unsigned long park_epoch[MAXT];
static std::atomic<int> gotok[MAXT];
static int cur = -1;
static unsigned long write_epoch = 1;
static long steps = 0;
static long max_steps = 20000;
static int allparked_rounds = 0;
static int preempt_used = 0, pb = 2;
static Mode mode = M_DFS;
static bool log_steps = false;
static int weakW = 0;

// decisions
struct Dec { int chosen; int nopts; };
static std::vector<Dec> decs;       // decision stack (prefix given by parent, extended by child)
static size_t dec_depth = 0;
static std::vector<int> tidtrace;   // thread chosen at every scheduling point
static std::vector<int> replay_tids;
static size_t seg_pos = 0;         // M_REPLAY_SEGS: cursor into replay_tids
static bool diverged = false;
// random mode
static std::vector<long> rnd_points; // scheduling point indices at which to preempt
static uint64_t rng_state = 88172645463325252ull;
static uint64_t rng() { rng_state ^= rng_state << 13; rng_state ^= rng_state >> 7; rng_state ^= rng_state << 17; return rng_state; }
// solo mode
static long solo_at = -1; static int solo_thread = -1; static bool solo_active = false; static long solo_start_step = 0;
static int solo_wakes = 0;
// per-thread op info
static const char* cur_op[16]; static bool in_op[16]; static bool op_blocking[16];

// spin detection
struct SpinEnt { const void* addr; uint64_t val; int cnt; };
static constexpr int SPIN_HIST = 64;
static SpinEnt spin_tab[MAXT][SPIN_HIST]; static int spin_n[MAXT]; static unsigned long spin_epoch[MAXT];
static constexpr int SPIN_REPEAT = 3;

// log buffer
static constexpr size_t LOGCAP = 16u << 20;
static char* logbuf = nullptr; static size_t loglen = 0; static int out_fd = -1;

static void raw_append(const char* s, size_t n) {
  if (!logbuf) return;
  if (loglen + n >= LOGCAP) return;
  memcpy(logbuf + loglen, s, n); loglen += n;
}
static void logf(const char* fmt, ...) {
  char tmp[512]; va_list ap; va_start(ap, fmt); int n = vsnprintf(tmp, sizeof tmp, fmt, ap); va_end(ap);
  if (n > 0) raw_append(tmp, (size_t)(n < (int)sizeof tmp ? n : (int)sizeof tmp - 1));
}
static void write_all(int fd, const char* p, size_t n) { while (n) { ssize_t w = write(fd, p, n); if (w <= 0) break; p += w; n -= (size_t)w; } }

[[noreturn]] static void finish_child(const char* outcome, long info) {
  RaceBusy rb_;
  // may be called from any thread or a signal handler; first caller wins
  static std::atomic<int> once{0};
  if (once.fetch_add(1) != 0) { for (;;) pause(); }
  active = false;
  char tmp[256];
  if (strcmp(outcome, "ok") != 0 && strncmp(outcome, "solo", 4) != 0) {
    int n = snprintf(tmp, sizeof tmp, "{\"e\":\"outcome\",\"t\":%d,\"op\":\"%s\",\"a\":%ld,\"b\":0,\"r\":0,\"v\":0}\n", my_tid < 0 ? 9 : my_tid, outcome, info);
    raw_append(tmp, (size_t)n);
  }
  int n = snprintf(tmp, sizeof tmp, "#END %s %ld %d %d\n", outcome, steps, preempt_used, diverged ? 1 : 0);
  raw_append(tmp, (size_t)n);
  raw_append("#DEC", 4);
  for (auto& d : decs) { n = snprintf(tmp, sizeof tmp, " %d/%d", d.chosen, d.nopts); raw_append(tmp, (size_t)n); }
  raw_append("\n#TIDS", 6);
  for (size_t i = 0; i < tidtrace.size();) { size_t j = i; while (j < tidtrace.size() && tidtrace[j] == tidtrace[i]) j++; n = snprintf(tmp, sizeof tmp, " %d*%zu", tidtrace[i], j - i); raw_append(tmp, (size_t)n); i = j; }
  raw_append("\n", 1);
  write_all(out_fd, logbuf, loglen);
  _exit(0);
}

void report_double_free(const void* p) {
  if (g_in_child) { logf("{\"e\":\"dfree\",\"t\":%d,\"op\":\"heap\",\"a\":%u,\"b\":0,\"r\":0,\"v\":0}\n", my_tid < 0 ? 9 : my_tid, block_of(p)); }
}

static void on_signal(int sig) {
  if (sig == SIGALRM) finish_child("hang", steps);
  finish_child("crash", sig);
}
static void on_terminate() { finish_child("terminate", 0); }

// ------------------------------------------------------------------------------------------
// token passing
// ------------------------------------------------------------------------------------------
static void fwait(std::atomic<int>* a) {
  while (a->load(std::memory_order_acquire) == 0) syscall(SYS_futex, (int*)a, FUTEX_WAIT_PRIVATE, 0, nullptr, nullptr, 0);
  a->store(0, std::memory_order_relaxed);
}
static void fwake(std::atomic<int>* a) { a->store(1, std::memory_order_release); syscall(SYS_futex, (int*)a, FUTEX_WAKE_PRIVATE, 1, nullptr, nullptr, 0); }

// harness-level waits (directed scenarios): a waiting thread is simply not runnable, it takes no steps
static int hflags[16]; static int hw_kind[MAXT], hw_arg[MAXT];   // kind 0 none, 1 flag, 2 exit of a thread
static void refresh_parked() {
  for (int t = 0; t < nthreads; t++)
    if (status[t] == WAITSTART && status[start_after[t]] == DONE) status[t] = RUNNABLE;
  for (int t = 0; t < nthreads; t++)
    if (status[t] == BLOCKED && hw_kind[t] != 0 &&
        ((hw_kind[t] == 1 && hflags[hw_arg[t] & 15]) || (hw_kind[t] == 2 && (hw_arg[t] >= nthreads || status[hw_arg[t]] == DONE)))) {
      status[t] = RUNNABLE; hw_kind[t] = 0;
    }
  for (int t = 0; t < nthreads; t++)
    if (status[t] == PARKED && park_epoch[t] != write_epoch) { status[t] = RUNNABLE; spin_n[t] = 0; }
}

// decide who runs next; `me` = calling thread if it could continue, else -1
static int pick(int me) {
  refresh_parked();
  int opts[MAXT]; int n = 0;
  bool me_ok = me >= 0 && status[me] == RUNNABLE;
  if (solo_active) {
    if (status[solo_thread] == RUNNABLE) return solo_thread;
    if (status[solo_thread] == PARKED && solo_wakes < 4) { solo_wakes++; status[solo_thread] = RUNNABLE; spin_n[solo_thread] = 0; return solo_thread; }
    // blocked: the solo thread waits for somebody else
    logf("{\"e\":\"solo\",\"t\":%d,\"op\":\"%s\",\"a\":%ld,\"b\":%d,\"r\":%ld,\"v\":0}\n", solo_thread, cur_op[solo_thread] ? cur_op[solo_thread] : "none", solo_at, status[solo_thread], steps - solo_start_step);
    finish_child("solo_blocked", steps - solo_start_step);
  }
  if (me_ok) opts[n++] = me;
  for (int t = 0; t < nthreads; t++) if (t != me && status[t] == RUNNABLE) opts[n++] = t;
  if (n == 0) {
    bool any_parked = false, any_blocked = false;
    for (int t = 0; t < nthreads; t++) { any_parked |= status[t] == PARKED; any_blocked |= status[t] == BLOCKED || status[t] == WAITSTART; }
    if (!any_parked && !any_blocked) return -1; // all done
    if (!any_parked || ++allparked_rounds > 8) finish_child("deadlock", steps);
    for (int t = 0; t < nthreads; t++) if (status[t] == PARKED) { status[t] = RUNNABLE; spin_n[t] = 0; opts[n++] = t; }
    me_ok = false;
  }
  int avail = n;
  if (me_ok && mode != M_REPLAY_TIDS && mode != M_REPLAY_SEGS && preempt_used >= pb) avail = 1;
  int choice = 0;
  long point = (long)tidtrace.size();
  if (mode == M_REPLAY_TIDS) {
    if ((size_t)point < replay_tids.size()) {
      int want = replay_tids[point]; bool found = false;
      for (int i = 0; i < n; i++) if (opts[i] == want) { choice = i; found = true; }
      if (!found) diverged = true;
    }
  } else if (mode == M_REPLAY_SEGS) {
    // directed schedule written by hand: segments "thread t for at most k steps"; a segment whose thread cannot run (blocked,
    // finished) is skipped; afterwards the running thread continues
    while (seg_pos < replay_tids.size()) {
      int want = replay_tids[seg_pos]; bool found = false;
      for (int i = 0; i < n; i++) if (opts[i] == want) { choice = i; found = true; }
      if (found) { seg_pos++; break; }
      while (seg_pos < replay_tids.size() && replay_tids[seg_pos] == want) seg_pos++;
    }
  } else if (avail > 1) {
    if (mode == M_DFS) {
      if (dec_depth < decs.size()) {
        choice = decs[dec_depth].chosen; decs[dec_depth].nopts = avail;
        if (choice >= avail) { diverged = true; choice = 0; }
      } else decs.push_back({0, avail});
      dec_depth++;
    } else { // random
      bool at = false;
      for (long p : rnd_points) if (p == point) at = true;
      if (me_ok) choice = at ? 1 + (int)(rng() % (unsigned)(avail - 1)) : 0;
      else choice = (int)(rng() % (unsigned)avail);
    }
  }
  int t = opts[choice];
  if (me_ok && t != me) preempt_used++;
  tidtrace.push_back(t);
  return t;
}

static void switch_to(int next, int me) {
  if (next == me) return;
  cur = next;
  if (next >= 0) fwake(&gotok[next]);
  if (me >= 0 && status[me] != DONE) fwait(&gotok[me]);
}

static void maybe_solo(int me) {
  if (solo_at >= 0 && !solo_active && steps == solo_at) {
    int t = solo_thread;
    refresh_parked();
    if (t >= nthreads) finish_child("solo_na", 0);
    if (status[t] == DONE || status[t] == BLOCKED || !in_op[t] || op_blocking[t]) finish_child("solo_na", 0);
    if (status[t] == PARKED) { status[t] = RUNNABLE; spin_n[t] = 0; }
    solo_active = true; solo_start_step = steps;
    (void)me;
  }
}

enum Kind { K_READ = 0, K_WRITE = 1, K_FENCE = 2, K_YIELD = 3, K_MUTEX = 4, K_CHOICE = 5 };

// called before every intercepted atomic access by a client thread
static void sched_point(int kind, const void* addr, uint64_t val_hint) {
  RaceBusy rb_;
  if (!active || my_tid < 0) return;
  int me = my_tid;
  if (solo_active && steps - solo_start_step > 3000) {
    // the solo thread keeps taking steps without finishing its operation (a loop whose exit depends on another thread, e.g. a
    // wait that also writes): recorded as a probe that did not complete
    logf("{\"e\":\"solo\",\"t\":%d,\"op\":\"%s\",\"a\":%ld,\"b\":9,\"r\":%ld,\"v\":0}\n", solo_thread, cur_op[solo_thread] ? cur_op[solo_thread] : "none", solo_at, steps - solo_start_step);
    finish_child("solo_over", steps - solo_start_step);
  }
  if (++steps > max_steps) finish_child("steplimit", steps);
  maybe_solo(me);
  (void)kind; (void)addr; (void)val_hint;
  int next = pick(me);
  switch_to(next, me);
}

// after the access: spin bookkeeping
static void after_access(int kind, const void* addr, uint64_t val) {
  RaceBusy rb_;
  if (!active || my_tid < 0) return;
  int me = my_tid;
  if (kind == K_WRITE) { write_epoch++; allparked_rounds = 0; spin_n[me] = 0; solo_wakes = 0; return; }
  if (kind == K_YIELD) { status[me] = PARKED; park_epoch[me] = write_epoch; int next = pick(me); switch_to(next, me); return; }
  if (kind != K_READ) return;
  // spin detection: the reads of this thread since the last write of anybody end with SPIN_REPEAT identical blocks of
  // (address, value) pairs (period <= 8) - the thread is going round a wait loop.  Re-reading one location between reads of
  // *different* locations (a version re-check while walking a list) is not a spin.
  if (spin_epoch[me] != write_epoch) { spin_epoch[me] = write_epoch; spin_n[me] = 0; }
  if (spin_n[me] == SPIN_HIST) { memmove(&spin_tab[me][0], &spin_tab[me][SPIN_HIST / 2], sizeof(SpinEnt) * (SPIN_HIST / 2)); spin_n[me] = SPIN_HIST / 2; }
  spin_tab[me][spin_n[me]++] = {addr, val, 1};
  int n = spin_n[me];
  for (int per = 1; per <= 8 && per * SPIN_REPEAT <= n; per++) {
    bool same = true;
    for (int i = 0; i < per * (SPIN_REPEAT - 1) && same; i++) {
      const SpinEnt& x = spin_tab[me][n - 1 - i]; const SpinEnt& y = spin_tab[me][n - 1 - i - per];
      same = x.addr == y.addr && x.val == y.val;
    }
    if (same) {
      status[me] = PARKED; park_epoch[me] = write_epoch; spin_n[me] = 0;
      int next = pick(me); switch_to(next, me);
      return;
    }
  }
}

// ------------------------------------------------------------------------------------------
// public API
// ------------------------------------------------------------------------------------------
int tid() { return my_tid < 0 ? 9 : my_tid; }
bool in_child() { return g_in_child; }
bool weak_mode() { return weakW > 0; }
static inline long clampv(long x) { return (x > 1000000000L || x < -1000000000L) ? -999999999L : x; }
void ev(const char* e, const char* op, long a, long b, long r, long v) {
  RaceBusy rb_;
  if (!g_in_child) return;
  a = clampv(a); b = clampv(b); r = clampv(r); v = clampv(v);
  logf("{\"e\":\"%s\",\"t\":%d,\"op\":\"%s\",\"a\":%ld,\"b\":%ld,\"r\":%ld,\"v\":%ld}\n", e, tid(), op, a, b, r, v);
}
void call_blocking(const char* op, long a, long b) { call(op, a, b); op_blocking[tid()] = true; }
void call(const char* op, long a, long b) {
  RaceBusy rb_;
  int t = tid();
  { cur_op[t] = op; in_op[t] = true; op_blocking[t] = false; }
  ev("call", op, a, b, 0, 0);
}
void ret(long r, long v) {
  RaceBusy rb_;
  int t = tid();
  ev("ret", cur_op[t] ? cur_op[t] : "none", 0, 0, r, v);
  in_op[t] = false;
  if (t < MAXT) {
    if (solo_active && t == solo_thread) {
      logf("{\"e\":\"solo\",\"t\":%d,\"op\":\"%s\",\"a\":%ld,\"b\":0,\"r\":%ld,\"v\":1}\n", t, cur_op[t], solo_at, steps - solo_start_step);
      finish_child("solo_ok", steps - solo_start_step);
    }
  }
}
void dump_alloc_sites() {
  for (int i = 0; i < n_alloc_sites; i++) {
    char op[64]; snprintf(op, sizeof op, "allocsite:%lx", (unsigned long)alloc_sites[i].pc);
    ev("ev", op, alloc_sites[i].n);
  }
}
void point() { sched_point(K_FENCE, nullptr, 0); }
long choose(long n) {
  RaceBusy rb_;
  if (!active || my_tid < 0 || n <= 1) return 0;
  // a recorded decision that does not count as a preemption
  long c = 0;
  if (mode == M_DFS) {
    if (dec_depth < decs.size()) { c = decs[dec_depth].chosen; decs[dec_depth].nopts = (int)n; if (c >= n) { diverged = true; c = 0; } }
    else decs.push_back({0, (int)n});
    dec_depth++;
  } else c = (long)(rng() % (uint64_t)n);
  logf("{\"e\":\"choice\",\"t\":%d,\"op\":\"rnd\",\"a\":%ld,\"b\":%ld,\"r\":0,\"v\":0}\n", tid(), c, n);
  return c;
}

struct Sentinel {
  ~Sentinel() {
    RaceBusy rb_;
    if (my_tid >= 0 && active) {
      int me = my_tid;
      status[me] = DONE; write_epoch++;     // wakes threads parked in a harness wait (thread_done)
      if (solo_active && me == solo_thread) finish_child("solo_na", 0);
      int next = pick(-1);
      my_tid = -1;
      cur = next;
      if (next >= 0) fwake(&gotok[next]);
    }
  }
};
static thread_local Sentinel sentinel;
void track_thread() { (void)&sentinel; }
bool thread_done(int t) { return t >= 0 && t < nthreads && status[t] == DONE; }
static void harness_wait(int kind, int arg) {
  RaceBusy rb_;
  if (!active || my_tid < 0) return;
  int me = my_tid;
  for (;;) {
    bool ok = kind == 1 ? hflags[arg & 15] != 0 : (arg >= nthreads || status[arg] == DONE);
    if (ok) return;
    status[me] = BLOCKED; blocked_on[me] = nullptr; hw_kind[me] = kind; hw_arg[me] = arg;
    int next = pick(me); switch_to(next, me);
  }
}

// ------------------------------------------------------------------------------------------
// step-level events and memory model
// ------------------------------------------------------------------------------------------
static std::unordered_map<const void*, int>* locids = nullptr;
static int loc_id(const void* a) {
  if (!locids) locids = new std::unordered_map<const void*, int>();
  auto it = locids->find(a);
  if (it != locids->end()) return it->second;
  int id = (int)locids->size() + 1; (*locids)[a] = id; return id;
}
static const char* mo_name(int mo) {
  switch (mo) { case 0: return "rlx"; case 1: return "con"; case 2: return "acq"; case 3: return "rel"; case 4: return "ar"; default: return "sc"; }
}
static void uaf(const void* a, const char* what, void* pc, void* fp) {
  static int reported = 0;
  if (reported++ < 8) {
    if (log_steps) {
      // call stack of the offending access (frame-pointer walk; drivers are built with -fno-omit-frame-pointer)
      char stk[256]; int n = snprintf(stk, sizeof stk, "%lx", (unsigned long)pc);
      void** f = (void**)fp;
      for (int d = 0; d < 8 && f && n < 200; d++) {
        void* ra = f[1]; void** nf = (void**)f[0];
        if (!ra) break;
        n += snprintf(stk + n, sizeof stk - (size_t)n, ",%lx", (unsigned long)ra);
        if (nf <= f || (char*)nf - (char*)f > (1 << 20)) break;
        f = nf;
      }
      logf("{\"e\":\"uaf\",\"t\":%d,\"op\":\"%s\",\"a\":%u,\"b\":%ld,\"r\":0,\"v\":0,\"pc\":\"%s\"}\n", tid(), what, block_of(a), (long)((uintptr_t)a & 0xfff), stk);
    }
    else logf("{\"e\":\"uaf\",\"t\":%d,\"op\":\"%s\",\"a\":%u,\"b\":%ld,\"r\":0,\"v\":0}\n", tid(), what, block_of(a), (long)((uintptr_t)a & 0xfff));
  }
}

// ------------------------------------------------------------------------------------------
// happens-before race detection (--race): vector clocks driven by the memory orders and fences the code declares.
// Executions are sequentially consistent interleavings (every load reads the latest store), so this does not explore stale
// values; it decides, for each explored interleaving, whether conflicting plain accesses (and frees) are ordered by
// happens-before as C++11 defines it: release/acquire on the same atomic, release sequences through read-modify-writes,
// fence-fence / fence-atomic synchronization, seq_cst as acquire+release joined with a global clock (an over-approximation of
// synchronization: it can hide a race, never invent one), mutexes, thread start / join, harness-level waits.
// ------------------------------------------------------------------------------------------
static bool race_on = false;
static constexpr int NTV = MAXT + 1;                 // index MAXT: the main thread
struct VC { int c[NTV]; };
static VC Cv[NTV], Frel[NTV], Facq[NTV], SCV, Fsync[16];
static std::unordered_map<const void*, VC>* Msg = nullptr;      // per atomic location / mutex: the view its latest store released
struct PAcc { int8_t tid; uint8_t off, size, flags; int clk; void* pc; };   // flags: 1 write, 2 atomic
struct PWord { PAcc a[6]; int n; };
static std::unordered_map<uintptr_t, PWord>* Sh = nullptr;
static int race_ignore[NTV];
static int races_reported = 0;
static inline int rtid() { return my_tid >= 0 && my_tid < MAXT ? my_tid : MAXT; }
static inline void vjoin(VC& a, const VC& b) { for (int i = 0; i < NTV; i++) if (b.c[i] > a.c[i]) a.c[i] = b.c[i]; }
static void race_init() {
  memset(Cv, 0, sizeof Cv); memset(Frel, 0, sizeof Frel); memset(Facq, 0, sizeof Facq); memset(&SCV, 0, sizeof SCV); memset(Fsync, 0, sizeof Fsync);
  for (int i = 0; i < NTV; i++) Cv[i].c[i] = 1;
  RaceBusy rb;
  Msg = new std::unordered_map<const void*, VC>(); Sh = new std::unordered_map<uintptr_t, PWord>();
}
static void race_thread_start(int t, int after) {
  if (!race_on) return;
  vjoin(Cv[t], Cv[MAXT]); if (after >= 0) vjoin(Cv[t], Cv[after]);
}
static void race_join_all(int n) { if (race_on) for (int t = 0; t < n; t++) vjoin(Cv[MAXT], Cv[t]); }
static void race_report(const char* what, const void* a, const PAcc& o, void* pc) {
  if (races_reported++ >= 4) return;
  // pc list: the earlier access, then the call stack of the current one (frame-pointer walk from the hook's caller)
  char stk[256]; int n = snprintf(stk, sizeof stk, "%lx,%lx", (unsigned long)o.pc, (unsigned long)pc);
  void** f = (void**)__builtin_frame_address(0);
  for (int d = 0; d < 12 && f && n < 220; d++) {
    void* ra = f[1]; void** nf = (void**)f[0];
    if (!ra) break;
    if (d >= 2) n += snprintf(stk + n, sizeof stk - (size_t)n, ",%lx", (unsigned long)ra);
    if (nf <= f || (char*)nf - (char*)f > (1 << 20)) break;
    f = nf;
  }
  logf("{\"e\":\"race\",\"t\":%d,\"op\":\"%s\",\"a\":%u,\"b\":%d,\"r\":%ld,\"v\":%d,\"pc\":\"%s\"}\n", tid(), what, block_of(a), (int)o.tid,
       (long)((uintptr_t)a & 0xfff), (int)o.flags, stk);
}
// record an access of [a, a+size) and check it against earlier conflicting accesses of other threads that do not happen before it
static void race_access(const void* a, size_t size, int flags, void* pc, bool record = true) {
  if (!race_on || !g_in_child || !Sh || race_busy || !in_arena(a)) return;
  RaceBusy rb;
  int t = rtid();
  if (race_ignore[t]) return;
  uintptr_t p = (uintptr_t)a, e = p + size;
  for (uintptr_t w = p >> 3; (w << 3) < e; w++) {
    uintptr_t lo = p > (w << 3) ? p : (w << 3), hi = e < ((w + 1) << 3) ? e : ((w + 1) << 3);
    uint8_t off = (uint8_t)(lo - (w << 3)), sz = (uint8_t)(hi - lo);
    auto it = Sh->find(w);
    if (it == Sh->end()) { if (!record) continue; it = Sh->emplace(w, PWord{}).first; }
    PWord& W = it->second;
    int same = -1;
    for (int i = 0; i < W.n; i++) {
      PAcc& o = W.a[i];
      if (o.tid == t) { if (o.off == off && o.size == sz && o.flags == (uint8_t)flags) same = i; continue; }
      if (!((flags | o.flags) & 1)) continue;                      // two reads
      if (((flags | o.flags) & 2) && !(flags & 4)) continue;       // an atomic access conflicts with a free only (the plain
                                                                   // initialisation of an atomic object is not a plain object's access)
      if (o.off + o.size <= off || off + sz <= o.off) continue;    // disjoint bytes
      if (o.clk <= Cv[t].c[(int)o.tid]) continue;                  // happens before
      race_report((flags & 4) ? "free" : (flags & 1) ? ((flags & 2) ? "awr" : "wr") : ((flags & 2) ? "ard" : "rd"), (const void*)lo, o, pc);
    }
    if (!record) continue;
    PAcc na{(int8_t)t, off, sz, (uint8_t)(flags & 3), Cv[t].c[t], pc};
    if (same >= 0) W.a[same] = na;
    else if (W.n < 6) W.a[W.n++] = na;
    else { memmove(&W.a[0], &W.a[1], sizeof(PAcc) * 5); W.a[5] = na; }
  }
}
static void race_free(const void* p, size_t need, void* pc) {
  if (!race_on || !g_in_child) return;
  race_access(p, need, 1 | 4, pc, false);
}
enum { RA_LOAD = 0, RA_STORE = 1, RA_RMW = 2 };
static inline bool mo_acq(int mo) { return mo == 1 || mo == 2 || mo == 4 || mo == 5; }   // consume counts as acquire
static inline bool mo_rel(int mo) { return mo == 3 || mo == 4 || mo == 5; }
static void race_atomic(const void* a, size_t size, int kind, int mo, void* pc) {
  if (!race_on || !g_in_child || !Msg || race_busy) return;
  int t = rtid();
  if (race_ignore[t]) return;
  race_access(a, size, 2 | (kind != RA_LOAD ? 1 : 0), pc);
  RaceBusy rb;
  VC& m = (*Msg)[a];
  if (mo == 5) vjoin(Cv[t], SCV);
  if (kind != RA_STORE) { if (mo_acq(mo)) vjoin(Cv[t], m); else vjoin(Facq[t], m); }
  if (kind == RA_STORE) m = mo_rel(mo) ? Cv[t] : Frel[t];
  else if (kind == RA_RMW) vjoin(m, mo_rel(mo) ? Cv[t] : Frel[t]);      // continues the release sequence
  if (mo == 5) vjoin(SCV, Cv[t]);
  if (kind != RA_LOAD) Cv[t].c[t]++;
}
static void race_fence(int mo) {
  if (!race_on || !g_in_child || !Msg) return;
  int t = rtid();
  if (mo == 5) vjoin(Cv[t], SCV);
  if (mo_acq(mo)) vjoin(Cv[t], Facq[t]);
  if (mo_rel(mo)) Frel[t] = Cv[t];
  if (mo == 5) vjoin(SCV, Cv[t]);
  Cv[t].c[t]++;
}
static void race_lock(const void* m) { if (race_on && g_in_child && Msg) { RaceBusy rb; vjoin(Cv[rtid()], (*Msg)[m]); } }
static void race_unlock(const void* m) { if (race_on && g_in_child && Msg) { RaceBusy rb; int t = rtid(); (*Msg)[m] = Cv[t]; Cv[t].c[t]++; } }
// ------------------------------------------------------------------------------------------
// weak-memory execution (--weak W): the runtime keeps, for every atomic location, the history of messages written to it, and per thread the
// views cur / acq / rel of spec/common/Mem.tla (view-based release/acquire + fences + seq_cst, append-only modification order, RMWs and
// failed CASes read the latest message).  A load may return an OLDER message that the thread's view still allows; at most W such stale
// reads per execution, each one a recorded decision (choose), so executions replay from their decision list.  Real memory always holds the
// latest value (plain accesses, the heap quarantine and the crash handlers keep working).  Sound for reporting: every execution produced
// is allowed by the C++ memory model; incomplete: no load buffering, stale reads only of the two most recent older messages.
// ------------------------------------------------------------------------------------------
typedef std::vector<uint32_t> WView;
struct WMsg { uint64_t val; WView view; };
struct WLoc { std::vector<WMsg> h; uint32_t floor = 0; int idx = 0; };
static std::unordered_map<const void*, WLoc>* WL = nullptr;
static WView Wcur[NTV], Wacq[NTV], Wrel[NTV], Wscv, Wflag[16];
static std::unordered_map<const void*, WView>* Wmtx = nullptr;
static int weak_left = 0;
static inline bool w_on() { return weakW > 0 && g_in_child; }
static inline uint32_t vget(const WView& v, int i) { return (size_t)i < v.size() ? v[(size_t)i] : 0; }
static inline void vmax(WView& v, int i, uint32_t x) { if ((size_t)i >= v.size()) v.resize((size_t)i + 1, 0); if (v[(size_t)i] < x) v[(size_t)i] = x; }
static inline void vjoinw(WView& a, const WView& b) { if (a.size() < b.size()) a.resize(b.size(), 0); for (size_t i = 0; i < b.size(); i++) if (b[i] > a[i]) a[i] = b[i]; }
static inline bool w_acq(int mo) { return mo == 1 || mo == 2 || mo == 4 || mo == 5; }
static inline bool w_rel(int mo) { return mo == 3 || mo == 4 || mo == 5; }
static inline uint64_t w_mask(size_t n) { return n >= 8 ? ~0ull : ((1ull << (8 * n)) - 1); }
static void w_init() {
  RaceBusy rb; WL = new std::unordered_map<const void*, WLoc>(); Wmtx = new std::unordered_map<const void*, WView>(); weak_left = weakW;
  for (int i = 0; i < NTV; i++) { Wcur[i].clear(); Wacq[i].clear(); Wrel[i].clear(); } Wscv.clear(); for (auto& f : Wflag) f.clear();
}
// history of location a; `actual` = what memory holds right now: a location first seen, or one that was (re)initialised by plain writes
// (constructors, recycled nodes), starts a new history whose first message everybody may read and nobody may go behind
static WLoc& w_loc(const void* a, uint64_t actual) {
  WLoc& L = (*WL)[a];
  if (L.h.empty()) { L.idx = (int)WL->size(); L.h.push_back({actual, WView()}); }
  else if (L.h.back().val != actual) { L.h.push_back({actual, WView()}); L.floor = (uint32_t)L.h.size() - 1; }
  return L;
}
static void w_read_msg(int t, WLoc& L, uint32_t i, int mo) {        // Mem.tla Load
  const WMsg& m = L.h[i]; int x = L.idx;
  vmax(Wcur[t], x, i);
  WView a2 = Wacq[t]; vjoinw(a2, Wcur[t]); vjoinw(a2, m.view);
  if (w_acq(mo)) vjoinw(Wcur[t], m.view);
  vjoinw(a2, Wcur[t]); Wacq[t].swap(a2);
  if (mo == 5) vmax(Wscv, x, i);
}
static uint64_t w_load(const void* a, size_t n, uint64_t actual, int mo) {
  RaceBusy rb; int t = rtid(); actual &= w_mask(n);
  WLoc& L = w_loc(a, actual);
  uint32_t last = (uint32_t)L.h.size() - 1, lo = vget(Wcur[t], L.idx);
  if (mo == 5 && vget(Wscv, L.idx) > lo) lo = vget(Wscv, L.idx);
  if (L.floor > lo) lo = L.floor;
  uint32_t i = last;
  if (weak_left > 0 && active && my_tid >= 0 && lo < last) {
    long ncand = (long)(last - lo); if (ncand > 2) ncand = 2;
    long c = choose(ncand + 1);
    if (c > 0) { i = last - (uint32_t)c; weak_left--;
      logf("{\"e\":\"note\",\"t\":%d,\"op\":\"stale\",\"a\":%d,\"b\":%ld,\"r\":0,\"v\":0}\n", tid(), loc_id(a), c); }
  }
  w_read_msg(t, L, i, mo);
  return L.h[i].val;
}
static void w_store(const void* a, size_t n, uint64_t before, uint64_t v, int mo) {   // Mem.tla Store
  RaceBusy rb; int t = rtid(); v &= w_mask(n);
  WLoc& L = w_loc(a, before & w_mask(n)); int x = L.idx; uint32_t i = (uint32_t)L.h.size();
  vmax(Wcur[t], x, i);
  WView mv = w_rel(mo) ? Wcur[t] : Wrel[t]; vmax(mv, x, i);
  L.h.push_back({v, mv});
  vjoinw(Wacq[t], Wcur[t]);
  if (mo == 5) vmax(Wscv, x, i);
}
static void w_rmw(const void* a, size_t n, uint64_t before, uint64_t v, int mo) {     // Mem.tla Rmw: reads the latest message
  RaceBusy rb; int t = rtid(); v &= w_mask(n);
  WLoc& L = w_loc(a, before & w_mask(n)); int x = L.idx; uint32_t j = (uint32_t)L.h.size() - 1, i = j + 1;
  WView mview = L.h[j].view;
  if (w_acq(mo)) vjoinw(Wcur[t], mview);
  vmax(Wcur[t], x, i);
  WView mv = w_rel(mo) ? Wcur[t] : Wrel[t]; vmax(mv, x, i); vjoinw(mv, mview);
  L.h.push_back({v, mv});
  vjoinw(Wacq[t], Wcur[t]); vjoinw(Wacq[t], mview);
  if (mo == 5) vmax(Wscv, x, i);
}
static void w_casfail(const void* a, size_t n, uint64_t actual, int fmo) {            // a failed CAS is a load of the latest message
  RaceBusy rb; int t = rtid(); WLoc& L = w_loc(a, actual & w_mask(n));
  w_read_msg(t, L, (uint32_t)L.h.size() - 1, fmo);
}
static void w_fence(int mo) {                                                          // Mem.tla Fence
  if (!w_on()) return;
  RaceBusy rb; int t = rtid();
  if (mo == 1 || mo == 2) Wcur[t] = Wacq[t];
  else if (mo == 3) Wrel[t] = Wcur[t];
  else if (mo == 4) { Wcur[t] = Wacq[t]; Wrel[t] = Wacq[t]; }
  else if (mo == 5) { WView c = Wacq[t]; vjoinw(c, Wscv); Wcur[t] = c; Wacq[t] = c; Wrel[t] = c; Wscv = c; }
}
static void w_sync_from(int t, const WView& v) { vjoinw(Wcur[t], v); vjoinw(Wacq[t], v); vjoinw(Wrel[t], v); }
static void w_thread_start(int t, int after) { if (!w_on()) return; RaceBusy rb; w_sync_from(t, Wcur[MAXT]); if (after >= 0) w_sync_from(t, Wcur[after]); }
static void w_join_all(int n) { if (!w_on()) return; RaceBusy rb; for (int t = 0; t < n; t++) w_sync_from(MAXT, Wcur[t]); }
static void w_lock(const void* m) { if (!w_on() || !Wmtx) return; RaceBusy rb; w_sync_from(rtid(), (*Wmtx)[m]); }
static void w_unlock(const void* m) { if (!w_on() || !Wmtx) return; RaceBusy rb; (*Wmtx)[m] = Wcur[rtid()]; }

// harness-level ordering also orders the threads for the race detector (a real program would use a flag or join here)
void sync_set(int i) { hflags[i & 15] = 1; if (race_on) { int t = rtid(); vjoin(Fsync[i & 15], Cv[t]); Cv[t].c[t]++; } if (w_on()) { RaceBusy rb; vjoinw(Wflag[i & 15], Wcur[rtid()]); } }
void sync_wait(int i) { harness_wait(1, i); if (race_on) vjoin(Cv[rtid()], Fsync[i & 15]); if (w_on()) { RaceBusy rb; w_sync_from(rtid(), Wflag[i & 15]); } }
void wait_exit(int t) { harness_wait(2, t); if (race_on && t >= 0 && t < MAXT) vjoin(Cv[rtid()], Cv[t]); if (w_on() && t >= 0 && t < MAXT) { RaceBusy rb; w_sync_from(rtid(), Wcur[t]); } }
void race_ignore_begin() { race_ignore[rtid()]++; }
void race_ignore_end() { race_ignore[rtid()]--; }


#define chk(a, what) chk_((a), (what), __builtin_return_address(0), __builtin_frame_address(0))
static inline void chk_(const void* a, const char* what, void* pc, void* fp) {
  if (!g_in_child) return;
  size_t off = (size_t)((const char*)a - arena_base);
  if (off < ARENA && shadow[off / GRAN] == 2) uaf(a, what, pc, *(void**)fp);
}
struct NamedRange { uintptr_t base; size_t elem, count; long first; };
static NamedRange named[8]; static int n_named = 0;
void name_range(const void* base, size_t elem, size_t count, long firstid) { if (n_named < 8) named[n_named++] = {(uintptr_t)base, elem, count, firstid}; }
static void step_ev(const char* kind, const void* a, uint64_t v, int mo, int ok, void* pc) {
  RaceBusy rb_;
  if (!log_steps || !active || my_tid < 0) return;
  long vv; long vp = 0;
  // marked_ptr keeps its mark in the 16 topmost bits: a pointer into a named range is recorded as b = -2, v = index + (top16 << 20);
  // a null pointer that carries only a mark as b = -3, v = top16
  const uint64_t lowv = v & 0x0000ffffffffffffull; const long top16 = (long)(v >> 48);
  for (int i = 0; i < n_named; i++) if (lowv >= named[i].base && lowv < named[i].base + named[i].elem * named[i].count) {
    logf("{\"e\":\"%s\",\"t\":%d,\"op\":\"%s\",\"a\":%d,\"b\":-2,\"r\":%d,\"v\":%ld,\"pc\":\"%lx\"}\n", kind, my_tid, mo_name(mo), a ? loc_id(a) : 0, ok,
         named[i].first + (long)((lowv - named[i].base) / named[i].elem) + (top16 << 20), (unsigned long)pc);
    return;
  }
  if (lowv == 0 && top16 != 0) {
    logf("{\"e\":\"%s\",\"t\":%d,\"op\":\"%s\",\"a\":%d,\"b\":-3,\"r\":%d,\"v\":%ld,\"pc\":\"%lx\"}\n", kind, my_tid, mo_name(mo), a ? loc_id(a) : 0, ok, top16, (unsigned long)pc);
    return;
  }
  uint64_t base = v & ~(uint64_t)0xffff000000000007ull;
  if (in_arena((void*)base) && block_of((void*)base)) { vp = block_of((void*)base); vv = (long)(v & 7) + (long)((v >> 48) << 3); }
  else if (v < (1ull << 30)) vv = (long)v;
  else { vp = -1; vv = (long)(v % 1000000007ull); }
  logf("{\"e\":\"%s\",\"t\":%d,\"op\":\"%s\",\"a\":%d,\"b\":%ld,\"r\":%d,\"v\":%ld,\"pc\":\"%lx\"}\n", kind, my_tid, mo_name(mo), a ? loc_id(a) : 0, vp, ok, vv, (unsigned long)pc);
}

} // namespace xv

using namespace xv;

// ------------------------------------------------------------------------------------------
// tsan interface
// ------------------------------------------------------------------------------------------
extern "C" {
void __tsan_init() {}
void __tsan_func_entry(void*) {}
void __tsan_func_exit() {}
#define XV_RW(n) \
  void __tsan_read##n(void* a) { chk(a, "rd"); race_access(a, n, 0, __builtin_return_address(0)); } \
  void __tsan_write##n(void* a) { chk(a, "wr"); race_access(a, n, 1, __builtin_return_address(0)); }
XV_RW(1) XV_RW(2) XV_RW(4) XV_RW(8) XV_RW(16)
void __tsan_unaligned_read2(void* a) { chk(a, "rd"); race_access(a, 2, 0, __builtin_return_address(0)); }
void __tsan_unaligned_read4(void* a) { chk(a, "rd"); race_access(a, 4, 0, __builtin_return_address(0)); }
void __tsan_unaligned_read8(void* a) { chk(a, "rd"); race_access(a, 8, 0, __builtin_return_address(0)); }
void __tsan_unaligned_read16(void* a) { chk(a, "rd"); race_access(a, 16, 0, __builtin_return_address(0)); }
void __tsan_unaligned_write2(void* a) { chk(a, "wr"); race_access(a, 2, 1, __builtin_return_address(0)); }
void __tsan_unaligned_write4(void* a) { chk(a, "wr"); race_access(a, 4, 1, __builtin_return_address(0)); }
void __tsan_unaligned_write8(void* a) { chk(a, "wr"); race_access(a, 8, 1, __builtin_return_address(0)); }
void __tsan_unaligned_write16(void* a) { chk(a, "wr"); race_access(a, 16, 1, __builtin_return_address(0)); }
void __tsan_vptr_update(void** a, void*) { chk(a, "wr"); race_access(a, 8, 1, __builtin_return_address(0)); }
void __tsan_vptr_read(void** a) { chk(a, "rd"); race_access(a, 8, 0, __builtin_return_address(0)); }
void __tsan_read_range(void* a, unsigned long n) { chk(a, "rd"); if (n > 1) chk((char*)a + n - 1, "rd"); race_access(a, n, 0, __builtin_return_address(0)); }
void __tsan_write_range(void* a, unsigned long n) { chk(a, "wr"); if (n > 1) chk((char*)a + n - 1, "wr"); race_access(a, n, 1, __builtin_return_address(0)); }

#define XV_ATOM(bits, T) \
  T __tsan_atomic##bits##_load(const volatile T* a, int mo) { \
    if (bits == 8 && mo == 2 && !in_arena((const void*)a) && __atomic_load_n(a, __ATOMIC_SEQ_CST) == (T)1) return (T)1; /* set guard variable of a function-local static: not an access of the code under test */ \
    sched_point(K_READ, (const void*)a, 0); chk((const void*)a, "ald"); \
    T v = __atomic_load_n(a, __ATOMIC_SEQ_CST); race_atomic((const void*)a, sizeof(T), RA_LOAD, mo, __builtin_return_address(0)); \
    if (w_on()) v = (T)w_load((const void*)a, sizeof(T), (uint64_t)v, mo); \
    step_ev("ld", (const void*)a, (uint64_t)v, mo, 1, __builtin_return_address(0)); \
    after_access(K_READ, (const void*)a, (uint64_t)v); return v; } \
  void __tsan_atomic##bits##_store(volatile T* a, T v, int mo) { \
    sched_point(K_WRITE, (const void*)a, 0); chk((const void*)a, "ast"); \
    if (w_on()) w_store((const void*)a, sizeof(T), (uint64_t)__atomic_load_n(a, __ATOMIC_RELAXED), (uint64_t)v, mo); \
    __atomic_store_n(a, v, __ATOMIC_SEQ_CST); race_atomic((const void*)a, sizeof(T), RA_STORE, mo, __builtin_return_address(0)); \
    step_ev("st", (const void*)a, (uint64_t)v, mo, 1, __builtin_return_address(0)); \
    after_access(K_WRITE, (const void*)a, (uint64_t)v); } \
  T __tsan_atomic##bits##_exchange(volatile T* a, T v, int mo) { \
    sched_point(K_WRITE, (const void*)a, 0); chk((const void*)a, "arm"); \
    T o = __atomic_exchange_n(a, v, __ATOMIC_SEQ_CST); race_atomic((const void*)a, sizeof(T), RA_RMW, mo, __builtin_return_address(0)); \
    if (w_on()) w_rmw((const void*)a, sizeof(T), (uint64_t)o, (uint64_t)v, mo); \
    step_ev("xchg", (const void*)a, (uint64_t)o, mo, 1, __builtin_return_address(0)); \
    after_access(K_WRITE, (const void*)a, (uint64_t)v); return o; } \
  T __tsan_atomic##bits##_fetch_add(volatile T* a, T v, int mo) { \
    sched_point(K_WRITE, (const void*)a, 0); chk((const void*)a, "arm"); \
    T o = __atomic_fetch_add(a, v, __ATOMIC_SEQ_CST); race_atomic((const void*)a, sizeof(T), RA_RMW, mo, __builtin_return_address(0)); \
    if (w_on()) w_rmw((const void*)a, sizeof(T), (uint64_t)o, (uint64_t)(T)(o + v), mo); \
    step_ev("faa", (const void*)a, (uint64_t)o, mo, 1, __builtin_return_address(0)); \
    after_access(K_WRITE, (const void*)a, (uint64_t)v); return o; } \
  T __tsan_atomic##bits##_fetch_sub(volatile T* a, T v, int mo) { \
    sched_point(K_WRITE, (const void*)a, 0); chk((const void*)a, "arm"); \
    T o = __atomic_fetch_sub(a, v, __ATOMIC_SEQ_CST); race_atomic((const void*)a, sizeof(T), RA_RMW, mo, __builtin_return_address(0)); \
    if (w_on()) w_rmw((const void*)a, sizeof(T), (uint64_t)o, (uint64_t)(T)(o - v), mo); \
    step_ev("fas", (const void*)a, (uint64_t)o, mo, 1, __builtin_return_address(0)); \
    after_access(K_WRITE, (const void*)a, (uint64_t)v); return o; } \
  T __tsan_atomic##bits##_fetch_or(volatile T* a, T v, int mo) { \
    sched_point(K_WRITE, (const void*)a, 0); chk((const void*)a, "arm"); \
    T o = __atomic_fetch_or(a, v, __ATOMIC_SEQ_CST); race_atomic((const void*)a, sizeof(T), RA_RMW, mo, __builtin_return_address(0)); \
    if (w_on()) w_rmw((const void*)a, sizeof(T), (uint64_t)o, (uint64_t)(T)(o | v), mo); \
    step_ev("for", (const void*)a, (uint64_t)o, mo, 1, __builtin_return_address(0)); \
    after_access(K_WRITE, (const void*)a, (uint64_t)v); return o; } \
  T __tsan_atomic##bits##_fetch_and(volatile T* a, T v, int mo) { \
    sched_point(K_WRITE, (const void*)a, 0); chk((const void*)a, "arm"); \
    T o = __atomic_fetch_and(a, v, __ATOMIC_SEQ_CST); race_atomic((const void*)a, sizeof(T), RA_RMW, mo, __builtin_return_address(0)); \
    if (w_on()) w_rmw((const void*)a, sizeof(T), (uint64_t)o, (uint64_t)(T)(o & v), mo); \
    step_ev("fand", (const void*)a, (uint64_t)o, mo, 1, __builtin_return_address(0)); \
    after_access(K_WRITE, (const void*)a, (uint64_t)v); return o; } \
  T __tsan_atomic##bits##_fetch_xor(volatile T* a, T v, int mo) { \
    sched_point(K_WRITE, (const void*)a, 0); chk((const void*)a, "arm"); \
    T o = __atomic_fetch_xor(a, v, __ATOMIC_SEQ_CST); race_atomic((const void*)a, sizeof(T), RA_RMW, mo, __builtin_return_address(0)); \
    if (w_on()) w_rmw((const void*)a, sizeof(T), (uint64_t)o, (uint64_t)(T)(o ^ v), mo); \
    step_ev("fxor", (const void*)a, (uint64_t)o, mo, 1, __builtin_return_address(0)); \
    after_access(K_WRITE, (const void*)a, (uint64_t)v); return o; } \
  int __tsan_atomic##bits##_compare_exchange_strong(volatile T* a, T* c, T v, int mo, int fmo) { \
    sched_point(K_WRITE, (const void*)a, 0); chk((const void*)a, "arm"); \
    T before = *c; \
    int ok = __atomic_compare_exchange_n(a, c, v, 0, __ATOMIC_SEQ_CST, __ATOMIC_SEQ_CST); \
    if (w_on()) { if (ok) w_rmw((const void*)a, sizeof(T), (uint64_t)before, (uint64_t)v, mo); else w_casfail((const void*)a, sizeof(T), (uint64_t)*c, fmo); } \
    race_atomic((const void*)a, sizeof(T), ok ? RA_RMW : RA_LOAD, ok ? mo : fmo, __builtin_return_address(0)); \
    step_ev("cas", (const void*)a, (uint64_t)(ok ? before : *c), mo, ok, __builtin_return_address(0)); \
    after_access(ok ? K_WRITE : K_READ, (const void*)a, (uint64_t)*c); return ok; } \
  int __tsan_atomic##bits##_compare_exchange_weak(volatile T* a, T* c, T v, int mo, int fmo) { \
    sched_point(K_WRITE, (const void*)a, 0); chk((const void*)a, "arm"); \
    T before = *c; \
    int ok = __atomic_compare_exchange_n(a, c, v, 0, __ATOMIC_SEQ_CST, __ATOMIC_SEQ_CST); \
    if (w_on()) { if (ok) w_rmw((const void*)a, sizeof(T), (uint64_t)before, (uint64_t)v, mo); else w_casfail((const void*)a, sizeof(T), (uint64_t)*c, fmo); } \
    race_atomic((const void*)a, sizeof(T), ok ? RA_RMW : RA_LOAD, ok ? mo : fmo, __builtin_return_address(0)); \
    step_ev("cas", (const void*)a, (uint64_t)(ok ? before : *c), mo, ok, __builtin_return_address(0)); \
    after_access(ok ? K_WRITE : K_READ, (const void*)a, (uint64_t)*c); return ok; }
XV_ATOM(8, uint8_t) XV_ATOM(16, uint16_t) XV_ATOM(32, uint32_t) XV_ATOM(64, uint64_t)

void __tsan_atomic_thread_fence(int mo) {
  sched_point(K_FENCE, nullptr, 0); race_fence(mo); w_fence(mo);
  step_ev("fence", nullptr, 0, mo, 1, __builtin_return_address(0));
}
void __tsan_atomic_signal_fence(int) {}

// ---- interposed: sched_yield, pthread mutexes (left_right's writer mutex) ----
int sched_yield(void) {
  if (active && my_tid >= 0) { sched_point(K_YIELD, nullptr, 0); after_access(K_YIELD, nullptr, 0); return 0; }
  return (int)syscall(SYS_sched_yield);
}
static std::map<const void*, int>* mtx_owner = nullptr;
typedef int (*mtx_fn)(pthread_mutex_t*);
static mtx_fn real_lock = nullptr, real_unlock = nullptr, real_trylock = nullptr;
static void resolve_mtx() {
  static std::atomic<int> st{0};
  if (st.load() == 2) return;
  int e = 0;
  if (st.compare_exchange_strong(e, 1)) {
    real_lock = (mtx_fn)dlsym(RTLD_NEXT, "pthread_mutex_lock");
    real_unlock = (mtx_fn)dlsym(RTLD_NEXT, "pthread_mutex_unlock");
    real_trylock = (mtx_fn)dlsym(RTLD_NEXT, "pthread_mutex_trylock");
    st.store(2);
  } else while (st.load() != 2) {}
}
int pthread_mutex_lock(pthread_mutex_t* m) {
  RaceBusy rb_;
  if (active && my_tid >= 0) {
    int me = my_tid;
    sched_point(K_MUTEX, m, 0);
    if (!mtx_owner) mtx_owner = new std::map<const void*, int>();
    for (;;) {
      auto it = mtx_owner->find(m);
      if (it == mtx_owner->end()) break;
      status[me] = BLOCKED; blocked_on[me] = m;
      int next = pick(me); switch_to(next, me);
    }
    (*mtx_owner)[m] = me; race_lock(m); w_lock(m);
    step_ev("lock", m, 0, 5, 1, __builtin_return_address(0));
    return 0;
  }
  resolve_mtx();
  return real_lock ? real_lock(m) : 0;
}
int pthread_mutex_trylock(pthread_mutex_t* m) {
  RaceBusy rb_;
  if (active && my_tid >= 0) {
    sched_point(K_MUTEX, m, 0);
    if (!mtx_owner) mtx_owner = new std::map<const void*, int>();
    if (mtx_owner->count(m)) return 16; // EBUSY
    (*mtx_owner)[m] = my_tid; race_lock(m); w_lock(m); return 0;
  }
  resolve_mtx();
  return real_trylock ? real_trylock(m) : 0;
}
int pthread_mutex_unlock(pthread_mutex_t* m) {
  RaceBusy rb_;
  if (active && my_tid >= 0) {
    sched_point(K_MUTEX, m, 0);
    if (mtx_owner) mtx_owner->erase(m);
    race_unlock(m); w_unlock(m);
    for (int t = 0; t < nthreads; t++) if (status[t] == BLOCKED && blocked_on[t] == m) status[t] = RUNNABLE;
    write_epoch++; allparked_rounds = 0;
    step_ev("unlock", m, 0, 5, 1, __builtin_return_address(0));
    return 0;
  }
  resolve_mtx();
  return real_unlock ? real_unlock(m) : 0;
}
} // extern "C"

// ------------------------------------------------------------------------------------------
// operator new / delete -> arena
// ------------------------------------------------------------------------------------------
void* operator new(size_t n) { note_site(__builtin_return_address(0)); return arena_alloc(n, 16); }
void* operator new[](size_t n) { note_site(__builtin_return_address(0)); return arena_alloc(n, 16); }
void* operator new(size_t n, const std::nothrow_t&) noexcept { return arena_alloc(n, 16); }
void* operator new[](size_t n, const std::nothrow_t&) noexcept { return arena_alloc(n, 16); }
void* operator new(size_t n, std::align_val_t a) { note_site(__builtin_return_address(0)); return arena_alloc(n, (size_t)a); }
void* operator new[](size_t n, std::align_val_t a) { return arena_alloc(n, (size_t)a); }
void* operator new(size_t n, std::align_val_t a, const std::nothrow_t&) noexcept { return arena_alloc(n, (size_t)a); }
void* operator new[](size_t n, std::align_val_t a, const std::nothrow_t&) noexcept { return arena_alloc(n, (size_t)a); }
void operator delete(void* p) noexcept { arena_free(p); }
void operator delete[](void* p) noexcept { arena_free(p); }
void operator delete(void* p, size_t) noexcept { arena_free(p); }
void operator delete[](void* p, size_t) noexcept { arena_free(p); }
void operator delete(void* p, std::align_val_t) noexcept { arena_free(p); }
void operator delete[](void* p, std::align_val_t) noexcept { arena_free(p); }
void operator delete(void* p, size_t, std::align_val_t) noexcept { arena_free(p); }
void operator delete[](void* p, size_t, std::align_val_t) noexcept { arena_free(p); }
void operator delete(void* p, const std::nothrow_t&) noexcept { arena_free(p); }
void operator delete[](void* p, const std::nothrow_t&) noexcept { arena_free(p); }

// ------------------------------------------------------------------------------------------
// explorer (parent side)
// ------------------------------------------------------------------------------------------
namespace xv {

struct ChildCtl {
  Mode mode = M_DFS;
  std::vector<Dec> prefix;
  std::vector<int> tids;
  std::vector<long> rnd_points;
  uint64_t seed = 1;
  long solo_at = -1; int solo_thread = -1;
};
struct ChildResult {
  std::string events; std::string outcome; long steps = 0; int preempts = 0; bool diverged = false;
  std::vector<Dec> decs; std::string dec_line; std::string tids_line; bool ok = false;
};

static void thread_main(int id, const std::function<void(int)>* body) {
  my_tid = id;
  track_thread();
  fwait(&gotok[id]);
  race_thread_start(id, start_after[id]); w_thread_start(id, start_after[id]);
  (*body)(id);
}

static ChildResult run_child(const std::function<Scenario(const std::string&)>& make, const std::string& prog, const ChildCtl& ctl, int alarm_s) {
  int fd[2];
  if (pipe(fd)) { perror("pipe"); _exit(2); }
  pid_t pid = fork();
  if (pid < 0) { perror("fork"); _exit(2); }
  if (pid == 0) {
    close(fd[0]); out_fd = fd[1];
    g_in_child = true; track_sites = true;
    { // all threads of one execution on one core: token hand-over without cross-core wake-ups
      cpu_set_t cs; CPU_ZERO(&cs); long nc = sysconf(_SC_NPROCESSORS_ONLN); if (nc < 1) nc = 1;
      CPU_SET((int)(getppid() % nc), &cs); sched_setaffinity(0, sizeof cs, &cs); }
    logbuf = (char*)mmap(nullptr, LOGCAP, PROT_READ | PROT_WRITE, MAP_PRIVATE | MAP_ANONYMOUS | MAP_NORESERVE, -1, 0);
    signal(SIGSEGV, on_signal); signal(SIGBUS, on_signal); signal(SIGABRT, on_signal); signal(SIGFPE, on_signal);
    signal(SIGILL, on_signal); signal(SIGALRM, on_signal);
    std::set_terminate(on_terminate);
    alarm((unsigned)alarm_s);
    mode = ctl.mode; decs = ctl.prefix; dec_depth = 0; replay_tids = ctl.tids; rnd_points = ctl.rnd_points;
    rng_state = ctl.seed * 6364136223846793005ull + 1442695040888963407ull; if (!rng_state) rng_state = 1;
    solo_at = ctl.solo_at; solo_thread = ctl.solo_thread;
    if (race_on) race_init();
    if (weakW > 0) w_init();
    Scenario sc = make(prog);
    nthreads = sc.nthreads;
    if (nthreads > MAXT) _exit(2);
    for (int t = 0; t < nthreads; t++) {
      status[t] = RUNNABLE; gotok[t].store(0); start_after[t] = -1;
      if ((size_t)t < sc.after.size() && sc.after[t] >= 0 && sc.after[t] < nthreads) { status[t] = WAITSTART; start_after[t] = sc.after[t]; }
    }
    if (sc.setup) sc.setup();
    std::vector<std::thread> th;
    for (int t = 0; t < nthreads; t++) th.emplace_back(thread_main, t, &sc.body);
    active = true;
    { int first = pick(-1); cur = first; if (first >= 0) fwake(&gotok[first]); }
    for (auto& t : th) t.join();
    active = false; race_join_all(nthreads); w_join_all(nthreads);
    if (sc.finish) sc.finish();
    finish_child("ok", 0);
  }
  close(fd[1]);
  std::string all; char buf[65536]; ssize_t k;
  while ((k = read(fd[0], buf, sizeof buf)) > 0) all.append(buf, (size_t)k);
  close(fd[0]);
  int st = 0; waitpid(pid, &st, 0);
  ChildResult r;
  size_t p = all.rfind("#END ");
  if (p == std::string::npos) {
    r.outcome = "lost"; r.events = all;
    { size_t nl = r.events.rfind('\n'); r.events.resize(nl == std::string::npos ? 0 : nl + 1); }    // drop a record that was cut off in the middle
    char tmp[160]; snprintf(tmp, sizeof tmp, "{\"e\":\"outcome\",\"t\":9,\"op\":\"lost\",\"a\":%d,\"b\":0,\"r\":0,\"v\":0}\n", st);
    r.events += tmp; return r;
  }
  r.events = all.substr(0, p);
  std::istringstream is(all.substr(p));
  std::string line;
  std::getline(is, line); { std::istringstream l(line); std::string tag; int dv; l >> tag >> r.outcome >> r.steps >> r.preempts >> dv; r.diverged = dv != 0; }
  std::getline(is, r.dec_line);
  std::getline(is, r.tids_line);
  { std::istringstream l(r.dec_line); std::string tok; l >> tok; while (l >> tok) { int c = 0, n = 0; sscanf(tok.c_str(), "%d/%d", &c, &n); r.decs.push_back({c, n}); } }
  r.ok = true;
  return r;
}

static uint64_t fnv(const std::string& s) { uint64_t h = 1469598103934665603ull; for (unsigned char c : s) { h ^= c; h *= 1099511628211ull; } return h; }

// strips the "pc" field (addresses differ between builds, not between executions) - kept as is; hashing whole line is fine
struct Stats {
  long executions = 0, distinct = 0, truncated = 0, maxsteps = 0, solo_probes = 0;
  std::map<std::string, long> outcomes;
};

int explore_main(int argc, char** argv, const std::function<Scenario(const std::string&)>& make) {
  std::vector<std::string> progs; std::string out, modes = "dfs", replay_file;
  long max_exec = 20000, runs = 1000, seed = 1; int shard_i = 0, shard_n = 1; int alarm_s = 10; long solo_every = 0;
  long max_distinct = 1000000; long r_solo_at = -1; int r_solo_thread = -1; double time_budget = 0;
  for (int i = 1; i < argc; i++) {
    std::string a = argv[i];
    auto next = [&]() -> std::string { if (i + 1 >= argc) { fprintf(stderr, "missing value for %s\n", a.c_str()); exit(2); } return argv[++i]; };
    if (a == "--prog") progs.push_back(next());
    else if (a == "--progs") { std::ifstream f(next()); std::string l; while (std::getline(f, l)) if (!l.empty() && l[0] != '#') progs.push_back(l); }
    else if (a == "--out") out = next();
    else if (a == "--mode") modes = next();
    else if (a == "--pb") pb = atoi(next().c_str());
    else if (a == "--max-exec") max_exec = atol(next().c_str());
    else if (a == "--max-distinct") max_distinct = atol(next().c_str());
    else if (a == "--max-steps") max_steps = atol(next().c_str());
    else if (a == "--seed") seed = atol(next().c_str());
    else if (a == "--runs") runs = atol(next().c_str());
    else if (a == "--replay") replay_file = next();
    else if (a == "--shard") { std::string s = next(); sscanf(s.c_str(), "%d/%d", &shard_i, &shard_n); }
    else if (a == "--steps") log_steps = true;
    else if (a == "--alarm") alarm_s = atoi(next().c_str());
    else if (a == "--solo-every") solo_every = atol(next().c_str());
    else if (a == "--solo-at") r_solo_at = atol(next().c_str());
    else if (a == "--solo-thread") r_solo_thread = atoi(next().c_str());
    else if (a == "--weak") weakW = atoi(next().c_str());
    else if (a == "--time-budget") time_budget = atof(next().c_str());
    else if (a == "--race") race_on = true;
    else if (a == "--reuse") g_reuse = true;
    else { fprintf(stderr, "xvrt: unknown option %s\n", a.c_str()); return 2; }
  }
  if (progs.empty() && modes != "replay") { fprintf(stderr, "xvrt: no programs\n"); return 2; }
  FILE* fo = out.empty() ? stdout : fopen(out.c_str(), "w");
  if (!fo) { perror("open out"); return 2; }
  FILE* fs = out.empty() ? nullptr : fopen((out + ".sched").c_str(), "w");
  Stats S;
  // wall-clock budget (thorough tier): program pi may run until its share of the remaining time is used up; the search is then
  // recorded as truncated (coverage varies with machine load, verdicts do not: every reported execution is replayable)
  auto now_s = []() { struct timespec ts; clock_gettime(CLOCK_MONOTONIC, &ts); return (double)ts.tv_sec + 1e-9 * (double)ts.tv_nsec; };
  const double t_start = now_s(); size_t budget_pi = (size_t)-1; double budget_deadline = 0;
  auto over_budget = [&](size_t pi) {
    if (time_budget <= 0) return false;
    if (pi != budget_pi) { budget_pi = pi; double left = time_budget - (now_s() - t_start); if (left < 0) left = 0; budget_deadline = now_s() + left / (double)(progs.size() - pi); }
    return now_s() > budget_deadline;
  };
  std::unordered_set<uint64_t> seen;
  long traceno = 0;
  auto emit = [&](const std::string& prog, int pi, const ChildResult& r) {
    S.executions++;
    S.outcomes[r.outcome]++;
    if (r.steps > S.maxsteps) S.maxsteps = r.steps;
    uint64_t h = fnv(prog + "\n" + r.events);
    if (!seen.insert(h).second) return;
    if (S.distinct >= max_distinct) return;
    S.distinct++; traceno++;
    fprintf(fo, "{\"e\":\"reset\",\"t\":9,\"op\":\"p%d\",\"a\":%ld,\"b\":0,\"r\":0,\"v\":0}\n", pi, traceno);
    fwrite(r.events.data(), 1, r.events.size(), fo);
    if (fs) fprintf(fs, "%ld\t%s\t%s\t%s\t%s\t%d\n", traceno, prog.c_str(), r.outcome.c_str(), r.dec_line.c_str(), r.tids_line.c_str(), pb);
  };

  if (modes == "replay") {
    // replay file: line 1 program, line 2 "#DEC c/n ..." or "#TIDS t*k ..." (exact) or "#SEG t*k ..." (directed: at most k steps, skipped if not runnable)
    std::ifstream f(replay_file); std::string prog, l2; std::getline(f, prog); std::getline(f, l2);
    ChildCtl c; std::istringstream l(l2); std::string tag; l >> tag; std::string tok;
    if (tag == "#DEC") { c.mode = M_DFS; while (l >> tok) { int ch = 0, n = 0; sscanf(tok.c_str(), "%d/%d", &ch, &n); c.prefix.push_back({ch, n}); } }
    else { c.mode = tag == "#SEG" ? M_REPLAY_SEGS : M_REPLAY_TIDS; while (l >> tok) { int t = 0; long k = 1; sscanf(tok.c_str(), "%d*%ld", &t, &k); for (long j = 0; j < k; j++) c.tids.push_back(t); } }
    c.solo_at = r_solo_at; c.solo_thread = r_solo_thread;
    ChildResult r = run_child(make, prog, c, alarm_s);
    emit(prog, 0, r);
    if (r.diverged) S.outcomes["diverged"]++;
  } else {
    for (size_t pi = 0; pi < progs.size(); pi++) {
      const std::string& prog = progs[pi];
      if (modes == "dfs" || modes == "solo") {
       // iterative preemption bounding: all schedules with 0, then <= 1, then <= 2 ... preemptions, so that a truncated
       // search has covered the simplest schedules completely (duplicates are dropped by the trace hash)
       const int pb_max = pb; long n_exec = 0; bool truncated = false;
       for (int b = (pb_max > 0 ? 0 : pb_max); b <= pb_max && !truncated; b++) {
        pb = b;
        std::vector<Dec> prefix; bool first = true;
        for (;;) {
          ChildCtl c; c.mode = M_DFS; c.prefix = prefix;
          bool skip = false;
          if (shard_n > 1) {
            // the subtree is identified by the position of the first non-default decision
            size_t fnz = prefix.size();
            for (size_t i = 0; i < prefix.size(); i++) if (prefix[i].chosen != 0) { fnz = i; break; }
            if (fnz == prefix.size()) skip = shard_i != 0; else skip = (int)(fnz % (size_t)shard_n) != shard_i;
          }
          std::vector<Dec> decs_after;
          if (skip && !first) {
            // do not run; treat this prefix as a leaf
            decs_after = prefix;
          } else {
            ChildResult r = run_child(make, prog, c, alarm_s);
            if (!skip) emit(prog, (int)pi, r);
            n_exec++;
            decs_after = r.ok ? r.decs : prefix;
            if (modes == "solo" && r.ok && solo_every > 0 && !skip) {
              for (long d = 1; d < r.steps; d += solo_every)
                for (int t = 0; t < MAXT; t++) {
                  ChildCtl sc = c; sc.prefix = r.decs; sc.solo_at = d; sc.solo_thread = t;
                  // only threads that exist: the child bails out with solo_na otherwise
                  if (t >= 4) break;
                  ChildResult sr = run_child(make, prog, sc, alarm_s);
                  if (sr.outcome == "solo_na") continue;
                  S.solo_probes++;
                  // keep only the solo record
                  ChildResult only = sr; only.events.clear();
                  size_t p = sr.events.rfind("{\"e\":\"solo\"");
                  if (p != std::string::npos) only.events = sr.events.substr(p);
                  else only.events = sr.events;
                  emit(prog, (int)pi, only);
                }
            }
          }
          first = false;
          while (!decs_after.empty() && decs_after.back().chosen + 1 >= decs_after.back().nopts) decs_after.pop_back();
          if (decs_after.empty()) break;
          if (n_exec >= max_exec || over_budget(pi)) { S.truncated++; truncated = true; break; }
          decs_after.back().chosen++;
          prefix = decs_after;
        }
       }
       pb = pb_max;
      } else if (modes == "random") {
        ChildCtl c0; c0.mode = M_RANDOM; c0.seed = (uint64_t)seed * 1000003ull + pi;
        ChildResult base = run_child(make, prog, c0, alarm_s);
        emit(prog, (int)pi, base);
        long L = base.steps > 0 ? base.steps : 1;
        uint64_t st = (uint64_t)seed * 7919ull + pi * 104729ull + 12345;
        auto nx = [&]() { st ^= st << 13; st ^= st >> 7; st ^= st << 17; return st; };
        for (long k = 1; k < runs && !over_budget(pi); k++) {
          ChildCtl c; c.mode = M_RANDOM; c.seed = nx();
          int npre = 1 + (int)(nx() % (uint64_t)(pb > 0 ? pb : 1));
          for (int j = 0; j < npre; j++) c.rnd_points.push_back((long)(nx() % (uint64_t)(L + L / 4 + 1)));
          ChildResult r = run_child(make, prog, c, alarm_s);
          emit(prog, (int)pi, r);
        }
      } else { fprintf(stderr, "xvrt: unknown mode %s\n", modes.c_str()); return 2; }
    }
  }
  if (fo != stdout) fclose(fo);
  if (fs) fclose(fs);
  // summary (single line JSON) on stdout
  std::string oc = "{";
  for (auto& kv : S.outcomes) { if (oc.size() > 1) oc += ","; oc += "\"" + kv.first + "\":" + std::to_string(kv.second); }
  oc += "}";
  printf("XVSUMMARY {\"programs\":%zu,\"executions\":%ld,\"distinct\":%ld,\"truncated\":%ld,\"maxsteps\":%ld,\"solo_probes\":%ld,\"outcomes\":%s}\n",
         progs.size(), S.executions, S.distinct, S.truncated, S.maxsteps, S.solo_probes, oc.c_str());
  return 0;
}

} // namespace xv
