// xvrt - runs unmodified xenium code under a controlled scheduler.
//
// A driver translation unit is compiled with
//   g++ -fsanitize=thread -U__SANITIZE_THREAD__ -Wno-tsan
// and linked WITHOUT the TSan runtime against xvrt.cpp, which defines the __tsan_*
// entry points.  Every atomic access / fence of the code under test thereby becomes a
// scheduling point of a cooperative scheduler, every plain access is checked against
// the heap quarantine.  One forked child per execution (reclaimers keep static state).
#pragma once
#include <cstdint>
#include <functional>
#include <string>
#include <vector>

namespace xv {

// One scenario = one client program for one configuration.
struct Scenario {
  int nthreads = 0;
  std::function<void()> setup;     // child, main thread, before the client threads (unscheduled)
  std::function<void(int)> body;   // client thread t (scheduled)
  std::function<void()> finish;    // child, main thread, after all client threads exited (unscheduled)
  std::vector<int> after;          // after[t] = k: thread t starts only when thread k has exited (-1: at once)
};

// Event log: uniform records {"e","t","op","a","b","r","v"} (ndjson), exact global order.
void ev(const char* e, const char* op, long a = 0, long b = 0, long r = 0, long v = 0);
// Operation brackets (history level). call() logs "call", ret() logs "ret".
void call(const char* op, long a = 0, long b = 0);
// same, for operations that are documented as blocking (excluded from the solo / lock-freedom probe, C16)
void call_blocking(const char* op, long a = 0, long b = 0);
void ret(long r = 0, long v = 0);
int tid();                 // logical client thread id, 9 on the main thread
void point();              // harness-inserted scheduling point (e.g. inside a user functor)
long choose(long n);       // recorded nondeterministic choice 0..n-1 (a scheduler decision)
bool in_child();           // true inside an execution
uint32_t block_of(const void* p); // allocation sequence number of the heap block containing p (0 = not heap)
bool thread_done(int t);   // client thread t has exited completely (thread-local destructors included)
// harness-level ordering of client threads (directed scenarios); a waiting thread is not runnable and takes no steps
void sync_set(int i);      // set flag i (0..15)
void sync_wait(int i);     // block until flag i is set
void wait_exit(int t);     // block until client thread t has exited completely
// --race: accesses made between these calls are harness bookkeeping and are neither recorded nor checked
void race_ignore_begin();
void race_ignore_end();
void track_thread();       // must be called first thing in body (done by the runtime wrapper)
bool weak_mode();
// step-level traces: values that point into [base, base + count*elem) are logged as firstid + index (b = -2)
void name_range(const void* base, size_t elem, size_t count, long firstid);
void dump_alloc_sites();   // emits one "ev" record per distinct caller of operator new: op = "allocsite:<pc>", a = count

// Parses the standard command line and explores.  `make(prog)` builds the scenario for a program
// string.  Returns the process exit code (0 ok, 2 infrastructure failure). Never decides a property:
// it only produces traces.
//
//   --progs FILE | --prog STR     client programs (one per line)
//   --out FILE                    distinct traces, ndjson, separated by reset records
//   --mode dfs|random|replay|solo
//   --pb N                        preemption bound (dfs / random)
//   --max-exec N                  per program
//   --seed S  --runs N            random mode
//   --replay FILE                 file with a decision list ("c/n c/n ...") or thread list ("T: 0 1 1 ...")
//   --shard i/n                   explore only part of the DFS tree
//   --steps                       also log one event per atomic access (step level)
//   --solo-every N                solo mode: probe every N-th scheduling point
//   --race                        happens-before race detection from the declared memory orders and fences (events "race")
int explore_main(int argc, char** argv, const std::function<Scenario(const std::string&)>& make);

} // namespace xv
