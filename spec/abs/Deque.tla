-------------------------------- MODULE Deque --------------------------------
(* Sequential meaning of chase_work_stealing_deque (C12).                   *)
(* The owner pushes and pops at the bottom (LIFO), thieves take the oldest  *)
(* item.  Slack allowed by the property statement, and nothing more:        *)
(*  - try_steal may fail when it loses a race: some other pop/steal took an *)
(*    item while the call was pending (tag "took"), or the deque was empty; *)
(*  - try_push fails only on a full fixed-size container (cap > 0).         *)
(* State: [q : sequence of items, oldest first; cap : 0 = growing]          *)
EXTENDS Integers, Sequences

DequeInit == [q |-> <<>>, cap |-> 0]
DequeCfg(s, op, a, b) == IF op = "fixedcap" THEN [s EXCEPT !.cap = a] ELSE s

DequeStep(s, op, a, b, ctx) ==
  CASE op = "push" ->
         IF s.cap > 0 /\ Len(s.q) >= s.cap
           THEN {[abs |-> s, r |-> 0, v |-> a, tags |-> {}]}
           ELSE {[abs |-> [s EXCEPT !.q = Append(@, a)], r |-> 1, v |-> a, tags |-> {}]}
    [] op = "pop" ->
         IF s.q = <<>> THEN {[abs |-> s, r |-> 0, v |-> 0, tags |-> {}]}
         ELSE {[abs |-> [s EXCEPT !.q = SubSeq(@, 1, Len(@) - 1)], r |-> 1, v |-> s.q[Len(s.q)], tags |-> {"took"}]}
    [] op = "steal" ->
         (IF s.q # <<>> THEN {[abs |-> [s EXCEPT !.q = Tail(@)], r |-> 1, v |-> Head(s.q), tags |-> {"took"}]} ELSE {})
         \cup (IF s.q = <<>> \/ "took" \in ctx.tags THEN {[abs |-> s, r |-> 0, v |-> 0, tags |-> {}]} ELSE {})
    [] OTHER -> {}

DequeFinal(s) == s.q = <<>>
=============================================================================
