-------------------------------- MODULE LRReg --------------------------------
(* Abstract left_right (C13): an atomic register (abs/Register) plus a monitor of which   *)
(* instance each functor is currently running on:                                          *)
(*   "fin"/"fout" events (op = "rd" | "wr", a = instance) are emitted by the harness's      *)
(*   functors on entry and exit.  A read functor must never be inside an instance while an  *)
(*   update functor is inside the same instance, and update functors never overlap.         *)
EXTENDS Register, Sequences, FiniteSets

LRInit == [val |-> 1, rd |-> <<0, 0>>, wr |-> {}]
LRCfg(s, op, a, b) == IF op = "init" THEN [s EXCEPT !.val = a] ELSE s
LRStep(s, op, a, b, ctx) ==
  { [abs |-> [s EXCEPT !.val = o.abs], r |-> o.r, v |-> o.v, tags |-> o.tags] : o \in RegStep(s.val, op, a, b, ctx) }
LRFinal(s) == s.rd = <<0, 0>> /\ s.wr = {}
\* instances are numbered 1, 2 in the trace
LREv(s, t, op, a, b) ==
  CASE op = "rd_in"  -> IF a \in s.wr THEN {} ELSE {[s EXCEPT !.rd[a] = @ + 1]}
    [] op = "rd_out" -> {[s EXCEPT !.rd[a] = @ - 1]}
    [] op = "wr_in"  -> IF s.rd[a] > 0 \/ s.wr # {} THEN {} ELSE {[s EXCEPT !.wr = {a}]}
    [] op = "wr_out" -> {[s EXCEPT !.wr = {}]}
    [] OTHER -> {s}
=============================================================================
