------------------------------ MODULE MarkedPtr ------------------------------
(***************************************************************************)
(* xenium::marked_ptr<T, MarkBits, MaxUpperMarkBits> as maps on bit        *)
(* positions (C15a).  A 64-bit word is the set of its one-bit positions    *)
(* 0..63 (TLC integers are 32 bit).                                        *)
(*   pointer_bits = 64 - M,  lower = M < U ? 0 : M - U,  upper = M - lower *)
(*   make_ptr(p, mark) = p | rotl(mark << pointer_bits, lower)             *)
(*   get()  = word & pointer_mask,  pointer_mask = bits lower..lower+pb-1  *)
(*   mark() = rotr(word, lower) >> pointer_bits                            *)
(* A pointer is canonical if all its bits lie inside pointer_mask.         *)
(***************************************************************************)
EXTENDS Integers, FiniteSets

Word == 0 .. 63
PB(M) == 64 - M
Lower(M, U) == IF M < U THEN 0 ELSE M - U
PMask(M, U) == {k \in Word : k >= Lower(M, U) /\ k < Lower(M, U) + PB(M)}
\* position of mark bit i (0 .. M-1) in the word
MarkPos(M, U, i) == (PB(M) + i + Lower(M, U)) % 64
Make(M, U, P, Mk) == P \cup {MarkPos(M, U, i) : i \in Mk}
Get(M, U, W) == W \cap PMask(M, U)
\* rotr by lower, then shift right by pointer_bits
MarkOf(M, U, W) == {((k - Lower(M, U) + 64) % 64) - PB(M) : k \in {j \in W : ((j - Lower(M, U) + 64) % 64) >= PB(M)}}

Canonical(M, U, P) == P \subseteq PMask(M, U)
MarkSet(M) == 0 .. M - 1

\* Round trip for generators: since all three operations are maps on bit positions that commute with union,
\* it suffices to check single-bit pointers, single-bit marks, the empty and the full sets.
RoundTrip(M, U, P, Mk) == /\ Get(M, U, Make(M, U, P, Mk)) = P
                          /\ MarkOf(M, U, Make(M, U, P, Mk)) = Mk
Generators(M, U) == {<<P, Mk>> : P \in ({{}} \cup {{k} : k \in PMask(M, U)} \cup {PMask(M, U)}),
                                 Mk \in ({{}} \cup {{i} : i \in MarkSet(M)} \cup {MarkSet(M)})}
\* mark positions and pointer positions are disjoint and the mark map is injective (value equality = word equality)
Disjoint(M, U) == /\ \A i \in MarkSet(M) : MarkPos(M, U, i) \notin PMask(M, U)
                  /\ \A i, j \in MarkSet(M) : MarkPos(M, U, i) = MarkPos(M, U, j) => i = j
=============================================================================
