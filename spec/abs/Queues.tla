------------------------------- MODULE Queues -------------------------------
(***************************************************************************)
(* Sequential meaning of the queues (C04, C05, C06) and of element         *)
(* ownership (C07).  One abstract state for all of them:                   *)
(*   q     sequence of values, oldest first                                *)
(*   kind  "fifo" | "bounded" | "nikbounded" | "kfifo" | "bkfifo"          *)
(*   cap   capacity (bounded kinds),  k, segs (k-FIFO kinds)               *)
(*   own   ownership of element tokens (C07): token -> "queue" |           *)
(*         "consumer" | "destroyed" (absent = with the caller)             *)
(*   dying TRUE while the queue destructor runs                            *)
(* Element objects are also tracked by address (driver): constructing one  *)
(* on storage that already holds a live one, or destroying storage that    *)
(* holds none (a moved-from object destroyed twice), is the event dtwice.   *)
(*                                                                         *)
(* Slack, exactly as the property statements allow:                        *)
(*  fifo        push never fails; pop fails only if empty at some instant  *)
(*  bounded     (vyukov strong) push fails only if Len(q) = cap; weak      *)
(*              operations ("wpush"/"wpop") may always fail, a success is  *)
(*              an ordinary FIFO step                                      *)
(*  nikbounded  push fails only if Len(q) + #other operations in progress  *)
(*              >= cap (each may hold a slot of the index queue); pop      *)
(*              fails only if empty                                        *)
(*  kfifo       pop returns one of the k oldest values; it reports empty   *)
(*              only if fewer than k values are stored, and - when nothing *)
(*              overlaps the call - only if the queue is empty             *)
(*  bkfifo      additionally push fails only if at least (segs-1)*k+1      *)
(*              values are stored (never on an empty queue)                *)
(***************************************************************************)
EXTENDS Integers, Sequences, FiniteSets

QInit == [q |-> <<>>, kind |-> "fifo", cap |-> 0, k |-> 1, segs |-> 0, own |-> <<>>, dying |-> FALSE, owned |-> FALSE]
QCfg(s, op, a, b) ==
  CASE op = "kind_fifo"       -> [s EXCEPT !.kind = "fifo"]
    [] op = "kind_bounded"    -> [s EXCEPT !.kind = "bounded", !.cap = a]
    [] op = "kind_nikbounded" -> [s EXCEPT !.kind = "nikbounded", !.cap = a]
    [] op = "kind_kfifo"      -> [s EXCEPT !.kind = "kfifo", !.k = a]
    [] op = "kind_bkfifo"     -> [s EXCEPT !.kind = "bkfifo", !.k = a, !.segs = b]
    [] op = "owned"           -> [s EXCEPT !.owned = TRUE]      \* elements are owning tokens (unique_ptr / non-trivial T)
    [] OTHER -> s

Out(s, r, v) == [abs |-> s, r |-> r, v |-> v, tags |-> {}]
RemoveAt(q, i) == SubSeq(q, 1, i - 1) \o SubSeq(q, i + 1, Len(q))
Min(a, b) == IF a < b THEN a ELSE b
\* a push MAY fail when ...
MayReject(s, nother) ==
  CASE s.kind = "bounded"    -> Len(s.q) >= s.cap
    [] s.kind = "nikbounded" -> Len(s.q) + nother >= s.cap
    [] s.kind = "bkfifo"     -> Len(s.q) >= (s.segs - 1) * s.k + 1
    [] OTHER -> FALSE
\* ... and MAY succeed only while there is room
HasRoom(s) ==
  CASE s.kind \in {"bounded", "nikbounded"} -> Len(s.q) < s.cap
    [] s.kind = "bkfifo" -> Len(s.q) < s.segs * s.k
    [] OTHER -> TRUE
Window(s) == IF s.kind \in {"kfifo", "bkfifo"} THEN Min(s.k, Len(s.q)) ELSE Min(1, Len(s.q))
\* ownership bookkeeping (C07): tokens are the pushed values themselves
Put(s, a) == IF s.owned THEN [s EXCEPT !.q = Append(@, a), !.own = Append(@, <<a, "queue">>)] ELSE [s EXCEPT !.q = Append(@, a)]
OwnSet(s, tok, st) == [i \in 1 .. Len(s.own) |-> IF s.own[i][1] = tok THEN <<tok, st>> ELSE s.own[i]]
OwnOf(s, tok) == IF \E i \in 1 .. Len(s.own) : s.own[i][1] = tok
                 THEN (CHOOSE st \in {"queue", "consumer", "destroyed"} : \E i \in 1 .. Len(s.own) : s.own[i] = <<tok, st>>)
                 ELSE "caller"
Take(s, i) == IF s.owned THEN [s EXCEPT !.q = RemoveAt(@, i), !.own = OwnSet(s, s.q[i], "consumer")] ELSE [s EXCEPT !.q = RemoveAt(@, i)]

QStep(s, op, a, b, ctx) ==
  CASE op \in {"push", "wpush"} ->
         (IF HasRoom(s) THEN {Out(Put(s, a), 1, a)} ELSE {})
         \cup (IF MayReject(s, ctx.nother) \/ op = "wpush" THEN {Out(s, 0, a)} ELSE {})
    [] op \in {"pop", "wpop"} ->
         {Out(Take(s, i), 1, s.q[i]) : i \in 1 .. Window(s)}
         \cup (IF \/ Len(s.q) = 0
                  \/ op = "wpop"
                  \/ (s.kind \in {"kfifo", "bkfifo"} /\ Len(s.q) < s.k /\ "ovl" \in ctx.tags)
               THEN {Out(s, 0, 0)} ELSE {})
    [] OTHER -> {}

\* monitor events (C07)
QEv(s, t, op, a, b) ==
  CASE op = "drop" ->      \* an element token was destroyed
         LET st == OwnOf(s, a) IN
         IF st = "consumer" THEN {[s EXCEPT !.own = OwnSet(s, a, "destroyed")]}                 \* the consumer disposes of what it popped
         ELSE IF st = "queue" /\ s.dying THEN {[s EXCEPT !.own = OwnSet(s, a, "destroyed"),     \* destroyed with the queue
                                                          !.q = SelectSeq(s.q, LAMBDA x : x # a)]}
         ELSE IF st = "caller" THEN {s}                                                         \* rejected / never pushed: the caller's business
         ELSE {}                                                                                \* double destruction, or destroyed while queued
    [] op = "dtwice" -> {}                                              \* the destructor of an element OBJECT ran on storage that holds no live object
    [] op = "kept" -> IF OwnOf(s, a) = "caller" THEN {s} ELSE {}        \* a rejected push left the value with the caller
    [] op = "lost" -> {}                                                \* a rejected push consumed the caller's value
    [] op = "qdtor_begin" -> {[s EXCEPT !.dying = TRUE]}
    [] op = "qdtor_end" ->   \* nothing owned by the queue may survive it
         IF s.owned /\ \E i \in 1 .. Len(s.own) : s.own[i][2] = "queue" THEN {} ELSE {[s EXCEPT !.dying = FALSE]}
    [] OTHER -> {s}

QFinal(s) == TRUE
=============================================================================
