----------------------------- MODULE Reclamation -----------------------------
(***************************************************************************)
(* Scheme-independent meaning of safe memory reclamation (C01, C02), of    *)
(* the guard_ptr smart-pointer algebra (C15 b, c), of hazard slot          *)
(* accounting (C18) and of thread-record recycling (C17), as a monitor     *)
(* over the events of a generic client:                                    *)
(*                                                                         *)
(*  operations (linearizable part, C15c): cells are atomic pointers        *)
(*    acquire(c)            v = pointer held by cell c at some instant     *)
(*    acqe(c, exp)          r = 1 and v = exp iff the cell held exp        *)
(*    cas(c*1000+exp, new)  r = 1 iff the cell held exp; then holds new    *)
(*  (pointer identities are heap block numbers: they are never reused by   *)
(*  the quarantine, except through lock_free_ref_count's own free list)    *)
(*                                                                         *)
(*  monitor events ("ev" records; a guard key gk = thread * 10 + guard):   *)
(*    rel gk        guard gk is about to release what it protects          *)
(*    set gk o      guard gk now protects object o (0 = empty)             *)
(*    mv g h / swapg g h   protection moved / swapped                      *)
(*    gs gk o       observed content of guard gk - must equal the model    *)
(*    pub o / retire o / destroy o / deleter tag o / touch ok o            *)
(*    throw gk K    slot exhaustion reported for thread of gk              *)
(*    tstart t / texit t / tcb_allocs n                                    *)
(*                                                                         *)
(* C01: an object is not destroyed while some guard protects it; an object *)
(*      obtained through a guard is alive (set / touch).                   *)
(* C02: destroyed at most once, only after retirement (or never published),*)
(*      by the deleter given for it; at quiescence retired = destroyed.    *)
(***************************************************************************)
EXTENDS Integers, Sequences, FiniteSets

GuardKeys == {t * 10 + g : t \in {0, 1, 2, 3, 9}, g \in 0 .. 4}
RecInit == [cells |-> <<0, 0, 0, 0>>, G |-> [k \in GuardKeys |-> 0], occ |-> {}, ret |-> {}, des |-> {}, pub |-> {},
            K |-> 0, live |-> 0, peak |-> 0]

RecCfg(s, op, a, b) ==
  CASE op = "cell"  -> [s EXCEPT !.cells[a + 1] = b]
    [] op = "slots" -> [s EXCEPT !.K = a]
    [] OTHER -> s

Out(s, r, v) == [abs |-> s, r |-> r, v |-> v, tags |-> {}]
RecStep(s, op, a, b, ctx) ==
  CASE op = "acquire" -> {Out(s, 0, s.cells[a + 1])}
    [] op = "acqe" -> IF s.cells[a + 1] = b THEN {Out(s, 1, b)} ELSE {Out(s, 0, 0)}
    [] op = "cas" -> LET c == (a \div 1000) + 1 exp == a % 1000 IN
                     IF s.cells[c] = exp THEN {Out([s EXCEPT !.cells[c] = b], 1, exp)} ELSE {Out(s, 0, 0)}
    [] op = "store" -> {Out([s EXCEPT !.cells[a + 1] = b], 0, 0)}
    \* guard release and reclaim (retire + release) have no abstract effect of their own (their effect is in the rel / retire events logged just before);
    \* they are operations so that solo probes start inside them (C16)
    [] op \in {"release", "reclaim"} -> {Out(s, 0, 0)}
    \* cell values are  block number + 100 * mark  (C15: a guard's snapshot includes the mark the source held)
    [] op = "setmark" -> IF s.cells[a + 1] = 0 THEN {Out(s, 0, 0)} ELSE {Out([s EXCEPT !.cells[a + 1] = (@ % 100) + 100 * b], 1, 0)}
    [] OTHER -> {}

ThreadOf(gk) == gk \div 10
Protecting(s, t) == {k \in GuardKeys : ThreadOf(k) = t /\ s.G[k] # 0}

RecEv(s, t, op, a, b) ==
  CASE op = "rel"    -> {[s EXCEPT !.G[a] = 0, !.occ = @ \ {a}]}
    [] op = "set"    -> IF b # 0 /\ b \in s.des THEN {}                      \* C01: alive when the call returns
                        ELSE {[s EXCEPT !.G[a] = b, !.occ = IF b # 0 THEN @ \cup {a} ELSE @]}
    [] op = "occ"    -> {[s EXCEPT !.occ = @ \cup {a}]}                      \* copy-assignment target: may keep a slot even if empty
    [] op = "mv"     -> {[s EXCEPT !.G[b] = s.G[a], !.G[a] = IF a = b THEN s.G[a] ELSE 0,
                                   !.occ = IF a = b THEN @ ELSE (IF a \in s.occ THEN (@ \ {a}) \cup {b} ELSE @ \ {b})]}
    [] op = "swapg"  -> {[s EXCEPT !.G[a] = s.G[b], !.G[b] = s.G[a],
                                   !.occ = (@ \ {a, b}) \cup (IF a \in s.occ THEN {b} ELSE {}) \cup (IF b \in s.occ THEN {a} ELSE {})]}
    [] op = "gs"     -> IF s.G[a] = b THEN {s} ELSE {}                       \* C15b: smart-pointer algebra
    [] op = "pub"    -> {[s EXCEPT !.pub = @ \cup {b}]}
    [] op = "retire" -> IF b \in s.ret \/ b \in s.des THEN {} ELSE {[s EXCEPT !.ret = @ \cup {b}]}
    [] op = "destroy" -> IF b \in s.des THEN {}                              \* C02: at most once
                         ELSE IF \E k \in GuardKeys : s.G[k] = b THEN {}     \* C01: not while protected
                         ELSE IF b \in s.pub /\ b \notin s.ret THEN {}       \* only after retirement
                         ELSE {[s EXCEPT !.des = @ \cup {b}]}
    [] op = "deleter" -> IF a = b THEN {s} ELSE {}                           \* C02: its own deleter
    [] op = "touch"  -> IF a = 1 /\ b \notin s.des THEN {s} ELSE {}          \* C01: dereference of a live object
    \* C18: exhaustion may be reported only if K guards of this thread hold a slot (protecting, or target of a copy)
    [] op = "throw"  -> IF s.K > 0 /\ Cardinality({k \in s.occ : ThreadOf(k) = ThreadOf(a)}) >= s.K THEN {s} ELSE {}
    [] op = "bad"    -> {}
    [] op = "tstart" -> {[s EXCEPT !.live = @ + 1, !.peak = IF s.live + 1 > @ THEN s.live + 1 ELSE @]}
    [] op = "texit"  -> {[s EXCEPT !.live = @ - 1]}
    [] op = "tcb_allocs" -> IF a <= s.peak + 1 THEN {s} ELSE {}              \* C17: records are recycled (+1: main thread)
    [] OTHER -> {s}

\* C02: nothing retired remains undestroyed after the flush; all guards released
RecFinal(s) == /\ s.ret \subseteq s.des
               /\ \A k \in GuardKeys : s.G[k] = 0
=============================================================================
