------------------------------ MODULE Register ------------------------------
(* Sequential meaning of seqlock (C14) and left_right (C13): one atomic value.          *)
(*   store(a)  : value := a                                                              *)
(*   update(a) : value := value + a, the functor observes the old value (returned in v) *)
(*   load      : returns the value in v                                                 *)
(* A torn, truncated or invented result is not a value the register ever held, so it    *)
(* has no linearization.                                                                *)
EXTENDS Integers

RegInit == 1
RegCfg(s, op, a, b) == IF op = "init" THEN a ELSE s
RegStep(s, op, a, b, ctx) ==
  CASE op = "store"  -> {[abs |-> a, r |-> 0, v |-> 0, tags |-> {}]}
    [] op = "update" -> {[abs |-> s + a, r |-> 0, v |-> s, tags |-> {}]}
    [] op = "load"   -> {[abs |-> s, r |-> 0, v |-> s, tags |-> {}]}
    [] OTHER -> {}
RegFinal(s) == TRUE
=============================================================================
