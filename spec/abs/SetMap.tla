------------------------------- MODULE SetMap -------------------------------
(***************************************************************************)
(* Sequential meaning of the sets and maps (C08, C10) and of weakly        *)
(* consistent iteration (C09, C11).                                        *)
(*   m      function: key -> value for the keys present (a set stores the  *)
(*          key as its value)                                              *)
(*   trav   per thread: the running traversal                              *)
(*            credit   per key: incarnations of the key that existed at    *)
(*                     some instant since begin (1 if present at begin,    *)
(*                     +1 per insertion since) minus the yields of it      *)
(*            stay     keys present during the whole traversal so far      *)
(*            yielded  keys yielded so far                                 *)
(* Operations                                                              *)
(*   emplace(k, v)        r = 1 iff k was absent (then m[k] = v)           *)
(*   getorput(k, v)       emplace_or_get / get_or_emplace(_lazy) / []:     *)
(*                        r = 1 inserted, else r = 0; v = value now stored *)
(*   erase(k)             r = 1 iff k was present (removed)                *)
(*   extract(k)           as erase, v = removed value                      *)
(*   find(k) / get(k)     r = 1, v = m[k] if present, else r = 0           *)
(*   contains(k)          r = presence                                     *)
(*   it_begin             starts a traversal                               *)
(*   it_yield(k, v)       the iterator yields k: k was present at some     *)
(*                        instant of the traversal, and is not yielded     *)
(*                        twice unless it was inserted again (at most one  *)
(*                        yield per incarnation that existed since begin)  *)
(*   it_erase(k)          erase(iterator) on the element k last yielded:   *)
(*                        removes k if still present; a no-op if that      *)
(*                        incarnation of k was removed by somebody else    *)
(*                        since begin (even if k was inserted again)       *)
(*            gone     keys of which an incarnation was removed since begin*)
(*   it_end(full)         the iterator reached end(): every key that was   *)
(*                        present throughout has been yielded              *)
(* "xfind"/"xget": lock-free readers (vyukov try_get_value) - same meaning *)
(***************************************************************************)
EXTENDS Integers, Sequences, FiniteSets

KeyDom == 0 .. 16
NoTrav == [on |-> FALSE, credit |-> [k \in KeyDom |-> 0], stay |-> {}, yielded |-> {}, gone |-> {}]
TravThreads == {0, 1, 2, 3, 9}
SMInit == [m |-> <<>>, trav |-> [t \in TravThreads |-> NoTrav], excl |-> FALSE]
\* m as a function with a dynamic domain: sequence of <<key, value>> pairs, kept sorted by key for canonicity
Keys(s) == {s.m[i][1] : i \in 1 .. Len(s.m)}
Val(s, k) == (CHOOSE i \in 1 .. Len(s.m) : s.m[i][1] = k)
ValOf(s, k) == s.m[Val(s, k)][2]
Without(s, k) == SelectSeq(s.m, LAMBDA p : p[1] # k)
RECURSIVE InsSorted(_, _)
InsSorted(q, p) == IF q = <<>> THEN <<p>> ELSE IF p[1] < q[1][1] THEN <<p>> \o q ELSE <<q[1]>> \o InsSorted(Tail(q), p)
SMCfg(s, op, a, b) == IF op = "exclusive_iter" THEN [s EXCEPT !.excl = TRUE] ELSE s

OnInsert(s, k) == [t \in TravThreads |-> IF s.trav[t].on THEN [s.trav[t] EXCEPT !.credit[k] = @ + 1] ELSE s.trav[t]]
OnErase(s, k) == [t \in TravThreads |-> IF s.trav[t].on THEN [s.trav[t] EXCEPT !.stay = @ \ {k}, !.gone = @ \cup {k}] ELSE s.trav[t]]
Put(s, k, v) == [s EXCEPT !.m = InsSorted(s.m, <<k, v>>), !.trav = OnInsert(s, k)]
Del(s, k) == [s EXCEPT !.m = Without(s, k), !.trav = OnErase(s, k)]
Out(s, r, v) == [abs |-> s, r |-> r, v |-> v, tags |-> {}]

SMStep(s, op, a, b, ctx) ==
  LET t == ctx.t IN
  CASE op = "emplace" -> IF a \in Keys(s) THEN {Out(s, 0, 0)} ELSE {Out(Put(s, a, b), 1, 0)}
    [] op = "getorput" -> IF a \in Keys(s) THEN {Out(s, 0, ValOf(s, a))} ELSE {Out(Put(s, a, b), 1, b)}
    [] op = "idx" -> IF a \in Keys(s) THEN {Out(s, 0, ValOf(s, a))} ELSE {Out(Put(s, a, 0), 0, 0)}   \* operator[]: default value if absent
    [] op = "erase" -> IF a \in Keys(s) THEN {Out(Del(s, a), 1, 0)} ELSE {Out(s, 0, 0)}
    [] op = "extract" -> IF a \in Keys(s) THEN {Out(Del(s, a), 1, ValOf(s, a))} ELSE {Out(s, 0, 0)}
    [] op \in {"find", "get", "xget"} -> IF a \in Keys(s) THEN {Out(s, 1, ValOf(s, a))} ELSE {Out(s, 0, 0)}
    [] op = "contains" -> {Out(s, IF a \in Keys(s) THEN 1 ELSE 0, 0)}
    [] op = "it_begin" -> {Out([s EXCEPT !.trav[t] = [on |-> TRUE, credit |-> [k \in KeyDom |-> IF k \in Keys(s) THEN 1 ELSE 0],
                                                      stay |-> Keys(s), yielded |-> {}, gone |-> {}]], 0, 0)}
    [] op = "it_yield" ->
         LET tr == s.trav[t] IN
         \* the key existed at some instant of the traversal, and it is yielded at most once per incarnation
         \* (no key twice unless it was inserted again); value integrity: programs store 10*k with key k
         IF tr.on /\ tr.credit[a] > 0 /\ b \in {0, 10 * a}
           THEN {Out([s EXCEPT !.trav[t] = [tr EXCEPT !.yielded = @ \cup {a}, !.credit[a] = @ - 1]], 0, 0)}
           ELSE {}
    [] op = "it_erase" ->
         \* removes exactly the referenced element.  The element an iterator refers to may be an incarnation of the key that
         \* somebody else has removed meanwhile (gone): then nothing is removed, even if the key has been inserted again
         (IF a \in Keys(s) THEN {Out(Del(s, a), 0, 0)} ELSE {Out(s, 0, 0)})
           \cup (IF a \in s.trav[t].gone THEN {Out(s, 0, 0)} ELSE {})
    [] op = "it_end" ->
         LET tr == s.trav[t] IN
         IF tr.on /\ (a = 0 \/ tr.stay \subseteq tr.yielded)       \* a = 1: the traversal ran from begin() to end()
           THEN {Out([s EXCEPT !.trav[t] = NoTrav], 0, 0)} ELSE {}
    [] OTHER -> {}

SMEv(s, t, op, a, b) == {s}
SMFinal(s) == \A t \in TravThreads : ~s.trav[t].on
=============================================================================
