------------------------------- MODULE LinHist -------------------------------
(***************************************************************************)
(* History-level trace validation: is a recorded history of the real code  *)
(* linearizable with respect to an abstract (sequential) specification?    *)
(*                                                                         *)
(* The trace is an ndjson file of uniform records                          *)
(*    [e, t, op, a, b, r, v]                                               *)
(* in exact real-time order (xvrt runs one thread at a time).  Many        *)
(* executions are concatenated, separated by "reset" records.              *)
(*                                                                         *)
(* The abstract specification is supplied by the extending module through  *)
(* the constant operators                                                  *)
(*    AbsInit                      initial abstract state                  *)
(*    AbsCfg(abs, op, a, b)        effect of a "cfg" record                *)
(*    AbsStep(abs, op, a, b, ctx)  set of [abs, r, v, tags] outcomes of    *)
(*                                 one operation applied atomically;       *)
(*                                 ctx = [tags, nother, t]                 *)
(*    AbsFinal(abs)                predicate required at "quiescent"       *)
(*    AbsEv(abs, t, op, a, b)      set of abstract states after an "ev"    *)
(*                                 record (monitor events emitted by the   *)
(*                                 harness inside operations); the empty   *)
(*                                 set rejects the trace; NoEv ignores them *)
(* (bound in the cfg file with  CONSTANT AbsStep <- XStep ...).            *)
(*                                                                         *)
(* ctx.tags is the set of tags emitted by operations of OTHER threads that *)
(* linearized while this operation was pending, plus "ovl" if any other    *)
(* operation overlapped it; ctx.nother is the number of other operations   *)
(* pending at the linearization instant.  They carry the slack that the    *)
(* property statements allow (a steal that lost a race, slots occupied by  *)
(* operations in progress, ...).                                           *)
(***************************************************************************)
EXTENDS Integers, Sequences, FiniteSets, TLC, Json, IOUtils

CONSTANTS AbsInit, AbsCfg(_, _, _, _), AbsStep(_, _, _, _, _), AbsFinal(_), AbsEv(_, _, _, _, _)

NoEv(s, t, op, a, b) == {s}

H == ndJsonDeserialize(IOEnv.TRACE)
N == Len(H)
Threads == {0, 1, 2, 3, 9}            \* 9 = the main thread (setup / drain)

VARIABLES l, ex, abs, pend
vars == <<l, ex, abs, pend>>

Idle == [st |-> "idle", op |-> "none", a |-> 0, b |-> 0, r |-> 0, v |-> 0, tags |-> {}]

\* Every execution (the records between two "reset" records) is validated on its own: each reset
\* record gives one initial state, and an execution that can be consumed completely ends in a
\* terminal state (l = 0) announced by an "ACC" line.  The driver compares the announced executions
\* with the executions in the file; env ONLY=<n> restricts the run to one execution (diagnosis).
ResetLines == {i \in 1..N : H[i].e = "reset"}
Only == IF "ONLY" \in DOMAIN IOEnv THEN atoi(IOEnv.ONLY) ELSE 0
Init == /\ \E i \in ResetLines : /\ Only \in {0, H[i].a}
                                 /\ l = i + 1 /\ ex = H[i].a
        /\ abs = AbsInit
        /\ pend = [t \in Threads |-> Idle]

E == IF l \in 1..N THEN H[l] ELSE [e |-> "eof", t |-> 9, op |-> "", a |-> 0, b |-> 0, r |-> 0, v |-> 0]
Open(p) == {t \in Threads : p[t].st # "idle"}

Call == /\ l \in 1..N /\ E.e = "call" /\ pend[E.t].st = "idle"
        /\ LET ovl == Open(pend) # {}
           IN pend' = [t \in Threads |->
                         IF t = E.t THEN [st |-> "called", op |-> E.op, a |-> E.a, b |-> E.b, r |-> 0, v |-> 0,
                                          tags |-> IF ovl THEN {"ovl"} ELSE {}]
                         ELSE IF pend[t].st # "idle" THEN [pend[t] EXCEPT !.tags = @ \cup {"ovl"}]
                         ELSE pend[t]]
        /\ l' = l + 1 /\ UNCHANGED <<abs, ex>>

\* Linearization step of thread t's pending operation.  Without loss of generality it is taken
\* only when the next record is a "ret": only returns constrain the order of linearization points.
Lin(t) == /\ l \in 1..N /\ E.e = "ret"
          /\ pend[t].st = "called"
          /\ \E o \in AbsStep(abs, pend[t].op, pend[t].a, pend[t].b,
                              [tags |-> pend[t].tags, nother |-> Cardinality(Open(pend) \ {t}), t |-> t]) :
                /\ abs' = o.abs
                /\ pend' = [u \in Threads |->
                              IF u = t THEN [pend[t] EXCEPT !.st = "done", !.r = o.r, !.v = o.v]
                              ELSE IF pend[u].st = "called" THEN [pend[u] EXCEPT !.tags = @ \cup o.tags]
                              ELSE pend[u]]
          /\ UNCHANGED <<l, ex>>

Ret == /\ l \in 1..N /\ E.e = "ret" /\ pend[E.t].st = "done"
       /\ pend[E.t].r = E.r /\ pend[E.t].v = E.v
       /\ pend' = [pend EXCEPT ![E.t] = Idle]
       /\ l' = l + 1 /\ UNCHANGED <<abs, ex>>

Cfg == /\ l \in 1..N /\ E.e = "cfg"
       /\ abs' = AbsCfg(abs, E.op, E.a, E.b)
       /\ l' = l + 1 /\ UNCHANGED <<pend, ex>>

\* end of this execution: the next reset record or the end of the file
Accept == /\ l > 0 /\ (l = N + 1 \/ E.e = "reset") /\ Open(pend) = {}
          /\ PrintT(<<"ACC", ex>>)
          /\ l' = 0 /\ UNCHANGED <<abs, pend, ex>>

Quiescent == /\ l \in 1..N /\ E.e = "quiescent" /\ Open(pend) = {}
             /\ AbsFinal(abs)
             /\ l' = l + 1 /\ UNCHANGED <<abs, pend, ex>>

\* an operation that raised an exception: it must not have had an abstract effect
Abort == /\ l \in 1..N /\ E.e = "abort" /\ pend[E.t].st = "called"
         /\ pend' = [pend EXCEPT ![E.t] = Idle]
         /\ l' = l + 1 /\ UNCHANGED <<abs, ex>>

\* monitor events emitted inside operations
Ev == /\ l \in 1..N /\ E.e = "ev"
      /\ \E s \in AbsEv(abs, E.t, E.op, E.a, E.b) : abs' = s
      /\ l' = l + 1 /\ UNCHANGED <<pend, ex>>

\* records that carry no obligation at this level
Skip == /\ l \in 1..N /\ E.e \in {"choice", "note"}
        /\ l' = l + 1 /\ UNCHANGED <<abs, pend, ex>>

\* "outcome" (crash, hang, deadlock, steplimit), "uaf", "dfree" records have no action: the trace is rejected there.

Next == Call \/ Ret \/ Abort \/ Cfg \/ Ev \/ Accept \/ Quiescent \/ Skip \/ \E t \in Threads : Lin(t)
Spec == Init /\ [][Next]_vars

\* furthest record reached (needs -workers 1), reported for diagnosis of a rejected execution
Progress == TLCSet(1, IF l > TLCGet(1) THEN l ELSE TLCGet(1))
ASSUME TLCSet(1, 0)
Report == PrintT(<<"FURTHEST", TLCGet(1), "OF", N>>)
=============================================================================
