------------------------------- MODULE LinMon -------------------------------
(***************************************************************************)
(* On-the-fly linearizability monitor for implementation-level specs.      *)
(*                                                                         *)
(* An impl spec keeps a variable `lin`: the set of configurations          *)
(* [abs, p] (abstract state + per-thread pending operation) that are       *)
(* consistent with the history of calls and returns produced so far.       *)
(* MonCall / MonRet update it; the invariant  lin # {}  says "the history  *)
(* so far is linearizable w.r.t. the abstract specification given by       *)
(* AbsStep" - for EVERY interleaving TLC explores, with no hand-placed     *)
(* linearization points.  Linearization is lazy (applied at returns only), *)
(* which is complete because only returns constrain the order.             *)
(* AbsStep has the same signature and meaning as in LinHist, so the model  *)
(* checker and the trace validator use one and the same abstract spec.     *)
(***************************************************************************)
EXTENDS Integers, Sequences, FiniteSets

CONSTANTS AbsStep(_, _, _, _, _), MThreads

MIdle == [st |-> "idle", op |-> "none", a |-> 0, b |-> 0, r |-> 0, v |-> 0, tags |-> {}]
MonInit(abs0) == { [abs |-> abs0, p |-> [t \in MThreads |-> MIdle]] }
MOpen(p) == {t \in MThreads : p[t].st # "idle"}

MonCall(L, t, op, a, b) ==
  { [c EXCEPT !.p = [u \in MThreads |->
        IF u = t THEN [st |-> "called", op |-> op, a |-> a, b |-> b, r |-> 0, v |-> 0,
                       tags |-> IF MOpen(c.p) # {} THEN {"ovl"} ELSE {}]
        ELSE IF c.p[u].st # "idle" THEN [c.p[u] EXCEPT !.tags = @ \cup {"ovl"}]
        ELSE c.p[u]]] : c \in L }

LinOne(c, t) ==
  { [abs |-> o.abs,
     p |-> [u \in MThreads |->
              IF u = t THEN [c.p[t] EXCEPT !.st = "done", !.r = o.r, !.v = o.v]
              ELSE IF c.p[u].st = "called" THEN [c.p[u] EXCEPT !.tags = @ \cup o.tags]
              ELSE c.p[u]]] :
    o \in AbsStep(c.abs, c.p[t].op, c.p[t].a, c.p[t].b,
                  [tags |-> c.p[t].tags, nother |-> Cardinality(MOpen(c.p) \ {t}), t |-> t]) }

Step1(C) == C \cup UNION { UNION { LinOne(c, t) : t \in {u \in MThreads : c.p[u].st = "called"} } : c \in C }
RECURSIVE Clo(_)
Clo(C) == LET D == Step1(C) IN IF D = C THEN C ELSE Clo(D)

MonRet(L, t, r, v) ==
  { [c EXCEPT !.p[t] = MIdle] : c \in { d \in Clo(L) : d.p[t].st = "done" /\ d.p[t].r = r /\ d.p[t].v = v } }

\* abstract states still possible (for final checks)
MonAbs(L) == { c.abs : c \in Clo(L) }
=============================================================================
