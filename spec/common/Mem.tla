--------------------------------- MODULE Mem ---------------------------------
(***************************************************************************)
(* Shared memory for all implementation-level specifications.              *)
(*                                                                         *)
(* Every shared access of an impl spec goes through this module.  With     *)
(* Weak = FALSE memory is sequentially consistent: a load returns the      *)
(* latest message, views are not maintained (small state space).  With     *)
(* Weak = TRUE it is a view-based release/acquire model with fences and    *)
(* seq_cst (a promise-free fragment of the promising semantics):           *)
(*   - hist[x] is the append-only sequence of messages of location x, the  *)
(*     index is the timestamp, a message is [val, view];                   *)
(*   - cur[t], acq[t], rel[t] are the views of thread t (functions from    *)
(*     locations to timestamps): what t has observed, what it will have    *)
(*     observed after an acquire fence, what its last release fence        *)
(*     published;                                                          *)
(*   - scv is the global view of seq_cst accesses and fences.              *)
(* A relaxed load may return ANY message not older than cur[t][x].         *)
(* seq_cst ACCESSES are release / acquire accesses that additionally       *)
(* respect the single total order of seq_cst operations - here the order   *)
(* in which TLC executes them: a seq_cst load of x cannot read a message   *)
(* older than the newest message of x that a seq_cst operation has written *)
(* or read (scv[x]); they do NOT synchronize whole views (a seq_cst store  *)
(* followed by a seq_cst load of another location is still a store-buffer  *)
(* pattern against non-seq_cst accesses of the other thread).  seq_cst     *)
(* FENCES exchange whole views through scv.                                *)
(* Design decisions (append-only modification order, RMWs read the latest  *)
(* message, the execution order as the seq_cst order) only REMOVE          *)
(* behaviours: everything explored is permitted by C++11 (a subset of      *)
(* RC11, no load buffering).                                               *)
(*                                                                         *)
(* Plain (non-atomic) locations are ordinary locations accessed with       *)
(* PlainRd / PlainWr; a plain access is race free iff the accessing thread *)
(* has observed the latest write (and, for a write, every read token).     *)
(* Races are recorded in the variable `race`, checked by NoDataRace.       *)
(***************************************************************************)
EXTENDS Integers, Sequences, FiniteSets

CONSTANTS Threads,      \* set of thread ids
          Locs,         \* set of all locations (atomic, plain, read tokens)
          Weak,         \* BOOLEAN
          InitVal(_)    \* initial value of a location

VARIABLES hist, cur, acq, rel, scv, race
memvars == <<hist, cur, acq, rel, scv, race>>

Max(a, b) == IF a >= b THEN a ELSE b
Join(v, w) == [x \in Locs |-> Max(v[x], w[x])]
V0 == [x \in Locs |-> 1]

MemInit == /\ hist = [x \in Locs |-> << [val |-> InitVal(x), view |-> V0] >>]
           /\ cur = [t \in Threads |-> V0]
           /\ acq = [t \in Threads |-> V0]
           /\ rel = [t \in Threads |-> V0]
           /\ scv = V0
           /\ race = FALSE

IsAcq(o) == o \in {"acq", "ar", "sc"}
IsRel(o) == o \in {"rel", "ar", "sc"}

Last(x) == Len(hist[x])
Latest(x) == hist[x][Len(hist[x])].val
\* timestamps thread t may read from location x with order o
Readable(t, x, o) ==
  IF ~Weak THEN {Last(x)}
  ELSE LET lo == IF o = "sc" THEN Max(cur[t][x], scv[x]) ELSE cur[t][x] IN lo .. Last(x)
ValAt(x, i) == hist[x][i].val

\* ---- SC memory: only the latest message is kept --------------------------------------------
ScStore(x, v) == hist' = [hist EXCEPT ![x] = << [val |-> v, view |-> V0] >>]

\* ---- accesses --------------------------------------------------------------------------------
\* load message i of x
Load(t, x, o, i) ==
  IF ~Weak THEN UNCHANGED memvars
  ELSE
    LET m  == hist[x][i]
        c0 == cur[t]
        c1 == [c0 EXCEPT ![x] = Max(c0[x], i)]
        c2 == IF IsAcq(o) THEN Join(c1, m.view) ELSE c1
        a2 == Join([Join(acq[t], c1) EXCEPT ![x] = Max(@, i)], m.view)
    IN /\ cur' = [cur EXCEPT ![t] = c2]
       /\ acq' = [acq EXCEPT ![t] = Join(a2, c2)]
       /\ scv' = IF o = "sc" THEN [scv EXCEPT ![x] = Max(@, i)] ELSE scv
       /\ UNCHANGED <<hist, rel, race>>

Store(t, x, v, o) ==
  IF ~Weak THEN ScStore(x, v) /\ UNCHANGED <<cur, acq, rel, scv, race>>
  ELSE
    LET i  == Len(hist[x]) + 1
        c0 == cur[t]
        c1 == [c0 EXCEPT ![x] = i]
        mv == IF IsRel(o) THEN c1 ELSE [rel[t] EXCEPT ![x] = i]
    IN /\ hist' = [hist EXCEPT ![x] = Append(@, [val |-> v, view |-> mv])]
       /\ cur' = [cur EXCEPT ![t] = c1]
       /\ acq' = [acq EXCEPT ![t] = Join(acq[t], c1)]
       /\ scv' = IF o = "sc" THEN [scv EXCEPT ![x] = i] ELSE scv
       /\ UNCHANGED <<rel, race>>

\* read-modify-write: reads the latest message (value Latest(x)), writes v; o applies to both halves.
\* The new message continues the release sequence of the one it replaces.
Rmw(t, x, v, o) ==
  IF ~Weak THEN ScStore(x, v) /\ UNCHANGED <<cur, acq, rel, scv, race>>
  ELSE
    LET j  == Len(hist[x])
        m  == hist[x][j]
        i  == j + 1
        c0 == cur[t]
        c1 == IF IsAcq(o) THEN Join(c0, m.view) ELSE c0
        c2 == [c1 EXCEPT ![x] = i]
        base == IF IsRel(o) THEN c2 ELSE [rel[t] EXCEPT ![x] = i]
        mv == Join(base, m.view)
    IN /\ hist' = [hist EXCEPT ![x] = Append(@, [val |-> v, view |-> mv])]
       /\ cur' = [cur EXCEPT ![t] = c2]
       /\ acq' = [acq EXCEPT ![t] = Join(Join(acq[t], c2), m.view)]
       /\ scv' = IF o = "sc" THEN [scv EXCEPT ![x] = i] ELSE scv
       /\ UNCHANGED <<rel, race>>

\* several relaxed stores by t to the distinct locations in S in one step (initialisation of an object no other thread can see yet:
\* the constructor of a node before it is published); val(x) is the value stored to x
BulkStore(t, S, val(_)) ==
  IF ~Weak THEN /\ hist' = [x \in Locs |-> IF x \in S THEN << [val |-> val(x), view |-> V0] >> ELSE hist[x]]
                /\ UNCHANGED <<cur, acq, rel, scv, race>>
  ELSE LET c1 == [x \in Locs |-> IF x \in S THEN Len(hist[x]) + 1 ELSE cur[t][x]] IN
       /\ hist' = [x \in Locs |-> IF x \in S THEN Append(hist[x], [val |-> val(x), view |-> [rel[t] EXCEPT ![x] = Len(hist[x]) + 1]]) ELSE hist[x]]
       /\ cur' = [cur EXCEPT ![t] = c1]
       /\ acq' = [acq EXCEPT ![t] = Join(acq[t], c1)]
       /\ UNCHANGED <<rel, scv, race>>

\* failed CAS = load of the latest message with the failure order
CasFail(t, x, o) == Load(t, x, o, Last(x))

Fence(t, o) ==
  IF ~Weak \/ o \in {"none", "rlx"} THEN UNCHANGED memvars
  ELSE
    /\ UNCHANGED <<hist, race>>
    /\ CASE o = "acq" -> /\ cur' = [cur EXCEPT ![t] = acq[t]] /\ UNCHANGED <<acq, rel, scv>>
         [] o = "rel" -> /\ rel' = [rel EXCEPT ![t] = cur[t]] /\ UNCHANGED <<cur, acq, scv>>
         [] o = "ar"  -> /\ cur' = [cur EXCEPT ![t] = acq[t]] /\ rel' = [rel EXCEPT ![t] = acq[t]]
                         /\ UNCHANGED <<acq, scv>>
         [] o = "sc"  -> LET c == Join(acq[t], scv) IN
                         /\ cur' = [cur EXCEPT ![t] = c] /\ acq' = [acq EXCEPT ![t] = c]
                         /\ rel' = [rel EXCEPT ![t] = c] /\ scv' = c

\* ---- plain accesses --------------------------------------------------------------------------
\* RT(x, u): pseudo location counting plain reads of x by thread u (a "read token"); an impl spec
\* that wants write-after-read races detected includes <<"rt", x, u>> in Locs.
RT(x, u) == <<"rt", x, u>>
HasRT(x) == \A u \in Threads : RT(x, u) \in Locs
SeesAll(t, x) == cur[t][x] = Len(hist[x])

PlainRd(t, x) ==   \* value read is Latest(x) if race free
  IF ~Weak THEN UNCHANGED memvars
  ELSE /\ race' = (race \/ ~SeesAll(t, x))
       /\ IF HasRT(x)
            THEN LET r == RT(x, t) i == Len(hist[r]) + 1 IN
                 /\ hist' = [hist EXCEPT ![r] = Append(@, [val |-> 0, view |-> V0])]
                 /\ cur' = [cur EXCEPT ![t][r] = i]
                 /\ acq' = [acq EXCEPT ![t][r] = i]
                 /\ UNCHANGED <<rel, scv>>
            ELSE UNCHANGED <<hist, cur, acq, rel, scv>>

PlainWr(t, x, v) ==
  IF ~Weak THEN ScStore(x, v) /\ UNCHANGED <<cur, acq, rel, scv, race>>
  ELSE LET i == Len(hist[x]) + 1 IN
       /\ race' = (race \/ ~SeesAll(t, x)
                        \/ (HasRT(x) /\ \E u \in Threads \ {t} : ~SeesAll(t, RT(x, u))))
       /\ hist' = [hist EXCEPT ![x] = Append(@, [val |-> v, view |-> V0])]
       /\ cur' = [cur EXCEPT ![t][x] = i]
       /\ acq' = [acq EXCEPT ![t][x] = i]
       /\ UNCHANGED <<rel, scv>>

\* first write to memory the allocator has just handed out: the allocator orders it after every earlier access to that memory
\* (a model id that is reused for a new object stands for memory that went through free / malloc), so it cannot race
FreshWr(t, x, v) ==
  IF ~Weak THEN ScStore(x, v) /\ UNCHANGED <<cur, acq, rel, scv, race>>
  ELSE LET i == Len(hist[x]) + 1 IN
       /\ hist' = [hist EXCEPT ![x] = Append(@, [val |-> v, view |-> V0])]
       /\ cur' = [cur EXCEPT ![t][x] = i]
       /\ acq' = [acq EXCEPT ![t][x] = i]
       /\ UNCHANGED <<rel, scv, race>>

\* would a plain write by t to x race, judged on t's CURRENT view?  For steps that delete objects in the same step as an atomic access
\* (the access is not an acquire the deletion relies on), where PlainWr cannot be conjoined because memvars' is already defined
PlainWrRaces(t, x) == Weak /\ (~SeesAll(t, x) \/ (HasRT(x) /\ \E u \in Threads \ {t} : ~SeesAll(t, RT(x, u))))

NoDataRace == ~race

\* bound on message histories (state constraint in weak configs)
MsgBound(n) == \A x \in Locs : Len(hist[x]) <= n
MsgBound4 == MsgBound(4)
MsgBound5 == MsgBound(5)
MsgBound6 == MsgBound(6)
=============================================================================
