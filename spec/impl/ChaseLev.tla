------------------------------ MODULE ChaseLev ------------------------------
(***************************************************************************)
(* chase_work_stealing_deque over growing_circular_array, one action per   *)
(* atomic access of the C++ code (xenium/chase_work_stealing_deque.hpp,    *)
(* xenium/detail/growing_circular_array.hpp).                              *)
(*                                                                         *)
(* Thread 0 is the owner (try_push / try_pop), threads 1.. are thieves     *)
(* (try_steal).  The client program is part of the spec: an idle thread    *)
(* may start any of its operations while its budget lasts.                 *)
(*                                                                         *)
(* Storage: entry (idx & (capacity-1)) lives in bucket/offset              *)
(* find_last_bit_set(m) / m without its top bit - a bijection, so a        *)
(* physical entry is named by its masked index m.  grow() keeps the old    *)
(* buckets in place and copies the entries whose masked index changes.     *)
(*                                                                         *)
(* top = bottom = Start initially ("any amount of prior traffic": the      *)
(* test-suite only ever grows from index 0).                               *)
(*                                                                         *)
(* Labels (= site labels of the step-level binding) and the code's memory  *)
(* orders are in OrdCode.                                                  *)
(***************************************************************************)
EXTENDS Mem, LinMon, Deque, TLC

CONSTANTS Cap0,        \* initial capacity (power of two)
          MaxCap,      \* largest capacity the model grows to
          Start,       \* initial value of top and bottom
          MaxPush,     \* pushes the owner may start
          MaxPop,      \* pops the owner may start
          MaxSteal,    \* steals each thief may start
          NThieves,
          GrowIdx,     \* "and": newI = i & new_mask   "mod": newI = i % new_mask (mechanism toggle)
          StaleCapOK,  \* TRUE: get() may use a capacity loaded before a concurrent grow (as the code does)
          Ord          \* label -> memory order

OrdCode == [pu_b |-> "rlx", pu_t |-> "rlx", pu_cap |-> "rlx", pu_cg |-> "rlx", gr_cap |-> "rlx",
            gr_ld |-> "rlx", gr_st |-> "rlx", gr_pub |-> "rel", pu_pc |-> "rlx", pu_e |-> "rlx",
            pu_bot |-> "rel",
            po_b |-> "rlx", po_t |-> "rlx", po_bs |-> "sc", po_gc |-> "acq", po_ge |-> "rlx",
            po_t2 |-> "sc", po_cas |-> "rlx", po_b2 |-> "rlx", po_b3 |-> "rlx", po_b4 |-> "rlx",
            st_t |-> "rlx", st_b |-> "sc", st_gc |-> "acq", st_ge |-> "rlx", st_cas |-> "sc",
            st_casf |-> "rlx"]

Owner == 0
ThreadsDef == 0 .. NThieves
TOP == <<"top", 0>>
BOT == <<"bottom", 0>>
CAP == <<"cap", 0>>
Ent(m) == <<"e", m>>
LocsDef == {TOP, BOT, CAP} \cup {Ent(m) : m \in 0 .. MaxCap - 1}
\* prior traffic: Start times (push(40+k); steal) leaves item 40+k in entry k & (Cap0-1)
PriorItem(m) == LET ks == {k \in 0 .. Start - 1 : k % Cap0 = m} IN
                IF ks = {} THEN 0 ELSE 40 + (CHOOSE k \in ks : \A j \in ks : j <= k)
InitValDef(x) == IF x = TOP \/ x = BOT THEN Start
                 ELSE IF x = CAP THEN Cap0
                 ELSE IF x[2] < Cap0 THEN PriorItem(x[2]) ELSE 0

VARIABLES pc, loc, lin, budget, nextv, last, kf
vars == <<pc, loc, lin, budget, nextv, last, kf, memvars>>
\* `last` describes the access performed by the last step (step-level binding); it is excluded
\* from the fingerprint by VIEW in model-checking configs.
mcview == <<pc, loc, lin, budget, nextv, kf, memvars>>

And(i, mask) == i % (mask + 1)                     \* i & mask for mask = 2^k - 1
NewIdx(i, newmask) == IF GrowIdx = "mod" THEN i % newmask ELSE And(i, newmask)

L0 == [b |-> 0, t |-> 0, c |-> 0, item |-> 0, i |-> 0, v |-> 0, arg |-> 0]
Init == /\ MemInit
        /\ pc = [t \in Threads |-> "idle"]
        /\ loc = [t \in Threads |-> L0]
        /\ lin = [mon |-> MonInit(DequeInit), taken |-> {}, bad |-> "ok"]
        /\ budget = [t \in Threads |-> IF t = Owner THEN [push |-> MaxPush, pop |-> MaxPop, steal |-> 0]
                                        ELSE [push |-> 0, pop |-> 0, steal |-> MaxSteal]]
        /\ nextv = 1
        /\ last = [t |-> -1, k |-> "init", lab |-> "init", v |-> 0, ok |-> 1, n |-> 0]
        /\ kf = FALSE

Goto(t, l) == pc' = [pc EXCEPT ![t] = l]
SetL(t, f, v) == loc' = [loc EXCEPT ![t][f] = v]
Acc(t, k, lab, v, ok) == last' = [t |-> t, k |-> k, lab |-> lab, v |-> v, ok |-> ok, n |-> last.n + 1]    \* n: access counter

\* generic load step: read location x with Ord[lab] into local f, continue at `to`
LdTo(t, from, lab, x, f, to) ==
  /\ pc[t] = from
  /\ \E i \in Readable(t, x, Ord[lab]) :
       /\ Load(t, x, Ord[lab], i)
       /\ SetL(t, f, ValAt(x, i))
       /\ Acc(t, "ld", lab, ValAt(x, i), 1)
  /\ Goto(t, to)
  /\ UNCHANGED <<lin, budget, nextv, kf>>

StTo(t, from, lab, x, v, to) ==
  /\ pc[t] = from
  /\ Store(t, x, v, Ord[lab])
  /\ Acc(t, "st", lab, v, 1)
  /\ Goto(t, to)
  /\ UNCHANGED <<loc, lin, budget, nextv, kf>>

\* `lin` carries the linearizability monitor (real-time order; meaningful under sequential consistency) and, independent of
\* any order between operations of different threads, the conservation ghost: the set of items handed out so far.
\* A successful pop / steal must return an item that was pushed and has not been handed out before.
Return(t, r, v) ==
  /\ lin' = [mon |-> MonRet(lin.mon, t, r, v),
             taken |-> IF loc[t].arg = 0 /\ r = 1 THEN lin.taken \cup {v} ELSE lin.taken,
             bad |-> IF loc[t].arg = 0 /\ r = 1 /\ lin.bad = "ok" /\ (v \notin 1 .. nextv - 1 \/ v \in lin.taken)
                       THEN "an item was handed out twice or invented" ELSE lin.bad]
  /\ Goto(t, "idle")

\* ------------------------------------------------------------------ owner: try_push
StartPush == /\ pc[Owner] = "idle" /\ budget[Owner].push > 0
             /\ budget' = [budget EXCEPT ![Owner].push = @ - 1]
             /\ lin' = [lin EXCEPT !.mon = MonCall(@, Owner, "push", nextv, 0)]
             /\ loc' = [loc EXCEPT ![Owner] = [L0 EXCEPT !.arg = nextv]]
             /\ nextv' = nextv + 1
             /\ Goto(Owner, "pu_b")
             /\ Acc(Owner, "call", "push", nextv, 1)
             /\ UNCHANGED <<kf, memvars>>
pu_b == LdTo(Owner, "pu_b", "pu_b", BOT, "b", "pu_t")
pu_t == LdTo(Owner, "pu_t", "pu_t", TOP, "t", "pu_cap")
pu_cap == /\ pc[Owner] = "pu_cap"
          /\ \E i \in Readable(Owner, CAP, Ord["pu_cap"]) :
               /\ Load(Owner, CAP, Ord["pu_cap"], i)
               /\ SetL(Owner, "c", ValAt(CAP, i))
               /\ Acc(Owner, "ld", "pu_cap", ValAt(CAP, i), 1)
               /\ Goto(Owner, IF loc[Owner].b - loc[Owner].t >= ValAt(CAP, i) THEN "pu_cg" ELSE "pu_pc")
          /\ UNCHANGED <<lin, budget, nextv, kf>>
\* can_grow(): capacity() < max_capacity - always true for the growing array (max 2^31)
pu_cg == LdTo(Owner, "pu_cg", "pu_cg", CAP, "c", "gr_cap")
\* grow(bottom, top)
gr_cap == /\ pc[Owner] = "gr_cap"
          /\ \E i \in Readable(Owner, CAP, Ord["gr_cap"]) :
               LET c == ValAt(CAP, i)
                   top == loc[Owner].t
                   smod == And(top, c - 1)
                   start == IF smod = And(top, 2 * c - 1) THEN top + (c - smod) ELSE top
               IN /\ Load(Owner, CAP, Ord["gr_cap"], i)
                  /\ loc' = [loc EXCEPT ![Owner].c = c, ![Owner].i = start]
                  /\ Acc(Owner, "ld", "gr_cap", c, 1)
          /\ Assert(loc[Owner].c * 2 <= MaxCap, "model bound: MaxCap too small for this configuration")
          /\ Goto(Owner, "gr_loop")
          /\ UNCHANGED <<lin, budget, nextv, kf>>
\* loop head (no access): for (i = start; i < bottom; i++) { oldI != newI ? copy : break }
GrMore == LET i == loc[Owner].i c == loc[Owner].c IN
          i < loc[Owner].b /\ And(i, c - 1) # NewIdx(i, 2 * c - 1)
gr_ld == /\ pc[Owner] = "gr_loop" /\ GrMore
         /\ LET x == Ent(And(loc[Owner].i, loc[Owner].c - 1)) IN
            \E j \in Readable(Owner, x, Ord["gr_ld"]) :
               /\ Load(Owner, x, Ord["gr_ld"], j)
               /\ SetL(Owner, "v", ValAt(x, j))
               /\ Acc(Owner, "ld", "gr_ld", ValAt(x, j), 1)
         /\ Goto(Owner, "gr_st")
         /\ UNCHANGED <<lin, budget, nextv, kf>>
gr_st == /\ pc[Owner] = "gr_st"
         /\ Store(Owner, Ent(NewIdx(loc[Owner].i, 2 * loc[Owner].c - 1)), loc[Owner].v, Ord["gr_st"])
         /\ Acc(Owner, "st", "gr_st", loc[Owner].v, 1)
         /\ loc' = [loc EXCEPT ![Owner].i = @ + 1]
         /\ Goto(Owner, "gr_loop")
         /\ UNCHANGED <<lin, budget, nextv, kf>>
gr_pub == /\ pc[Owner] = "gr_loop" /\ ~GrMore
          /\ Store(Owner, CAP, 2 * loc[Owner].c, Ord["gr_pub"])
          /\ Acc(Owner, "st", "gr_pub", 2 * loc[Owner].c, 1)
          /\ Goto(Owner, "pu_pc")
          /\ UNCHANGED <<loc, lin, budget, nextv, kf>>
\* put(b, item): capacity load, entry store
pu_pc == LdTo(Owner, "pu_pc", "pu_pc", CAP, "c", "pu_e")
pu_e == StTo(Owner, "pu_e", "pu_e", Ent(And(loc[Owner].b, loc[Owner].c - 1)), loc[Owner].arg, "pu_bot")
pu_bot == /\ pc[Owner] = "pu_bot"
          /\ Store(Owner, BOT, loc[Owner].b + 1, Ord["pu_bot"])
          /\ Acc(Owner, "st", "pu_bot", loc[Owner].b + 1, 1)
          /\ Return(Owner, 1, loc[Owner].arg)
          /\ UNCHANGED <<loc, budget, nextv, kf>>

\* ------------------------------------------------------------------ owner: try_pop
StartPop == /\ pc[Owner] = "idle" /\ budget[Owner].pop > 0
            /\ budget' = [budget EXCEPT ![Owner].pop = @ - 1]
            /\ lin' = [lin EXCEPT !.mon = MonCall(@, Owner, "pop", 0, 0)]
            /\ loc' = [loc EXCEPT ![Owner] = L0]
            /\ Goto(Owner, "po_b")
            /\ Acc(Owner, "call", "pop", 0, 1)
            /\ UNCHANGED <<nextv, kf, memvars>>
po_b == LdTo(Owner, "po_b", "po_b", BOT, "b", "po_t")
po_t == /\ pc[Owner] = "po_t"
        /\ \E i \in Readable(Owner, TOP, Ord["po_t"]) :
             /\ Load(Owner, TOP, Ord["po_t"], i)
             /\ SetL(Owner, "t", ValAt(TOP, i))
             /\ Acc(Owner, "ld", "po_t", ValAt(TOP, i), 1)
             /\ IF loc[Owner].b = ValAt(TOP, i)
                  THEN Return(Owner, 0, 0)
                  ELSE Goto(Owner, "po_bs") /\ UNCHANGED lin
        /\ UNCHANGED <<budget, nextv, kf>>
po_bs == /\ pc[Owner] = "po_bs"
         /\ Store(Owner, BOT, loc[Owner].b - 1, Ord["po_bs"])
         /\ Acc(Owner, "st", "po_bs", loc[Owner].b - 1, 1)
         /\ loc' = [loc EXCEPT ![Owner].b = @ - 1]
         /\ Goto(Owner, "po_gc")
         /\ UNCHANGED <<lin, budget, nextv, kf>>
po_gc == LdTo(Owner, "po_gc", "po_gc", CAP, "c", "po_ge")
po_ge == /\ pc[Owner] = "po_ge"
         /\ LET x == Ent(And(loc[Owner].b, loc[Owner].c - 1)) IN
            \E j \in Readable(Owner, x, Ord["po_ge"]) :
               /\ Load(Owner, x, Ord["po_ge"], j)
               /\ SetL(Owner, "item", ValAt(x, j))
               /\ Acc(Owner, "ld", "po_ge", ValAt(x, j), 1)
         /\ Goto(Owner, "po_t2")
         /\ UNCHANGED <<lin, budget, nextv, kf>>
po_t2 == /\ pc[Owner] = "po_t2"
         /\ \E i \in Readable(Owner, TOP, Ord["po_t2"]) :
              LET tv == ValAt(TOP, i) IN
              /\ Load(Owner, TOP, Ord["po_t2"], i)
              /\ SetL(Owner, "t", tv)
              /\ Acc(Owner, "ld", "po_t2", tv, 1)
              /\ IF loc[Owner].b > tv THEN Return(Owner, 1, loc[Owner].item)
                 ELSE IF loc[Owner].b = tv THEN Goto(Owner, "po_cas") /\ UNCHANGED lin
                 ELSE Goto(Owner, "po_b4") /\ UNCHANGED lin
         /\ UNCHANGED <<budget, nextv, kf>>
po_cas == /\ pc[Owner] = "po_cas"
          /\ IF Latest(TOP) = loc[Owner].t
               THEN /\ Rmw(Owner, TOP, loc[Owner].t + 1, Ord["po_cas"])
                    /\ Acc(Owner, "cas", "po_cas", loc[Owner].t, 1)
                    /\ Goto(Owner, "po_b2") /\ UNCHANGED loc
               ELSE /\ CasFail(Owner, TOP, "rlx")
                    /\ Acc(Owner, "cas", "po_cas", Latest(TOP), 0)
                    /\ SetL(Owner, "t", Latest(TOP))
                    /\ Goto(Owner, "po_b3")
          /\ UNCHANGED <<lin, budget, nextv, kf>>
po_b2 == /\ pc[Owner] = "po_b2"
         /\ Store(Owner, BOT, loc[Owner].t + 1, Ord["po_b2"])
         /\ Acc(Owner, "st", "po_b2", loc[Owner].t + 1, 1)
         /\ Return(Owner, 1, loc[Owner].item)
         /\ UNCHANGED <<loc, budget, nextv, kf>>
po_b3 == /\ pc[Owner] = "po_b3"
         /\ Store(Owner, BOT, loc[Owner].t, Ord["po_b3"])
         /\ Acc(Owner, "st", "po_b3", loc[Owner].t, 1)
         /\ Return(Owner, 0, 0)
         /\ UNCHANGED <<loc, budget, nextv, kf>>
po_b4 == /\ pc[Owner] = "po_b4"
         /\ Store(Owner, BOT, loc[Owner].t, Ord["po_b4"])
         /\ Acc(Owner, "st", "po_b4", loc[Owner].t, 1)
         /\ Return(Owner, 0, 0)
         /\ UNCHANGED <<loc, budget, nextv, kf>>

\* ------------------------------------------------------------------ thief: try_steal
StartSteal(t) == /\ t # Owner /\ pc[t] = "idle" /\ budget[t].steal > 0
                 /\ budget' = [budget EXCEPT ![t].steal = @ - 1]
                 /\ lin' = [lin EXCEPT !.mon = MonCall(@, t, "steal", 0, 0)]
                 /\ loc' = [loc EXCEPT ![t] = L0]
                 /\ Goto(t, "st_t")
                 /\ Acc(t, "call", "steal", 0, 1)
                 /\ UNCHANGED <<nextv, kf, memvars>>
st_t(t) == LdTo(t, "st_t", "st_t", TOP, "t", "st_b")
st_b(t) == /\ pc[t] = "st_b"
           /\ \E i \in Readable(t, BOT, Ord["st_b"]) :
                /\ Load(t, BOT, Ord["st_b"], i)
                /\ SetL(t, "b", ValAt(BOT, i))
                /\ Acc(t, "ld", "st_b", ValAt(BOT, i), 1)
                /\ IF ValAt(BOT, i) - loc[t].t <= 0
                     THEN Return(t, 0, 0)
                     ELSE Goto(t, "st_gc") /\ UNCHANGED lin
           /\ UNCHANGED <<budget, nextv, kf>>
\* get(t): capacity load, then entry load.  With StaleCapOK = FALSE the two are one atomic step
\* (the mechanism whose absence is known finding C12/stale-capacity).
st_gc(t) == /\ StaleCapOK /\ LdTo(t, "st_gc", "st_gc", CAP, "c", "st_ge")
st_ge(t) == /\ pc[t] = "st_ge"
            /\ LET x == Ent(And(loc[t].t, loc[t].c - 1)) IN
               \E j \in Readable(t, x, Ord["st_ge"]) :
                  /\ Load(t, x, Ord["st_ge"], j)
                  /\ SetL(t, "item", ValAt(x, j))
                  /\ Acc(t, "ld", "st_ge", ValAt(x, j), 1)
            /\ Goto(t, "st_cas")
            /\ kf' = (kf \/ loc[t].c # Latest(CAP))      \* entry indexed with a capacity that grow() has replaced
            /\ UNCHANGED <<lin, budget, nextv>>
st_gce(t) == /\ ~StaleCapOK /\ pc[t] = "st_gc"       \* idealised: capacity and entry read atomically
             /\ LET c == Latest(CAP) x == Ent(And(loc[t].t, c - 1)) IN
                /\ loc' = [loc EXCEPT ![t].c = c, ![t].item = Latest(x)]
                /\ Acc(t, "ld", "st_ge", Latest(x), 1)
             /\ Goto(t, "st_cas")
             /\ UNCHANGED <<lin, budget, nextv, kf, memvars>>
st_cas(t) == /\ pc[t] = "st_cas"
             /\ IF Latest(TOP) = loc[t].t
                  THEN /\ Rmw(t, TOP, loc[t].t + 1, Ord["st_cas"])
                       /\ Acc(t, "cas", "st_cas", loc[t].t, 1)
                       /\ Return(t, 1, loc[t].item)
                  ELSE /\ CasFail(t, TOP, Ord["st_casf"])
                       /\ Acc(t, "cas", "st_cas", Latest(TOP), 0)
                       /\ Return(t, 0, 0)
             /\ UNCHANGED <<loc, budget, nextv, kf>>

OwnerStep == \/ StartPush \/ pu_b \/ pu_t \/ pu_cap \/ pu_cg \/ gr_cap \/ gr_ld \/ gr_st \/ gr_pub
             \/ pu_pc \/ pu_e \/ pu_bot
             \/ StartPop \/ po_b \/ po_t \/ po_bs \/ po_gc \/ po_ge \/ po_t2 \/ po_cas \/ po_b2 \/ po_b3 \/ po_b4
ThiefStep(t) == StartSteal(t) \/ st_t(t) \/ st_b(t) \/ st_gc(t) \/ st_ge(t) \/ st_gce(t) \/ st_cas(t)
ThreadStep(t) == IF t = Owner THEN OwnerStep ELSE ThiefStep(t)
Next == OwnerStep \/ \E t \in Threads \ {Owner} : ThiefStep(t)
Spec == Init /\ [][Next]_vars

\* ------------------------------------------------------------------ properties
\* C12: every history is linearizable w.r.t. abs/Deque (exactly-once, LIFO/FIFO ends, allowed failures)
Linearizable == lin.mon # {}
\* memory-model independent part of C12 (checked under Weak = TRUE, where precedence is happens-before, not real time)
Conservation == lin.bad = "ok"
ConservedAtEnd == (\A t \in Threads : pc[t] = "idle") =>
                    LET window == {Latest(Ent(And(i, Latest(CAP) - 1))) : i \in Latest(TOP) .. Latest(BOT) - 1} IN
                    /\ window \cup lin.taken = 1 .. nextv - 1
                    /\ window \cap lin.taken = {}
\* faithful model (StaleCapOK = TRUE): a violation is excused only in behaviours in which a thief
\* indexed an entry with a stale capacity - the finding predicate of C12-stale-capacity
LinearizableOrStaleCap == kf \/ lin.mon # {}
\* at quiescence the physical window equals every possible abstract content
Quiescent == \A t \in Threads : pc[t] = "idle"
WindowOK == Quiescent =>
              \A s \in MonAbs(lin.mon) :
                 /\ Latest(BOT) - Latest(TOP) = Len(s.q)
                 /\ \A k \in 1 .. Len(s.q) : Latest(Ent(And(Latest(TOP) + k - 1, Latest(CAP) - 1))) = s.q[k]
\* weak-memory variant of the safety part: nothing invented, nothing handed out twice
\* (checked through the monitor in SC configurations; under Weak the monitor's real-time order is
\* replaced by the conservation argument: every successful pop/steal result is a pushed item that
\* no other pop/steal returned - this is what Linearizable implies for `r = 1` results)
TypeOK == /\ pc \in [Threads -> STRING]
=============================================================================
