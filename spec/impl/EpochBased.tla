------------------------------ MODULE EpochBased ------------------------------
(***************************************************************************)
(* xenium::reclamation::generic_epoch_based (epoch_based, new_epoch_based, *)
(* debra and the other configurations), one action per atomic access /     *)
(* fence of impl/generic_epoch_based.hpp, driven by the generic client     *)
(* (acquire, reset, replace + reclaim, touch, region_guard, thread exit,   *)
(* idle flush cycles).                                                     *)
(*                                                                         *)
(* Configuration constants mirror the policies:                            *)
(*   ScanFreq  scan_frequency       ScanN  0 = all_threads, n = n_threads  *)
(*   Abandon   "never" | "always" | "thr" (when_exceeds_threshold<AbT>)    *)
(*   Ext       "none" | "eager" | "lazy" (region_extension)                *)
(*   NumEpochs number_epochs (3 in the code; 2 is a mechanism toggle)      *)
(* Shared: GE global epoch; per thread block CRIT (is_in_critical_region), *)
(* LE (local_epoch); ORPH(i) orphan list of epoch index i (a set).         *)
(* Thread local: retire lists rl[i], local_epoch_idx, nested / region      *)
(* counters, entries since the last update, the n_threads scan iterator.   *)
(* Node payloads are plain locations (touch = read, delete = write).       *)
(***************************************************************************)
EXTENDS Mem, TLC

CONSTANTS NT, NG, NCells, NNodes, MaxOps, MaxFlush, MaxEpoch, Ord,
          ScanFreq, ScanN, Abandon, AbT, Ext, NumEpochs,
          StaleBlocks,     \* TRUE: a thread in a critical region with an old local epoch blocks the advance (code)
          AdoptFirst       \* TRUE: the orphans of the new epoch index are adopted before the epoch CAS and handed back if it fails (code);
                           \* FALSE: adopted after the CAS - threads that already see the new epoch may have added to the list

OrdCode == [a_ld1 |-> "rlx", a_ld2 |-> "acq", c_flag |-> "rlx", c_fence |-> "sc", c_ldflag |-> "rlx", c_ge |-> "acq", c_le |-> "rlx",
            s_crit |-> "rlx", s_le |-> "rlx", u_le |-> "rlx", u_stle |-> "rlx", g_ld |-> "rlx", g_fence |-> "acq", g_cas |-> "rel", casf |-> "rlx",
            l_flag |-> "rel", o_add |-> "rel", o_adopt |-> "acq", x_cas |-> "rel"]

ThreadsDef == 0 .. NT - 1
Nodes == 1 .. NNodes
Cells == 0 .. NCells - 1
EpIdx == 0 .. NumEpochs - 1
GE == <<"ge", 0, 0>>
CRIT(t) == <<"crit", t, 0>>
LE(t) == <<"le", t, 0>>
ORPH(i) == <<"orph", i, 0>>
CELL(c) == <<"cell", c, 0>>
PAY(n) == <<"pay", n, 0>>
LocsDef == {GE} \cup {CRIT(t) : t \in ThreadsDef} \cup {LE(t) : t \in ThreadsDef} \cup {ORPH(i) : i \in EpIdx}
           \cup {CELL(c) : c \in Cells} \cup {PAY(n) : n \in Nodes}
           \cup (IF Weak THEN {RT(PAY(n), u) : n \in Nodes, u \in ThreadsDef} ELSE {})
E0 == NumEpochs          \* thread_control_block(): local_epoch(number_epochs); the global epoch starts at number_epochs as well
InitValDef(x) == IF x[1] = "ge" \/ x[1] = "le" THEN E0
                 ELSE IF x[1] = "crit" THEN FALSE
                 ELSE IF x[1] = "orph" THEN {}
                 ELSE IF x[1] = "cell" THEN x[2] + 1
                 ELSE 0

VARIABLES pc, loc, guards, tl, nstate, budget, flush, alive, bad, last
vars == <<pc, loc, guards, tl, nstate, budget, flush, alive, bad, last, memvars>>
mcview == <<pc, loc, guards, tl, nstate, budget, flush, alive, bad, memvars>>

\* thread-local reclaimer state
TL0 == [nested |-> 0, regions |-> 0, since |-> 0, scanIt |-> 0, idx |-> E0 % NumEpochs, rl |-> [i \in EpIdx |-> {}], rg |-> FALSE]
L0 == [op |-> "none", g |-> 0, c |-> 0, p |-> 0, fresh |-> 0, epoch |-> 0, u |-> 0, n |-> 0, after |-> "idle", was |-> FALSE, adopted |-> {}]

\* operations per thread (a definition the configurations may override: asymmetric programs keep weak-memory runs small)
OpsOf(t) == MaxOps
FlushOf(t) == MaxFlush
MayStart(t, op) == TRUE
Init == /\ MemInit
        /\ pc = [t \in Threads |-> "idle"]
        /\ loc = [t \in Threads |-> L0]
        /\ guards = [t \in Threads |-> [g \in 1 .. NG |-> 0]]
        /\ tl = [t \in Threads |-> TL0]
        /\ nstate = [n \in Nodes |-> IF n <= NCells THEN "live" ELSE "free"]
        /\ budget = [t \in Threads |-> OpsOf(t)]
        /\ flush = [t \in Threads |-> FlushOf(t)]
        /\ alive = [t \in Threads |-> TRUE]
        /\ bad = "ok"
        /\ last = [t |-> -1, k |-> "init", lab |-> "init", v |-> 0, ok |-> 1, n |-> 0]

Goto(t, l) == pc' = [pc EXCEPT ![t] = l]
Acc(t, k, lab, v, ok) == last' = [t |-> t, k |-> k, lab |-> lab, v |-> v, ok |-> ok, n |-> last.n + 1]
UG == UNCHANGED <<guards, tl, nstate, budget, flush, alive, bad>>
SetTL(t, f, v) == tl' = [tl EXCEPT ![t][f] = v]
Min(a, b) == IF a < b THEN a ELSE b

\* delete_objects: plain write to every payload; deleting something that is not retired is an error of its own
Delete(t, S) == /\ nstate' = [n \in Nodes |-> IF n \in S THEN "des" ELSE nstate[n]]
                /\ bad' = IF bad = "ok" /\ \E n \in S : nstate[n] # "ret" THEN "deleted a node that is not retired"
                          ELSE IF bad = "ok" /\ \E n \in S : PlainWrRaces(t, PAY(n)) THEN "delete races with an access to the object" ELSE bad

\* ---------------------------------------------------------------- client operations
Begin(t, op, g, c, first, cost) ==
  /\ pc[t] = "idle" /\ alive[t] /\ MayStart(t, op)
  /\ IF cost THEN budget[t] > 0 /\ budget' = [budget EXCEPT ![t] = @ - 1] /\ UNCHANGED flush
     ELSE /\ \A u \in Threads : pc[u] = "idle" /\ budget[u] = 0 /\ ~tl[u].rg      \* flush cycles run one at a time once every program is over
          /\ flush[t] > 0 /\ flush' = [flush EXCEPT ![t] = @ - 1] /\ UNCHANGED budget
  /\ loc' = [loc EXCEPT ![t] = [L0 EXCEPT !.op = op, !.g = g, !.c = c]]
  /\ Goto(t, first) /\ Acc(t, "call", op, g, 1)
  /\ UNCHANGED <<guards, tl, nstate, alive, bad, memvars>>
StartAcquire(t) == \E g \in 1 .. NG, c \in Cells : Begin(t, "acquire", g, c, "a_ld1", TRUE)
StartReplace(t) == \E g \in 1 .. NG, c \in Cells : Begin(t, "replace", g, c, "a_ld1", TRUE)
StartReset(t) == \E g \in 1 .. NG : guards[t][g] # 0 /\ Begin(t, "reset", g, 0, "r_begin", TRUE)
\* idle flush cycle (acquire + reset on a live cell) once the program of the thread is over
StartFlush(t) == \E g \in 1 .. NG : guards[t][g] = 0 /\ Begin(t, "flushcycle", g, 0, "a_ld1", FALSE)
StartRegion(t) == /\ Ext # "none" /\ ~tl[t].rg /\ Begin(t, "region_enter", 0, 0, "rg_enter", TRUE)
EndRegion(t) == /\ tl[t].rg /\ Begin(t, "region_leave", 0, 0, "rg_leave", TRUE)
Touch(t) == /\ pc[t] = "idle" /\ alive[t]
            /\ \E g \in 1 .. NG : LET n == guards[t][g] IN
                 /\ n # 0
                 /\ bad' = IF bad = "ok" /\ nstate[n] \notin {"live", "ret"} THEN "touch of a destroyed object" ELSE bad
                 /\ PlainRd(t, PAY(n))
            /\ UNCHANGED <<pc, loc, guards, tl, nstate, budget, flush, alive, last>>
\* thread exit: ~thread_data hands the retire lists to the orphan lists (one CAS per non-empty list)
StartExit(t) == /\ pc[t] = "idle" /\ alive[t] /\ budget[t] = 0 /\ \A g \in 1 .. NG : guards[t][g] = 0 /\ ~tl[t].rg
                /\ \A u \in Threads : flush[u] = FlushOf(u)        \* threads exit before the final flush phase
                /\ loc' = [loc EXCEPT ![t] = [L0 EXCEPT !.op = "exit", !.n = 0]]
                /\ Goto(t, "x_orph") /\ Acc(t, "call", "exit", 0, 1)
                /\ UNCHANGED <<guards, tl, nstate, budget, flush, alive, bad, memvars>>
x_orph(t) == /\ pc[t] = "x_orph"
             /\ IF loc[t].n = NumEpochs
                  THEN /\ alive' = [alive EXCEPT ![t] = FALSE] /\ Goto(t, "idle") /\ UNCHANGED <<loc, tl, last, memvars>>
                  ELSE LET i == loc[t].n IN
                       /\ IF tl[t].rl[i] # {}
                            THEN /\ Rmw(t, ORPH(i), Latest(ORPH(i)) \cup tl[t].rl[i], Ord["o_add"]) /\ Acc(t, "cas", "o_add", 0, 1)
                                 /\ tl' = [tl EXCEPT ![t].rl[i] = {}]
                            ELSE UNCHANGED <<tl, last, memvars>>
                       /\ loc' = [loc EXCEPT ![t].n = @ + 1] /\ UNCHANGED <<pc, alive>>
             /\ UNCHANGED <<guards, nstate, budget, flush, bad>>

\* ---------------------------------------------------------------- guard_ptr::acquire
a_ld1(t) == /\ pc[t] = "a_ld1"
            /\ LET x == CELL(loc[t].c) IN
               \E i \in Readable(t, x, Ord["a_ld1"]) :
                  /\ Load(t, x, Ord["a_ld1"], i) /\ Acc(t, "ld", "a_ld1", ValAt(x, i), 1)
                  /\ IF ValAt(x, i) = 0 THEN Goto(t, "r_begin")
                     ELSE IF guards[t][loc[t].g] = 0 THEN Goto(t, "ec_begin") ELSE Goto(t, "a_ld2")
            /\ loc' = [loc EXCEPT ![t].after = "a_ld2", ![t].was = (guards[t][loc[t].g] # 0)]
            /\ UG
a_ld2(t) == /\ pc[t] = "a_ld2"
            /\ LET x == CELL(loc[t].c) IN
               \E i \in Readable(t, x, Ord["a_ld2"]) :
                  /\ Load(t, x, Ord["a_ld2"], i) /\ Acc(t, "ld", "a_ld2", ValAt(x, i), 1)
                  /\ guards' = [guards EXCEPT ![t][loc[t].g] = ValAt(x, i)]
                  /\ Goto(t, IF ValAt(x, i) = 0 THEN "lc_begin" ELSE "op_done")
            /\ loc' = [loc EXCEPT ![t].after = "op_done"]
            /\ UNCHANGED <<tl, nstate, budget, flush, alive, bad>>
\* reset(): if (ptr) leave_critical(); ptr.reset()
r_begin(t) == /\ pc[t] = "r_begin"
              /\ IF guards[t][loc[t].g] # 0
                   THEN /\ guards' = [guards EXCEPT ![t][loc[t].g] = 0] /\ Goto(t, "lc_begin") /\ loc' = [loc EXCEPT ![t].after = "op_done"]
                   ELSE /\ Goto(t, "op_done") /\ UNCHANGED <<guards, loc>>
              /\ UNCHANGED <<tl, nstate, budget, flush, alive, bad, last, memvars>>

\* ---------------------------------------------------------------- enter_critical / enter_region
\* enter_region: ++region_entries == 1 (eager: set the flag); then ++nested == 1: do_enter_critical
ec_begin(t) ==
  /\ pc[t] = "ec_begin"
  /\ LET first == Ext # "none" /\ tl[t].regions = 0
         outer == tl[t].nested = 0 IN
     /\ tl' = [tl EXCEPT ![t].regions = IF Ext # "none" THEN @ + 1 ELSE @, ![t].nested = @ + 1]
     /\ Goto(t, IF first /\ Ext = "eager" THEN "c_flag"
                ELSE IF outer THEN (IF Ext = "none" THEN "c_flag" ELSE IF Ext = "lazy" THEN "c_ldflag" ELSE "c_ge")
                ELSE loc[t].after)
     /\ loc' = [loc EXCEPT ![t].u = IF outer THEN 1 ELSE 0]      \* u = 1: do_enter_critical still to run
  /\ UNCHANGED <<guards, nstate, budget, flush, alive, bad, last, memvars>>
c_ldflag(t) == /\ pc[t] = "c_ldflag"
               /\ \E i \in Readable(t, CRIT(t), Ord["c_ldflag"]) :
                    /\ Load(t, CRIT(t), Ord["c_ldflag"], i) /\ Acc(t, "ld", "c_ldflag", 0, 1)
                    /\ Goto(t, IF ValAt(CRIT(t), i) THEN "c_ge" ELSE "c_flag")
               /\ UNCHANGED loc /\ UG
c_flag(t) == /\ pc[t] = "c_flag"
             /\ Store(t, CRIT(t), TRUE, Ord["c_flag"]) /\ Acc(t, "st", "c_flag", 1, 1)
             /\ Goto(t, "c_fence") /\ UNCHANGED loc /\ UG
c_fence(t) == /\ pc[t] = "c_fence"
              /\ Fence(t, Ord["c_fence"]) /\ Acc(t, "fence", "c_fence", 0, 1)
              /\ Goto(t, IF loc[t].op = "region_enter" THEN "op_done" ELSE IF loc[t].u = 1 THEN "c_ge" ELSE loc[t].after)
              /\ UNCHANGED loc /\ UG
\* do_enter_critical: epoch = global_epoch.load(acquire)
c_ge(t) == /\ pc[t] = "c_ge"
           /\ \E i \in Readable(t, GE, Ord["c_ge"]) :
                /\ Load(t, GE, Ord["c_ge"], i) /\ Acc(t, "ld", "c_ge", ValAt(GE, i), 1)
                /\ loc' = [loc EXCEPT ![t].epoch = ValAt(GE, i)]
           /\ Goto(t, "c_le") /\ UG
c_le(t) == /\ pc[t] = "c_le"
           /\ \E i \in Readable(t, LE(t), Ord["c_le"]) :
                /\ Load(t, LE(t), Ord["c_le"], i) /\ Acc(t, "ld", "c_le", ValAt(LE(t), i), 1)
                /\ IF ValAt(LE(t), i) # loc[t].epoch
                     THEN /\ tl' = [tl EXCEPT ![t].since = 0] /\ Goto(t, "u_le") /\ UNCHANGED loc
                     ELSE IF tl[t].since = ScanFreq
                            THEN /\ tl' = [tl EXCEPT ![t].since = 0] /\ loc' = [loc EXCEPT ![t].n = 0] /\ Goto(t, "s_crit")
                            ELSE /\ tl' = [tl EXCEPT ![t].since = @ + 1] /\ Goto(t, loc[t].after) /\ UNCHANGED loc
           /\ UNCHANGED <<guards, nstate, budget, flush, alive, bad>>
\* scan(epoch): all_threads (ScanN = 0) looks at every block; n_threads keeps an iterator across calls
ScanDone(t) == IF ScanN = 0 THEN tl[t].scanIt = NT ELSE loc[t].n = ScanN \/ tl[t].scanIt = NT
s_crit(t) == /\ pc[t] = "s_crit"
             /\ IF ScanDone(t)
                  THEN /\ Goto(t, IF tl[t].scanIt = NT THEN "g_ld" ELSE loc[t].after) /\ UNCHANGED <<loc, tl, last, memvars>>
                  ELSE LET u == tl[t].scanIt IN
                       \E i \in Readable(t, CRIT(u), Ord["s_crit"]) :
                          /\ Load(t, CRIT(u), Ord["s_crit"], i) /\ Acc(t, "ld", "s_crit", 0, 1)
                          /\ IF ValAt(CRIT(u), i)
                               THEN Goto(t, "s_le") /\ UNCHANGED <<loc, tl>>
                               ELSE /\ tl' = [tl EXCEPT ![t].scanIt = @ + 1] /\ loc' = [loc EXCEPT ![t].n = @ + 1] /\ UNCHANGED pc
             /\ UNCHANGED <<guards, nstate, budget, flush, alive, bad>>
s_le(t) == /\ pc[t] = "s_le"
           /\ LET u == tl[t].scanIt IN
              \E i \in Readable(t, LE(u), Ord["s_le"]) :
                 /\ Load(t, LE(u), Ord["s_le"], i) /\ Acc(t, "ld", "s_le", ValAt(LE(u), i), 1)
                 /\ IF ValAt(LE(u), i) = loc[t].epoch \/ ~StaleBlocks
                      THEN /\ tl' = [tl EXCEPT ![t].scanIt = @ + 1] /\ loc' = [loc EXCEPT ![t].n = @ + 1] /\ Goto(t, "s_crit")
                      ELSE \* this thread prevents the advance: all_threads gives up (and starts over next time), n_threads stays on it
                           /\ tl' = IF ScanN = 0 THEN [tl EXCEPT ![t].scanIt = 0] ELSE tl
                           /\ Goto(t, loc[t].after) /\ UNCHANGED loc
           /\ UNCHANGED <<guards, nstate, budget, flush, alive, bad>>
\* update_global_epoch(epoch, epoch + 1)
g_ld(t) == /\ pc[t] = "g_ld"
           /\ \E i \in Readable(t, GE, Ord["g_ld"]) :
                /\ Load(t, GE, Ord["g_ld"], i) /\ Acc(t, "ld", "g_ld", ValAt(GE, i), 1)
                /\ Goto(t, IF ValAt(GE, i) = loc[t].epoch THEN "g_fence" ELSE "g_done")
           /\ UNCHANGED loc /\ UG
g_fence(t) == /\ pc[t] = "g_fence"
              /\ Fence(t, Ord["g_fence"]) /\ Acc(t, "fence", "g_fence", 0, 1)
              /\ Goto(t, IF AdoptFirst THEN "g_adopt" ELSE "g_cas") /\ UNCHANGED loc /\ UG
\* orphans[new_epoch % number_epochs].adopt(): an exchange with null (skipped when the list looks empty)
NewIdx(t) == (loc[t].epoch + 1) % NumEpochs
g_adopt(t) == /\ pc[t] = "g_adopt"
              /\ LET i == NewIdx(t) S == Latest(ORPH(i)) IN
                 /\ Rmw(t, ORPH(i), {}, Ord["o_adopt"]) /\ Acc(t, "xchg", "o_adopt", 0, 1)
                 /\ IF AdoptFirst
                      THEN /\ loc' = [loc EXCEPT ![t].adopted = S] /\ Goto(t, "g_cas") /\ UNCHANGED <<nstate, bad>>
                      ELSE /\ Delete(t, S) /\ Goto(t, "g_done") /\ UNCHANGED loc
              /\ UNCHANGED <<guards, tl, budget, flush, alive>>
g_cas(t) == /\ pc[t] = "g_cas"
            /\ IF Latest(GE) = loc[t].epoch
                 THEN /\ Rmw(t, GE, loc[t].epoch + 1, Ord["g_cas"]) /\ Acc(t, "cas", "g_cas", loc[t].epoch, 1)
                      /\ IF AdoptFirst THEN Delete(t, loc[t].adopted) /\ Goto(t, "g_done") ELSE Goto(t, "g_adopt") /\ UNCHANGED <<nstate, bad>>
                      /\ loc' = [loc EXCEPT ![t].adopted = {}]
                 ELSE /\ CasFail(t, GE, Ord["casf"]) /\ Acc(t, "cas", "g_cas", Latest(GE), 0)
                      /\ Goto(t, IF loc[t].adopted # {} THEN "g_giveback" ELSE "g_done") /\ UNCHANGED <<loc, nstate, bad>>
            /\ UNCHANGED <<guards, tl, budget, flush, alive>>
\* the CAS failed: somebody else has advanced the epoch, the adopted nodes go back to the orphan list
g_giveback(t) == /\ pc[t] = "g_giveback"
                 /\ Rmw(t, ORPH(NewIdx(t)), Latest(ORPH(NewIdx(t))) \cup loc[t].adopted, Ord["o_add"]) /\ Acc(t, "cas", "o_add", 0, 1)
                 /\ loc' = [loc EXCEPT ![t].adopted = {}]
                 /\ Goto(t, "g_done") /\ UG
g_done(t) == /\ pc[t] = "g_done"       \* epoch = new_epoch (whether or not the CAS succeeded)
             /\ loc' = [loc EXCEPT ![t].epoch = @ + 1]
             /\ Goto(t, "u_le")
             /\ UNCHANGED <<guards, tl, nstate, budget, flush, alive, bad, last, memvars>>
\* update_local_epoch(epoch)
u_le(t) == /\ pc[t] = "u_le"
           /\ \E i \in Readable(t, LE(t), Ord["u_le"]) :
                /\ Load(t, LE(t), Ord["u_le"], i) /\ Acc(t, "ld", "u_le", ValAt(LE(t), i), 1)
                /\ loc' = [loc EXCEPT ![t].n = ValAt(LE(t), i)]        \* old_epoch
           /\ Goto(t, "u_stle") /\ UG
u_stle(t) == /\ pc[t] = "u_stle"
             /\ Store(t, LE(t), loc[t].epoch, Ord["u_stle"]) /\ Acc(t, "st", "u_stle", loc[t].epoch, 1)
             /\ LET new == loc[t].epoch old == loc[t].n
                    diff == Min(NumEpochs, new - old)
                    idxs == {(new - i) % NumEpochs : i \in 0 .. diff - 1}
                    S == UNION {tl[t].rl[i] : i \in idxs} IN
                /\ Delete(t, S)
                /\ tl' = [tl EXCEPT ![t].rl = [i \in EpIdx |-> IF i \in idxs THEN {} ELSE tl[t].rl[i]],
                                    ![t].idx = new % NumEpochs, ![t].scanIt = 0]
             /\ Goto(t, loc[t].after)
             /\ UNCHANGED <<loc, guards, budget, flush, alive>>

\* ---------------------------------------------------------------- leave_critical / leave_region
lc_begin(t) ==
  /\ pc[t] = "lc_begin"
  /\ LET inner == tl[t].nested = 1
         lastRegion == Ext # "none" /\ tl[t].regions = 1 IN
     /\ tl' = [tl EXCEPT ![t].nested = @ - 1, ![t].regions = IF Ext # "none" THEN @ - 1 ELSE @]
     /\ Goto(t, IF (inner /\ Ext = "none") \/ lastRegion THEN "l_flag" ELSE loc[t].after)
  /\ UNCHANGED <<loc, guards, nstate, budget, flush, alive, bad, last, memvars>>
\* clear_critical_region_flag: release store, then the abandon strategy for every retire list
l_flag(t) == /\ pc[t] = "l_flag"
             /\ Store(t, CRIT(t), FALSE, Ord["l_flag"]) /\ Acc(t, "st", "l_flag", 0, 1)
             /\ loc' = [loc EXCEPT ![t].n = 0]
             /\ Goto(t, IF Abandon = "never" THEN loc[t].after ELSE "l_abandon")
             /\ UG
l_abandon(t) == /\ pc[t] = "l_abandon"
                /\ IF loc[t].n = NumEpochs
                     THEN Goto(t, loc[t].after) /\ UNCHANGED <<loc, tl, last, memvars>>
                     ELSE LET i == loc[t].n
                              go == tl[t].rl[i] # {} /\ (Abandon = "always" \/ Cardinality(tl[t].rl[i]) >= AbT) IN
                          /\ IF go THEN /\ Rmw(t, ORPH(i), Latest(ORPH(i)) \cup tl[t].rl[i], Ord["o_add"]) /\ Acc(t, "cas", "o_add", 0, 1)
                                        /\ tl' = [tl EXCEPT ![t].rl[i] = {}]
                             ELSE UNCHANGED <<tl, last, memvars>>
                          /\ loc' = [loc EXCEPT ![t].n = @ + 1] /\ UNCHANGED pc
                /\ UNCHANGED <<guards, nstate, budget, flush, alive, bad>>

\* ---------------------------------------------------------------- region_guard
rg_enter(t) == /\ pc[t] = "rg_enter"
               /\ tl' = [tl EXCEPT ![t].regions = @ + 1, ![t].rg = TRUE]
               /\ Goto(t, IF tl[t].regions = 0 /\ Ext = "eager" THEN "c_flag" ELSE "op_done")
               /\ loc' = [loc EXCEPT ![t].u = 0, ![t].after = "op_done"]
               /\ UNCHANGED <<guards, nstate, budget, flush, alive, bad, last, memvars>>
rg_leave(t) == /\ pc[t] = "rg_leave"
               /\ tl' = [tl EXCEPT ![t].regions = @ - 1, ![t].rg = FALSE]
               /\ Goto(t, IF tl[t].regions = 1 THEN "l_flag" ELSE "op_done")
               /\ loc' = [loc EXCEPT ![t].after = "op_done"]
               /\ UNCHANGED <<guards, nstate, budget, flush, alive, bad, last, memvars>>

\* ---------------------------------------------------------------- replace: CAS a fresh node into the cell, reclaim the old one
FreshIds == {n \in Nodes : nstate[n] = "free"}
op_done(t) ==
  /\ pc[t] = "op_done"
  /\ CASE loc[t].op = "replace" /\ guards[t][loc[t].g] # 0 /\ FreshIds # {} ->
            /\ \E n \in FreshIds : /\ loc' = [loc EXCEPT ![t].fresh = n, ![t].op = "replace2"]
                                   /\ nstate' = [nstate EXCEPT ![n] = "live"]
                                   /\ FreshWr(t, PAY(n), 0)           \* the constructor writes the payload
            /\ Goto(t, "x_cas") /\ UNCHANGED guards
       [] loc[t].op = "flushcycle" /\ guards[t][loc[t].g] # 0 ->      \* the idle cycle ends with a reset
            /\ loc' = [loc EXCEPT ![t].op = "flushreset"] /\ Goto(t, "r_begin") /\ UNCHANGED <<nstate, guards, memvars>>
       [] OTHER -> Goto(t, "idle") /\ UNCHANGED <<loc, nstate, guards, memvars>>
  /\ UNCHANGED <<tl, budget, flush, alive, bad, last>>
x_cas(t) == /\ pc[t] = "x_cas"
            /\ LET x == CELL(loc[t].c) old == guards[t][loc[t].g] IN
               IF Latest(x) = old
                 THEN /\ Rmw(t, x, loc[t].fresh, Ord["x_cas"]) /\ Acc(t, "cas", "x_cas", old, 1)
                      \* reclaim(): add_retired_node(ptr) into retire_lists[local_epoch_idx], then reset()
                      /\ nstate' = [nstate EXCEPT ![old] = "ret"]
                      /\ tl' = [tl EXCEPT ![t].rl[tl[t].idx] = @ \cup {old}]
                      /\ Goto(t, "r_begin")
                 ELSE /\ CasFail(t, x, Ord["casf"]) /\ Acc(t, "cas", "x_cas", Latest(x), 0)
                      /\ nstate' = [nstate EXCEPT ![loc[t].fresh] = "free"]
                      /\ Goto(t, "op_done") /\ UNCHANGED tl
            /\ loc' = [loc EXCEPT ![t].op = "replace3"]
            /\ UNCHANGED <<guards, budget, flush, alive, bad>>

ThreadStep(t) == \/ StartAcquire(t) \/ StartReplace(t) \/ StartReset(t) \/ StartFlush(t) \/ StartRegion(t) \/ EndRegion(t) \/ Touch(t)
                 \/ StartExit(t) \/ x_orph(t)
                 \/ a_ld1(t) \/ a_ld2(t) \/ r_begin(t) \/ ec_begin(t) \/ c_ldflag(t) \/ c_flag(t) \/ c_fence(t) \/ c_ge(t) \/ c_le(t)
                 \/ s_crit(t) \/ s_le(t) \/ g_ld(t) \/ g_fence(t) \/ g_cas(t) \/ g_adopt(t) \/ g_giveback(t) \/ g_done(t) \/ u_le(t) \/ u_stle(t)
                 \/ lc_begin(t) \/ l_flag(t) \/ l_abandon(t) \/ rg_enter(t) \/ rg_leave(t) \/ op_done(t) \/ x_cas(t)
Next == \E t \in Threads : ThreadStep(t)
Spec == Init /\ [][Next]_vars
EpochBound == Latest(GE) <= MaxEpoch

\* ---------------------------------------------------------------- properties
\* C01: a guard that is established (its thread is not inside an operation on it) never refers to a destroyed object
Established(t, g) == pc[t] = "idle" \/ loc[t].g # g
Safe == /\ bad = "ok"
        /\ \A t \in Threads, g \in 1 .. NG : (Established(t, g) /\ guards[t][g] # 0) => nstate[guards[t][g]] \in {"live", "ret"}
\* C02 / C17: when every thread has finished its program and all its flush cycles or has exited, nothing retired remains
Quiescent == /\ \A t \in Threads : pc[t] = "idle" /\ budget[t] = 0 /\ (~alive[t] \/ flush[t] = 0) /\ ~tl[t].rg /\ \A g \in 1 .. NG : guards[t][g] = 0
             /\ \E t \in Threads : alive[t]
NoLeak == Quiescent => \A n \in Nodes : nstate[n] # "ret"
=============================================================================
