---------------------------- MODULE GuardAlgebra ----------------------------
(***************************************************************************)
(* The guard_ptr smart-pointer algebra (C15b) as a small state machine     *)
(* over an adversarial reclaimer: guards hold objects, cells hold objects, *)
(* a retired object may be destroyed at ANY step at which no guard holds   *)
(* it.  TLC checks the laws for all operation sequences up to MaxLen and   *)
(* emits every sequence ("SEQ" lines); the driver replays each of them on  *)
(* every real reclaimer, where abs/Reclamation checks the same laws on the *)
(* observed guard contents (R: behaviours of the spec -> real code).       *)
(*                                                                         *)
(* Laws: copy shares protection (both keep the object alive independently),*)
(* move empties the source, swap exchanges, self assignment and double     *)
(* reset are harmless, reclaim empties the guard and retires its object,   *)
(* an object held by some guard is never destroyed.                        *)
(***************************************************************************)
EXTENDS Integers, Sequences, FiniteSets, TLC

CONSTANTS NGuards, NCells, MaxLen
Guards == 0 .. NGuards - 1
Cells == 0 .. NCells - 1
VARIABLES G, cells, nextid, retired, destroyed, h, lastop
vars == <<G, cells, nextid, retired, destroyed, h, lastop>>

Init == /\ G = [g \in Guards |-> 0]
        /\ cells = [c \in Cells |-> c + 1]
        /\ nextid = NCells + 1
        /\ retired = {} /\ destroyed = {}
        /\ h = <<>> /\ lastop = <<"init", 0, 0>>

Tok(name, a, b) == name \o ToString(a) \o ":" \o ToString(b)
Tok1(name, a) == name \o ToString(a)
Rec(tok, op) == h' = Append(h, tok) /\ lastop' = op /\ Len(h) < MaxLen

Acq(g, c) == /\ G' = [G EXCEPT ![g] = cells[c]] /\ Rec(Tok("acq", c, g), <<"acq", g, c>>)
             /\ UNCHANGED <<cells, nextid, retired, destroyed>>
AcqE(g, c) == /\ G' = [G EXCEPT ![g] = cells[c]] /\ Rec(Tok("acqe", c, g), <<"acq", g, c>>)   \* sequentially the expected value matches
              /\ UNCHANGED <<cells, nextid, retired, destroyed>>
Rst(g) == /\ G' = [G EXCEPT ![g] = 0] /\ Rec(Tok1("rst", g), <<"rst", g, g>>)
          /\ UNCHANGED <<cells, nextid, retired, destroyed>>
Cpy(g, k) == /\ g # k /\ G' = [G EXCEPT ![k] = G[g]] /\ Rec(Tok("cpy", g, k), <<"cpy", g, k>>)
             /\ UNCHANGED <<cells, nextid, retired, destroyed>>
Mov(g, k) == /\ g # k /\ G' = [G EXCEPT ![k] = G[g], ![g] = 0] /\ Rec(Tok("mov", g, k), <<"mov", g, k>>)
             /\ UNCHANGED <<cells, nextid, retired, destroyed>>
Swg(g, k) == /\ g < k /\ G' = [G EXCEPT ![k] = G[g], ![g] = G[k]] /\ Rec(Tok("swg", g, k), <<"swg", g, k>>)
             /\ UNCHANGED <<cells, nextid, retired, destroyed>>
Sfa(g) == /\ Rec(Tok1("sfa", g), <<"sfa", g, g>>) /\ UNCHANGED <<G, cells, nextid, retired, destroyed>>
Cgd(g) == /\ Rec(Tok("cgd", 0, g), <<"cgd", g, g>>) /\ UNCHANGED <<G, cells, nextid, retired, destroyed>>
\* unlink + reclaim through guard g: the guard ends up empty, the old object is retired
Swp(c, g) == /\ cells' = [cells EXCEPT ![c] = nextid] /\ nextid' = nextid + 1
             /\ retired' = retired \cup {cells[c]}
             /\ G' = [G EXCEPT ![g] = 0]
             /\ Rec(Tok("swp", c, g), <<"swp", g, c>>)
             /\ UNCHANGED destroyed
\* adversarial reclaimer
Destroy(o) == /\ o \in retired \ destroyed /\ \A g \in Guards : G[g] # o
              /\ destroyed' = destroyed \cup {o}
              /\ UNCHANGED <<G, cells, nextid, retired, h, lastop>>

Next == \/ \E g \in Guards, c \in Cells : Acq(g, c) \/ AcqE(g, c) \/ Swp(c, g)
        \/ \E g \in Guards : Rst(g) \/ Sfa(g) \/ Cgd(g)
        \/ \E g, k \in Guards : Cpy(g, k) \/ Mov(g, k) \/ Swg(g, k)
        \/ \E o \in 1 .. NCells + MaxLen : Destroy(o)
Spec == Init /\ [][Next]_vars

Protected == \A g \in Guards : G[g] # 0 => G[g] \notin destroyed
\* the laws, as properties of each step
Laws == [][ /\ (lastop'[1] = "cpy" /\ h' # h) => (G'[lastop'[3]] = G[lastop'[2]] /\ G'[lastop'[2]] = G[lastop'[2]])
            /\ (lastop'[1] = "mov" /\ h' # h) => (G'[lastop'[3]] = G[lastop'[2]] /\ G'[lastop'[2]] = 0)
            /\ (lastop'[1] = "sfa" /\ h' # h) => G' = G
            /\ (lastop'[1] = "rst" /\ h' # h) => G'[lastop'[2]] = 0 ]_vars
\* emit complete sequences (evaluated as a state constraint; always TRUE)
Emit == (Len(h) = MaxLen) => PrintT(<<"SEQ", h>>)
\* destruction is only interesting up to the emitted sequence; keep the graph finite
=============================================================================
