------------------------------ MODULE HPDynamic ------------------------------
(***************************************************************************)
(* The dynamic allocation strategy of xenium::reclamation::hazard_pointer  *)
(* (and, with eras instead of pointers, hazard_eras): a thread that needs  *)
(* more than K hazard pointers allocates an extra block of slots, links    *)
(* the slots into its free list, hangs the block in front of its block     *)
(* list (block->next = hp_block, plain) and publishes it with a release    *)
(* store of hp_block.  A scanning thread gathers the K slots of the        *)
(* control block and then walks the block list: acquire load of hp_block,  *)
(* the slots of each block, plain block->next.                             *)
(* (impl/hazard_pointer.hpp: dynamic_hp_thread_control_block 283-352,      *)
(* alloc_hazard_pointer 208-216, scan 391-414)                             *)
(*                                                                         *)
(* One OWNER thread (0) acquires guards on the objects of NCells cells -    *)
(* more guards than K, so that blocks are allocated while earlier guards   *)
(* are live - and one RECLAIMER thread (1) replaces the content of a cell, *)
(* retires the old object and scans.  Objects are 1 .. NObj, slots are     *)
(* numbered globally: 1 .. K the control block, then KX per extra block.   *)
(*   InitThenLink = FALSE: block->next is set BEFORE initialize_block, so  *)
(*   the initialisation runs on into the older block and wipes live slots  *)
(*   (seeded changes c01_1 / c18_1).                                       *)
(*   the order of "publish" is Ord["b_pub"] (seeded change c03_1: relaxed).*)
(***************************************************************************)
EXTENDS Mem, TLC

CONSTANTS K, KX, NBlocks, NCells, NObj, MaxScans, Ord,
          InitThenLink,   \* TRUE: initialize_block(new block) first, then block->next = hp_block (code)
          Revalidate      \* TRUE: acquire re-reads the cell after publishing the hazard pointer (code)

OrdCode == [a_ld1 |-> "rlx", a_link |-> "rlx", a_pub |-> "rel", a_fence |-> "sc", a_ld2 |-> "acq", b_init |-> "rel", b_ldh |-> "rlx", b_pub |-> "rel",
            x_cas |-> "rel", casf |-> "rlx", s_fence1 |-> "sc", s_ld |-> "rlx", s_ldb |-> "acq", s_fence2 |-> "acq"]

ThreadsDef == {0, 1}
Owner == 0
Recl == 1
Cells == 0 .. NCells - 1
Objs == 1 .. NObj
NSlots == K + NBlocks * KX
Slots == 1 .. NSlots
Blocks == 1 .. NBlocks
First(b) == K + (b - 1) * KX + 1            \* first slot of extra block b
LastS(b) == K + b * KX
CELL(c) == <<"cell", c>>
SLOT(s) == <<"slot", s>>
HPB == <<"hpb", 0>>                          \* hp_block: head of the owner's list of extra blocks (atomic)
BNEXT(b) == <<"bnext", b>>                   \* block->next (plain)
PAY(o) == <<"pay", o>>
LocsDef == {HPB} \cup {CELL(c) : c \in Cells} \cup {SLOT(s) : s \in Slots} \cup {BNEXT(b) : b \in Blocks} \cup {PAY(o) : o \in Objs}
           \cup (IF Weak THEN {RT(BNEXT(b), u) : b \in Blocks, u \in ThreadsDef} \cup {RT(PAY(o), u) : o \in Objs, u \in ThreadsDef} ELSE {})
\* slot values: o > 0 protects object o; -(j+1) free-list link to slot j (j = 0: end of list)
Link(j) == -(j + 1)
IsObj(v) == v > 0
InitValDef(x) == IF x[1] = "cell" THEN x[2] + 1
                 ELSE IF x[1] = "slot" THEN (IF x[2] < K THEN Link(x[2] + 1) ELSE Link(0))
                 ELSE 0

VARIABLES pc, loc, guards, hint, nblk, ostate, retired, scans, bad
vars == <<pc, loc, guards, hint, nblk, ostate, retired, scans, bad, memvars>>
mcview == vars

L0 == [c |-> 0, p |-> 0, s |-> 0, j |-> 0, b |-> 0, cur |-> 0, prot |-> {}, old |-> 0, fresh |-> 0]
Init == /\ MemInit
        /\ pc = [t \in Threads |-> "idle"]
        /\ loc = [t \in Threads |-> L0]
        /\ guards = [c \in Cells |-> [obj |-> 0, slot |-> 0]]        \* the owner keeps one guard per cell
        /\ hint = 1                                                   \* head of the owner's free list of slots
        /\ nblk = 0                                                   \* extra blocks allocated
        /\ ostate = [o \in Objs |-> IF o <= NCells THEN "live" ELSE "free"]
        /\ retired = {}
        /\ scans = MaxScans
        /\ bad = "ok"

Goto(t, l) == pc' = [pc EXCEPT ![t] = l]
UO == UNCHANGED <<guards, hint, nblk, ostate, retired, scans, bad>>

\* ---------------------------------------------------------------- owner: guard c := acquire(cell c), cells in ascending order
NextCell == IF \E c \in Cells : guards[c].obj = 0 THEN CHOOSE c \in Cells : guards[c].obj = 0 /\ \A d \in Cells : guards[d].obj = 0 => c <= d ELSE -1
StartAcquire == /\ pc[Owner] = "idle" /\ NextCell # -1
                /\ loc' = [loc EXCEPT ![Owner] = [L0 EXCEPT !.c = NextCell]]
                /\ Goto(Owner, "a_ld1") /\ UO /\ UNCHANGED memvars
a_ld1 == /\ pc[Owner] = "a_ld1"
         /\ LET x == CELL(loc[Owner].c) IN
            \E i \in Readable(Owner, x, Ord["a_ld1"]) :
              /\ Load(Owner, x, Ord["a_ld1"], i)
              /\ loc' = [loc EXCEPT ![Owner].p = ValAt(x, i)]
         /\ Goto(Owner, IF guards[loc[Owner].c].slot # 0 THEN "a_pub" ELSE IF hint # 0 THEN "a_link" ELSE "b_alloc") /\ UO
\* alloc_hazard_pointer: result = hint; hint = result->get_link()
a_link == /\ pc[Owner] = "a_link"
          /\ LET s == hint x == SLOT(s) IN
             \E i \in Readable(Owner, x, Ord["a_link"]) :
               /\ Load(Owner, x, Ord["a_link"], i)
               /\ hint' = -(ValAt(x, i)) - 1
               /\ guards' = [guards EXCEPT ![loc[Owner].c].slot = s]
               /\ bad' = IF bad = "ok" /\ IsObj(ValAt(x, i)) THEN "the free list runs through a slot that protects an object" ELSE bad
          /\ Goto(Owner, "a_pub")
          /\ UNCHANGED <<loc, nblk, ostate, retired, scans>>
\* need_more_hps -> allocate_new_hazard_pointer_block: initialize_block links the new slots (release stores) ...
b_alloc == /\ pc[Owner] = "b_alloc" /\ nblk < NBlocks
           /\ nblk' = nblk + 1
           /\ loc' = [loc EXCEPT ![Owner].b = nblk + 1, ![Owner].j = First(nblk + 1)]
           /\ Goto(Owner, IF InitThenLink THEN "b_init" ELSE "b_ldh")
           /\ UNCHANGED <<guards, hint, ostate, retired, scans, bad, memvars>>
\* one slot per step; the last slot of a block links to block.initialize_next_block(): the first slot of block->next after
\* (re)initialising that block too - null for a block whose next is still unset
BlockOf(s) == IF s <= K THEN 0 ELSE ((s - K - 1) \div KX) + 1
b_init == /\ pc[Owner] = "b_init"
          /\ LET s == loc[Owner].j b == BlockOf(s) IN
             IF s < LastS(b)
               THEN /\ Store(Owner, SLOT(s), Link(s + 1), Ord["b_init"]) /\ loc' = [loc EXCEPT ![Owner].j = s + 1] /\ UNCHANGED pc
               ELSE LET nx == Latest(BNEXT(b)) IN      \* plain read of block->next by its owner
                    IF nx = 0
                      THEN /\ Store(Owner, SLOT(s), Link(0), Ord["b_init"]) /\ UNCHANGED loc
                           /\ Goto(Owner, IF InitThenLink THEN "b_ldh" ELSE "b_pub")
                      ELSE \* the initialisation continues in the next (older) block
                           /\ Store(Owner, SLOT(s), Link(First(nx)), Ord["b_init"]) /\ loc' = [loc EXCEPT ![Owner].j = First(nx)] /\ UNCHANGED pc
          /\ UO
\* block->next = hp_block.load(relaxed)
b_ldh == /\ pc[Owner] = "b_ldh"
         /\ \E i \in Readable(Owner, HPB, Ord["b_ldh"]) :
              /\ Load(Owner, HPB, Ord["b_ldh"], i)
              /\ loc' = [loc EXCEPT ![Owner].cur = ValAt(HPB, i)]
         /\ Goto(Owner, "b_setn") /\ UO
b_setn == /\ pc[Owner] = "b_setn"
          /\ PlainWr(Owner, BNEXT(loc[Owner].b), loc[Owner].cur)
          /\ Goto(Owner, IF InitThenLink THEN "b_pub" ELSE "b_init")
          /\ UNCHANGED loc /\ UO
\* (7) hp_block.store(block, release); the first slot of the new block is the result, the rest becomes the free list
b_pub == /\ pc[Owner] = "b_pub"
         /\ Store(Owner, HPB, loc[Owner].b, Ord["b_pub"])
         /\ hint' = First(loc[Owner].b)
         /\ Goto(Owner, "a_link")
         /\ UNCHANGED <<loc, guards, nblk, ostate, retired, scans, bad>>
\* set_object: publish, fence, re-validate
a_pub == /\ pc[Owner] = "a_pub"
         /\ Store(Owner, SLOT(guards[loc[Owner].c].slot), loc[Owner].p, Ord["a_pub"])
         /\ Goto(Owner, "a_fence") /\ UNCHANGED loc /\ UO
a_fence == /\ pc[Owner] = "a_fence"
           /\ Fence(Owner, Ord["a_fence"])
           /\ Goto(Owner, IF Revalidate THEN "a_ld2" ELSE "a_got") /\ UNCHANGED loc /\ UO
a_ld2 == /\ pc[Owner] = "a_ld2"
         /\ LET x == CELL(loc[Owner].c) IN
            \E i \in Readable(Owner, x, Ord["a_ld2"]) :
              /\ Load(Owner, x, Ord["a_ld2"], i)
              /\ IF ValAt(x, i) = loc[Owner].p THEN Goto(Owner, "a_got") /\ UNCHANGED loc
                 ELSE loc' = [loc EXCEPT ![Owner].p = ValAt(x, i)] /\ Goto(Owner, "a_pub")
         /\ UO
a_got == /\ pc[Owner] = "a_got"
         /\ guards' = [guards EXCEPT ![loc[Owner].c].obj = loc[Owner].p]
         /\ Goto(Owner, "idle")
         /\ UNCHANGED <<loc, hint, nblk, ostate, retired, scans, bad, memvars>>
\* the owner dereferences what its established guards protect
Touch == /\ pc[Owner] = "idle"
         /\ \E c \in Cells : /\ guards[c].obj # 0
                             /\ bad' = IF bad = "ok" /\ ostate[guards[c].obj] = "des" THEN "touch of a destroyed object" ELSE bad
                             /\ PlainRd(Owner, PAY(guards[c].obj))
         /\ UNCHANGED <<pc, loc, guards, hint, nblk, ostate, retired, scans>>

\* ---------------------------------------------------------------- reclaimer: replace the object of a cell, retire the old one, scan
StartReplace == /\ pc[Recl] = "idle" /\ scans > 0
                /\ \E c \in Cells, o \in Objs :
                     /\ ostate[o] = "free" /\ \A m \in Objs : ostate[m] = "free" => o <= m
                     /\ loc' = [loc EXCEPT ![Recl] = [L0 EXCEPT !.c = c, !.fresh = o, !.old = Latest(CELL(c))]]
                     /\ ostate' = [ostate EXCEPT ![o] = "live"]
                /\ scans' = scans - 1
                /\ Goto(Recl, "x_cas")
                /\ UNCHANGED <<guards, hint, nblk, retired, bad, memvars>>
x_cas == /\ pc[Recl] = "x_cas"
         /\ Rmw(Recl, CELL(loc[Recl].c), loc[Recl].fresh, Ord["x_cas"])
         /\ ostate' = [ostate EXCEPT ![loc[Recl].old] = "ret"]
         /\ retired' = retired \cup {loc[Recl].old}
         /\ loc' = [loc EXCEPT ![Recl].s = 1, ![Recl].prot = {}, ![Recl].cur = -1]
         /\ Goto(Recl, "s_fence1")
         /\ UNCHANGED <<guards, hint, nblk, scans, bad>>
s_fence1 == /\ pc[Recl] = "s_fence1"
            /\ Fence(Recl, Ord["s_fence1"])
            /\ Goto(Recl, "s_ld") /\ UNCHANGED loc /\ UO
\* gather: the K slots of the control block, then the blocks from hp_block on
s_ld == /\ pc[Recl] = "s_ld"
        /\ LET s == loc[Recl].s x == SLOT(s) b == BlockOf(s) IN
           \E i \in Readable(Recl, x, Ord["s_ld"]) :
             LET v == ValAt(x, i) IN
             /\ Load(Recl, x, Ord["s_ld"], i)
             /\ loc' = [loc EXCEPT ![Recl].prot = IF IsObj(v) THEN @ \cup {v} ELSE @, ![Recl].s = s + 1]
             /\ Goto(Recl, IF b = 0 THEN (IF s = K THEN "s_ldb" ELSE "s_ld") ELSE (IF s = LastS(b) THEN "s_nextb" ELSE "s_ld"))
        /\ UO
\* (6) next_block(): hp_block.load(acquire)
s_ldb == /\ pc[Recl] = "s_ldb"
         /\ \E i \in Readable(Recl, HPB, Ord["s_ldb"]) :
              /\ Load(Recl, HPB, Ord["s_ldb"], i)
              /\ IF ValAt(HPB, i) = 0 THEN Goto(Recl, "s_fence2") /\ UNCHANGED loc
                 ELSE loc' = [loc EXCEPT ![Recl].cur = ValAt(HPB, i), ![Recl].s = First(ValAt(HPB, i))] /\ Goto(Recl, "s_ld")
         /\ UO
\* block.next_block(): plain read of block->next
s_nextb == /\ pc[Recl] = "s_nextb"
           /\ LET b == loc[Recl].cur IN
              /\ PlainRd(Recl, BNEXT(b))
              /\ IF Latest(BNEXT(b)) = 0 THEN Goto(Recl, "s_fence2") /\ UNCHANGED loc
                 ELSE loc' = [loc EXCEPT ![Recl].cur = Latest(BNEXT(b)), ![Recl].s = First(Latest(BNEXT(b)))] /\ Goto(Recl, "s_ld")
           /\ UO
s_fence2 == /\ pc[Recl] = "s_fence2"
            /\ Fence(Recl, Ord["s_fence2"])
            /\ Goto(Recl, "s_free") /\ UNCHANGED loc /\ UO
s_free == /\ pc[Recl] = "s_free"
          /\ LET del == retired \ loc[Recl].prot IN
             IF del = {} THEN Goto(Recl, "idle") /\ UNCHANGED <<ostate, retired, bad, memvars>>
             ELSE LET o == CHOOSE m \in del : TRUE IN
                  /\ PlainWr(Recl, PAY(o), 0)
                  /\ ostate' = [ostate EXCEPT ![o] = "des"]
                  /\ retired' = retired \ {o}
                  /\ bad' = IF bad = "ok" /\ \E c \in Cells : guards[c].obj = o THEN "an object was destroyed while an established guard protects it" ELSE bad
                  /\ UNCHANGED pc
          /\ UNCHANGED <<loc, guards, hint, nblk, scans>>

Next == \/ StartAcquire \/ a_ld1 \/ a_link \/ b_alloc \/ b_init \/ b_ldh \/ b_setn \/ b_pub \/ a_pub \/ a_fence \/ a_ld2 \/ a_got \/ Touch
        \/ StartReplace \/ x_cas \/ s_fence1 \/ s_ld \/ s_ldb \/ s_nextb \/ s_fence2 \/ s_free
Spec == Init /\ [][Next]_vars

\* ---------------------------------------------------------------- properties
Safe == bad = "ok"                                                   \* C01 / C18 for the dynamic strategy
\* every established guard still owns the slot that carries its object (nothing wiped it)
SlotsIntact == \A c \in Cells : (guards[c].obj # 0 /\ pc[Owner] = "idle") => Latest(SLOT(guards[c].slot)) = guards[c].obj
\* the free list and the guards partition the slots of the published part (no slot is handed out twice)
NoSlotTwice == \A c, d \in Cells : (c # d /\ guards[c].slot # 0) => guards[c].slot # guards[d].slot
=============================================================================
