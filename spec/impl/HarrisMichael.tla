---------------------------- MODULE HarrisMichael ----------------------------
(***************************************************************************)
(* xenium::harris_michael_list_based_set (one bucket of the hash map is    *)
(* the same list), one action per atomic access of find / emplace /        *)
(* erase(key) / contains and of the iterator (begin, ++), over the         *)
(* adversarial abstract reclaimer (see MSQueue): acquire / acquire_if_equal*)
(* atomically read a cell and protect the node, the guard being effective  *)
(* only if the node was not yet retired; retired, unprotected nodes are    *)
(* destroyed at any step and their ids recycled.                           *)
(*                                                                         *)
(* A link is the integer 2 * node + mark (0 = null).  Keys are immutable   *)
(* ghost data of a node (reading the key of a destroyed node is an error). *)
(***************************************************************************)
EXTENDS Mem, LinMon, SetMap, TLC

CONSTANTS NT, NNodes, Keys0Set, KeySet, MaxOps, Ord, AllowIter,
          RecheckPrev,    \* TRUE: find re-reads *prev after reading cur->next unmarked (code)
          MarkCheck,      \* TRUE: find treats a marked cur as deleted and unlinks it (code)
          IterRetry,      \* TRUE: operator++ retries when cur->next changed but is unmarked (fixed code); FALSE: falls into find (old code)
          KeepCurGuard    \* TRUE: the guard on the successor is held until the insertion CAS is done (emplace, emplace_or_get, repaired
                          \* get_or_emplace); FALSE: it is dropped before the CAS (harris_michael_hash_map::do_get_or_emplace_lazy before the
                          \* fix): the successor may be destroyed and its id handed out again (ABA)

OrdCode == [f_ld0 |-> "rlx", f_acq |-> "acq", f_ldn |-> "rlx", f_ldn2 |-> "acq", f_unlink |-> "rel", f_chk |-> "rlx",
            x_stn |-> "rlx", x_cas |-> "rel", e_mark |-> "acq", e_unlink |-> "rel", casf |-> "rlx", b_acq |-> "acq", n_ld |-> "rlx", n_acq |-> "acq"]

RECURSIVE SortSet(_)
SortSet(S) == IF S = {} THEN <<>> ELSE LET mn == CHOOSE x \in S : \A y \in S : x <= y IN <<mn>> \o SortSet(S \ {mn})
Keys0 == SortSet(Keys0Set)     \* initial content, ascending, in nodes 1 .. Len(Keys0)
ThreadsDef == 0 .. NT - 1
Nodes == 1 .. NNodes
HEAD == <<"head", 0>>
NEXT(n) == <<"next", n>>
KEYL(n) == <<"key", n>>                \* the key field of a node: plain, written by the constructor, read by every traversal
LocsDef == {HEAD} \cup {NEXT(n) : n \in Nodes} \cup {KEYL(n) : n \in Nodes}
           \cup (IF Weak THEN {RT(KEYL(n), u) : n \in Nodes, u \in ThreadsDef} ELSE {})
Lnk(n, m) == 2 * n + m
Ptr(l) == l \div 2
Mark(l) == l % 2
\* initial list: the keys of Keys0 (a sequence, ascending) in nodes 1 .. Len(Keys0)
InitValDef(x) == IF x = HEAD THEN (IF Len(Keys0) > 0 THEN Lnk(1, 0) ELSE 0)
                 ELSE IF x[1] = "next" /\ x[2] < Len(Keys0) THEN Lnk(x[2] + 1, 0) ELSE 0

VARIABLES pc, loc, lin, budget, nst, inc, keyof, g, bad, last
vars == <<pc, loc, lin, budget, nst, inc, keyof, g, bad, last, memvars>>
mcview == <<pc, loc, lin, budget, nst, inc, keyof, g, bad, memvars>>

NoG == [n |-> 0, i |-> 0, eff |-> FALSE]
\* find_info + operation context. prev / start are cells (locations); ret = continuation after find
L0 == [op |-> "none", key |-> 0, prev |-> HEAD, start |-> HEAD, next |-> 0, node |-> 0, ret |-> "none", found |-> FALSE, iter |-> FALSE]
G0 == [cur |-> NoG, save |-> NoG, sg |-> NoG, tmp |-> NoG]
AbsInit0 == [SMInit EXCEPT !.m = [i \in 1 .. Len(Keys0) |-> <<Keys0[i], Keys0[i]>>]]

Init == /\ MemInit
        /\ pc = [t \in Threads |-> "idle"]
        /\ loc = [t \in Threads |-> L0]
        /\ lin = MonInit(AbsInit0)
        /\ budget = [t \in Threads |-> MaxOps]
        /\ nst = [n \in Nodes |-> IF n <= Len(Keys0) THEN "live" ELSE "free"]
        /\ inc = [n \in Nodes |-> 0]
        /\ keyof = [n \in Nodes |-> IF n <= Len(Keys0) THEN Keys0[n] ELSE 0]
        /\ g = [t \in Threads |-> G0]
        /\ bad = "ok"
        /\ last = [t |-> -1, k |-> "init", lab |-> "init", v |-> 0, ok |-> 1, n |-> 0]

Goto(t, l) == pc' = [pc EXCEPT ![t] = l]
Acc(t, k, lab, v, ok) == last' = [t |-> t, k |-> k, lab |-> lab, v |-> v, ok |-> ok, n |-> last.n + 1]    \* n: access counter
Return(t, r, v) == lin' = MonRet(lin, t, r, v) /\ Goto(t, "idle")

\* ---- abstract reclaimer -----------------------------------------------------------------------
GuardOf(n) == IF n = 0 THEN NoG ELSE [n |-> n, i |-> inc[n], eff |-> nst[n] = "live"]
Dangling(gd) == gd.n # 0 /\ (nst[gd.n] \in {"dead", "free"} \/ inc[gd.n] # gd.i)
Touch(gd, what) == bad' = IF bad = "ok" /\ Dangling(gd) THEN what ELSE bad
Protected(n) == \E t \in Threads : \E f \in {"cur", "save", "sg", "tmp"} : g[t][f].n = n /\ g[t][f].i = inc[n] /\ g[t][f].eff
Destroy == /\ \E n \in Nodes : nst[n] = "retired" /\ ~Protected(n) /\ nst' = [nst EXCEPT ![n] = "dead"]
           /\ UNCHANGED <<pc, loc, lin, budget, inc, keyof, g, bad, last, memvars>>
\* the node that owns a cell must be alive when the cell is accessed (save / start guard protect it)
CellOwner(x) == IF x = HEAD THEN 0 ELSE x[2]
OwnerGuard(t, x) == IF x = HEAD THEN NoG
                    ELSE IF g[t].save.n = x[2] THEN g[t].save ELSE IF g[t].sg.n = x[2] THEN g[t].sg
                    ELSE IF g[t].cur.n = x[2] THEN g[t].cur ELSE [n |-> x[2], i |-> -1, eff |-> FALSE]
TouchCell(t, x, what) == Touch(OwnerGuard(t, x), what)

\* ---- operations --------------------------------------------------------------------------------
Begin(t, op, k, first) ==
  /\ pc[t] = "idle" /\ budget[t] > 0 /\ ~loc[t].iter
  /\ budget' = [budget EXCEPT ![t] = @ - 1]
  /\ loc' = [loc EXCEPT ![t] = [L0 EXCEPT !.op = op, !.key = k]]
  /\ g' = [g EXCEPT ![t] = G0]
  /\ Goto(t, first)
  /\ Acc(t, "call", op, k, 1)
  /\ UNCHANGED <<nst, inc, keyof, bad, memvars>>
StartContains(t) == \E k \in KeySet : Begin(t, "contains", k, "f_start") /\ lin' = MonCall(lin, t, "contains", k, 0)
StartErase(t) == \E k \in KeySet : Begin(t, "erase", k, "f_start") /\ lin' = MonCall(lin, t, "erase", k, 0)
StartEmplace(t) ==
  /\ pc[t] = "idle" /\ budget[t] > 0 /\ ~loc[t].iter
  /\ \E k \in KeySet, n \in Nodes :
       /\ nst[n] \in {"free", "dead"}
       /\ nst' = [nst EXCEPT ![n] = "live"] /\ inc' = [inc EXCEPT ![n] = @ + 1] /\ keyof' = [keyof EXCEPT ![n] = k]
       /\ loc' = [loc EXCEPT ![t] = [L0 EXCEPT !.op = "emplace", !.key = k, !.node = n]]
       /\ lin' = MonCall(lin, t, "emplace", k, k)
       /\ Acc(t, "call", "emplace", k, 1)
       /\ FreshWr(t, KEYL(n), k)            \* new node(key): the constructor writes the key (fresh memory, not yet published)
  /\ budget' = [budget EXCEPT ![t] = @ - 1]
  /\ g' = [g EXCEPT ![t] = G0]
  /\ Goto(t, "f_start")
  /\ UNCHANGED bad

\* ---- find(key, info) ---------------------------------------------------------------------------
\* retry: info.prev = start; info.save = start_guard  (no access)
f_start(t) == /\ pc[t] = "f_start"
              /\ loc' = [loc EXCEPT ![t].prev = loc[t].start]
              /\ g' = [g EXCEPT ![t].save = g[t].sg]
              /\ Goto(t, "f_ld0")
              /\ UNCHANGED <<lin, budget, nst, inc, keyof, bad, last, memvars>>
f_ld0(t) == /\ pc[t] = "f_ld0"
            /\ TouchCell(t, loc[t].prev, "find reads a link of a destroyed node")
            /\ \E i \in Readable(t, loc[t].prev, Ord["f_ld0"]) :
                 LET v == ValAt(loc[t].prev, i) IN
                 /\ Load(t, loc[t].prev, Ord["f_ld0"], i)
                 /\ Acc(t, "ld", "f_ld0", v, 1)
                 /\ IF Mark(v) # 0
                      THEN /\ loc' = [loc EXCEPT ![t].start = HEAD] /\ g' = [g EXCEPT ![t].sg = NoG] /\ Goto(t, "f_start")
                      ELSE /\ loc' = [loc EXCEPT ![t].next = v] /\ Goto(t, "f_acq") /\ UNCHANGED g
            /\ UNCHANGED <<lin, budget, nst, inc, keyof>>
\* info.cur.acquire_if_equal(*info.prev, info.next).  Under weak memory a guard acquisition reads the LATEST message: a real reclaimer
\* (hazard pointer: publish, seq_cst fence, re-read; epochs: fenced region entry) never settles on a value that was replaced before the
\* node's retirement became visible to it (see MSQueue); all other loads may be stale as far as their order allows
f_acq(t) == /\ pc[t] = "f_acq"
            /\ TouchCell(t, loc[t].prev, "find reads a link of a destroyed node")
            /\ \E i \in {Last(loc[t].prev)} :
                 LET v == ValAt(loc[t].prev, i) IN
                 /\ Load(t, loc[t].prev, Ord["f_acq"], i)
                 /\ Acc(t, "ld", "f_acq", v, 1)
                 /\ IF v # loc[t].next
                      THEN /\ g' = [g EXCEPT ![t].cur = NoG] /\ Goto(t, "f_start")
                      ELSE /\ g' = [g EXCEPT ![t].cur = GuardOf(Ptr(v))]
                           /\ Goto(t, IF Ptr(v) = 0 THEN "f_done" ELSE "f_ldn")
            /\ loc' = [loc EXCEPT ![t].found = FALSE]
            /\ UNCHANGED <<lin, budget, nst, inc, keyof>>
f_ldn(t) == /\ pc[t] = "f_ldn"
            /\ Touch(g[t].cur, "find reads next of a destroyed node")
            /\ LET x == NEXT(g[t].cur.n) IN
               \E i \in Readable(t, x, Ord["f_ldn"]) :
                  LET v == ValAt(x, i) IN
                  /\ Load(t, x, Ord["f_ldn"], i)
                  /\ Acc(t, "ld", "f_ldn", v, 1)
                  /\ loc' = [loc EXCEPT ![t].next = v]
                  /\ Goto(t, IF Mark(v) # 0 /\ MarkCheck THEN "f_ldn2" ELSE IF RecheckPrev THEN "f_chk" ELSE "f_cmp")
            /\ UNCHANGED <<lin, budget, nst, inc, keyof, g>>
f_ldn2(t) == /\ pc[t] = "f_ldn2"
             /\ Touch(g[t].cur, "find reads next of a destroyed node")
             /\ LET x == NEXT(g[t].cur.n) IN
                \E i \in Readable(t, x, Ord["f_ldn2"]) :
                   /\ Load(t, x, Ord["f_ldn2"], i)
                   /\ Acc(t, "ld", "f_ldn2", ValAt(x, i), 1)
                   /\ loc' = [loc EXCEPT ![t].next = Lnk(Ptr(ValAt(x, i)), 0)]
             /\ Goto(t, "f_unlink")
             /\ UNCHANGED <<lin, budget, nst, inc, keyof, g>>
f_unlink(t) == /\ pc[t] = "f_unlink"
               /\ TouchCell(t, loc[t].prev, "find CASes a link of a destroyed node")
               /\ LET x == loc[t].prev exp == Lnk(g[t].cur.n, 0) IN
                  IF Latest(x) = exp
                    THEN /\ Rmw(t, x, loc[t].next, Ord["f_unlink"]) /\ Acc(t, "cas", "f_unlink", exp, 1)
                         /\ nst' = [nst EXCEPT ![g[t].cur.n] = "retired"]          \* info.cur.reclaim()
                         /\ g' = [g EXCEPT ![t].cur = NoG]
                         /\ Goto(t, "f_acq")
                    ELSE /\ CasFail(t, x, Ord["casf"]) /\ Acc(t, "cas", "f_unlink", Latest(x), 0)
                         /\ Goto(t, "f_start") /\ UNCHANGED <<nst, g>>
               /\ UNCHANGED <<loc, lin, budget, inc, keyof>>
f_chk(t) == /\ pc[t] = "f_chk"
            /\ TouchCell(t, loc[t].prev, "find reads a link of a destroyed node")
            /\ \E i \in Readable(t, loc[t].prev, Ord["f_chk"]) :
                 /\ Load(t, loc[t].prev, Ord["f_chk"], i)
                 /\ Acc(t, "ld", "f_chk", ValAt(loc[t].prev, i), 1)
                 /\ Goto(t, IF ValAt(loc[t].prev, i) # Lnk(g[t].cur.n, 0) THEN "f_start" ELSE "f_cmp")
            /\ UNCHANGED <<loc, lin, budget, nst, inc, keyof, g>>
\* compare keys (plain read of the immutable key through the guard); advance or stop
f_cmp(t) == /\ pc[t] = "f_cmp"
            /\ Touch(g[t].cur, "find reads the key of a destroyed node")
            /\ PlainRd(t, KEYL(g[t].cur.n))
            /\ LET ck == keyof[g[t].cur.n] IN
               IF ck >= loc[t].key
                 THEN /\ loc' = [loc EXCEPT ![t].found = (ck = loc[t].key)] /\ Goto(t, "f_done") /\ UNCHANGED g
                 ELSE /\ loc' = [loc EXCEPT ![t].prev = NEXT(g[t].cur.n)]
                      /\ g' = [g EXCEPT ![t].save = g[t].cur, ![t].cur = g[t].save]      \* std::swap(info.save, info.cur)
                      /\ Goto(t, "f_acq")
            /\ UNCHANGED <<lin, budget, nst, inc, keyof, last>>
\* find returned: dispatch on the calling operation
f_done(t) ==
  /\ pc[t] = "f_done"
  /\ LET op == loc[t].op found == loc[t].found IN
     CASE op = "contains" -> /\ Return(t, IF found THEN 1 ELSE 0, 0) /\ g' = [g EXCEPT ![t] = G0]
                             /\ UNCHANGED <<loc, nst, bad>>
       [] op = "emplace" -> IF found
                              THEN /\ nst' = [nst EXCEPT ![loc[t].node] = "free"]           \* delete n
                                   /\ Return(t, 0, 0) /\ g' = [g EXCEPT ![t] = G0] /\ UNCHANGED <<loc, bad>>
                              ELSE /\ Goto(t, "x_stn") /\ UNCHANGED <<lin, loc, nst, g, bad>>
       [] op = "erase" -> IF ~found THEN /\ Return(t, 0, 0) /\ g' = [g EXCEPT ![t] = G0] /\ UNCHANGED <<loc, nst, bad>>
                          ELSE /\ Goto(t, "e_mark") /\ UNCHANGED <<lin, loc, nst, g, bad>>
       [] op = "erase2" -> /\ Return(t, 1, 0) /\ g' = [g EXCEPT ![t] = G0] /\ UNCHANGED <<loc, nst, bad>>   \* re-walk after a failed unlink
       [] op = "iter" ->   \* operator++ through find: the iterator is now on info.cur
            /\ Goto(t, "it_pos") /\ UNCHANGED <<lin, loc, nst, g, bad>>
       [] OTHER -> FALSE
  /\ UNCHANGED <<budget, inc, keyof, last, memvars>>

\* ---- emplace: install the new node before cur ------------------------------------------------------
x_stn(t) == /\ pc[t] = "x_stn"
            /\ Store(t, NEXT(loc[t].node), Lnk(g[t].cur.n, 0), Ord["x_stn"])
            /\ Acc(t, "st", "x_stn", Lnk(g[t].cur.n, 0), 1)
            /\ Goto(t, "x_cas")
            /\ g' = IF KeepCurGuard THEN g ELSE [g EXCEPT ![t].cur.eff = FALSE]
            /\ UNCHANGED <<loc, lin, budget, nst, inc, keyof, bad>>
x_cas(t) == /\ pc[t] = "x_cas"
            /\ TouchCell(t, loc[t].prev, "emplace CASes a link of a destroyed node")
            /\ LET x == loc[t].prev exp == Lnk(g[t].cur.n, 0) IN
               IF Latest(x) = exp
                 THEN /\ Rmw(t, x, Lnk(loc[t].node, 0), Ord["x_cas"]) /\ Acc(t, "cas", "x_cas", exp, 1)
                      /\ Return(t, 1, 0) /\ g' = [g EXCEPT ![t] = G0] /\ UNCHANGED loc
                 ELSE /\ CasFail(t, x, Ord["casf"]) /\ Acc(t, "cas", "x_cas", Latest(x), 0)
                      \* find again: a new call of find() starts at the position reached (start = info.prev, start_guard = info.save)
                      /\ loc' = [loc EXCEPT ![t].start = loc[t].prev] /\ g' = [g EXCEPT ![t].sg = g[t].save]
                      /\ Goto(t, "f_start") /\ UNCHANGED lin
            /\ UNCHANGED <<budget, nst, inc, keyof>>

\* ---- erase(key): mark, then unlink or re-walk ---------------------------------------------------------
e_mark(t) == /\ pc[t] = "e_mark"
             /\ Touch(g[t].cur, "erase marks a destroyed node")
             /\ LET x == NEXT(g[t].cur.n) IN
                IF Latest(x) = loc[t].next
                  THEN /\ Rmw(t, x, Lnk(Ptr(loc[t].next), 1), Ord["e_mark"]) /\ Acc(t, "cas", "e_mark", loc[t].next, 1)
                       /\ Goto(t, "e_unlink") /\ UNCHANGED <<loc, g>>
                  ELSE /\ CasFail(t, x, Ord["casf"]) /\ Acc(t, "cas", "e_mark", Latest(x), 0)
                       /\ loc' = [loc EXCEPT ![t].start = loc[t].prev] /\ g' = [g EXCEPT ![t].sg = g[t].save]
                       /\ Goto(t, "f_start")
             /\ UNCHANGED <<lin, budget, nst, inc, keyof>>
e_unlink(t) == /\ pc[t] = "e_unlink"
               /\ TouchCell(t, loc[t].prev, "erase CASes a link of a destroyed node")
               /\ LET x == loc[t].prev exp == Lnk(g[t].cur.n, 0) IN
                  IF Latest(x) = exp
                    THEN /\ Rmw(t, x, loc[t].next, Ord["e_unlink"]) /\ Acc(t, "cas", "e_unlink", exp, 1)
                         /\ nst' = [nst EXCEPT ![g[t].cur.n] = "retired"]
                         /\ g' = [g EXCEPT ![t] = G0]
                         /\ Return(t, 1, 0) /\ UNCHANGED loc
                    ELSE /\ CasFail(t, x, Ord["casf"]) /\ Acc(t, "cas", "e_unlink", Latest(x), 0)
                         /\ loc' = [loc EXCEPT ![t].op = "erase2", ![t].start = loc[t].prev] /\ g' = [g EXCEPT ![t].sg = g[t].save]
                         /\ Goto(t, "f_start") /\ UNCHANGED <<lin, nst>>
               /\ UNCHANGED <<budget, inc, keyof>>

\* ---- iterator: begin / * / ++ (one traversal is a sequence of operations of the abstract spec) -------
StartTraversal(t) ==
  /\ AllowIter /\ pc[t] = "idle" /\ budget[t] > 0 /\ ~loc[t].iter
  /\ budget' = [budget EXCEPT ![t] = @ - 1]
  /\ loc' = [loc EXCEPT ![t] = [L0 EXCEPT !.op = "iter", !.iter = TRUE]]
  /\ g' = [g EXCEPT ![t] = G0]
  /\ lin' = MonRet(MonCall(lin, t, "it_begin", 0, 0), t, 0, 0)
  /\ Goto(t, "b_acq") /\ Acc(t, "call", "begin", 0, 1)
  /\ UNCHANGED <<nst, inc, keyof, bad, memvars>>
b_acq(t) == /\ pc[t] = "b_acq"
            /\ \E i \in {Last(HEAD)} :
                 /\ Load(t, HEAD, Ord["b_acq"], i)
                 /\ Acc(t, "ld", "b_acq", ValAt(HEAD, i), 1)
                 /\ g' = [g EXCEPT ![t].cur = GuardOf(Ptr(ValAt(HEAD, i)))]
            /\ loc' = [loc EXCEPT ![t].prev = HEAD, ![t].start = HEAD]
            /\ Goto(t, "it_pos")
            /\ UNCHANGED <<lin, budget, nst, inc, keyof, bad>>
\* the iterator is positioned: yield *it (or finish at end())
it_pos(t) == /\ pc[t] = "it_pos"
             /\ IF g[t].cur.n = 0
                  THEN /\ lin' = MonRet(MonCall(lin, t, "it_end", 1, 0), t, 0, 0)
                       /\ loc' = [loc EXCEPT ![t] = L0] /\ g' = [g EXCEPT ![t] = G0]
                       /\ Goto(t, "idle") /\ UNCHANGED bad
                  ELSE /\ Touch(g[t].cur, "iterator dereferences a destroyed node")
                       /\ lin' = MonRet(MonCall(lin, t, "it_yield", keyof[g[t].cur.n], 0), t, 0, 0)
                       /\ Goto(t, "n_ld") /\ UNCHANGED <<loc, g>>
             /\ UNCHANGED <<budget, nst, inc, keyof, last, memvars>>
n_ld(t) == /\ pc[t] = "n_ld"
           /\ Touch(g[t].cur, "iterator reads next of a destroyed node")
           /\ LET x == NEXT(g[t].cur.n) IN
              \E i \in Readable(t, x, Ord["n_ld"]) :
                 LET v == ValAt(x, i) IN
                 /\ Load(t, x, Ord["n_ld"], i)
                 /\ Acc(t, "ld", "n_ld", v, 1)
                 /\ loc' = [loc EXCEPT ![t].next = v]
                 /\ Goto(t, IF Mark(v) = 0 THEN "n_acq" ELSE "n_find")
           /\ UNCHANGED <<lin, budget, nst, inc, keyof, g>>
n_acq(t) == /\ pc[t] = "n_acq"
            /\ Touch(g[t].cur, "iterator reads next of a destroyed node")
            /\ LET x == NEXT(g[t].cur.n) IN
               \E i \in {Last(x)} :
                  LET v == ValAt(x, i) IN
                  /\ Load(t, x, Ord["n_acq"], i)
                  /\ Acc(t, "ld", "n_acq", v, 1)
                  /\ IF v = loc[t].next
                       THEN /\ loc' = [loc EXCEPT ![t].prev = x]
                            /\ g' = [g EXCEPT ![t].save = g[t].cur, ![t].cur = GuardOf(Ptr(v))]
                            /\ Goto(t, "it_pos")
                       ELSE /\ Goto(t, IF IterRetry THEN "n_ld" ELSE "n_find") /\ UNCHANGED <<loc, g>>
            /\ UNCHANGED <<lin, budget, nst, inc, keyof>>
\* cur is marked: list->find(cur->key, info) starting from the iterator's info
n_find(t) == /\ pc[t] = "n_find"
             /\ Touch(g[t].cur, "iterator reads the key of a destroyed node")
             /\ loc' = [loc EXCEPT ![t].key = keyof[g[t].cur.n], ![t].start = loc[t].prev]
             /\ g' = [g EXCEPT ![t].sg = g[t].save]
             /\ Goto(t, "f_start")
             /\ UNCHANGED <<lin, budget, nst, inc, keyof, last, memvars>>

ThreadStep(t) == \/ StartContains(t) \/ StartErase(t) \/ StartEmplace(t) \/ StartTraversal(t)
                 \/ f_start(t) \/ f_ld0(t) \/ f_acq(t) \/ f_ldn(t) \/ f_ldn2(t) \/ f_unlink(t) \/ f_chk(t) \/ f_cmp(t) \/ f_done(t)
                 \/ x_stn(t) \/ x_cas(t) \/ e_mark(t) \/ e_unlink(t)
                 \/ b_acq(t) \/ it_pos(t) \/ n_ld(t) \/ n_acq(t) \/ n_find(t)
Next == Destroy \/ \E t \in Threads : ThreadStep(t)
Spec == Init /\ [][Next]_vars

\* C08 / C09
Linearizable == lin # {}
MemorySafe == bad = "ok"
=============================================================================
