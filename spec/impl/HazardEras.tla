----------------------------- MODULE HazardEras -----------------------------
(***************************************************************************)
(* xenium::reclamation::hazard_eras (static allocation strategy), one      *)
(* action per atomic access / fence of impl/hazard_eras.hpp, driven by the *)
(* generic reclamation client:                                             *)
(*   acquire(g, c)  acquire_if_equal(g, c)  reset(g)  copy(g -> h)         *)
(*   replace(g, c) = acquire, construct a fresh node (reads the era clock),*)
(*   CAS it into the cell, reclaim the old one (reset, retirement era :=   *)
(*   fetch_add of the era clock, add_retired_node, scan)   touch   flush   *)
(*                                                                         *)
(* A slot holds an era (> 0: every object alive in that era is protected)  *)
(* or a free-list link -(j+1).  Guards that observe the same era share a   *)
(* slot (thread-local guard count, last_hazard_era / last_era cache).      *)
(* An object is protected iff some published era e satisfies               *)
(*   construction_era <= e <= retirement_era.                              *)
(* Node payloads are plain locations (touch = read, delete = write).       *)
(***************************************************************************)
EXTENDS Mem, TLC

CONSTANTS NT, K, NG, NCells, NNodes, MaxOps, Ord,
          Roles,        \* per thread: the <<operation, cell>> pairs its program may use (RolesAll: everything)
          EraLoop,      \* TRUE: acquire repeats until the era clock equals the published era (code)
          Threshold     \* scan when the number of retired nodes reaches Threshold (0/1: at every retire)

OrdCode == [a_ld |-> "acq", a_era |-> "rlx", a_link |-> "rlx", a_set |-> "rel", a_fence |-> "sc", e_ld2 |-> "rlx",
            r_st |-> "rel", n_era |-> "rlx", x_cas |-> "rel", x_casf |-> "rlx", x_faa |-> "rel",
            s_fence9 |-> "sc", s_ld |-> "rlx", s_fence10 |-> "acq"]

ThreadsDef == 0 .. NT - 1
Nodes == 1 .. NNodes
Cells == 0 .. NCells - 1
ERA == <<"era", 0, 0>>
CELL(c) == <<"cell", c, 0>>
SLOT(t, k) == <<"slot", t, k>>
PAY(n) == <<"pay", n, 0>>
LocsDef == {ERA} \cup {CELL(c) : c \in Cells} \cup {SLOT(t, k) : t \in ThreadsDef, k \in 1 .. K} \cup {PAY(n) : n \in Nodes}
           \cup (IF Weak THEN {RT(PAY(n), u) : n \in Nodes, u \in ThreadsDef} ELSE {})
Link(j) == -(j + 1)
RolesAll == [t \in ThreadsDef |-> {<<o, c>> : o \in {"acquire", "acqe", "replace", "reset", "copy"}, c \in Cells}]
\* a reader that acquires (and re-acquires) against a thread that keeps replacing the node
RolesRW == [t \in ThreadsDef |-> IF t = 0 THEN {<<"acquire", 0>>, <<"acqe", 0>>} ELSE {<<"replace", 0>>}]
IsEra(v) == v > 0
InitValDef(x) == IF x[1] = "era" THEN 1
                 ELSE IF x[1] = "cell" THEN x[2] + 1
                 ELSE IF x[1] = "slot" THEN (IF x[3] < K THEN Link(x[3] + 1) ELSE Link(0))
                 ELSE 0

VARIABLES pc, loc, guards, hint, cnt, lastHE, lastEra, rlist, nstate, cera, rera, budget, flushed, bad, last
vars == <<pc, loc, guards, hint, cnt, lastHE, lastEra, rlist, nstate, cera, rera, budget, flushed, bad, last, memvars>>
mcview == <<pc, loc, guards, hint, cnt, lastHE, lastEra, rlist, nstate, cera, rera, budget, flushed, bad, memvars>>

G0 == [ptr |-> 0, he |-> 0]
L0 == [g |-> 0, h |-> 0, c |-> 0, val |-> 0, era |-> 0, prev |-> 0, op |-> "none", fresh |-> 0, u |-> 0, k |-> 0, prot |-> {}, exp |-> 0,
       after |-> "none", nhe |-> 0]

\* operations per thread (a definition the configurations may override: asymmetric programs keep weak-memory runs small)
OpsOf(t) == MaxOps
Init == /\ MemInit
        /\ pc = [t \in Threads |-> "idle"]
        /\ loc = [t \in Threads |-> L0]
        /\ guards = [t \in Threads |-> [g \in 1 .. NG |-> G0]]
        /\ hint = [t \in Threads |-> 1]
        /\ cnt = [t \in Threads |-> [k \in 1 .. K |-> 0]]
        /\ lastHE = [t \in Threads |-> 0]
        /\ lastEra = [t \in Threads |-> 0]
        /\ rlist = [t \in Threads |-> <<>>]
        /\ nstate = [n \in Nodes |-> IF n <= NCells THEN "live" ELSE "free"]
        /\ cera = [n \in Nodes |-> 1]
        /\ rera = [n \in Nodes |-> 0]
        /\ budget = [t \in Threads |-> OpsOf(t)]
        /\ flushed = [t \in Threads |-> FALSE]
        /\ bad = "ok"
        /\ last = [t |-> -1, k |-> "init", lab |-> "init", v |-> 0, ok |-> 1, n |-> 0]

Goto(t, l) == pc' = [pc EXCEPT ![t] = l]
Acc(t, k, lab, v, ok) == last' = [t |-> t, k |-> k, lab |-> lab, v |-> v, ok |-> ok, n |-> last.n + 1]
TL == <<hint, cnt, lastHE, lastEra>>
UG == UNCHANGED <<guards, hint, cnt, lastHE, lastEra, rlist, nstate, cera, rera, budget, flushed, bad>>
\* era currently published in slot s of thread t, as the owner knows it (get_era reads its own slot)
OwnEra(t, s) == Latest(SLOT(t, s))

\* ---------------------------------------------------------------- client: start of operations
Begin(t, op, g, h, c, first) ==
  /\ pc[t] = "idle" /\ budget[t] > 0 /\ <<op, c>> \in Roles[t]
  /\ budget' = [budget EXCEPT ![t] = @ - 1]
  /\ loc' = [loc EXCEPT ![t] = [L0 EXCEPT !.op = op, !.g = g, !.h = h, !.c = c,
                                        !.prev = IF guards[t][g].he = 0 THEN 0 ELSE OwnEra(t, guards[t][g].he)]]
  /\ Goto(t, first)
  /\ Acc(t, "call", op, g, 1)
  /\ UNCHANGED <<guards, hint, cnt, lastHE, lastEra, rlist, nstate, cera, rera, flushed, bad, memvars>>
StartAcquire(t) == \E g \in 1 .. NG, c \in Cells : Begin(t, "acquire", g, 0, c, "a_ld")
StartAcqIfEq(t) == \E g \in 1 .. NG, c \in Cells : Begin(t, "acqe", g, 0, c, "e_ldx")
StartReplace(t) == \E g \in 1 .. NG, c \in Cells : Begin(t, "replace", g, 0, c, "a_ld")
StartReset(t) == \E g \in 1 .. NG : guards[t][g].he # 0 /\ Begin(t, "reset", g, 0, 0, "r_begin")
StartCopy(t) == \E g \in 1 .. NG, h \in 1 .. NG : g # h /\ guards[t][g].ptr # 0 /\ guards[t][h].he = 0 /\ Begin(t, "copy", h, g, 0, "c_copy")
Touch(t) == /\ pc[t] = "idle"
            /\ \E g \in 1 .. NG :
                 LET n == guards[t][g].ptr IN
                 /\ n # 0
                 /\ bad' = IF bad = "ok" /\ nstate[n] \notin {"live", "ret"} THEN "touch of a destroyed object" ELSE bad
                 /\ PlainRd(t, PAY(n))
            /\ UNCHANGED <<pc, loc, guards, hint, cnt, lastHE, lastEra, rlist, nstate, cera, rera, budget, flushed, last>>
StartFlush(t) == /\ pc[t] = "idle" /\ budget[t] = 0 /\ ~flushed[t]
                 /\ \A u \in Threads : budget[u] = 0 /\ \A g \in 1 .. NG : guards[u][g].he = 0
                 /\ \A u \in Threads : pc[u] \in {"idle", "s_fence9", "s_ld", "s_free"}
                 /\ flushed' = [flushed EXCEPT ![t] = TRUE]
                 /\ loc' = [loc EXCEPT ![t] = [L0 EXCEPT !.op = "flush"]]
                 /\ Goto(t, "s_fence9") /\ Acc(t, "call", "flush", 0, 1)
                 /\ UNCHANGED <<guards, hint, cnt, lastHE, lastEra, rlist, nstate, cera, rera, budget, bad, memvars>>

\* ---------------------------------------------------------------- acquire
a_ld(t) == /\ pc[t] = "a_ld"
           /\ LET x == CELL(loc[t].c) IN
              \E i \in Readable(t, x, Ord["a_ld"]) :
                 /\ Load(t, x, Ord["a_ld"], i) /\ Acc(t, "ld", "a_ld", ValAt(x, i), 1)
                 /\ loc' = [loc EXCEPT ![t].val = ValAt(x, i)]
           /\ Goto(t, "a_era") /\ UG
\* era_clock.load(relaxed); the decision what to do with the hazard era instance takes no further access
a_era(t) == /\ pc[t] = "a_era"
            /\ \E i \in Readable(t, ERA, Ord["a_era"]) :
                 LET era == ValAt(ERA, i) g == loc[t].g he == guards[t][g].he IN
                 /\ Load(t, ERA, Ord["a_era"], i) /\ Acc(t, "ld", "a_era", era, 1)
                 /\ IF era = loc[t].prev \/ (~EraLoop /\ loc[t].prev # 0)
                      THEN /\ guards' = [guards EXCEPT ![t][g].ptr = loc[t].val]
                           /\ loc' = [loc EXCEPT ![t].era = era] /\ Goto(t, "op_done") /\ UNCHANGED <<cnt, lastHE, lastEra>>
                      ELSE IF he # 0 /\ cnt[t][he] = 1
                             THEN \* the only guard of this instance: set_era on it
                                  /\ loc' = [loc EXCEPT ![t].era = era, ![t].nhe = he, ![t].after = "a_ld"] /\ Goto(t, "a_set")
                                  /\ UNCHANGED <<guards, cnt, lastHE, lastEra>>     \* (last_era is NOT updated by the code)
                             ELSE IF lastHE[t] # 0 /\ lastEra[t] = era
                                    THEN \* alloc_hazard_era: the cached instance already publishes this era
                                         /\ cnt' = [cnt EXCEPT ![t][lastHE[t]] = @ + 1, ![t][he] = IF he # 0 THEN @ - 1 ELSE @]
                                         /\ guards' = [guards EXCEPT ![t][g].he = lastHE[t]]
                                         /\ loc' = [loc EXCEPT ![t].era = era, ![t].prev = era] /\ Goto(t, "a_ld")
                                         /\ UNCHANGED <<lastHE, lastEra>>
                                    ELSE /\ loc' = [loc EXCEPT ![t].era = era, ![t].after = "a_ld"] /\ Goto(t, "a_link")
                                         /\ UNCHANGED <<guards, cnt, lastHE, lastEra>>
            /\ UNCHANGED <<hint, rlist, nstate, cera, rera, budget, flushed, bad>>
\* alloc_hazard_era: result = hint; hint = result->get_link()
a_link(t) == /\ pc[t] = "a_link"
             /\ Assert(hint[t] # 0, "hazard era pool exceeded (NG <= K expected)")
             /\ LET s == hint[t] x == SLOT(t, s) IN
                \E i \in Readable(t, x, Ord["a_link"]) :
                   /\ Load(t, x, Ord["a_link"], i) /\ Acc(t, "ld", "a_link", ValAt(x, i), 1)
                   /\ hint' = [hint EXCEPT ![t] = -(ValAt(x, i)) - 1]
                   /\ loc' = [loc EXCEPT ![t].nhe = s]
             /\ Goto(t, "a_set")
             /\ UNCHANGED <<guards, cnt, lastHE, lastEra, rlist, nstate, cera, rera, budget, flushed, bad>>
\* set_era: release store of the era, then the seq_cst fence (5)
a_set(t) == /\ pc[t] = "a_set"
            /\ Store(t, SLOT(t, loc[t].nhe), loc[t].era, Ord["a_set"]) /\ Acc(t, "st", "a_set", loc[t].era, 1)
            /\ Goto(t, "a_fence") /\ UNCHANGED loc /\ UG
a_fence(t) == /\ pc[t] = "a_fence"
              /\ Fence(t, Ord["a_fence"]) /\ Acc(t, "fence", "a_fence", 0, 1)
              /\ LET g == loc[t].g he == guards[t][g].he s == loc[t].nhe IN
                 IF he = s THEN UNCHANGED <<guards, cnt, lastHE, lastEra>>        \* set_era on the guard's own instance
                 ELSE \* a freshly allocated instance: add_guard, cache it, release the shared one
                      /\ cnt' = [cnt EXCEPT ![t][s] = 1, ![t][he] = IF he # 0 THEN @ - 1 ELSE @]
                      /\ guards' = [guards EXCEPT ![t][g].he = s]
                      /\ lastHE' = [lastHE EXCEPT ![t] = s] /\ lastEra' = [lastEra EXCEPT ![t] = loc[t].era]
              /\ loc' = [loc EXCEPT ![t].prev = loc[t].era]
              /\ Goto(t, loc[t].after)
              /\ UNCHANGED <<hint, rlist, nstate, cera, rera, budget, flushed, bad>>

\* ---------------------------------------------------------------- acquire_if_equal (expected = value loaded just before)
e_ldx(t) == /\ pc[t] = "e_ldx"
            /\ LET x == CELL(loc[t].c) IN
               \E i \in Readable(t, x, "rlx") :
                  /\ Load(t, x, "rlx", i) /\ Acc(t, "ld", "e_ldx", ValAt(x, i), 1)
                  /\ loc' = [loc EXCEPT ![t].exp = ValAt(x, i)]
            /\ Goto(t, "e_ld1") /\ UG
e_ld1(t) == /\ pc[t] = "e_ld1"
            /\ LET x == CELL(loc[t].c) IN
               \E i \in Readable(t, x, Ord["a_ld"]) :
                  /\ Load(t, x, Ord["a_ld"], i) /\ Acc(t, "ld", "a_ld", ValAt(x, i), 1)
                  /\ loc' = [loc EXCEPT ![t].val = ValAt(x, i), ![t].after = "op_done"]
                  /\ Goto(t, IF ValAt(x, i) = 0 \/ ValAt(x, i) # loc[t].exp THEN "r_begin" ELSE "e_era")
            /\ UG
e_era(t) == /\ pc[t] = "e_era"
            /\ \E i \in Readable(t, ERA, Ord["a_era"]) :
                 LET era == ValAt(ERA, i) g == loc[t].g he == guards[t][g].he IN
                 /\ Load(t, ERA, Ord["a_era"], i) /\ Acc(t, "ld", "a_era", era, 1)
                 /\ IF he # 0 /\ cnt[t][he] = 1
                      THEN /\ loc' = [loc EXCEPT ![t].era = era, ![t].nhe = he, ![t].after = "e_ld2"] /\ Goto(t, "a_set")
                           /\ UNCHANGED <<guards, cnt, lastHE, lastEra>>
                      ELSE IF lastHE[t] # 0 /\ lastEra[t] = era
                             THEN /\ cnt' = [cnt EXCEPT ![t][lastHE[t]] = @ + 1, ![t][he] = IF he # 0 THEN @ - 1 ELSE @]
                                  /\ guards' = [guards EXCEPT ![t][g].he = lastHE[t]]
                                  /\ loc' = [loc EXCEPT ![t].era = era] /\ Goto(t, "e_ld2") /\ UNCHANGED <<lastHE, lastEra>>
                             ELSE /\ loc' = [loc EXCEPT ![t].era = era, ![t].after = "e_ld2"] /\ Goto(t, "a_link")
                                  /\ UNCHANGED <<guards, cnt, lastHE, lastEra>>
            /\ UNCHANGED <<hint, rlist, nstate, cera, rera, budget, flushed, bad>>
e_ld2(t) == /\ pc[t] = "e_ld2"
            /\ LET x == CELL(loc[t].c) g == loc[t].g IN
               \E i \in Readable(t, x, Ord["e_ld2"]) :
                  /\ Load(t, x, Ord["e_ld2"], i) /\ Acc(t, "ld", "e_ld2", ValAt(x, i), 1)
                  /\ guards' = [guards EXCEPT ![t][g].ptr = ValAt(x, i)]
                  /\ IF ValAt(x, i) # loc[t].val
                       THEN Goto(t, "r_begin") /\ loc' = [loc EXCEPT ![t].after = "op_done"]
                       ELSE Goto(t, "op_done") /\ UNCHANGED loc
            /\ UNCHANGED <<hint, cnt, lastHE, lastEra, rlist, nstate, cera, rera, budget, flushed, bad>>

\* ---------------------------------------------------------------- reset: release_hazard_era + ptr.reset()
r_begin(t) == /\ pc[t] = "r_begin"
              /\ LET g == loc[t].g he == guards[t][g].he IN
                 IF he = 0 THEN /\ guards' = [guards EXCEPT ![t][g] = G0] /\ Goto(t, IF loc[t].after = "none" THEN "op_done" ELSE loc[t].after)
                                /\ UNCHANGED <<cnt, lastHE>>
                 ELSE IF cnt[t][he] > 1
                        THEN /\ cnt' = [cnt EXCEPT ![t][he] = @ - 1] /\ guards' = [guards EXCEPT ![t][g] = G0]
                             /\ Goto(t, IF loc[t].after = "none" THEN "op_done" ELSE loc[t].after) /\ UNCHANGED lastHE
                        ELSE /\ cnt' = [cnt EXCEPT ![t][he] = 0]
                             /\ lastHE' = IF lastHE[t] = he THEN [lastHE EXCEPT ![t] = 0] ELSE lastHE
                             /\ Goto(t, "r_st") /\ UNCHANGED guards
              /\ UNCHANGED <<loc, hint, lastEra, rlist, nstate, cera, rera, budget, flushed, bad, last, memvars>>
r_st(t) == /\ pc[t] = "r_st"
           /\ LET g == loc[t].g s == guards[t][g].he IN
              /\ Store(t, SLOT(t, s), Link(hint[t]), Ord["r_st"]) /\ Acc(t, "st", "r_st", Link(hint[t]), 1)
              /\ hint' = [hint EXCEPT ![t] = s]
              /\ guards' = [guards EXCEPT ![t][g] = G0]
           /\ Goto(t, IF loc[t].after = "none" THEN "op_done" ELSE loc[t].after)
           /\ UNCHANGED <<loc, cnt, lastHE, lastEra, rlist, nstate, cera, rera, budget, flushed, bad>>
\* copy construction / assignment into an empty guard: shares the instance (add_guard), no access
c_copy(t) == /\ pc[t] = "c_copy"
             /\ LET src == guards[t][loc[t].h] IN
                /\ guards' = [guards EXCEPT ![t][loc[t].g] = src]
                /\ cnt' = IF src.he # 0 THEN [cnt EXCEPT ![t][src.he] = @ + 1] ELSE cnt
             /\ Goto(t, "op_done")
             /\ UNCHANGED <<loc, hint, lastHE, lastEra, rlist, nstate, cera, rera, budget, flushed, bad, last, memvars>>

\* ---------------------------------------------------------------- replace
FreshIds == {n \in Nodes : nstate[n] = "free"}
op_done(t) ==
  /\ pc[t] = "op_done"
  /\ IF loc[t].op = "replace" /\ guards[t][loc[t].g].ptr # 0 /\ FreshIds # {}
       THEN /\ \E n \in FreshIds : /\ loc' = [loc EXCEPT ![t].fresh = n, ![t].op = "replace2"]
                                   /\ nstate' = [nstate EXCEPT ![n] = "live"]
            /\ Goto(t, "n_era")
       ELSE Goto(t, "idle") /\ UNCHANGED <<loc, nstate>>
  /\ UNCHANGED <<guards, hint, cnt, lastHE, lastEra, rlist, cera, rera, budget, flushed, bad, last, memvars>>
\* enable_concurrent_ptr(): construction_era = era_clock.load(relaxed)
n_era(t) == /\ pc[t] = "n_era"
            /\ \E i \in Readable(t, ERA, Ord["n_era"]) :
                 /\ Load(t, ERA, Ord["n_era"], i) /\ Acc(t, "ld", "n_era", ValAt(ERA, i), 1)
                 /\ cera' = [cera EXCEPT ![loc[t].fresh] = ValAt(ERA, i)]
            /\ Goto(t, "x_cas")
            /\ UNCHANGED <<loc, guards, hint, cnt, lastHE, lastEra, rlist, nstate, rera, budget, flushed, bad>>
x_cas(t) == /\ pc[t] = "x_cas"
            /\ LET x == CELL(loc[t].c) old == guards[t][loc[t].g].ptr IN
               IF Latest(x) = old
                 THEN /\ Rmw(t, x, loc[t].fresh, Ord["x_cas"]) /\ Acc(t, "cas", "x_cas", old, 1)
                      /\ loc' = [loc EXCEPT ![t].val = old, ![t].after = "x_faa"]
                      /\ Goto(t, "r_begin") /\ UNCHANGED nstate                 \* reclaim: reset first
                 ELSE /\ CasFail(t, x, Ord["x_casf"]) /\ Acc(t, "cas", "x_cas", Latest(x), 0)
                      /\ nstate' = [nstate EXCEPT ![loc[t].fresh] = "free"]
                      /\ Goto(t, "idle") /\ UNCHANGED loc
            /\ UNCHANGED <<guards, hint, cnt, lastHE, lastEra, rlist, cera, rera, budget, flushed, bad>>
\* retirement_era = era_clock.fetch_add(1, release); add_retired_node; scan at the threshold
x_faa(t) == /\ pc[t] = "x_faa"
            /\ LET old == loc[t].val IN
               /\ rera' = [rera EXCEPT ![old] = Latest(ERA)]
               /\ Rmw(t, ERA, Latest(ERA) + 1, Ord["x_faa"]) /\ Acc(t, "faa", "x_faa", Latest(ERA), 1)
               /\ nstate' = [nstate EXCEPT ![old] = "ret"]
               /\ rlist' = [rlist EXCEPT ![t] = <<old>> \o @]
               /\ Goto(t, IF Len(rlist[t]) + 1 >= Threshold THEN "s_fence9" ELSE "idle")
            /\ UNCHANGED <<loc, guards, hint, cnt, lastHE, lastEra, cera, budget, flushed, bad>>

\* ---------------------------------------------------------------- scan
s_fence9(t) == /\ pc[t] = "s_fence9"
               /\ Fence(t, Ord["s_fence9"]) /\ Acc(t, "fence", "s_fence9", 0, 1)
               /\ loc' = [loc EXCEPT ![t].u = 0, ![t].k = 1, ![t].prot = {}]
               /\ Goto(t, "s_ld") /\ UG
s_ld(t) == /\ pc[t] = "s_ld" /\ loc[t].u < NT
           /\ LET x == SLOT(loc[t].u, loc[t].k) IN
              \E i \in Readable(t, x, Ord["s_ld"]) :
                 LET v == ValAt(x, i) IN
                 /\ Load(t, x, Ord["s_ld"], i) /\ Acc(t, "ld", "s_ld", v, 1)
                 /\ loc' = [loc EXCEPT ![t].prot = IF IsEra(v) THEN @ \cup {v} ELSE @,
                                       ![t].k = IF loc[t].k = K THEN 1 ELSE @ + 1,
                                       ![t].u = IF loc[t].k = K THEN @ + 1 ELSE @]
           /\ UNCHANGED pc /\ UG
s_fence10(t) == /\ pc[t] = "s_ld" /\ loc[t].u = NT
                /\ Fence(t, Ord["s_fence10"]) /\ Acc(t, "fence", "s_fence10", 0, 1)
                /\ Goto(t, "s_free") /\ UNCHANGED loc /\ UG
Protected(n, eras) == \E e \in eras : cera[n] <= e /\ e <= rera[n]
s_free(t) == /\ pc[t] = "s_free"
             /\ LET del == {rlist[t][i] : i \in {j \in 1 .. Len(rlist[t]) : ~Protected(rlist[t][j], loc[t].prot)}} IN
                IF del = {} THEN /\ Goto(t, "idle") /\ UNCHANGED <<rlist, nstate, bad, memvars>>
                ELSE LET n == CHOOSE m \in del : TRUE IN
                     /\ PlainWr(t, PAY(n), 0)
                     /\ bad' = IF bad = "ok" /\ nstate[n] # "ret" THEN "deleted a node that is not retired" ELSE bad
                     /\ nstate' = [nstate EXCEPT ![n] = "des"]
                     /\ rlist' = [rlist EXCEPT ![t] = SelectSeq(@, LAMBDA m : m # n)]
                     /\ UNCHANGED pc
             /\ UNCHANGED <<loc, guards, hint, cnt, lastHE, lastEra, cera, rera, budget, flushed, last>>

ThreadStep(t) == \/ StartAcquire(t) \/ StartAcqIfEq(t) \/ StartReplace(t) \/ StartReset(t) \/ StartCopy(t) \/ Touch(t) \/ StartFlush(t)
                 \/ a_ld(t) \/ a_era(t) \/ a_link(t) \/ a_set(t) \/ a_fence(t)
                 \/ e_ldx(t) \/ e_ld1(t) \/ e_era(t) \/ e_ld2(t) \/ r_begin(t) \/ r_st(t) \/ c_copy(t)
                 \/ op_done(t) \/ n_era(t) \/ x_cas(t) \/ x_faa(t) \/ s_fence9(t) \/ s_ld(t) \/ s_fence10(t) \/ s_free(t)
Next == \E t \in Threads : ThreadStep(t)
Spec == Init /\ [][Next]_vars

\* ---------------------------------------------------------------- properties
Established(t, g) == pc[t] = "idle" \/ loc[t].g # g
Safe == /\ bad = "ok"
        /\ \A t \in Threads, g \in 1 .. NG :
             (Established(t, g) /\ guards[t][g].ptr # 0) => nstate[guards[t][g].ptr] \in {"live", "ret"}
Quiescent == \A t \in Threads : pc[t] = "idle" /\ budget[t] = 0 /\ flushed[t] /\ \A g \in 1 .. NG : guards[t][g].he = 0
NoLeak == Quiescent => \A n \in Nodes : nstate[n] # "ret"
\* C18: slots are neither lost nor handed out twice: the guard counts match the guards, free slots are not referenced
SlotsConserved == \A t \in Threads : pc[t] = "idle" =>
                     /\ \A k \in 1 .. K : cnt[t][k] = Cardinality({g \in 1 .. NG : guards[t][g].he = k})
                     /\ hint[t] = 0 \/ cnt[t][hint[t]] = 0
=============================================================================
