--------------------------- MODULE HazardPointer ---------------------------
(***************************************************************************)
(* xenium::reclamation::hazard_pointer (static allocation strategy), one   *)
(* action per atomic access / fence of impl/hazard_pointer.hpp, driven by  *)
(* the generic reclamation client:                                         *)
(*   acquire(g, c)  acquire_if_equal(g, c)  reset(g)  copy(g -> h)         *)
(*   replace(g, c) = acquire, CAS a fresh node into the cell, reclaim the  *)
(*   old one (reset + add_retired_node + scan)   touch(g)   flush (scan)   *)
(*                                                                         *)
(* Slot values: n > 0 = protects node n;  -(j+1) = free-list link to slot  *)
(* j (j = 0: null).  Node payloads are plain locations: a touch is a plain *)
(* read, deletion a plain write (data races under Weak = C03).             *)
(* Node ids may be recycled after destruction (Reuse) - the ABA that the   *)
(* publish / re-validate protocol must tolerate.                           *)
(* Thread exit (~thread_data): scan, abandon what is still protected to    *)
(* the global list ABND, release the thread block (ACT := FALSE); every    *)
(* scan adopts ABND before it gathers the hazard pointers.                 *)
(***************************************************************************)
EXTENDS Mem, TLC

CONSTANTS NT, K, NG, NCells, NNodes, MaxOps, Ord,
          Revalidate,   \* TRUE: acquire re-reads the cell after publishing the hazard pointer (code)
          Reuse,        \* TRUE: destroyed node ids may be allocated again
          Threshold,    \* scan when the number of retired nodes reaches Threshold (0/1: at every retire)
          Roles,        \* per thread: the <<operation, cell>> pairs its program may use (RolesAll: everything)
          Exits,        \* TRUE: threads may exit when their program is over
          AdoptFirst    \* TRUE: scan adopts the abandoned nodes before gathering the hazard pointers (code); FALSE: afterwards

OrdCode == [a_ld1 |-> "rlx", a_link |-> "rlx", a_set |-> "rel", a_fence |-> "sc", a_ld2 |-> "acq",
            r_st |-> "rel", x_cas |-> "rel", x_casf |-> "rlx", s_fence8 |-> "sc", s_ld |-> "rlx", s_fence9 |-> "acq",
            s_act |-> "rlx", s_adopt |-> "acq", x_abandon |-> "rel", x_release |-> "rel"]

ThreadsDef == 0 .. NT - 1
Nodes == 1 .. NNodes
Cells == 0 .. NCells - 1
CELL(c) == <<"cell", c, 0>>
SLOT(t, k) == <<"slot", t, k>>
PAY(n) == <<"pay", n, 0>>
ABND == <<"abnd", 0, 0>>
ACT(t) == <<"act", t, 0>>
LocsDef == {ABND} \cup {ACT(t) : t \in ThreadsDef} \cup {CELL(c) : c \in Cells} \cup {SLOT(t, k) : t \in ThreadsDef, k \in 1 .. K} \cup {PAY(n) : n \in Nodes}
           \cup (IF Weak THEN {RT(PAY(n), u) : n \in Nodes, u \in ThreadsDef} ELSE {})
Link(j) == -(j + 1)
RolesAll == [t \in ThreadsDef |-> {<<o, c>> : o \in {"acquire", "acqe", "replace", "reset", "copy"}, c \in Cells}]
\* three roles: a scanner (retires something else), a holder, a thread that retires the held node and exits
RolesExit3 == [t \in ThreadsDef |-> IF t = 0 THEN {<<"replace", 1>>} ELSE IF t = 1 THEN {<<"acquire", 0>>} ELSE {<<"replace", 0>>}]
SeqOf(S) == CHOOSE q \in [1 .. Cardinality(S) -> S] : {q[i] : i \in 1 .. Cardinality(S)} = S
IsObj(v) == v > 0
\* initial free list of a block: slot k links to k+1, the last one to null
InitValDef(x) == IF x[1] = "cell" THEN x[2] + 1                       \* cell c holds node c+1
                 ELSE IF x[1] = "slot" THEN (IF x[3] < K THEN Link(x[3] + 1) ELSE Link(0))
                 ELSE IF x[1] = "abnd" THEN {}
                 ELSE IF x[1] = "act" THEN TRUE
                 ELSE 0

VARIABLES pc, loc, guards, hint, rlist, nstate, budget, flushed, alive, bad, last
vars == <<pc, loc, guards, hint, rlist, nstate, budget, flushed, alive, bad, last, memvars>>
mcview == <<pc, loc, guards, hint, rlist, nstate, budget, flushed, alive, bad, memvars>>

G0 == [ptr |-> 0, hp |-> 0]
L0 == [g |-> 0, h |-> 0, c |-> 0, p1 |-> 0, p2 |-> 0, op |-> "none", fresh |-> 0, u |-> 0, k |-> 0, prot |-> {}, exp |-> 0, after |-> "none", adopted |-> {}]

\* operations per thread (a definition the configurations may override: asymmetric programs keep weak-memory runs small)
OpsOf(t) == MaxOps
Init == /\ MemInit
        /\ pc = [t \in Threads |-> "idle"]
        /\ loc = [t \in Threads |-> L0]
        /\ guards = [t \in Threads |-> [g \in 1 .. NG |-> G0]]
        /\ hint = [t \in Threads |-> 1]
        /\ rlist = [t \in Threads |-> <<>>]
        /\ nstate = [n \in Nodes |-> IF n <= NCells THEN "live" ELSE "free"]
        /\ budget = [t \in Threads |-> OpsOf(t)]
        /\ flushed = [t \in Threads |-> FALSE]
        /\ alive = [t \in Threads |-> TRUE]
        /\ bad = "ok"
        /\ last = [t |-> -1, k |-> "init", lab |-> "init", v |-> 0, ok |-> 1, n |-> 0]

Goto(t, l) == pc' = [pc EXCEPT ![t] = l]
Acc(t, k, lab, v, ok) == last' = [t |-> t, k |-> k, lab |-> lab, v |-> v, ok |-> ok, n |-> last.n + 1]    \* n: access counter
UG == UNCHANGED <<guards, hint, rlist, nstate, budget, flushed, alive, bad>>

\* ---------------------------------------------------------------- client: start of operations
Begin(t, op, g, h, c, first) ==
  /\ pc[t] = "idle" /\ budget[t] > 0 /\ alive[t] /\ <<op, c>> \in Roles[t]
  /\ budget' = [budget EXCEPT ![t] = @ - 1]
  /\ loc' = [loc EXCEPT ![t] = [L0 EXCEPT !.op = op, !.g = g, !.h = h, !.c = c]]
  /\ Goto(t, first)
  /\ Acc(t, "call", op, g, 1)
  /\ UNCHANGED <<guards, hint, rlist, nstate, flushed, alive, bad, memvars>>
StartAcquire(t) == \E g \in 1 .. NG, c \in Cells : Begin(t, "acquire", g, 0, c, "a_ld1")
StartAcqIfEq(t) == \E g \in 1 .. NG, c \in Cells : Begin(t, "acqe", g, 0, c, "e_ldx")
StartReplace(t) == \E g \in 1 .. NG, c \in Cells : Begin(t, "replace", g, 0, c, "a_ld1")
StartReset(t) == \E g \in 1 .. NG : guards[t][g].hp # 0 /\ Begin(t, "reset", g, 0, 0, "r_st")
StartCopy(t) == \E g \in 1 .. NG, h \in 1 .. NG : g # h /\ guards[t][g].ptr # 0 /\ Begin(t, "copy", h, g, 0, "c_begin")
\* touch: dereference through an established guard (plain read of the payload)
Touch(t) == /\ pc[t] = "idle" /\ alive[t]
            /\ \E g \in 1 .. NG :
                 LET n == guards[t][g].ptr IN
                 /\ n # 0
                 /\ bad' = IF nstate[n] \in {"live", "ret"} THEN bad ELSE "touch of a destroyed object"
                 /\ PlainRd(t, PAY(n))
            /\ UNCHANGED <<pc, loc, guards, hint, rlist, nstate, budget, flushed, alive, last>>
\* flush: the scheme's reclamation point (a scan), once per thread when its program is over
ScanPcs == {"s_fence8", "s_adopt", "s_act", "s_ld", "s_free"}
StartFlush(t) == /\ pc[t] = "idle" /\ budget[t] = 0 /\ ~flushed[t] /\ alive[t]
                 /\ \A u \in Threads : budget[u] = 0 /\ \A g \in 1 .. NG : guards[u][g].hp = 0
                 /\ \A u \in Threads : pc[u] \in {"idle"} \cup ScanPcs /\ (loc[u].op # "exit" \/ ~alive[u])
                 /\ flushed' = [flushed EXCEPT ![t] = TRUE]
                 /\ loc' = [loc EXCEPT ![t] = [L0 EXCEPT !.op = "flush"]]
                 /\ Goto(t, "s_fence8") /\ Acc(t, "call", "flush", 0, 1)
                 /\ UNCHANGED <<guards, hint, rlist, nstate, budget, alive, bad, memvars>>

\* ---------------------------------------------------------------- alloc_hazard_pointer (own free list)
\* result = hint (throws if null - excluded here: NG <= K); hint = result->get_link() : relaxed load of the own slot
AllocTo(t, from, to) ==
  /\ pc[t] = from
  /\ Assert(hint[t] # 0, "hazard pointer pool exceeded (NG <= K expected)")
  /\ LET s == hint[t] x == SLOT(t, s) IN
     \E i \in Readable(t, x, Ord["a_link"]) :
        /\ Load(t, x, Ord["a_link"], i)
        /\ Acc(t, "ld", "a_link", ValAt(x, i), 1)
        /\ hint' = [hint EXCEPT ![t] = -(ValAt(x, i)) - 1]
        /\ guards' = [guards EXCEPT ![t][loc[t].g].hp = s]
  /\ Goto(t, to)
  /\ UNCHANGED <<loc, rlist, nstate, budget, flushed, alive, bad>>

\* ---------------------------------------------------------------- acquire
a_ld1(t) == /\ pc[t] = "a_ld1"
            /\ LET x == CELL(loc[t].c) g == loc[t].g IN
               \E i \in Readable(t, x, Ord["a_ld1"]) :
                  LET p1 == ValAt(x, i) IN
                  /\ Load(t, x, Ord["a_ld1"], i)
                  /\ Acc(t, "ld", "a_ld1", p1, 1)
                  /\ loc' = [loc EXCEPT ![t].p1 = p1, ![t].p2 = p1]
                  /\ IF p1 = guards[t][g].ptr THEN Goto(t, "op_done")
                     ELSE IF p1 # 0 /\ guards[t][g].hp = 0 THEN Goto(t, "a_alloc")
                     ELSE Goto(t, "a_loop")
            /\ UG
a_alloc(t) == AllocTo(t, "a_alloc", "a_loop")
\* loop head (no access)
a_null(t) == /\ pc[t] = "a_loop" /\ loc[t].p2 = 0       \* p2 == nullptr: reset(); return
             /\ loc' = [loc EXCEPT ![t].after = "op_done"]
             /\ Goto(t, IF guards[t][loc[t].g].hp # 0 THEN "r_st" ELSE "r_nohp")
             /\ UNCHANGED <<guards, hint, rlist, nstate, budget, flushed, alive, bad, last, memvars>>
a_set(t) == /\ pc[t] = "a_loop" /\ loc[t].p2 # 0
            /\ Store(t, SLOT(t, guards[t][loc[t].g].hp), loc[t].p2, Ord["a_set"])
            /\ Acc(t, "st", "a_set", loc[t].p2, 1)
            /\ loc' = [loc EXCEPT ![t].p1 = loc[t].p2]
            /\ Goto(t, "a_fence") /\ UG
a_fence(t) == /\ pc[t] = "a_fence"
              /\ Fence(t, Ord["a_fence"]) /\ Acc(t, "fence", "a_fence", 0, 1)
              /\ Goto(t, "a_ld2") /\ UNCHANGED loc /\ UG
a_ld2(t) == /\ pc[t] = "a_ld2"
            /\ LET x == CELL(loc[t].c) g == loc[t].g IN
               \E i \in Readable(t, x, Ord["a_ld2"]) :
                  LET p2 == ValAt(x, i) IN
                  /\ Load(t, x, Ord["a_ld2"], i)
                  /\ Acc(t, "ld", "a_ld2", p2, 1)
                  /\ loc' = [loc EXCEPT ![t].p2 = p2]
                  /\ IF Revalidate /\ p2 # loc[t].p1
                       THEN Goto(t, "a_loop") /\ UNCHANGED guards
                       ELSE /\ guards' = [guards EXCEPT ![t][g].ptr = IF Revalidate THEN p2 ELSE loc[t].p1]
                            /\ Goto(t, "op_done")
            /\ UNCHANGED <<hint, rlist, nstate, budget, flushed, alive, bad>>

\* ---------------------------------------------------------------- acquire_if_equal (expected = value loaded just before)
e_ldx(t) == /\ pc[t] = "e_ldx"                       \* the client's own load of the expected value
            /\ LET x == CELL(loc[t].c) IN
               \E i \in Readable(t, x, "rlx") :
                  /\ Load(t, x, "rlx", i) /\ Acc(t, "ld", "e_ldx", ValAt(x, i), 1)
                  /\ loc' = [loc EXCEPT ![t].exp = ValAt(x, i)]
            /\ Goto(t, "e_ld1") /\ UG
e_ld1(t) == /\ pc[t] = "e_ld1"
            /\ LET x == CELL(loc[t].c) g == loc[t].g IN
               \E i \in Readable(t, x, Ord["a_ld1"]) :
                  LET p1 == ValAt(x, i) IN
                  /\ Load(t, x, Ord["a_ld1"], i)
                  /\ Acc(t, "ld", "a_ld1", p1, 1)
                  /\ loc' = [loc EXCEPT ![t].p1 = p1, ![t].after = "op_done"]
                  /\ IF p1 = 0 \/ p1 # loc[t].exp
                       THEN Goto(t, IF guards[t][g].hp # 0 THEN "r_st" ELSE "r_nohp")
                       ELSE Goto(t, IF guards[t][g].hp = 0 THEN "e_alloc" ELSE "e_set")
            /\ UG
e_alloc(t) == AllocTo(t, "e_alloc", "e_set")
e_set(t) == /\ pc[t] = "e_set"
            /\ Store(t, SLOT(t, guards[t][loc[t].g].hp), loc[t].p1, Ord["a_set"])
            /\ Acc(t, "st", "a_set", loc[t].p1, 1)
            /\ Goto(t, "e_fence") /\ UNCHANGED loc /\ UG
e_fence(t) == /\ pc[t] = "e_fence"
              /\ Fence(t, Ord["a_fence"]) /\ Acc(t, "fence", "a_fence", 0, 1)
              /\ Goto(t, "e_ld2") /\ UNCHANGED loc /\ UG
e_ld2(t) == /\ pc[t] = "e_ld2"
            /\ LET x == CELL(loc[t].c) g == loc[t].g IN
               \E i \in Readable(t, x, Ord["a_ld2"]) :
                  LET p2 == ValAt(x, i) IN
                  /\ Load(t, x, Ord["a_ld2"], i)
                  /\ Acc(t, "ld", "a_ld2", p2, 1)
                  /\ guards' = [guards EXCEPT ![t][g].ptr = p2]          \* this->ptr = p.load(order)
                  /\ IF p2 # loc[t].p1
                       THEN Goto(t, "r_st") /\ loc' = [loc EXCEPT ![t].after = "op_done"]
                       ELSE Goto(t, "op_done") /\ UNCHANGED loc
            /\ UNCHANGED <<hint, rlist, nstate, budget, flushed, alive, bad>>

\* ---------------------------------------------------------------- reset: release_hazard_pointer + ptr.reset()
r_st(t) == /\ pc[t] = "r_st"
           /\ LET g == loc[t].g s == guards[t][g].hp IN
              /\ Store(t, SLOT(t, s), Link(hint[t]), Ord["r_st"])
              /\ Acc(t, "st", "r_st", Link(hint[t]), 1)
              /\ hint' = [hint EXCEPT ![t] = s]
              /\ guards' = [guards EXCEPT ![t][g] = G0]
           /\ Goto(t, IF loc[t].after = "none" THEN "op_done" ELSE loc[t].after)
           /\ UNCHANGED <<loc, rlist, nstate, budget, flushed, alive, bad>>
r_nohp(t) == /\ pc[t] = "r_nohp"
             /\ guards' = [guards EXCEPT ![t][loc[t].g] = G0]
             /\ Goto(t, IF loc[t].after = "none" THEN "op_done" ELSE loc[t].after)
             /\ UNCHANGED <<loc, hint, rlist, nstate, budget, flushed, alive, bad, last, memvars>>

\* ---------------------------------------------------------------- copy assignment h = g (operator=(const guard_ptr&))
c_begin(t) == /\ pc[t] = "c_begin"
              /\ Goto(t, IF guards[t][loc[t].g].hp = 0 THEN "c_alloc" ELSE "c_set")
              /\ UNCHANGED <<loc, guards, hint, rlist, nstate, budget, flushed, alive, bad, last, memvars>>
c_alloc(t) == AllocTo(t, "c_alloc", "c_set")
c_set(t) == /\ pc[t] = "c_set"
            /\ LET src == guards[t][loc[t].h].ptr IN
               /\ Store(t, SLOT(t, guards[t][loc[t].g].hp), src, Ord["a_set"])
               /\ Acc(t, "st", "a_set", src, 1)
               /\ guards' = [guards EXCEPT ![t][loc[t].g].ptr = src]
            /\ Goto(t, "c_fence")
            /\ UNCHANGED <<loc, hint, rlist, nstate, budget, flushed, alive, bad>>
c_fence(t) == /\ pc[t] = "c_fence"
              /\ Fence(t, Ord["a_fence"]) /\ Acc(t, "fence", "a_fence", 0, 1)
              /\ Goto(t, "op_done") /\ UNCHANGED loc /\ UG

\* ---------------------------------------------------------------- replace: after acquire, CAS a fresh node in, reclaim the old one
FreshIds == {n \in Nodes : nstate[n] = "free" \/ (Reuse /\ nstate[n] = "des")}
op_done(t) ==
  /\ pc[t] = "op_done"
  /\ IF loc[t].op = "replace" /\ guards[t][loc[t].g].ptr # 0 /\ FreshIds # {}
       THEN /\ \E n \in FreshIds : /\ loc' = [loc EXCEPT ![t].fresh = n, ![t].op = "replace2"]
                                   /\ nstate' = [nstate EXCEPT ![n] = "live"]
            /\ Goto(t, "x_cas")
       ELSE Goto(t, "idle") /\ UNCHANGED <<loc, nstate>>
  /\ UNCHANGED <<guards, hint, rlist, budget, flushed, alive, bad, last, memvars>>
x_cas(t) == /\ pc[t] = "x_cas"
            /\ LET x == CELL(loc[t].c) old == guards[t][loc[t].g].ptr IN
               IF Latest(x) = old
                 THEN /\ Rmw(t, x, loc[t].fresh, Ord["x_cas"])
                      /\ Acc(t, "cas", "x_cas", old, 1)
                      /\ nstate' = [nstate EXCEPT ![old] = "ret"]
                      /\ rlist' = [rlist EXCEPT ![t] = <<old>> \o @]       \* add_retired_node (after reset, same thread)
                      /\ loc' = [loc EXCEPT ![t].after = IF Len(rlist[t]) + 1 >= Threshold THEN "s_fence8" ELSE "idle"]
                      /\ Goto(t, "r_st")                                     \* reclaim: reset first
                 ELSE /\ CasFail(t, x, Ord["x_casf"])
                      /\ Acc(t, "cas", "x_cas", Latest(x), 0)
                      /\ nstate' = [nstate EXCEPT ![loc[t].fresh] = "free"]  \* never published: deleted by the client
                      /\ Goto(t, "idle") /\ UNCHANGED <<rlist, loc>>
            /\ UNCHANGED <<guards, hint, budget, flushed, alive, bad>>

\* ---------------------------------------------------------------- scan
s_fence8(t) == /\ pc[t] = "s_fence8"
               /\ Fence(t, Ord["s_fence8"]) /\ Acc(t, "fence", "s_fence8", 0, 1)
               /\ loc' = [loc EXCEPT ![t].u = 0, ![t].k = 1, ![t].prot = {}, ![t].adopted = {}]
               /\ Goto(t, IF AdoptFirst THEN "s_adopt" ELSE "s_act") /\ UG
\* adopt_abandoned_retired_nodes: exchange with null
s_adopt(t) == /\ pc[t] = "s_adopt"
              /\ loc' = [loc EXCEPT ![t].adopted = Latest(ABND)]
              /\ Rmw(t, ABND, {}, Ord["s_adopt"]) /\ Acc(t, "xchg", "s_adopt", 0, 1)
              /\ Goto(t, IF AdoptFirst THEN "s_act" ELSE "s_free") /\ UG
\* for every entry of the thread block list: is_active, then its K slots
s_act(t) == /\ pc[t] = "s_act"
            /\ IF loc[t].u = NT
                 THEN /\ Fence(t, Ord["s_fence9"]) /\ Acc(t, "fence", "s_fence9", 0, 1)
                      /\ Goto(t, IF AdoptFirst THEN "s_free" ELSE "s_adopt") /\ UNCHANGED loc
                 ELSE \E i \in Readable(t, ACT(loc[t].u), Ord["s_act"]) :
                         /\ Load(t, ACT(loc[t].u), Ord["s_act"], i) /\ Acc(t, "ld", "s_act", 0, 1)
                         /\ IF ValAt(ACT(loc[t].u), i) THEN Goto(t, "s_ld") /\ UNCHANGED loc
                            ELSE loc' = [loc EXCEPT ![t].u = @ + 1] /\ UNCHANGED pc
            /\ UG
s_ld(t) == /\ pc[t] = "s_ld"
           /\ LET x == SLOT(loc[t].u, loc[t].k) IN
              \E i \in Readable(t, x, Ord["s_ld"]) :
                 LET v == ValAt(x, i) IN
                 /\ Load(t, x, Ord["s_ld"], i)
                 /\ Acc(t, "ld", "s_ld", v, 1)
                 /\ loc' = [loc EXCEPT ![t].prot = IF IsObj(v) THEN @ \cup {v} ELSE @,
                                       ![t].k = IF loc[t].k = K THEN 1 ELSE @ + 1,
                                       ![t].u = IF loc[t].k = K THEN @ + 1 ELSE @]
                 /\ Goto(t, IF loc[t].k = K THEN "s_act" ELSE "s_ld")
           /\ UG
\* reclaim_nodes(own list) and reclaim_nodes(adopted): unprotected nodes are deleted (plain write to the payload), protected
\* ones stay / become retired nodes of this thread
s_free(t) == /\ pc[t] = "s_free"
             /\ LET own == {rlist[t][i] : i \in 1 .. Len(rlist[t])}
                    del == {n \in own \cup loc[t].adopted : n \notin loc[t].prot} IN
                IF del = {}
                  THEN /\ rlist' = [rlist EXCEPT ![t] = @ \o SeqOf(loc[t].adopted \ own)]
                       /\ loc' = [loc EXCEPT ![t].adopted = {}]
                       /\ Goto(t, IF loc[t].op = "exit" THEN "x_abandon" ELSE "idle") /\ UNCHANGED <<nstate, bad, memvars>>
                  ELSE LET n == CHOOSE m \in del : TRUE IN
                       /\ PlainWr(t, PAY(n), 0)
                       /\ bad' = IF bad = "ok" /\ nstate[n] # "ret" THEN "deleted a node that is not retired" ELSE bad
                       /\ nstate' = [nstate EXCEPT ![n] = "des"]
                       /\ rlist' = [rlist EXCEPT ![t] = SelectSeq(@, LAMBDA m : m # n)]
                       /\ loc' = [loc EXCEPT ![t].adopted = @ \ {n}]
                       /\ UNCHANGED pc
             /\ UNCHANGED <<guards, hint, budget, flushed, alive, last>>

\* ---------------------------------------------------------------- thread exit: ~thread_data
StartExit(t) == /\ Exits /\ pc[t] = "idle" /\ alive[t] /\ budget[t] = 0 /\ loc[t].op # "exit"
                /\ \A g \in 1 .. NG : guards[t][g].hp = 0
                /\ \A u \in Threads : ~flushed[u]                    \* threads exit before the final flush phase
                /\ \E u \in Threads \ {t} : alive[u] /\ loc[u].op # "exit"      \* somebody stays to clean up
                /\ loc' = [loc EXCEPT ![t] = [L0 EXCEPT !.op = "exit"]]
                /\ Goto(t, IF rlist[t] # <<>> THEN "s_fence8" ELSE "x_release") /\ Acc(t, "call", "exit", 0, 1)
                /\ UNCHANGED <<guards, hint, rlist, nstate, budget, flushed, alive, bad, memvars>>
x_abandon(t) == /\ pc[t] = "x_abandon"
                /\ IF rlist[t] # <<>>
                     THEN /\ Rmw(t, ABND, Latest(ABND) \cup {rlist[t][i] : i \in 1 .. Len(rlist[t])}, Ord["x_abandon"])
                          /\ Acc(t, "cas", "x_abandon", 0, 1)
                          /\ rlist' = [rlist EXCEPT ![t] = <<>>]
                     ELSE UNCHANGED <<rlist, last, memvars>>
                /\ Goto(t, "x_release")
                /\ UNCHANGED <<loc, guards, hint, nstate, budget, flushed, alive, bad>>
x_release(t) == /\ pc[t] = "x_release"
                /\ Store(t, ACT(t), FALSE, Ord["x_release"]) /\ Acc(t, "st", "x_release", 0, 1)
                /\ alive' = [alive EXCEPT ![t] = FALSE]
                /\ Goto(t, "idle")
                /\ UNCHANGED <<loc, guards, hint, rlist, nstate, budget, flushed, bad>>

ThreadStep(t) == \/ StartAcquire(t) \/ StartAcqIfEq(t) \/ StartReplace(t) \/ StartReset(t) \/ StartCopy(t) \/ Touch(t) \/ StartFlush(t)
                 \/ a_ld1(t) \/ a_alloc(t) \/ a_null(t) \/ a_set(t) \/ a_fence(t) \/ a_ld2(t)
                 \/ e_ldx(t) \/ e_ld1(t) \/ e_alloc(t) \/ e_set(t) \/ e_fence(t) \/ e_ld2(t)
                 \/ r_st(t) \/ r_nohp(t) \/ c_begin(t) \/ c_alloc(t) \/ c_set(t) \/ c_fence(t)
                 \/ op_done(t) \/ x_cas(t) \/ s_fence8(t) \/ s_adopt(t) \/ s_act(t) \/ s_ld(t) \/ s_free(t)
                 \/ StartExit(t) \/ x_abandon(t) \/ x_release(t)
Next == \E t \in Threads : ThreadStep(t)
Spec == Init /\ [][Next]_vars

\* ---------------------------------------------------------------- properties
\* C01: an established guard never refers to a destroyed object
Established(t, g) == pc[t] = "idle" \/ loc[t].g # g
Safe == /\ bad = "ok"
        /\ \A t \in Threads, g \in 1 .. NG :
             (Established(t, g) /\ guards[t][g].ptr # 0) => nstate[guards[t][g].ptr] \in {"live", "ret"}
\* C02: once every thread is done, has released its guards and passed its reclamation point, nothing retired remains
Quiescent == \A t \in Threads : pc[t] = "idle" /\ budget[t] = 0 /\ (flushed[t] \/ ~alive[t]) /\ \A g \in 1 .. NG : guards[t][g].hp = 0
NoLeak == Quiescent => \A n \in Nodes : nstate[n] # "ret"
\* C18: the slot free list is never lost: free slots + slots owned by guards = K
SlotsConserved == \A t \in Threads : pc[t] = "idle" =>
                     LET owned == {guards[t][g].hp : g \in 1 .. NG} \ {0} IN
                     /\ Cardinality(owned) = Cardinality({g \in 1 .. NG : guards[t][g].hp # 0})
                     /\ hint[t] \notin owned
=============================================================================
