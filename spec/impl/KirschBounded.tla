---------------------------- MODULE KirschBounded ----------------------------
(***************************************************************************)
(* xenium::kirsch_bounded_kfifo_queue (xenium/kirsch_bounded_kfifo_queue   *)
(* .hpp): the bounded k-FIFO queue of Kirsch, Lippautz and Payer - a ring  *)
(* of Segs segments of K slots; _head / _tail are tagged indices (multiples*)
(* of K modulo K * Segs).  One action per atomic access of try_push /      *)
(* do_pop / find_index / committed / queue_full / segment_empty.           *)
(*                                                                         *)
(* Words are records: _head / _tail = [i, m] (index, tag), a slot = [p, m] *)
(* (value or 0, tag).  The index field of a tagged index has IdxBits bits  *)
(* (16 in the code): marked_idx(val, mark) keeps val % 2^IdxBits and lets  *)
(* the excess run into the tag - K * Segs > 2^IdxBits is accepted by the   *)
(* constructor and breaks the ring (finding C06-kfifo-index-width).        *)
(*                                                                         *)
(* FullChecksTag = TRUE is the code: queue_full compares the WHOLE head    *)
(* word with the snapshot, so a concurrent tag bump of _head (committed)   *)
(* makes a full queue look "not full" and the tail advances onto the head  *)
(* segment (known finding C06-bounded-kfifo-head-tag).  FALSE compares the *)
(* index only.                                                             *)
(***************************************************************************)
EXTENDS Mem, LinMon, Queues, TLC

CONSTANTS NT, K, NSegsB, IdxBits, Ord,
          Progs, SetupOps,
          Committed,      \* TRUE: try_push checks `committed` after its CAS (code)
          HeadTagBump,    \* TRUE: committed bumps the tag of _head when the segment is neither clearly valid nor clearly invalid (code)
          FullChecksTag,  \* TRUE: queue_full / "queue is full" compare the head word incl. its tag (code)
          PopMovesTail    \* TRUE: a pop that takes a value from the segment _tail points to advances _tail first (code)

OrdCode == [b_ldt |-> "rlx", b_ldh |-> "rlx", f_ld |-> "acq", b_ldt2 |-> "rlx", b_cas |-> "rel", k_ld |-> "rlx", k_ldt |-> "rlx", k_ldh |-> "rlx",
            k_rm |-> "rlx", k_bump |-> "rlx", b_qf |-> "rlx", s_ld |-> "acq", b_hinc |-> "rlx", b_ldh2 |-> "rlx", b_tinc |-> "rlx",
            p_ldh |-> "rlx", p_ldt |-> "rlx", p_ldh2 |-> "rlx", p_tinc |-> "rlx", p_cas |-> "rel", p_ldt2 |-> "rlx", p_hinc |-> "rlx", casf |-> "rlx"]

ThreadsDef == 0 .. NT - 1
QS == K * NSegsB
Pow2 == LET RECURSIVE P(_) P(n) == IF n = 0 THEN 1 ELSE 2 * P(n - 1) IN P(IdxBits)
NVals == LET RECURSIVE Cnt(_) Cnt(i) == IF i > Len(Progs) THEN 0 ELSE Cardinality({j \in 1 .. Len(Progs[i]) : Progs[i][j] = "push"}) + Cnt(i + 1) IN Cnt(1)
Vals == 1 .. NVals
HEAD == <<"head", 0>>
TAIL == <<"tail", 0>>
ITEM(i) == <<"item", i>>
LocsDef == {HEAD, TAIL} \cup {ITEM(i) : i \in 0 .. QS - 1}
W(p, m) == [p |-> p, m |-> m]
\* marked_idx(val, mark): val | (mark << bits)
MkIdx(val, mark) == [i |-> val % Pow2, m |-> mark + (val \div Pow2)]
InitValDef(x) == IF x = HEAD \/ x = TAIL THEN [i |-> 0, m |-> 0] ELSE W(0, 0)

VARIABLES pc, loc, lin, budget, nextv, own, bad, dtor, last
vars == <<pc, loc, lin, budget, nextv, own, bad, dtor, last, memvars>>
mcview == <<pc, loc, lin, budget, nextv, own, bad, dtor, memvars>>

I0 == [i |-> 0, m |-> 0]
L0 == [v |-> 0, tl |-> I0, hd |-> I0, tc |-> I0, hc |-> I0, r |-> 0, i |-> 0, st |-> 0, idx |-> 0, old |-> W(0, 0), found |-> FALSE, nv |-> W(0, 0),
       fret |-> "idle", emp |-> FALSE]
Init == /\ MemInit
        /\ pc = [t \in Threads |-> "idle"]
        /\ loc = [t \in Threads |-> L0]
        /\ lin = [mon |-> MonInit(QCfg(QInit, "kind_bkfifo", K, NSegsB)), taken |-> {}, bad |-> "ok"]
        /\ budget = [t \in Threads |-> 1]
        /\ nextv = 1
        /\ own = [v \in Vals |-> "caller"]
        /\ bad = "ok"
        /\ dtor = FALSE
        /\ last = [t |-> -1, k |-> "init", lab |-> "init", v |-> W(0, 0), ok |-> 1, n |-> 0]       \* v: a slot word [p, m] or an index word shown as [p |-> i, m |-> m]

Goto(t, l) == pc' = [pc EXCEPT ![t] = l]
IW(x) == W(x.i, x.m)
Acc(t, k, lab, v, ok) == last' = [t |-> t, k |-> k, lab |-> lab, v |-> v, ok |-> ok, n |-> last.n + 1]
Return(t, r, v, popping) ==
  /\ lin' = [mon |-> MonRet(lin.mon, t, r, v),
             taken |-> IF (popping /\ r = 1) \/ (~popping /\ r = 0) THEN lin.taken \cup {v} ELSE lin.taken,
             bad |-> IF popping /\ r = 1 /\ lin.bad = "ok" /\ (v \notin 1 .. nextv - 1 \/ v \in lin.taken)
                       THEN "a value was popped twice or invented" ELSE lin.bad]
  /\ Goto(t, "idle")
MayStart(t, op) == /\ pc[t] = "idle" /\ ~dtor /\ budget[t] <= Len(Progs[t + 1]) /\ Progs[t + 1][budget[t]] = op
                   /\ (t = 0 \/ (budget[0] > SetupOps /\ (budget[0] > SetupOps + 1 \/ pc[0] = "idle" \/ SetupOps = 0)))
Done == \A t \in Threads : pc[t] = "idle" /\ budget[t] > Len(Progs[t + 1])
UO == UNCHANGED <<lin, budget, nextv, own, bad, dtor>>

\* a relaxed / acquire load of an index word into local field f, then continue at l
LdIdx(t, lab, x, f, l) == /\ \E j \in Readable(t, x, Ord[lab]) :
                               /\ Load(t, x, Ord[lab], j)
                               /\ Acc(t, "ld", lab, IW(ValAt(x, j)), 1)
                               /\ loc' = [loc EXCEPT ![t][f] = ValAt(x, j)]
                          /\ Goto(t, l) /\ UO
\* CAS of an index word: expected e, new value nw
CasIdx(t, lab, x, e, nw) == IF Latest(x) = e THEN Rmw(t, x, nw, Ord[lab]) /\ Acc(t, "cas", lab, IW(e), 1)
                            ELSE CasFail(t, x, Ord["casf"]) /\ Acc(t, "cas", lab, IW(Latest(x)), 0)
Inc(x) == MkIdx((x.i + K) % QS, x.m + 1)

\* ---- find_index<Empty>(start): random start offset, at most K acquire loads -----------------------------
CallFind(l, st, emp, fret) == [l EXCEPT !.st = st, !.emp = emp, !.fret = fret, !.i = 0, !.found = FALSE]
f_rnd(t) == /\ pc[t] = "f_rnd"
            /\ \E r \in 0 .. K - 1 : loc' = [loc EXCEPT ![t].r = r]
            /\ Goto(t, "f_ld")
            /\ UNCHANGED <<last, memvars>> /\ UO
f_ld(t) == /\ pc[t] = "f_ld"
           /\ LET ix == (loc[t].st + ((loc[t].r + loc[t].i) % K)) % QS x == ITEM(ix) IN
              \E j \in Readable(t, x, Ord["f_ld"]) :
                /\ Load(t, x, Ord["f_ld"], j)
                /\ Acc(t, "ld", "f_ld", ValAt(x, j), 1)
                /\ LET w == ValAt(x, j) hit == (loc[t].emp /\ w.p = 0) \/ (~loc[t].emp /\ w.p # 0) IN
                   IF hit THEN /\ loc' = [loc EXCEPT ![t].found = TRUE, ![t].idx = ix, ![t].old = w] /\ Goto(t, loc[t].fret)
                   ELSE IF loc[t].i + 1 >= K THEN /\ loc' = [loc EXCEPT ![t].found = FALSE, ![t].old = w] /\ Goto(t, loc[t].fret)
                   ELSE /\ loc' = [loc EXCEPT ![t].i = @ + 1] /\ Goto(t, "f_ld")
           /\ UO

\* ---- try_push ----------------------------------------------------------------------------------
StartPush(t) == /\ MayStart(t, "push")
                /\ budget' = [budget EXCEPT ![t] = @ + 1]
                /\ loc' = [loc EXCEPT ![t] = [L0 EXCEPT !.v = nextv]]
                /\ lin' = [lin EXCEPT !.mon = MonCall(@, t, "push", nextv, 0)]
                /\ nextv' = nextv + 1
                /\ Goto(t, "b_ldt") /\ Acc(t, "call", "push", W(nextv, 0), 1)
                /\ UNCHANGED <<own, bad, dtor, memvars>>
b_ldt(t) == pc[t] = "b_ldt" /\ LdIdx(t, "b_ldt", TAIL, "tl", "b_ldh")
b_ldh(t) == /\ pc[t] = "b_ldh"
            /\ \E j \in Readable(t, HEAD, Ord["b_ldh"]) :
                 /\ Load(t, HEAD, Ord["b_ldh"], j)
                 /\ Acc(t, "ld", "b_ldh", IW(ValAt(HEAD, j)), 1)
                 /\ loc' = [loc EXCEPT ![t] = CallFind([@ EXCEPT !.hd = ValAt(HEAD, j)], loc[t].tl.i, TRUE, "b_ldt2")]
            /\ Goto(t, "f_rnd") /\ UO
b_ldt2(t) == /\ pc[t] = "b_ldt2"
             /\ \E j \in Readable(t, TAIL, Ord["b_ldt2"]) :
                  /\ Load(t, TAIL, Ord["b_ldt2"], j)
                  /\ Acc(t, "ld", "b_ldt2", IW(ValAt(TAIL, j)), 1)
                  /\ Goto(t, IF ValAt(TAIL, j) # loc[t].tl THEN "b_ldt"
                             ELSE IF loc[t].found THEN "b_cas"
                             ELSE IF (loc[t].tl.i + K) % QS = loc[t].hd.i THEN "b_qf" ELSE "b_tinc")
             /\ UNCHANGED loc /\ UO
\* (1)
b_cas(t) == /\ pc[t] = "b_cas"
            /\ LET x == ITEM(loc[t].idx) nv == W(loc[t].v, loc[t].old.m + 1) IN
               IF Latest(x) = loc[t].old
                 THEN /\ Rmw(t, x, nv, Ord["b_cas"]) /\ Acc(t, "cas", "b_cas", loc[t].old, 1)
                      /\ own' = [own EXCEPT ![loc[t].v] = "queue"]
                      /\ loc' = [loc EXCEPT ![t].nv = nv]
                      /\ Goto(t, IF Committed THEN "k_ld" ELSE "b_done")
                 ELSE /\ CasFail(t, x, Ord["casf"]) /\ Acc(t, "cas", "b_cas", Latest(x), 0)
                      /\ Goto(t, "b_ldt") /\ UNCHANGED <<own, loc>>
            /\ UNCHANGED <<lin, budget, nextv, bad, dtor>>
\* committed(tail_old, new_value, idx)
k_ld(t) == /\ pc[t] = "k_ld"
           /\ LET x == ITEM(loc[t].idx) IN
              \E j \in Readable(t, x, Ord["k_ld"]) :
                /\ Load(t, x, Ord["k_ld"], j)
                /\ Acc(t, "ld", "k_ld", ValAt(x, j), 1)
                /\ Goto(t, IF ValAt(x, j) # loc[t].nv THEN "b_done" ELSE "k_ldt")
           /\ UNCHANGED loc /\ UO
k_ldt(t) == pc[t] = "k_ldt" /\ LdIdx(t, "k_ldt", TAIL, "tc", "k_ldh")
InValid(to, tcur, hcur) == IF ~(tcur < hcur) THEN hcur < to /\ to <= tcur ELSE hcur < to \/ to <= tcur
NotInValid(to, tcur, hcur) == IF ~(tcur < hcur) THEN to < tcur \/ hcur < to ELSE to < tcur /\ hcur < to
k_ldh(t) == /\ pc[t] = "k_ldh"
            /\ \E j \in Readable(t, HEAD, Ord["k_ldh"]) :
                 /\ Load(t, HEAD, Ord["k_ldh"], j)
                 /\ Acc(t, "ld", "k_ldh", IW(ValAt(HEAD, j)), 1)
                 /\ loc' = [loc EXCEPT ![t].hc = ValAt(HEAD, j)]
                 /\ LET hcur == ValAt(HEAD, j).i IN
                    Goto(t, IF InValid(loc[t].tl.i, loc[t].tc.i, hcur) THEN "b_done"
                            ELSE IF NotInValid(loc[t].tl.i, loc[t].tc.i, hcur) THEN "k_rm"
                            ELSE IF HeadTagBump THEN "k_bump" ELSE "b_done")
            /\ UO
k_rm(t) == /\ pc[t] = "k_rm"
           /\ LET x == ITEM(loc[t].idx) IN
              IF Latest(x) = loc[t].nv
                THEN /\ Rmw(t, x, W(0, loc[t].nv.m + 1), Ord["k_rm"]) /\ Acc(t, "cas", "k_rm", loc[t].nv, 1)
                     /\ own' = [own EXCEPT ![loc[t].v] = "caller"]
                     /\ Goto(t, "b_ldt")
                ELSE /\ CasFail(t, x, Ord["casf"]) /\ Acc(t, "cas", "k_rm", Latest(x), 0)
                     /\ Goto(t, "b_done") /\ UNCHANGED own
           /\ UNCHANGED <<loc, lin, budget, nextv, bad, dtor>>
k_bump(t) == /\ pc[t] = "k_bump"
             /\ CasIdx(t, "k_bump", HEAD, loc[t].hc, [i |-> loc[t].hc.i, m |-> loc[t].hc.m + 1])
             /\ Goto(t, IF Latest(HEAD) = loc[t].hc THEN "b_done" ELSE "k_rm")
             /\ UNCHANGED loc /\ UO
b_done(t) == /\ pc[t] = "b_done"
             /\ Return(t, 1, loc[t].v, FALSE)
             /\ UNCHANGED <<loc, budget, nextv, own, bad, dtor, last, memvars>>
\* queue_full: (tail + k) % size == head  &&  head_old == _head.load()
b_qf(t) == /\ pc[t] = "b_qf"
           /\ \E j \in Readable(t, HEAD, Ord["b_qf"]) :
                /\ Load(t, HEAD, Ord["b_qf"], j)
                /\ Acc(t, "ld", "b_qf", IW(ValAt(HEAD, j)), 1)
                /\ LET same == IF FullChecksTag THEN ValAt(HEAD, j) = loc[t].hd ELSE ValAt(HEAD, j).i = loc[t].hd.i IN
                   IF same THEN /\ loc' = [loc EXCEPT ![t].i = 0] /\ Goto(t, "s_ld")
                   ELSE /\ UNCHANGED loc /\ Goto(t, "b_tinc")
           /\ UO
\* segment_empty(head_old)
s_ld(t) == /\ pc[t] = "s_ld"
           /\ LET x == ITEM((loc[t].hd.i + loc[t].i) % QS) IN
              \E j \in Readable(t, x, Ord["s_ld"]) :
                /\ Load(t, x, Ord["s_ld"], j)
                /\ Acc(t, "ld", "s_ld", ValAt(x, j), 1)
                /\ IF ValAt(x, j).p # 0 THEN Goto(t, "b_ldh2") /\ UNCHANGED loc
                   ELSE IF loc[t].i + 1 >= K THEN Goto(t, "b_hinc") /\ UNCHANGED loc
                   ELSE loc' = [loc EXCEPT ![t].i = @ + 1] /\ Goto(t, "s_ld")
           /\ UO
b_hinc(t) == /\ pc[t] = "b_hinc"
             /\ CasIdx(t, "b_hinc", HEAD, loc[t].hd, Inc(loc[t].hd))
             /\ Goto(t, "b_tinc")
             /\ UNCHANGED loc /\ UO
b_ldh2(t) == /\ pc[t] = "b_ldh2"
             /\ \E j \in Readable(t, HEAD, Ord["b_ldh2"]) :
                  /\ Load(t, HEAD, Ord["b_ldh2"], j)
                  /\ Acc(t, "ld", "b_ldh2", IW(ValAt(HEAD, j)), 1)
                  /\ LET same == IF FullChecksTag THEN ValAt(HEAD, j) = loc[t].hd ELSE ValAt(HEAD, j).i = loc[t].hd.i IN
                     IF same THEN Return(t, 0, loc[t].v, FALSE)             \* queue is full
                     ELSE Goto(t, "b_tinc") /\ UNCHANGED lin
             /\ UNCHANGED <<loc, budget, nextv, own, bad, dtor>>
b_tinc(t) == /\ pc[t] = "b_tinc"
             /\ CasIdx(t, "b_tinc", TAIL, loc[t].tl, Inc(loc[t].tl))
             /\ Goto(t, "b_ldt")
             /\ UNCHANGED loc /\ UO

\* ---- do_pop ------------------------------------------------------------------------------------
StartPop(t) == /\ MayStart(t, "pop")
               /\ budget' = [budget EXCEPT ![t] = @ + 1]
               /\ lin' = [lin EXCEPT !.mon = MonCall(@, t, "pop", 0, 0)]
               /\ loc' = [loc EXCEPT ![t] = L0]
               /\ Goto(t, "p_ldh") /\ Acc(t, "call", "pop", W(0, 0), 1)
               /\ UNCHANGED <<nextv, own, bad, dtor, memvars>>
p_ldh(t) == pc[t] = "p_ldh" /\ LdIdx(t, "p_ldh", HEAD, "hd", "p_ldt")
p_ldt(t) == /\ pc[t] = "p_ldt"
            /\ \E j \in Readable(t, TAIL, Ord["p_ldt"]) :
                 /\ Load(t, TAIL, Ord["p_ldt"], j)
                 /\ Acc(t, "ld", "p_ldt", IW(ValAt(TAIL, j)), 1)
                 /\ loc' = [loc EXCEPT ![t] = CallFind([@ EXCEPT !.tl = ValAt(TAIL, j)], loc[t].hd.i, FALSE, "p_ldh2")]
            /\ Goto(t, "f_rnd") /\ UO
p_ldh2(t) == /\ pc[t] = "p_ldh2"
             /\ \E j \in Readable(t, HEAD, Ord["p_ldh2"]) :
                  /\ Load(t, HEAD, Ord["p_ldh2"], j)
                  /\ Acc(t, "ld", "p_ldh2", IW(ValAt(HEAD, j)), 1)
                  /\ Goto(t, IF ValAt(HEAD, j) # loc[t].hd THEN "p_ldh"
                             ELSE IF loc[t].found THEN (IF PopMovesTail /\ loc[t].hd.i = loc[t].tl.i THEN "p_tinc" ELSE "p_cas")
                             ELSE IF loc[t].hd.i = loc[t].tl.i THEN "p_ldt2" ELSE "p_hinc")
             /\ UNCHANGED loc /\ UO
p_tinc(t) == /\ pc[t] = "p_tinc"
             /\ CasIdx(t, "p_tinc", TAIL, loc[t].tl, Inc(loc[t].tl))
             /\ Goto(t, "p_cas")
             /\ UNCHANGED loc /\ UO
\* (2)
p_cas(t) == /\ pc[t] = "p_cas"
            /\ LET x == ITEM(loc[t].idx) v == loc[t].old.p IN
               IF Latest(x) = loc[t].old
                 THEN /\ Rmw(t, x, W(0, loc[t].old.m + 1), Ord["p_cas"]) /\ Acc(t, "cas", "p_cas", loc[t].old, 1)
                      /\ own' = IF v \in Vals THEN [own EXCEPT ![v] = "consumer"] ELSE own
                      /\ Return(t, 1, v, TRUE)
                 ELSE /\ CasFail(t, x, Ord["casf"]) /\ Acc(t, "cas", "p_cas", Latest(x), 0)
                      /\ Goto(t, "p_ldh") /\ UNCHANGED <<own, lin>>
            /\ UNCHANGED <<loc, budget, nextv, bad, dtor>>
p_ldt2(t) == /\ pc[t] = "p_ldt2"
             /\ \E j \in Readable(t, TAIL, Ord["p_ldt2"]) :
                  /\ Load(t, TAIL, Ord["p_ldt2"], j)
                  /\ Acc(t, "ld", "p_ldt2", IW(ValAt(TAIL, j)), 1)
                  /\ IF ValAt(TAIL, j) = loc[t].tl THEN Return(t, 0, 0, TRUE) ELSE Goto(t, "p_hinc") /\ UNCHANGED lin
             /\ UNCHANGED <<loc, budget, nextv, own, bad, dtor>>
p_hinc(t) == /\ pc[t] = "p_hinc"
             /\ CasIdx(t, "p_hinc", HEAD, loc[t].hd, Inc(loc[t].hd))
             /\ Goto(t, "p_ldh")
             /\ UNCHANGED loc /\ UO

\* ---- ~kirsch_bounded_kfifo_queue: delete every value still in a slot --------------------------------------
InRing == {Latest(ITEM(i)).p : i \in 0 .. QS - 1} \ {0}
QueueDtor == /\ Done /\ ~dtor
             /\ dtor' = TRUE
             /\ own' = [v \in Vals |-> IF v \in InRing THEN "destroyed" ELSE own[v]]
             /\ bad' = IF bad # "ok" THEN bad
                       ELSE IF \E v \in InRing \cap Vals : own[v] # "queue" THEN "the queue destroyed a value it does not own"
                       ELSE IF \E v \in Vals : own[v] = "queue" /\ v \notin InRing THEN "a value is still owned by the queue after its destructor (leaked)"
                       ELSE bad
             /\ UNCHANGED <<pc, loc, lin, budget, nextv, last, memvars>>

ThreadStep(t) == \/ StartPush(t) \/ b_ldt(t) \/ b_ldh(t) \/ f_rnd(t) \/ f_ld(t) \/ b_ldt2(t) \/ b_cas(t) \/ k_ld(t) \/ k_ldt(t) \/ k_ldh(t) \/ k_rm(t) \/ k_bump(t) \/ b_done(t)
                 \/ b_qf(t) \/ s_ld(t) \/ b_hinc(t) \/ b_ldh2(t) \/ b_tinc(t)
                 \/ StartPop(t) \/ p_ldh(t) \/ p_ldt(t) \/ p_ldh2(t) \/ p_tinc(t) \/ p_cas(t) \/ p_ldt2(t) \/ p_hinc(t)
Next == QueueDtor \/ \E t \in Threads : ThreadStep(t)
Spec == Init /\ [][Next]_vars

\* ---- properties --------------------------------------------------------------------------------
Linearizable == lin.mon # {}                        \* C06: bounded k-FIFO (k-1 overtakes, rejection rule)
Conservation == lin.bad = "ok"
Ownership == bad = "ok"                             \* C07
\* values a rejected push keeps count as taken back by the caller
ConservedAtEnd == Done /\ ~dtor => {v \in Vals : own[v] = "queue"} = (1 .. nextv - 1) \ lin.taken

\* ---- programs ----------------------------------------------------------------------------------
ProgPP == << <<"push", "push">>, <<"pop", "pop">> >>
ProgLost == << <<"push", "push", "pop">>, <<"pop", "push">> >>
ProgMix == << <<"push", "pop", "push">>, <<"push", "pop">> >>
ProgFull == << <<"push", "push", "push">>, <<"push", "pop">> >>
ProgFill == << <<"push", "push", "pop">>, <<"push", "pop", "push">> >>
Prog3 == << <<"push", "push">>, <<"pop", "push">>, <<"pop">> >>
ProgStep == << <<"push", "push", "pop">>, <<"pop", "push">> >>
\* the schedule of the known finding needs a full queue, a pusher, a popper and a second pusher
ProgTag == << <<"push", "push", "push">>, <<"pop", "push">>, <<"push">> >>
=============================================================================
