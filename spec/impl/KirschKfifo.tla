----------------------------- MODULE KirschKfifo -----------------------------
(***************************************************************************)
(* xenium::kirsch_kfifo_queue (xenium/kirsch_kfifo_queue.hpp): the         *)
(* unbounded k-FIFO queue of Kirsch, Lippautz and Payer - a list of        *)
(* segments of k slots; push puts its value into any empty slot of the     *)
(* tail segment, pop takes any value of the head segment.  One action per  *)
(* atomic access of push / do_pop / find_index / committed / advance_head  *)
(* / advance_tail, over the ADVERSARIAL abstract reclaimer (see MSQueue).  *)
(*                                                                         *)
(* Words with a tag are records: head_ / tail_ / next = [p, m] (segment,   *)
(* tag), a slot = [p, m] (value or 0, tag).  Every successful CAS bumps    *)
(* the tag, which is what makes `committed` work: a pusher whose value     *)
(* went into a segment that was meanwhile removed from the list takes the  *)
(* value out again (CAS back to empty) unless a popper got it first.       *)
(* The start index of find_index is a nondeterministic choice (the code    *)
(* uses a random number).                                                  *)
(*                                                                         *)
(* Ghosts: linearizability monitor w.r.t. the k-FIFO of abs/Queues (C06),  *)
(* conservation, ownership of the values (C07): a segment that is released *)
(* with a value still inside loses that value.                             *)
(***************************************************************************)
EXTENDS Mem, LinMon, Queues, TLC

CONSTANTS NT, K, NSegs, Ord,
          Progs, SetupOps,
          Committed,      \* TRUE: push checks `committed` after its CAS (code); FALSE: returns right after the CAS
          MarkDeleted,    \* TRUE: advance_head sets `deleted` before it moves head (code)
          HeadTagBump,    \* TRUE: committed bumps the tag of head_ when the tail segment became the head (code)
          TailFirst       \* TRUE: advance_head swings a tail_ that points to the head segment first (code)

OrdCode == [u_acqt |-> "acq", f_ld |-> "rlx", u_ldt |-> "rlx", u_cas |-> "rel",
            c_ld |-> "rlx", c_del |-> "rlx", c_rm |-> "rlx", c_ldh |-> "acq", c_bump |-> "rlx", c_del2 |-> "rlx",
            t_ldn |-> "acq", t_ldt |-> "rlx", t_swing |-> "rel", t_link |-> "rel", t_swing2 |-> "rel",
            o_acqh |-> "acq", o_ldh |-> "rlx", o_ldt |-> "acq", o_cas |-> "acq", o_ldt2 |-> "rlx",
            h_ldn |-> "acq", h_ldh |-> "rlx", h_ldtn |-> "acq", h_ldt |-> "rlx", h_swing |-> "rel", h_del |-> "rlx", h_cas |-> "rel", casf |-> "rlx"]

ThreadsDef == 0 .. NT - 1
Segs == 1 .. NSegs
NVals == LET RECURSIVE Cnt(_) Cnt(i) == IF i > Len(Progs) THEN 0 ELSE Cardinality({j \in 1 .. Len(Progs[i]) : Progs[i][j] = "push"}) + Cnt(i + 1) IN Cnt(1)
Vals == 1 .. NVals
HEAD == <<"head", 0>>
TAIL == <<"tail", 0>>
NEXT(s) == <<"next", s>>
DEL(s) == <<"del", s>>
ITEM(s, i) == <<"item", s, i>>
SegLocs(s) == {NEXT(s), DEL(s)} \cup {ITEM(s, i) : i \in 0 .. K - 1}
LocsDef == {HEAD, TAIL} \cup UNION {SegLocs(s) : s \in Segs}
W(p, m) == [p |-> p, m |-> m]
InitValDef(x) == IF x = HEAD \/ x = TAIL THEN W(1, 0) ELSE IF x[1] = "del" THEN FALSE ELSE W(0, 0)

VARIABLES pc, loc, lin, budget, nextv, nst, inc, g, own, bad, dtor, last
vars == <<pc, loc, lin, budget, nextv, nst, inc, g, own, bad, dtor, last, memvars>>
mcview == <<pc, loc, lin, budget, nextv, nst, inc, g, own, bad, dtor, memvars>>

NoG == [n |-> 0, i |-> 0, eff |-> FALSE]
\* locals: v value, tl / hd snapshots of tail_ / head_, r / i start index and counter of find_index, idx / old the slot found,
\* found, nv the word written by the CAS, sg the segment `committed` works on, nx next words, n a freshly allocated segment,
\* ret the continuation of a sub-procedure, ok its result, emp whether find_index looks for an empty slot
L0 == [v |-> 0, tl |-> W(0, 0), hd |-> W(0, 0), r |-> 0, i |-> 0, idx |-> 0, old |-> W(0, 0), found |-> FALSE, nv |-> W(0, 0), sg |-> 0,
       nx |-> W(0, 0), tn |-> W(0, 0), n |-> 0, ret |-> "idle", fret |-> "idle", ok |-> FALSE, emp |-> FALSE, tc |-> W(0, 0), hc |-> W(0, 0)]
Init == /\ MemInit
        /\ pc = [t \in Threads |-> "idle"]
        /\ loc = [t \in Threads |-> L0]
        /\ lin = [mon |-> MonInit(QCfg(QInit, "kind_kfifo", K, 0)), taken |-> {}, bad |-> "ok"]
        /\ budget = [t \in Threads |-> 1]
        /\ nextv = 1
        /\ nst = [s \in Segs |-> IF s = 1 THEN "live" ELSE "free"]
        /\ inc = [s \in Segs |-> 0]
        /\ g = [t \in Threads |-> [h |-> NoG, t |-> NoG]]
        /\ own = [v \in Vals |-> "caller"]
        /\ bad = "ok"
        /\ dtor = FALSE
        /\ last = [t |-> -1, k |-> "init", lab |-> "init", v |-> W(0, 0), ok |-> 1, n |-> 0]       \* v is always a word [p, m]

Goto(t, l) == pc' = [pc EXCEPT ![t] = l]
Acc(t, k, lab, v, ok) == last' = [t |-> t, k |-> k, lab |-> lab, v |-> v, ok |-> ok, n |-> last.n + 1]
Return(t, r, v, popping) ==
  /\ lin' = [mon |-> MonRet(lin.mon, t, r, v),
             taken |-> IF popping /\ r = 1 THEN lin.taken \cup {v} ELSE lin.taken,
             bad |-> IF popping /\ r = 1 /\ lin.bad = "ok" /\ (v \notin 1 .. nextv - 1 \/ v \in lin.taken)
                       THEN "a value was popped twice or invented" ELSE lin.bad]
  /\ Goto(t, "idle")

\* ---- abstract reclaimer ------------------------------------------------------------------------
GuardOf(c) == IF c = 0 THEN NoG ELSE [n |-> c, i |-> inc[c], eff |-> nst[c] = "live"]
Dangling(gd) == gd.n # 0 /\ (nst[gd.n] \in {"dead", "free"} \/ inc[gd.n] # gd.i)
\* an access to segment s by thread t (through whichever of its guards covers s)
TouchErr(t, s) == IF bad # "ok" THEN bad
                  ELSE IF (g[t].t.n = s /\ ~Dangling(g[t].t)) \/ (g[t].h.n = s /\ ~Dangling(g[t].h)) THEN "ok"
                  ELSE IF nst[s] \in {"dead", "free"} THEN "access to a segment that was released"
                  ELSE IF g[t].t.n # s /\ g[t].h.n # s THEN "ok"      \* private (not yet published) segment
                  ELSE "access to a segment that was released"
Touch(t, s) == bad' = TouchErr(t, s)
Protected(s) == \E t \in Threads : \E f \in {"h", "t"} : g[t][f].n = s /\ g[t][f].i = inc[s] /\ g[t][f].eff
\* values still in the slots of a segment
Inside(s) == {Latest(ITEM(s, i)).p : i \in 0 .. K - 1} \ {0}
\* release_segment via the reclaimer: nothing may be left inside (~segment asserts it)
Destroy == /\ ~dtor
           /\ \E s \in Segs : /\ nst[s] = "retired" /\ ~Protected(s)
                              /\ nst' = [nst EXCEPT ![s] = "dead"]
                              /\ bad' = IF bad = "ok" /\ Inside(s) # {} THEN "a segment was released with a value still inside (value lost)" ELSE bad
           /\ UNCHANGED <<pc, loc, lin, budget, nextv, inc, g, own, dtor, last, memvars>>

\* ---- programs ----------------------------------------------------------------------------------
MayStart(t, op) == /\ pc[t] = "idle" /\ ~dtor /\ budget[t] <= Len(Progs[t + 1]) /\ Progs[t + 1][budget[t]] = op
                   /\ (t = 0 \/ (budget[0] > SetupOps /\ (budget[0] > SetupOps + 1 \/ pc[0] = "idle" \/ SetupOps = 0)))
Done == \A t \in Threads : pc[t] = "idle" /\ budget[t] > Len(Progs[t + 1])

\* ---- find_index<Empty>(segment): random start, at most K relaxed loads ------------------------------
\* entered with loc.sg = segment, loc.emp, loc.fret = continuation; leaves loc.found, loc.idx, loc.old
CallFind(l, s, emp, fret) == [l EXCEPT !.sg = s, !.emp = emp, !.fret = fret, !.i = 0, !.found = FALSE]
f_rnd(t) == /\ pc[t] = "f_rnd"
            /\ \E r \in 0 .. K - 1 : loc' = [loc EXCEPT ![t].r = r]
            /\ Goto(t, "f_ld")
            /\ UNCHANGED <<lin, budget, nextv, nst, inc, g, own, bad, dtor, last, memvars>>
f_ld(t) == /\ pc[t] = "f_ld"
           /\ Touch(t, loc[t].sg)
           /\ LET ix == (loc[t].r + loc[t].i) % K x == ITEM(loc[t].sg, ix) IN
              \E j \in Readable(t, x, Ord["f_ld"]) :
                /\ Load(t, x, Ord["f_ld"], j)
                /\ Acc(t, "ld", "f_ld", ValAt(x, j), 1)
                /\ LET w == ValAt(x, j) hit == (loc[t].emp /\ w.p = 0) \/ (~loc[t].emp /\ w.p # 0) IN
                   IF hit THEN /\ loc' = [loc EXCEPT ![t].found = TRUE, ![t].idx = ix, ![t].old = w] /\ Goto(t, loc[t].fret)
                   ELSE IF loc[t].i + 1 >= K THEN /\ loc' = [loc EXCEPT ![t].found = FALSE, ![t].old = w] /\ Goto(t, loc[t].fret)
                   ELSE /\ loc' = [loc EXCEPT ![t].i = @ + 1] /\ Goto(t, "f_ld")
           /\ UNCHANGED <<lin, budget, nextv, nst, inc, g, own, dtor>>

\* ---- push --------------------------------------------------------------------------------------
StartPush(t) == /\ MayStart(t, "push")
                /\ budget' = [budget EXCEPT ![t] = @ + 1]
                /\ loc' = [loc EXCEPT ![t] = [L0 EXCEPT !.v = nextv]]
                /\ lin' = [lin EXCEPT !.mon = MonCall(@, t, "push", nextv, 0)]
                /\ nextv' = nextv + 1
                /\ Goto(t, "u_acqt") /\ Acc(t, "call", "push", W(nextv, 0), 1)
                /\ UNCHANGED <<nst, inc, g, own, bad, dtor, memvars>>
\* (1)
u_acqt(t) == /\ pc[t] = "u_acqt"
             /\ Load(t, TAIL, Ord["u_acqt"], Last(TAIL))
             /\ g' = [g EXCEPT ![t].t = GuardOf(Latest(TAIL).p)]
             /\ Acc(t, "ld", "u_acqt", Latest(TAIL), 1)
             /\ loc' = [loc EXCEPT ![t] = CallFind([@ EXCEPT !.tl = Latest(TAIL)], Latest(TAIL).p, TRUE, "u_ldt")]
             /\ Goto(t, "f_rnd")
             /\ UNCHANGED <<lin, budget, nextv, nst, inc, own, bad, dtor>>
u_ldt(t) == /\ pc[t] = "u_ldt"
            /\ \E j \in Readable(t, TAIL, Ord["u_ldt"]) :
                 /\ Load(t, TAIL, Ord["u_ldt"], j)
                 /\ Acc(t, "ld", "u_ldt", ValAt(TAIL, j), 1)
                 /\ IF ValAt(TAIL, j) # loc[t].tl THEN Goto(t, "u_acqt") /\ UNCHANGED loc
                    ELSE IF loc[t].found THEN Goto(t, "u_cas") /\ UNCHANGED loc
                    ELSE /\ loc' = [loc EXCEPT ![t].tc = loc[t].tl, ![t].ret = "u_acqt"] /\ Goto(t, "t_ldn")
            /\ UNCHANGED <<lin, budget, nextv, nst, inc, g, own, bad, dtor>>
\* (2)
u_cas(t) == /\ pc[t] = "u_cas"
            /\ Touch(t, loc[t].tl.p)
            /\ LET x == ITEM(loc[t].tl.p, loc[t].idx) nv == W(loc[t].v, loc[t].old.m + 1) IN
               IF Latest(x) = loc[t].old
                 THEN /\ Rmw(t, x, nv, Ord["u_cas"]) /\ Acc(t, "cas", "u_cas", loc[t].old, 1)
                      /\ own' = [own EXCEPT ![loc[t].v] = "queue"]
                      /\ loc' = [loc EXCEPT ![t].nv = nv, ![t].sg = loc[t].tl.p]
                      /\ Goto(t, IF Committed THEN "c_ld" ELSE "u_done")
                 ELSE /\ CasFail(t, x, Ord["casf"]) /\ Acc(t, "cas", "u_cas", Latest(x), 0)
                      /\ Goto(t, "u_acqt") /\ UNCHANGED <<own, loc>>
            /\ UNCHANGED <<lin, budget, nextv, nst, inc, g, dtor>>
\* committed(tail_old, new_value, idx)
c_ld(t) == /\ pc[t] = "c_ld"
           /\ Touch(t, loc[t].sg)
           /\ LET x == ITEM(loc[t].sg, loc[t].idx) IN
              \E j \in Readable(t, x, Ord["c_ld"]) :
                /\ Load(t, x, Ord["c_ld"], j)
                /\ Acc(t, "ld", "c_ld", ValAt(x, j), 1)
                /\ Goto(t, IF ValAt(x, j) # loc[t].nv THEN "u_done" ELSE "c_del")
           /\ UNCHANGED <<loc, lin, budget, nextv, nst, inc, g, own, dtor>>
c_del(t) == /\ pc[t] = "c_del"
            /\ Touch(t, loc[t].sg)
            /\ LET x == DEL(loc[t].sg) IN
               \E j \in Readable(t, x, Ord["c_del"]) :
                 /\ Load(t, x, Ord["c_del"], j)
                 /\ Acc(t, "ld", "c_del", W(IF ValAt(x, j) THEN 1 ELSE 0, 0), 1)
                 /\ Goto(t, IF ValAt(x, j) THEN "c_rm" ELSE "c_ldh")
            /\ UNCHANGED <<loc, lin, budget, nextv, nst, inc, g, own, dtor>>
\* take the value out again: success means the push did NOT take place (retry), failure that a pop got the value (fine)
c_rm(t) == /\ pc[t] = "c_rm"
           /\ Touch(t, loc[t].sg)
           /\ LET x == ITEM(loc[t].sg, loc[t].idx) IN
              IF Latest(x) = loc[t].nv
                THEN /\ Rmw(t, x, W(0, loc[t].nv.m + 1), Ord["c_rm"]) /\ Acc(t, "cas", "c_rm", loc[t].nv, 1)
                     /\ own' = [own EXCEPT ![loc[t].v] = "caller"]
                     /\ Goto(t, "u_acqt")
                ELSE /\ CasFail(t, x, Ord["casf"]) /\ Acc(t, "cas", "c_rm", Latest(x), 0)
                     /\ Goto(t, "u_done") /\ UNCHANGED own
           /\ UNCHANGED <<loc, lin, budget, nextv, nst, inc, g, dtor>>
\* (6)
c_ldh(t) == /\ pc[t] = "c_ldh"
            /\ \E j \in Readable(t, HEAD, Ord["c_ldh"]) :
                 /\ Load(t, HEAD, Ord["c_ldh"], j)
                 /\ Acc(t, "ld", "c_ldh", ValAt(HEAD, j), 1)
                 /\ loc' = [loc EXCEPT ![t].hc = ValAt(HEAD, j)]
                 /\ Goto(t, IF ValAt(HEAD, j).p = loc[t].sg THEN (IF HeadTagBump THEN "c_bump" ELSE "u_done") ELSE "c_del2")
            /\ UNCHANGED <<lin, budget, nextv, nst, inc, g, own, bad, dtor>>
c_bump(t) == /\ pc[t] = "c_bump"
             /\ IF Latest(HEAD) = loc[t].hc
                  THEN /\ Rmw(t, HEAD, W(loc[t].hc.p, loc[t].hc.m + 1), Ord["c_bump"]) /\ Acc(t, "cas", "c_bump", loc[t].hc, 1)
                       /\ Goto(t, "u_done")
                  ELSE /\ CasFail(t, HEAD, Ord["casf"]) /\ Acc(t, "cas", "c_bump", Latest(HEAD), 0)
                       /\ Goto(t, "c_rm")
             /\ UNCHANGED <<loc, lin, budget, nextv, nst, inc, g, own, bad, dtor>>
c_del2(t) == /\ pc[t] = "c_del2"
             /\ Touch(t, loc[t].sg)
             /\ LET x == DEL(loc[t].sg) IN
                \E j \in Readable(t, x, Ord["c_del2"]) :
                  /\ Load(t, x, Ord["c_del2"], j)
                  /\ Acc(t, "ld", "c_del2", W(IF ValAt(x, j) THEN 1 ELSE 0, 0), 1)
                  /\ Goto(t, IF ValAt(x, j) THEN "c_rm" ELSE "u_done")
             /\ UNCHANGED <<loc, lin, budget, nextv, nst, inc, g, own, dtor>>
u_done(t) == /\ pc[t] = "u_done"
             /\ g' = [g EXCEPT ![t].t = NoG]
             /\ Return(t, 1, loc[t].v, FALSE)
             /\ UNCHANGED <<loc, budget, nextv, nst, inc, own, bad, dtor, last, memvars>>

\* ---- advance_tail(tail_current = loc.tc), continuation loc.ret -----------------------------------------
\* (11)
t_ldn(t) == /\ pc[t] = "t_ldn"
            /\ Touch(t, loc[t].tc.p)
            /\ LET x == NEXT(loc[t].tc.p) IN
               \E j \in Readable(t, x, Ord["t_ldn"]) :
                 /\ Load(t, x, Ord["t_ldn"], j)
                 /\ Acc(t, "ld", "t_ldn", ValAt(x, j), 1)
                 /\ loc' = [loc EXCEPT ![t].nx = ValAt(x, j)]
            /\ Goto(t, "t_ldt")
            /\ UNCHANGED <<lin, budget, nextv, nst, inc, g, own, dtor>>
t_ldt(t) == /\ pc[t] = "t_ldt"
            /\ \E j \in Readable(t, TAIL, Ord["t_ldt"]) :
                 /\ Load(t, TAIL, Ord["t_ldt"], j)
                 /\ Acc(t, "ld", "t_ldt", ValAt(TAIL, j), 1)
                 /\ Goto(t, IF ValAt(TAIL, j) # loc[t].tc THEN loc[t].ret ELSE IF loc[t].nx.p # 0 THEN "t_swing" ELSE "t_alloc")
            /\ UNCHANGED <<loc, lin, budget, nextv, nst, inc, g, own, bad, dtor>>
\* (12)
t_swing(t) == /\ pc[t] = "t_swing"
              /\ IF Latest(TAIL) = loc[t].tc
                   THEN Rmw(t, TAIL, W(loc[t].nx.p, loc[t].nx.m + 1), Ord["t_swing"]) /\ Acc(t, "cas", "t_swing", loc[t].tc, 1)
                   ELSE CasFail(t, TAIL, Ord["casf"]) /\ Acc(t, "cas", "t_swing", Latest(TAIL), 0)
              /\ Goto(t, loc[t].ret)
              /\ UNCHANGED <<loc, lin, budget, nextv, nst, inc, g, own, bad, dtor>>
\* alloc_segment(): all slots empty, deleted = false, next = null (not yet published)
t_alloc(t) == /\ pc[t] = "t_alloc"
              /\ \E s \in Segs :
                   /\ nst[s] \in {"free", "dead"}
                   /\ nst' = [nst EXCEPT ![s] = "live"] /\ inc' = [inc EXCEPT ![s] = @ + 1]
                   /\ loc' = [loc EXCEPT ![t].n = s]
                   /\ LET iv(x) == IF x = DEL(s) THEN FALSE ELSE W(0, 0) IN BulkStore(t, SegLocs(s), iv)
              /\ Goto(t, "t_link")
              /\ UNCHANGED <<lin, budget, nextv, g, own, bad, dtor, last>>
\* (13)
t_link(t) == /\ pc[t] = "t_link"
             /\ Touch(t, loc[t].tc.p)
             /\ LET x == NEXT(loc[t].tc.p) IN
                IF Latest(x) = loc[t].nx
                  THEN /\ Rmw(t, x, W(loc[t].n, loc[t].nx.m + 1), Ord["t_link"]) /\ Acc(t, "cas", "t_link", loc[t].nx, 1)
                       /\ Goto(t, "t_swing2")
                  ELSE /\ CasFail(t, x, Ord["casf"]) /\ Acc(t, "cas", "t_link", Latest(x), 0)
                       /\ Goto(t, "t_free")
             /\ UNCHANGED <<loc, lin, budget, nextv, nst, inc, g, own, dtor>>
\* (14)
t_swing2(t) == /\ pc[t] = "t_swing2"
               /\ IF Latest(TAIL) = loc[t].tc
                    THEN Rmw(t, TAIL, W(loc[t].n, loc[t].tc.m + 1), Ord["t_swing2"]) /\ Acc(t, "cas", "t_swing2", loc[t].tc, 1)
                    ELSE CasFail(t, TAIL, Ord["casf"]) /\ Acc(t, "cas", "t_swing2", Latest(TAIL), 0)
               /\ Goto(t, loc[t].ret)
               /\ UNCHANGED <<loc, lin, budget, nextv, nst, inc, g, own, bad, dtor>>
t_free(t) == /\ pc[t] = "t_free"
             /\ nst' = [nst EXCEPT ![loc[t].n] = "dead"]
             /\ Goto(t, loc[t].ret)
             /\ UNCHANGED <<loc, lin, budget, nextv, inc, g, own, bad, dtor, last, memvars>>

\* ---- pop ---------------------------------------------------------------------------------------
StartPop(t) == /\ MayStart(t, "pop")
               /\ budget' = [budget EXCEPT ![t] = @ + 1]
               /\ lin' = [lin EXCEPT !.mon = MonCall(@, t, "pop", 0, 0)]
               /\ loc' = [loc EXCEPT ![t] = L0]
               /\ Goto(t, "o_acqh") /\ Acc(t, "call", "pop", W(0, 0), 1)
               /\ UNCHANGED <<nextv, nst, inc, g, own, bad, dtor, memvars>>
\* (3)
o_acqh(t) == /\ pc[t] = "o_acqh"
             /\ Load(t, HEAD, Ord["o_acqh"], Last(HEAD))
             /\ g' = [g EXCEPT ![t].h = GuardOf(Latest(HEAD).p)]
             /\ Acc(t, "ld", "o_acqh", Latest(HEAD), 1)
             /\ loc' = [loc EXCEPT ![t] = CallFind([@ EXCEPT !.hd = Latest(HEAD)], Latest(HEAD).p, FALSE, "o_ldh")]
             /\ Goto(t, "f_rnd")
             /\ UNCHANGED <<lin, budget, nextv, nst, inc, own, bad, dtor>>
o_ldh(t) == /\ pc[t] = "o_ldh"
            /\ \E j \in Readable(t, HEAD, Ord["o_ldh"]) :
                 /\ Load(t, HEAD, Ord["o_ldh"], j)
                 /\ Acc(t, "ld", "o_ldh", ValAt(HEAD, j), 1)
                 /\ Goto(t, IF ValAt(HEAD, j) # loc[t].hd THEN "o_acqh" ELSE "o_ldt")
            /\ UNCHANGED <<loc, lin, budget, nextv, nst, inc, g, own, bad, dtor>>
\* (4)
o_ldt(t) == /\ pc[t] = "o_ldt"
            /\ \E j \in Readable(t, TAIL, Ord["o_ldt"]) :
                 /\ Load(t, TAIL, Ord["o_ldt"], j)
                 /\ Acc(t, "ld", "o_ldt", ValAt(TAIL, j), 1)
                 /\ LET tl == ValAt(TAIL, j) IN
                    IF loc[t].found
                      THEN IF loc[t].hd.p = tl.p
                             THEN /\ loc' = [loc EXCEPT ![t].tl = tl, ![t].tc = tl, ![t].ret = "o_cas"] /\ Goto(t, "t_ldn")
                             ELSE /\ loc' = [loc EXCEPT ![t].tl = tl] /\ Goto(t, "o_cas")
                      ELSE IF loc[t].hd.p = tl.p
                             THEN /\ loc' = [loc EXCEPT ![t].tl = tl] /\ Goto(t, "o_ldt2")
                             ELSE /\ loc' = [loc EXCEPT ![t].tl = tl, ![t].tc = tl] /\ Goto(t, "h_ldn")
            /\ UNCHANGED <<lin, budget, nextv, nst, inc, g, own, bad, dtor>>
\* (5)
o_cas(t) == /\ pc[t] = "o_cas"
            /\ Touch(t, loc[t].hd.p)
            /\ LET x == ITEM(loc[t].hd.p, loc[t].idx) v == loc[t].old.p IN
               IF Latest(x) = loc[t].old
                 THEN /\ Rmw(t, x, W(0, loc[t].old.m + 1), Ord["o_cas"]) /\ Acc(t, "cas", "o_cas", loc[t].old, 1)
                      /\ own' = IF v \in Vals THEN [own EXCEPT ![v] = "consumer"] ELSE own
                      /\ g' = [g EXCEPT ![t].h = NoG]
                      /\ Return(t, 1, v, TRUE)
                 ELSE /\ CasFail(t, x, Ord["casf"]) /\ Acc(t, "cas", "o_cas", Latest(x), 0)
                      /\ Goto(t, "o_acqh") /\ UNCHANGED <<own, g, lin>>
            /\ UNCHANGED <<loc, budget, nextv, nst, inc, dtor>>
o_ldt2(t) == /\ pc[t] = "o_ldt2"
             /\ \E j \in Readable(t, TAIL, Ord["o_ldt2"]) :
                  /\ Load(t, TAIL, Ord["o_ldt2"], j)
                  /\ Acc(t, "ld", "o_ldt2", ValAt(TAIL, j), 1)
                  /\ IF ValAt(TAIL, j) = loc[t].tl
                       THEN /\ g' = [g EXCEPT ![t].h = NoG] /\ Return(t, 0, 0, TRUE) /\ UNCHANGED loc
                       ELSE /\ loc' = [loc EXCEPT ![t].tc = loc[t].tl] /\ Goto(t, "h_ldn") /\ UNCHANGED <<g, lin>>
             /\ UNCHANGED <<budget, nextv, nst, inc, own, bad, dtor>>

\* ---- advance_head(head_current = loc.hd (guarded), tail_current = loc.tc) -------------------------------
\* (7)
h_ldn(t) == /\ pc[t] = "h_ldn"
            /\ Touch(t, loc[t].hd.p)
            /\ LET x == NEXT(loc[t].hd.p) IN
               \E j \in Readable(t, x, Ord["h_ldn"]) :
                 /\ Load(t, x, Ord["h_ldn"], j)
                 /\ Acc(t, "ld", "h_ldn", ValAt(x, j), 1)
                 /\ loc' = [loc EXCEPT ![t].nx = ValAt(x, j)]
            /\ Goto(t, "h_ldh")
            /\ UNCHANGED <<lin, budget, nextv, nst, inc, g, own, dtor>>
h_ldh(t) == /\ pc[t] = "h_ldh"
            /\ \E j \in Readable(t, HEAD, Ord["h_ldh"]) :
                 /\ Load(t, HEAD, Ord["h_ldh"], j)
                 /\ Acc(t, "ld", "h_ldh", ValAt(HEAD, j), 1)
                 /\ Goto(t, IF ValAt(HEAD, j) # loc[t].hd THEN "o_acqh"
                            ELSE IF TailFirst /\ loc[t].hd.p = loc[t].tc.p THEN "h_ldtn" ELSE "h_del")
            /\ UNCHANGED <<loc, lin, budget, nextv, nst, inc, g, own, bad, dtor>>
\* (8)
h_ldtn(t) == /\ pc[t] = "h_ldtn"
             /\ Touch(t, loc[t].tc.p)
             /\ LET x == NEXT(loc[t].tc.p) IN
                \E j \in Readable(t, x, Ord["h_ldtn"]) :
                  /\ Load(t, x, Ord["h_ldtn"], j)
                  /\ Acc(t, "ld", "h_ldtn", ValAt(x, j), 1)
                  /\ loc' = [loc EXCEPT ![t].tn = ValAt(x, j)]
                  /\ Goto(t, IF ValAt(x, j).p = 0 THEN "o_acqh" ELSE "h_ldt")
             /\ UNCHANGED <<lin, budget, nextv, nst, inc, g, own, dtor>>
h_ldt(t) == /\ pc[t] = "h_ldt"
            /\ \E j \in Readable(t, TAIL, Ord["h_ldt"]) :
                 /\ Load(t, TAIL, Ord["h_ldt"], j)
                 /\ Acc(t, "ld", "h_ldt", ValAt(TAIL, j), 1)
                 /\ Goto(t, IF ValAt(TAIL, j) = loc[t].tc THEN "h_swing" ELSE "h_del")
            /\ UNCHANGED <<loc, lin, budget, nextv, nst, inc, g, own, bad, dtor>>
\* (9)
h_swing(t) == /\ pc[t] = "h_swing"
              /\ IF Latest(TAIL) = loc[t].tc
                   THEN Rmw(t, TAIL, W(loc[t].tn.p, loc[t].tc.m + 1), Ord["h_swing"]) /\ Acc(t, "cas", "h_swing", loc[t].tc, 1)
                   ELSE CasFail(t, TAIL, Ord["casf"]) /\ Acc(t, "cas", "h_swing", Latest(TAIL), 0)
              /\ Goto(t, "h_del")
              /\ UNCHANGED <<loc, lin, budget, nextv, nst, inc, g, own, bad, dtor>>
h_del(t) == /\ pc[t] = "h_del"
            /\ IF MarkDeleted
                 THEN /\ Touch(t, loc[t].hd.p)
                      /\ Store(t, DEL(loc[t].hd.p), TRUE, Ord["h_del"]) /\ Acc(t, "st", "h_del", W(1, 0), 1)
                 ELSE UNCHANGED <<bad, last, memvars>>
            /\ Goto(t, "h_cas")
            /\ UNCHANGED <<loc, lin, budget, nextv, nst, inc, g, own, dtor>>
\* (10)
h_cas(t) == /\ pc[t] = "h_cas"
            /\ IF Latest(HEAD) = loc[t].hd
                 THEN /\ Rmw(t, HEAD, W(loc[t].nx.p, loc[t].hd.m + 1), Ord["h_cas"]) /\ Acc(t, "cas", "h_cas", loc[t].hd, 1)
                      /\ nst' = [nst EXCEPT ![loc[t].hd.p] = "retired"]          \* head_current.reclaim()
                      /\ g' = [g EXCEPT ![t].h = NoG]
                      /\ bad' = IF bad = "ok" /\ loc[t].nx.p = 0 THEN "head_ was set to null" ELSE bad
                 ELSE /\ CasFail(t, HEAD, Ord["casf"]) /\ Acc(t, "cas", "h_cas", Latest(HEAD), 0)
                      /\ UNCHANGED <<nst, g, bad>>
            /\ Goto(t, "o_acqh")
            /\ UNCHANGED <<loc, lin, budget, nextv, inc, own, dtor>>

\* ---- ~kirsch_kfifo_queue: delete_remaining_items + release_segment for every segment from head_ on --------
Chain == LET RECURSIVE F(_, _) F(s, k) == IF s = 0 \/ k = 0 THEN <<>> ELSE <<s>> \o F(Latest(NEXT(s)).p, k - 1) IN F(Latest(HEAD).p, NSegs)
InChain == UNION {Inside(Chain[k]) : k \in 1 .. Len(Chain)}
QueueDtor == /\ Done /\ ~dtor
             /\ dtor' = TRUE
             /\ own' = [v \in Vals |-> IF v \in InChain THEN "destroyed" ELSE own[v]]
             /\ bad' = IF bad # "ok" THEN bad
                       ELSE IF \E v \in InChain \cap Vals : own[v] # "queue" THEN "the queue destroyed a value it does not own"
                       ELSE IF \E v \in Vals : own[v] = "queue" /\ v \notin InChain THEN "a value is still owned by the queue after its destructor (leaked)"
                       ELSE bad
             /\ nst' = [s \in Segs |-> IF \E k \in 1 .. Len(Chain) : Chain[k] = s THEN "dead" ELSE nst[s]]
             /\ UNCHANGED <<pc, loc, lin, budget, nextv, inc, g, last, memvars>>

ThreadStep(t) == \/ StartPush(t) \/ u_acqt(t) \/ f_rnd(t) \/ f_ld(t) \/ u_ldt(t) \/ u_cas(t) \/ c_ld(t) \/ c_del(t) \/ c_rm(t) \/ c_ldh(t) \/ c_bump(t) \/ c_del2(t) \/ u_done(t)
                 \/ t_ldn(t) \/ t_ldt(t) \/ t_swing(t) \/ t_alloc(t) \/ t_link(t) \/ t_swing2(t) \/ t_free(t)
                 \/ StartPop(t) \/ o_acqh(t) \/ o_ldh(t) \/ o_ldt(t) \/ o_cas(t) \/ o_ldt2(t)
                 \/ h_ldn(t) \/ h_ldh(t) \/ h_ldtn(t) \/ h_ldt(t) \/ h_swing(t) \/ h_del(t) \/ h_cas(t)
Next == Destroy \/ QueueDtor \/ \E t \in Threads : ThreadStep(t)
Spec == Init /\ [][Next]_vars

\* ---- properties --------------------------------------------------------------------------------
Linearizable == lin.mon # {}                        \* C06: k-FIFO
Conservation == lin.bad = "ok"
Ownership == bad = "ok"                             \* C07 + memory safety + no value lost in a released segment
ConservedAtEnd == Done /\ ~dtor => {v \in Vals : own[v] = "queue"} = (1 .. nextv - 1) \ lin.taken

\* ---- programs ----------------------------------------------------------------------------------
ProgPP == << <<"push", "push">>, <<"pop", "pop">> >>
ProgP1 == << <<"push", "push">>, <<"pop">> >>
ProgTiny == << <<"push">>, <<"pop">> >>
ProgLost == << <<"push", "push", "pop">>, <<"pop", "push">> >>
ProgMix == << <<"push", "pop", "push">>, <<"push", "pop">> >>
ProgFull == << <<"push", "push", "push">>, <<"push", "pop">> >>
ProgDrain == << <<"push", "push", "pop">>, <<"pop", "pop">> >>
Prog3 == << <<"push", "push">>, <<"pop", "push">>, <<"pop">> >>
ProgStep == << <<"push", "push", "pop">>, <<"pop", "push">> >>
=============================================================================
