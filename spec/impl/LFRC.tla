-------------------------------- MODULE LFRC --------------------------------
(***************************************************************************)
(* xenium::reclamation::lock_free_ref_count (Valois / Michael-Scott), one  *)
(* action per atomic access of impl/lock_free_ref_count.hpp, driven by the *)
(* generic client (acquire, reset, replace + reclaim, touch).              *)
(*                                                                         *)
(* Node memory is type stable: a node whose count drops to zero is         *)
(* destroyed (~T) and pushed to a free list - the global lock-free stack   *)
(* or, with policy thread_local_free_list_size = TL > 0, a thread-local    *)
(* list - and operator new pops it again.  ref_count = 2 * references +    *)
(* claim bit; the claim bit is set while the node is on a free list.       *)
(* Stale threads may still increment / decrement the count of a node that  *)
(* was freed and even recycled: every access to the count is a read-modify *)
(* -write so that those transient references are never lost.               *)
(*   TLPopAtomic = FALSE models the thread-local pop with a plain store of *)
(*   the new count (seeded change c01_2): a transient increment is lost.   *)
(*   Revalidate = FALSE: acquire does not re-read the cell after counting. *)
(*   ClaimOnce = FALSE: decrement_refcnt reports "claimed" whenever the    *)
(*   count is zero (two threads free the same node).                       *)
(*                                                                         *)
(* Ghosts: inc[n] incarnation, nstate[n] in free | live | ret | des.       *)
(* A guard remembers the incarnation it was established for.               *)
(***************************************************************************)
EXTENDS Mem, TLC

CONSTANTS NT, NG, NCells, NNodes, MaxOps, TL, Ord,
          TLPopAtomic, Revalidate, ClaimOnce

OrdCode == [a_ld1 |-> "acq", a_faa |-> "acq", a_ld2 |-> "sc", d_ld |-> "rlx", d_cas |-> "ar", casf |-> "rlx", r_lddes |-> "rlx", r_stdes |-> "rlx",
            fl_stnx |-> "rlx", fg_ldh |-> "acq", fg_cas |-> "rel", c_fsub |-> "rel", x_cas |-> "rel",
            n_lfaa |-> "rlx", n_lst |-> "rlx", n_ldh |-> "acq", n_faa |-> "acq", n_ldh2 |-> "acq", n_ldnx |-> "rlx", n_cas |-> "rlx", n_fsub |-> "rlx", n_stnx |-> "rlx",
            n_init |-> "rel", n_undes |-> "rlx"]

ThreadsDef == 0 .. NT - 1
Nodes == 1 .. NNodes
Cells == 0 .. NCells - 1
INC == 2
CLAIM == 1
FHEAD == <<"fhead", 0, 0>>
CELL(c) == <<"cell", c, 0>>
REFC(n) == <<"refc", n, 0>>
DES(n) == <<"des", n, 0>>
NEXTF(n) == <<"nextf", n, 0>>
PAY(n) == <<"pay", n, 0>>
LocsDef == {FHEAD} \cup {CELL(c) : c \in Cells} \cup UNION {{REFC(n), DES(n), NEXTF(n), PAY(n)} : n \in Nodes}
           \cup (IF Weak THEN {RT(PAY(n), u) : n \in Nodes, u \in ThreadsDef} ELSE {})
InitValDef(x) == IF x[1] = "cell" THEN x[2] + 1
                 ELSE IF x[1] = "refc" THEN (IF x[2] <= NCells THEN INC ELSE 0)
                 ELSE IF x[1] = "des" THEN FALSE
                 ELSE 0

VARIABLES pc, loc, guards, lfl, nstate, inc, budget, bad, last
vars == <<pc, loc, guards, lfl, nstate, inc, budget, bad, last, memvars>>
mcview == <<pc, loc, guards, lfl, nstate, inc, budget, bad, memvars>>

NoG == [n |-> 0, i |-> 0]
\* locals: op, g guard index, c cell, q the pointer being worked on, fresh, old, cnt values of decrement_refcnt, ret continuation,
\* dret continuation of decrement_refcnt, claimed its result, nx / hd for the free list, tmp the internal guard of free_list::pop
L0 == [op |-> "none", g |-> 0, c |-> 0, q |-> 0, fresh |-> 0, old |-> 0, oc |-> 0, nc |-> 0, ret |-> "idle", dret |-> "idle", dn |-> 0, claimed |-> FALSE,
       nx |-> 0, hd |-> 0, tmp |-> 0, rret |-> "idle", rn |-> 0]
\* operations per thread (a definition the configurations may override: asymmetric programs keep weak-memory runs small)
OpsOf(t) == MaxOps
Init == /\ MemInit
        /\ pc = [t \in Threads |-> "idle"]
        /\ loc = [t \in Threads |-> L0]
        /\ guards = [t \in Threads |-> [g \in 1 .. NG |-> NoG]]
        /\ lfl = [t \in Threads |-> <<>>]
        /\ nstate = [n \in Nodes |-> IF n <= NCells THEN "live" ELSE "free"]
        /\ inc = [n \in Nodes |-> 0]
        /\ budget = [t \in Threads |-> OpsOf(t)]
        /\ bad = "ok"
        /\ last = [t |-> -1, k |-> "init", lab |-> "init", v |-> 0, ok |-> 1, n |-> 0]

Goto(t, l) == pc' = [pc EXCEPT ![t] = l]
Acc(t, k, lab, v, ok) == last' = [t |-> t, k |-> k, lab |-> lab, v |-> v, ok |-> ok, n |-> last.n + 1]
UG == UNCHANGED <<guards, lfl, nstate, inc, budget, bad>>
SetBad(w) == bad' = IF bad = "ok" THEN w ELSE bad

\* ---------------------------------------------------------------- client operations
Begin(t, op, g, c, first) ==
  /\ pc[t] = "idle" /\ budget[t] > 0 /\ budget' = [budget EXCEPT ![t] = @ - 1]
  /\ loc' = [loc EXCEPT ![t] = [L0 EXCEPT !.op = op, !.g = g, !.c = c]]
  /\ Goto(t, first) /\ Acc(t, "call", op, g, 1)
  /\ UNCHANGED <<guards, lfl, nstate, inc, bad, memvars>>
StartAcquire(t) == \E g \in 1 .. NG, c \in Cells : Begin(t, "acquire", g, c, "a_reset")
StartReplace(t) == \E g \in 1 .. NG, c \in Cells : Begin(t, "replace", g, c, "a_reset")
StartReset(t) == \E g \in 1 .. NG : guards[t][g].n # 0 /\ Begin(t, "reset", g, 0, "a_reset")
Touch(t) == /\ pc[t] = "idle"
            /\ \E g \in 1 .. NG : LET gd == guards[t][g] IN
                 /\ gd.n # 0
                 /\ bad' = IF bad = "ok" /\ (nstate[gd.n] \notin {"live", "ret"} \/ inc[gd.n] # gd.i) THEN "touch of a destroyed or recycled object" ELSE bad
                 /\ PlainRd(t, PAY(gd.n))
            /\ UNCHANGED <<pc, loc, guards, lfl, nstate, inc, budget, last>>

\* ---------------------------------------------------------------- guard_ptr::reset()  (entered with loc.rn = node, loc.rret = continuation)
\* decrement_refcnt(), then, if claimed: ~T() unless already destroyed, push_to_free_list()
CallReset(l, n, rret) == [l EXCEPT !.rn = n, !.rret = rret, !.dn = n, !.dret = "r_claimed"]
\* the guard of the current operation is reset first (acquire loops start with reset())
a_reset(t) == /\ pc[t] = "a_reset"
              /\ LET gd == guards[t][loc[t].g] IN
                 IF gd.n # 0
                   THEN /\ guards' = [guards EXCEPT ![t][loc[t].g] = NoG]
                        /\ loc' = [loc EXCEPT ![t] = CallReset(@, gd.n, IF loc[t].op = "reset" THEN "op_done" ELSE "a_ld1")]
                        /\ Goto(t, "d_ld")
                   ELSE /\ Goto(t, IF loc[t].op = "reset" THEN "op_done" ELSE "a_ld1") /\ UNCHANGED <<guards, loc>>
              /\ UNCHANGED <<lfl, nstate, inc, budget, bad, last, memvars>>
d_ld(t) == /\ pc[t] = "d_ld"
           /\ LET x == REFC(loc[t].dn) IN
              \E i \in Readable(t, x, Ord["d_ld"]) :
                /\ Load(t, x, Ord["d_ld"], i) /\ Acc(t, "ld", "d_ld", ValAt(x, i), 1)
                /\ LET o == ValAt(x, i) n0 == o - INC IN
                   loc' = [loc EXCEPT ![t].oc = o, ![t].nc = IF n0 = 0 THEN CLAIM ELSE n0]
           /\ Goto(t, "d_cas") /\ UG
d_cas(t) == /\ pc[t] = "d_cas"
            /\ LET x == REFC(loc[t].dn) IN
               IF Latest(x) = loc[t].oc
                 THEN /\ Rmw(t, x, loc[t].nc, Ord["d_cas"]) /\ Acc(t, "cas", "d_cas", loc[t].oc, 1)
                      /\ loc' = [loc EXCEPT ![t].claimed = IF ClaimOnce THEN ((loc[t].oc - loc[t].nc) % 2 = 1) ELSE (loc[t].nc % 2 = 1 /\ loc[t].nc \div 2 = 0)]
                      /\ bad' = IF bad = "ok" /\ loc[t].oc < INC THEN "reference count underflow" ELSE bad
                      /\ Goto(t, loc[t].dret)
                 ELSE /\ CasFail(t, x, Ord["casf"]) /\ Acc(t, "cas", "d_cas", Latest(x), 0)
                      /\ LET o == Latest(x) n0 == o - INC IN loc' = [loc EXCEPT ![t].oc = o, ![t].nc = IF n0 = 0 THEN CLAIM ELSE n0]
                      /\ UNCHANGED <<pc, bad>>
            /\ UNCHANGED <<guards, lfl, nstate, inc, budget>>
r_claimed(t) == /\ pc[t] = "r_claimed"
                /\ Goto(t, IF loc[t].claimed THEN "r_lddes" ELSE loc[t].rret)
                /\ UNCHANGED <<loc, guards, lfl, nstate, inc, budget, bad, last, memvars>>
r_lddes(t) == /\ pc[t] = "r_lddes"
              /\ LET x == DES(loc[t].rn) IN
                 \E i \in Readable(t, x, Ord["r_lddes"]) :
                   /\ Load(t, x, Ord["r_lddes"], i) /\ Acc(t, "ld", "r_lddes", IF ValAt(x, i) THEN 1 ELSE 0, 1)
                   /\ Goto(t, IF ValAt(x, i) THEN "f_push" ELSE "r_stdes")
              /\ UNCHANGED loc /\ UG
\* p->~T(): the deleter of the object runs now
r_stdes(t) == /\ pc[t] = "r_stdes"
              /\ Store(t, DES(loc[t].rn), TRUE, Ord["r_stdes"]) /\ Acc(t, "st", "r_stdes", 1, 1)
              /\ Goto(t, "r_dtor")
              /\ UNCHANGED loc /\ UG
\* ... the rest of the destructor (plain writes to the object)
r_dtor(t) == /\ pc[t] = "r_dtor"
             /\ nstate' = [nstate EXCEPT ![loc[t].rn] = "des"]
             /\ bad' = IF bad # "ok" THEN bad
                       ELSE IF nstate[loc[t].rn] = "des" THEN "an object was destroyed twice"
                       ELSE IF nstate[loc[t].rn] # "ret" THEN "an object was destroyed that was never retired"
                       ELSE IF \E u \in Threads, g \in 1 .. NG : guards[u][g].n = loc[t].rn /\ guards[u][g].i = inc[loc[t].rn] /\ (pc[u] = "idle" \/ loc[u].g # g)
                         THEN "an object was destroyed while an established guard refers to it"
                       ELSE bad
             /\ PlainWr(t, PAY(loc[t].rn), 0)
             /\ Goto(t, "f_push")
             /\ UNCHANGED <<loc, guards, lfl, inc, budget, last>>
\* free_list::push(node)
f_push(t) == /\ pc[t] = "f_push"
             /\ IF TL > 0 /\ Len(lfl[t]) < TL
                  THEN /\ Store(t, NEXTF(loc[t].rn), IF lfl[t] = <<>> THEN 0 ELSE Head(lfl[t]), Ord["fl_stnx"]) /\ Acc(t, "st", "fl_stnx", 0, 1)
                       /\ lfl' = [lfl EXCEPT ![t] = <<loc[t].rn>> \o @]
                       /\ Goto(t, loc[t].rret)
                  ELSE /\ Goto(t, "fg_ldh") /\ UNCHANGED <<lfl, last, memvars>>
             /\ UNCHANGED <<loc, guards, nstate, inc, budget, bad>>
\* add_nodes(node, node)
fg_ldh(t) == /\ pc[t] = "fg_ldh"
             /\ \E i \in Readable(t, FHEAD, Ord["fg_ldh"]) :
                  /\ Load(t, FHEAD, Ord["fg_ldh"], i) /\ Acc(t, "ld", "fg_ldh", ValAt(FHEAD, i), 1)
                  /\ loc' = [loc EXCEPT ![t].hd = ValAt(FHEAD, i)]
             /\ Goto(t, "fg_stnx") /\ UG
fg_stnx(t) == /\ pc[t] = "fg_stnx"
              /\ Store(t, NEXTF(loc[t].rn), loc[t].hd, Ord["fl_stnx"]) /\ Acc(t, "st", "fg_stnx", loc[t].hd, 1)
              /\ Goto(t, "fg_cas") /\ UNCHANGED loc /\ UG
fg_cas(t) == /\ pc[t] = "fg_cas"
             /\ IF Latest(FHEAD) = loc[t].hd
                  THEN /\ Rmw(t, FHEAD, loc[t].rn, Ord["fg_cas"]) /\ Acc(t, "cas", "fg_cas", loc[t].hd, 1)
                       /\ Goto(t, loc[t].rret) /\ UNCHANGED loc
                  ELSE /\ CasFail(t, FHEAD, "acq") /\ Acc(t, "cas", "fg_cas", Latest(FHEAD), 0)
                       /\ loc' = [loc EXCEPT ![t].hd = Latest(FHEAD)] /\ Goto(t, "fg_stnx")
             /\ UG

\* ---------------------------------------------------------------- guard_ptr::acquire
a_ld1(t) == /\ pc[t] = "a_ld1"
            /\ LET x == CELL(loc[t].c) IN
               \E i \in Readable(t, x, Ord["a_ld1"]) :
                  /\ Load(t, x, Ord["a_ld1"], i) /\ Acc(t, "ld", "a_ld1", ValAt(x, i), 1)
                  /\ loc' = [loc EXCEPT ![t].q = ValAt(x, i)]
                  /\ Goto(t, IF ValAt(x, i) = 0 THEN "op_done" ELSE "a_faa")
            /\ UG
\* (5) the optimistic increment - q may have been freed or recycled meanwhile
a_faa(t) == /\ pc[t] = "a_faa"
            /\ LET x == REFC(loc[t].q) IN
               /\ Rmw(t, x, Latest(x) + INC, Ord["a_faa"]) /\ Acc(t, "faa", "a_faa", Latest(x), 1)
            /\ Goto(t, IF Revalidate THEN "a_ld2" ELSE "a_got")
            /\ UNCHANGED loc /\ UG
a_ld2(t) == /\ pc[t] = "a_ld2"
            /\ LET x == CELL(loc[t].c) IN
               \E i \in Readable(t, x, Ord["a_ld2"]) :
                  /\ Load(t, x, Ord["a_ld2"], i) /\ Acc(t, "ld", "a_ld2", ValAt(x, i), 1)
                  /\ IF ValAt(x, i) = loc[t].q THEN Goto(t, "a_got") /\ UNCHANGED loc
                     ELSE \* loop: reset() drops the count again
                          /\ loc' = [loc EXCEPT ![t] = CallReset(@, loc[t].q, "a_ld1")] /\ Goto(t, "d_ld")
            /\ UG
a_got(t) == /\ pc[t] = "a_got"
            /\ guards' = [guards EXCEPT ![t][loc[t].g] = [n |-> loc[t].q, i |-> inc[loc[t].q]]]
            /\ Goto(t, "op_done")
            /\ UNCHANGED <<loc, lfl, nstate, inc, budget, bad, last, memvars>>

\* ---------------------------------------------------------------- replace: new node, CAS it in, reclaim the old one
op_done(t) ==
  /\ pc[t] = "op_done"
  /\ CASE loc[t].op = "replace" /\ guards[t][loc[t].g].n # 0 -> Goto(t, "n_begin") /\ loc' = [loc EXCEPT ![t].op = "replace2"]
       [] OTHER -> Goto(t, "idle") /\ UNCHANGED loc
  /\ UNCHANGED <<guards, lfl, nstate, inc, budget, bad, last, memvars>>
\* operator new: free_list::pop()
n_begin(t) == /\ pc[t] = "n_begin"
              /\ IF TL > 0 /\ lfl[t] # <<>>
                   THEN /\ loc' = [loc EXCEPT ![t].fresh = Head(lfl[t])] /\ lfl' = [lfl EXCEPT ![t] = Tail(@)] /\ Goto(t, "n_lfaa")
                   ELSE /\ Goto(t, "n_ldh") /\ UNCHANGED <<loc, lfl>>
              /\ UNCHANGED <<guards, nstate, inc, budget, bad, last, memvars>>
\* thread-local pop: clear the claim bit and add one reference
n_lfaa(t) == /\ pc[t] = "n_lfaa"
             /\ LET x == REFC(loc[t].fresh) IN
                IF TLPopAtomic THEN Rmw(t, x, Latest(x) + INC - CLAIM, Ord["n_lfaa"]) /\ Acc(t, "faa", "n_lfaa", Latest(x), 1)
                ELSE Store(t, x, INC, Ord["n_lfaa"]) /\ Acc(t, "st", "n_lfaa", INC, 1)
             /\ Goto(t, "n_lst") /\ UNCHANGED loc /\ UG
n_lst(t) == /\ pc[t] = "n_lst"
            /\ Store(t, NEXTF(loc[t].fresh), 0, Ord["n_lst"]) /\ Acc(t, "st", "n_lst", 0, 1)
            /\ Goto(t, "n_ctor") /\ UNCHANGED loc /\ UG
\* global pop: guard = acquire_guard(head) ...
n_ldh(t) == /\ pc[t] = "n_ldh"
            /\ \E i \in Readable(t, FHEAD, Ord["n_ldh"]) :
                 /\ Load(t, FHEAD, Ord["n_ldh"], i) /\ Acc(t, "ld", "n_ldh", ValAt(FHEAD, i), 1)
                 /\ loc' = [loc EXCEPT ![t].tmp = ValAt(FHEAD, i)]
                 /\ Goto(t, IF ValAt(FHEAD, i) = 0 THEN "n_fresh" ELSE "n_faa")
            /\ UG
n_faa(t) == /\ pc[t] = "n_faa"
            /\ LET x == REFC(loc[t].tmp) IN Rmw(t, x, Latest(x) + INC, Ord["n_faa"]) /\ Acc(t, "faa", "n_faa", Latest(x), 1)
            /\ Goto(t, "n_ldh2") /\ UNCHANGED loc /\ UG
n_ldh2(t) == /\ pc[t] = "n_ldh2"
             /\ \E i \in Readable(t, FHEAD, Ord["n_ldh2"]) :
                  /\ Load(t, FHEAD, Ord["n_ldh2"], i) /\ Acc(t, "ld", "n_ldh2", ValAt(FHEAD, i), 1)
                  /\ IF ValAt(FHEAD, i) = loc[t].tmp THEN Goto(t, "n_ldnx") /\ UNCHANGED loc
                     ELSE loc' = [loc EXCEPT ![t] = [CallReset(@, loc[t].tmp, "n_ldh") EXCEPT !.tmp = 0]] /\ Goto(t, "d_ld")
             /\ UG
n_ldnx(t) == /\ pc[t] = "n_ldnx"
             /\ LET x == NEXTF(loc[t].tmp) IN
                \E i \in Readable(t, x, Ord["n_ldnx"]) :
                  /\ Load(t, x, Ord["n_ldnx"], i) /\ Acc(t, "ld", "n_ldnx", ValAt(x, i), 1)
                  /\ loc' = [loc EXCEPT ![t].nx = ValAt(x, i)]
             /\ Goto(t, "n_cas") /\ UG
n_cas(t) == /\ pc[t] = "n_cas"
            /\ IF Latest(FHEAD) = loc[t].tmp
                 THEN /\ Rmw(t, FHEAD, loc[t].nx, Ord["n_cas"]) /\ Acc(t, "cas", "n_cas", loc[t].tmp, 1)
                      /\ loc' = [loc EXCEPT ![t].fresh = loc[t].tmp] /\ Goto(t, "n_fsub")
                 ELSE \* the loop re-acquires the guard: the old one is reset (decrement)
                      /\ CasFail(t, FHEAD, Ord["casf"]) /\ Acc(t, "cas", "n_cas", Latest(FHEAD), 0)
                      /\ loc' = [loc EXCEPT ![t] = [CallReset(@, loc[t].tmp, "n_ldh") EXCEPT !.tmp = 0]] /\ Goto(t, "d_ld")
            /\ UG
\* clear the claim bit (the reference of the internal guard becomes the node's initial reference)
n_fsub(t) == /\ pc[t] = "n_fsub"
             /\ LET x == REFC(loc[t].fresh) IN Rmw(t, x, Latest(x) - CLAIM, Ord["n_fsub"]) /\ Acc(t, "fas", "n_fsub", Latest(x), 1)
             /\ Goto(t, "n_stnx") /\ UNCHANGED loc /\ UG
n_stnx(t) == /\ pc[t] = "n_stnx"
             /\ Store(t, NEXTF(loc[t].fresh), 0, Ord["n_stnx"]) /\ Acc(t, "st", "n_stnx", 0, 1)
             /\ Goto(t, "n_ctor") /\ UNCHANGED loc /\ UG
\* nothing on the free lists: fresh memory, ref_count = RefCountInc
n_fresh(t) == /\ pc[t] = "n_fresh"
              /\ \E n \in Nodes :
                   /\ nstate[n] = "free" /\ \A m \in Nodes : nstate[m] = "free" => n <= m         \* which block malloc returns does not matter
                   /\ loc' = [loc EXCEPT ![t].fresh = n]
                   /\ Store(t, REFC(n), INC, Ord["n_init"]) /\ Acc(t, "st", "n_init", INC, 1)
                   /\ nstate' = [nstate EXCEPT ![n] = "des"]         \* raw memory, no object yet
              /\ Goto(t, "n_ctor") /\ UNCHANGED <<guards, lfl, inc, budget, bad>>
\* the constructor: a new incarnation of the object lives in this memory
n_ctor(t) == /\ pc[t] = "n_ctor"
             /\ Store(t, DES(loc[t].fresh), FALSE, Ord["n_undes"]) /\ Acc(t, "st", "n_undes", 0, 1)
             /\ nstate' = [nstate EXCEPT ![loc[t].fresh] = "live"]
             /\ inc' = [inc EXCEPT ![loc[t].fresh] = @ + 1]
             /\ bad' = IF bad = "ok" /\ nstate[loc[t].fresh] \notin {"free", "des"} THEN "memory of a live object was handed out again" ELSE bad
             /\ Goto(t, "x_cas")
             /\ UNCHANGED <<loc, guards, lfl, budget>>
x_cas(t) == /\ pc[t] = "x_cas"
            /\ LET x == CELL(loc[t].c) old == guards[t][loc[t].g].n IN
               IF Latest(x) = old
                 THEN /\ Rmw(t, x, loc[t].fresh, Ord["x_cas"]) /\ Acc(t, "cas", "x_cas", old, 1)
                      /\ nstate' = [nstate EXCEPT ![old] = "ret"]
                      /\ bad' = IF bad = "ok" /\ (nstate[old] # "live" \/ inc[old] # guards[t][loc[t].g].i) THEN "replaced an object that is not live (ABA on a recycled node)" ELSE bad
                      /\ loc' = [loc EXCEPT ![t].old = old]
                      /\ Goto(t, "c_fsub")
                 ELSE \* delete fresh: ~T(), operator delete = decrement_refcnt + push_to_free_list
                      /\ CasFail(t, x, Ord["casf"]) /\ Acc(t, "cas", "x_cas", Latest(x), 0)
                      /\ nstate' = [nstate EXCEPT ![loc[t].fresh] = "ret"]
                      /\ loc' = [loc EXCEPT ![t] = [CallReset(@, loc[t].fresh, "op_done") EXCEPT !.op = "replace3"]]
                      /\ Goto(t, "d_ld") /\ UNCHANGED bad
            /\ UNCHANGED <<guards, lfl, inc, budget>>
\* reclaim(): (7) drop the initial reference, then reset()
c_fsub(t) == /\ pc[t] = "c_fsub"
             /\ LET x == REFC(loc[t].old) IN Rmw(t, x, Latest(x) - INC, Ord["c_fsub"]) /\ Acc(t, "fas", "c_fsub", Latest(x), 1)
             /\ guards' = [guards EXCEPT ![t][loc[t].g] = NoG]
             /\ loc' = [loc EXCEPT ![t] = [CallReset(@, loc[t].old, "op_done") EXCEPT !.op = "replace3"]]
             /\ Goto(t, "d_ld")
             /\ UNCHANGED <<lfl, nstate, inc, budget, bad>>

ThreadStep(t) == \/ StartAcquire(t) \/ StartReplace(t) \/ StartReset(t) \/ Touch(t)
                 \/ a_reset(t) \/ d_ld(t) \/ d_cas(t) \/ r_claimed(t) \/ r_lddes(t) \/ r_stdes(t) \/ r_dtor(t) \/ f_push(t) \/ fg_ldh(t) \/ fg_stnx(t) \/ fg_cas(t)
                 \/ a_ld1(t) \/ a_faa(t) \/ a_ld2(t) \/ a_got(t) \/ op_done(t)
                 \/ n_begin(t) \/ n_lfaa(t) \/ n_lst(t) \/ n_ldh(t) \/ n_faa(t) \/ n_ldh2(t) \/ n_ldnx(t) \/ n_cas(t) \/ n_fsub(t) \/ n_stnx(t) \/ n_fresh(t) \/ n_ctor(t)
                 \/ x_cas(t) \/ c_fsub(t)
Next == \E t \in Threads : ThreadStep(t)
Spec == Init /\ [][Next]_vars

\* ---------------------------------------------------------------- properties
Established(t, g) == pc[t] = "idle" \/ loc[t].g # g
\* C01: an established guard refers to a live (possibly retired) object of the incarnation it was established for
Safe == /\ bad = "ok"
        /\ \A t \in Threads, g \in 1 .. NG :
             (Established(t, g) /\ guards[t][g].n # 0) => (nstate[guards[t][g].n] \in {"live", "ret"} /\ inc[guards[t][g].n] = guards[t][g].i)
\* C02: when everything is over nothing retired remains undestroyed (reference counts reclaim immediately)
Quiescent == \A t \in Threads : pc[t] = "idle" /\ budget[t] = 0 /\ \A g \in 1 .. NG : guards[t][g].n = 0
NoLeak == Quiescent => \A n \in Nodes : nstate[n] # "ret"
\* the count of a live node accounts for the cell that points to it and for every established guard
CountsOk == \A n \in Nodes : nstate[n] = "live" /\ (\A t \in Threads : pc[t] = "idle") =>
               Latest(REFC(n)) = INC * (Cardinality({c \in Cells : Latest(CELL(c)) = n})
                                         + Cardinality({<<t, g>> \in Threads \X (1 .. NG) : guards[t][g].n = n}))
=============================================================================
