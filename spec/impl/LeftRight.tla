------------------------------ MODULE LeftRight ------------------------------
(***************************************************************************)
(* xenium::left_right<T>, one action per atomic access (xenium/left_right  *)
(* .hpp); the functors' accesses to the two instances are plain accesses   *)
(* of two fields each, so that "a reader runs on the instance being        *)
(* modified" shows as a torn read (SC) and as a data race (Weak).          *)
(*                                                                         *)
(* T = struct { f0; f1 } with the invariant f0 = f1; update(a) adds a to   *)
(* both fields, read returns the common value (or -1 for a mixture).       *)
(* Threads 0 .. NWriters-1 update, the others read.                        *)
(***************************************************************************)
EXTENDS Mem, LinMon, Register, TLC

CONSTANTS NWriters, NReaders, MaxUpdates, MaxReads, Ord,
          WaitNext,     \* TRUE = wait_for_readers(next_idx) before the version toggle (code)
          WaitCur,      \* TRUE = wait_for_readers(current_idx) after the toggle (code)
          Toggle,       \* TRUE = the version index is toggled (code)
          ArriveFirst   \* TRUE = a reader arrives before it loads the lr indicator (code)

OrdCode == [rd_vi |-> "rlx", rd_arr |-> "sc", rd_lr |-> "sc", rd_dep |-> "rel",
            up_lock |-> "acq", up_unlock |-> "rel", up_lr |-> "rlx", up_st |-> "sc",
            tv_vi |-> "rlx", tv_w |-> "sc", tv_st |-> "rlx"]

ThreadsDef == 0 .. NWriters + NReaders - 1
Writers == 0 .. NWriters - 1
VI == <<"vi", 0, 0>>
LR == <<"lr", 0, 0>>
MTX == <<"mtx", 0, 0>>
RI(i) == <<"ri", i, 0>>
I(s, f) == <<"inst", s, f>>
PlainLocs == {I(s, f) : s \in 0 .. 1, f \in 0 .. 1}
LocsDef == {VI, LR, MTX, RI(0), RI(1)} \cup PlainLocs
           \cup (IF Weak THEN {RT(x, u) : x \in PlainLocs, u \in ThreadsDef} ELSE {})
InitValDef(x) == IF x[1] = "inst" THEN 1 ELSE 0

VARIABLES pc, loc, lin, budget, last
vars == <<pc, loc, lin, budget, last, memvars>>
mcview == <<pc, loc, lin, budget, memvars>>

L0 == [vi |-> 0, lr |-> 0, a |-> 0, b |-> 0, arg |-> 0, side |-> 0, phase |-> 0, old |-> 0, old2 |-> 0, nxt |-> 0, cur |-> 0]

Init == /\ MemInit
        /\ pc = [t \in Threads |-> "idle"]
        /\ loc = [t \in Threads |-> L0]
        /\ lin = [mon |-> MonInit(1), bad |-> "ok"]
        /\ budget = [t \in Threads |-> IF t \in Writers THEN MaxUpdates ELSE MaxReads]
        /\ last = [t |-> -1, k |-> "init", lab |-> "init", v |-> 0, ok |-> 1, n |-> 0]

Goto(t, l) == pc' = [pc EXCEPT ![t] = l]
Acc(t, k, lab, v, ok) == last' = [t |-> t, k |-> k, lab |-> lab, v |-> v, ok |-> ok, n |-> last.n + 1]    \* n: access counter
\* `lin` = linearizability monitor (real-time order, SC) + memory-model independent ghost: a read never sees a mixture
Return(t, r, v) == /\ lin' = [mon |-> MonRet(lin.mon, t, r, v),
                              bad |-> IF v = -1 /\ lin.bad = "ok" THEN "mixture of two instance states observed" ELSE lin.bad]
                   /\ Goto(t, "idle")

LdTo(t, from, lab, x, f, to) ==
  /\ pc[t] = from
  /\ \E i \in Readable(t, x, Ord[lab]) :
       /\ Load(t, x, Ord[lab], i)
       /\ loc' = [loc EXCEPT ![t][f] = ValAt(x, i)]
       /\ Acc(t, "ld", lab, ValAt(x, i), 1)
  /\ Goto(t, to)
  /\ UNCHANGED <<lin, budget>>

\* ------------------------------------------------------------------ read
StartRead(t) == /\ t \notin Writers /\ pc[t] = "idle" /\ budget[t] > 0
                /\ budget' = [budget EXCEPT ![t] = @ - 1]
                /\ lin' = [lin EXCEPT !.mon = MonCall(@, t, "load", 0, 0)]
                /\ loc' = [loc EXCEPT ![t] = L0]
                /\ Goto(t, "rd_vi") /\ Acc(t, "call", "load", 0, 1)
                /\ UNCHANGED memvars
rd_vi(t) == LdTo(t, "rd_vi", "rd_vi", VI, "vi", IF ArriveFirst THEN "rd_arr" ELSE "rd_lr")
rd_arr(t) == /\ pc[t] = "rd_arr"
             /\ Rmw(t, RI(loc[t].vi), Latest(RI(loc[t].vi)) + 1, Ord["rd_arr"])
             /\ Acc(t, "faa", "rd_arr", Latest(RI(loc[t].vi)), 1)
             /\ Goto(t, IF ArriveFirst THEN "rd_lr" ELSE "rf0")
             /\ UNCHANGED <<loc, lin, budget>>
rd_lr(t) == LdTo(t, "rd_lr", "rd_lr", LR, "lr", IF ArriveFirst THEN "rf0" ELSE "rd_arr")
\* func(inst): plain reads of both fields
rf0(t) == /\ pc[t] = "rf0"
          /\ PlainRd(t, I(loc[t].lr, 0))
          /\ loc' = [loc EXCEPT ![t].a = Latest(I(loc[t].lr, 0))]
          /\ Goto(t, "rf1") /\ UNCHANGED <<lin, budget, last>>
rf1(t) == /\ pc[t] = "rf1"
          /\ PlainRd(t, I(loc[t].lr, 1))
          /\ loc' = [loc EXCEPT ![t].b = Latest(I(loc[t].lr, 1))]
          /\ Goto(t, "rd_dep") /\ UNCHANGED <<lin, budget, last>>
rd_dep(t) == /\ pc[t] = "rd_dep"
             /\ Rmw(t, RI(loc[t].vi), Latest(RI(loc[t].vi)) - 1, Ord["rd_dep"])
             /\ Acc(t, "fas", "rd_dep", Latest(RI(loc[t].vi)), 1)
             /\ Return(t, 0, IF loc[t].a = loc[t].b THEN loc[t].a ELSE -1)
             /\ UNCHANGED <<loc, budget>>

\* ------------------------------------------------------------------ update
StartUpdate(t) == /\ t \in Writers /\ pc[t] = "idle" /\ budget[t] > 0
                  /\ budget' = [budget EXCEPT ![t] = @ - 1]
                  /\ lin' = [lin EXCEPT !.mon = MonCall(@, t, "update", 10, 0)]
                  /\ loc' = [loc EXCEPT ![t] = [L0 EXCEPT !.arg = 10]]
                  /\ Goto(t, "up_lock") /\ Acc(t, "call", "update", 10, 1)
                  /\ UNCHANGED memvars
up_lock(t) == /\ pc[t] = "up_lock" /\ Latest(MTX) = 0          \* std::mutex: blocks while held
              /\ Rmw(t, MTX, 1, Ord["up_lock"])
              /\ Acc(t, "lock", "up_lock", 0, 1)
              /\ Goto(t, "up_lr") /\ UNCHANGED <<loc, lin, budget>>
up_lr(t) == /\ pc[t] = "up_lr"
            /\ \E i \in Readable(t, LR, Ord["up_lr"]) :
                 /\ Load(t, LR, Ord["up_lr"], i)
                 /\ loc' = [loc EXCEPT ![t].lr = ValAt(LR, i), ![t].side = 1 - ValAt(LR, i), ![t].phase = 0]
                 /\ Acc(t, "ld", "up_lr", ValAt(LR, i), 1)
            /\ Goto(t, "uf0") /\ UNCHANGED <<lin, budget>>
\* func(instance `side`): f0 += arg; f1 += arg (plain)
uf0(t) == /\ pc[t] = "uf0"
          /\ LET x == I(loc[t].side, 0) IN
             /\ PlainWr(t, x, Latest(x) + loc[t].arg)
             /\ loc' = [loc EXCEPT ![t].old = IF loc[t].phase = 0 THEN Latest(x) ELSE @,
                                   ![t].old2 = IF loc[t].phase = 1 THEN Latest(x) ELSE @]
          /\ Goto(t, "uf1") /\ UNCHANGED <<lin, budget, last>>
uf1(t) == /\ pc[t] = "uf1"
          /\ LET x == I(loc[t].side, 1) IN PlainWr(t, x, Latest(x) + loc[t].arg)
          /\ Goto(t, IF loc[t].phase = 0 THEN "up_st" ELSE "up_unlock")
          /\ UNCHANGED <<loc, lin, budget, last>>
up_st(t) == /\ pc[t] = "up_st"
            /\ Store(t, LR, loc[t].side, Ord["up_st"])
            /\ Acc(t, "st", "up_st", loc[t].side, 1)
            /\ Goto(t, "tv_vi") /\ UNCHANGED <<loc, lin, budget>>
tv_vi(t) == /\ pc[t] = "tv_vi"
            /\ \E i \in Readable(t, VI, Ord["tv_vi"]) :
                 LET v == ValAt(VI, i) IN
                 /\ Load(t, VI, Ord["tv_vi"], i)
                 /\ loc' = [loc EXCEPT ![t].cur = v % 2, ![t].nxt = (v + 1) % 2]
                 /\ Acc(t, "ld", "tv_vi", v, 1)
            /\ Goto(t, IF WaitNext THEN "tv_w1" ELSE "tv_st") /\ UNCHANGED <<lin, budget>>
\* wait_for_readers(idx): seq_cst load of the indicator; loops (with yield) while it is not empty
WaitStep(t, from, idx, to) ==
  /\ pc[t] = from
  /\ \E i \in Readable(t, RI(idx), Ord["tv_w"]) :
       /\ Load(t, RI(idx), Ord["tv_w"], i)
       /\ Acc(t, "ld", "tv_w", ValAt(RI(idx), i), 1)
       /\ Goto(t, IF ValAt(RI(idx), i) = 0 THEN to ELSE from)
  /\ UNCHANGED <<loc, lin, budget>>
tv_w1(t) == WaitStep(t, "tv_w1", loc[t].nxt, "tv_st")
tv_st(t) == /\ pc[t] = "tv_st"
            /\ IF Toggle THEN Store(t, VI, loc[t].nxt, Ord["tv_st"]) ELSE Store(t, VI, loc[t].cur, Ord["tv_st"])
            /\ Acc(t, "st", "tv_st", loc[t].nxt, 1)
            /\ loc' = [loc EXCEPT ![t].side = 1 - loc[t].side, ![t].phase = 1]
            /\ Goto(t, IF WaitCur THEN "tv_w2" ELSE "uf0") /\ UNCHANGED <<lin, budget>>
tv_w2(t) == WaitStep(t, "tv_w2", loc[t].cur, "uf0")
up_unlock(t) == /\ pc[t] = "up_unlock"
                /\ Store(t, MTX, 0, Ord["up_unlock"])
                /\ Acc(t, "unlock", "up_unlock", 0, 1)
                /\ Return(t, 0, IF loc[t].old = loc[t].old2 THEN loc[t].old ELSE -1)
                /\ UNCHANGED <<loc, budget>>

ThreadStep(t) == \/ StartRead(t) \/ rd_vi(t) \/ rd_arr(t) \/ rd_lr(t) \/ rf0(t) \/ rf1(t) \/ rd_dep(t)
                 \/ StartUpdate(t) \/ up_lock(t) \/ up_lr(t) \/ uf0(t) \/ uf1(t) \/ up_st(t) \/ tv_vi(t)
                 \/ tv_w1(t) \/ tv_st(t) \/ tv_w2(t) \/ up_unlock(t)
Next == \E t \in Threads : ThreadStep(t)
Spec == Init /\ [][Next]_vars

\* C13
Linearizable == lin.mon # {}
NoMixture == lin.bad = "ok"
\* a read functor never runs on the instance an update functor is modifying
NoReaderOnWrittenInstance ==
  \A r \in Threads \ Writers, w \in Writers :
     (pc[r] \in {"rf0", "rf1"} /\ pc[w] \in {"uf0", "uf1"}) => loc[r].lr # loc[w].side
\* at quiescence both instances are equal and well formed
Quiescent == \A t \in Threads : pc[t] = "idle"
InstancesAgree == Quiescent => /\ Latest(I(0, 0)) = Latest(I(0, 1)) /\ Latest(I(1, 0)) = Latest(I(1, 1))
                               /\ Latest(I(0, 0)) = Latest(I(1, 0))
=============================================================================
