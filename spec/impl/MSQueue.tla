------------------------------- MODULE MSQueue -------------------------------
(***************************************************************************)
(* xenium::michael_scott_queue, one action per atomic access of push /     *)
(* pop_node (xenium/michael_scott_queue.hpp), over the ADVERSARIAL         *)
(* abstract reclaimer: guard_ptr::acquire(cell) atomically reads the cell  *)
(* and protects the node, but the guard is effective only if the node was  *)
(* not yet retired at that moment; a retired node without effective guard  *)
(* may be destroyed at any step and its id recycled (new incarnation).     *)
(* A container that is safe and linearizable over this reclaimer is so     *)
(* over every scheme satisfying C01/C02.                                   *)
(*                                                                         *)
(* Node fields: NEXT(n) atomic, DATA(n) plain (written before publication, *)
(* moved out by the popper that won the head CAS).                         *)
(***************************************************************************)
EXTENDS Mem, LinMon, Queues, TLC

CONSTANTS NT, NNodes, MaxPush, MaxPop, Ord,
          HelpTail,      \* TRUE: pop helps to swing a lagging tail before moving head (code)
          HeadRecheck    \* TRUE: pop re-reads head after acquiring next (code)

OrdCode == [p_acqt |-> "acq", p_ldn |-> "acq", p_help |-> "rel", p_link |-> "rel", p_swing |-> "rel",
            q_acqh |-> "acq", q_acqn |-> "acq", q_ldh |-> "rlx", q_ldt |-> "rlx", q_help |-> "rel", q_cas |-> "rel", casf |-> "rlx"]

ThreadsDef == 0 .. NT - 1
Nodes == 1 .. NNodes
HEAD == <<"head", 0>>
TAIL == <<"tail", 0>>
NEXT(n) == <<"next", n>>
DATA(n) == <<"data", n>>
LocsDef == {HEAD, TAIL} \cup {NEXT(n) : n \in Nodes} \cup {DATA(n) : n \in Nodes}
           \cup (IF Weak THEN {RT(DATA(n), u) : n \in Nodes, u \in ThreadsDef} ELSE {})
InitValDef(x) == IF x = HEAD \/ x = TAIL THEN 1 ELSE 0

VARIABLES pc, loc, lin, budget, nextv, nst, inc, g, bad, last
vars == <<pc, loc, lin, budget, nextv, nst, inc, g, bad, last, memvars>>
mcview == <<pc, loc, lin, budget, nextv, nst, inc, g, bad, memvars>>

NoG == [n |-> 0, i |-> 0, eff |-> FALSE]
L0 == [n |-> 0, v |-> 0, nx |-> 0, tl |-> 0, hd |-> 0]
Init == /\ MemInit
        /\ pc = [t \in Threads |-> "idle"]
        /\ loc = [t \in Threads |-> L0]
        /\ lin = [mon |-> MonInit(QInit), taken |-> {}, bad |-> "ok"]
        /\ budget = [t \in Threads |-> [push |-> MaxPush, pop |-> MaxPop]]
        /\ nextv = 1
        /\ nst = [n \in Nodes |-> IF n = 1 THEN "live" ELSE "free"]
        /\ inc = [n \in Nodes |-> 0]
        /\ g = [t \in Threads |-> [h |-> NoG, x |-> NoG, t |-> NoG]]
        /\ bad = "ok"
        /\ last = [t |-> -1, k |-> "init", lab |-> "init", v |-> 0, ok |-> 1, n |-> 0]

Goto(t, l) == pc' = [pc EXCEPT ![t] = l]
Acc(t, k, lab, v, ok) == last' = [t |-> t, k |-> k, lab |-> lab, v |-> v, ok |-> ok, n |-> last.n + 1]    \* n: access counter
\* `lin` = linearizability monitor (real-time order, SC) + conservation ghost (memory-model independent)
IsPop(t) == pc[t] \in {"q_null", "q_data"}
Return(t, r, v) == /\ lin' = [mon |-> MonRet(lin.mon, t, r, v),
                              taken |-> IF IsPop(t) /\ r = 1 THEN lin.taken \cup {v} ELSE lin.taken,
                              bad |-> IF IsPop(t) /\ r = 1 /\ lin.bad = "ok" /\ (v \notin 1 .. nextv - 1 \/ v \in lin.taken)
                                        THEN "a value was popped twice or invented" ELSE lin.bad]
                   /\ Goto(t, "idle")

\* ---- abstract reclaimer -----------------------------------------------------------------------
GuardOf(c) == IF c = 0 THEN NoG ELSE [n |-> c, i |-> inc[c], eff |-> nst[c] = "live"]
\* dereferencing a node through a guard: an error if it was destroyed or recycled meanwhile
Dangling(gd) == gd.n # 0 /\ (nst[gd.n] \in {"dead", "free"} \/ inc[gd.n] # gd.i)
Touch(gd, what) == bad' = IF bad = "ok" /\ Dangling(gd) THEN what ELSE bad
Protected(n) == \E t \in Threads : \E f \in {"h", "x", "t"} : g[t][f].n = n /\ g[t][f].i = inc[n] /\ g[t][f].eff
Destroy == /\ \E n \in Nodes : /\ nst[n] = "retired" /\ ~Protected(n)
                               /\ nst' = [nst EXCEPT ![n] = "dead"]
           /\ UNCHANGED <<pc, loc, lin, budget, nextv, inc, g, bad, last, memvars>>

\* Note on weak memory: a guard acquisition of a real reclaimer (hazard pointers: publish, seq_cst fence, re-read; epochs: fenced
\* region entry) never hands out a pointer that was replaced before the node's retirement became visible to the reclaimer.
\* The abstract acquire therefore reads the latest message of the cell; all other loads may be stale as far as their order allows.
\* ---- push ------------------------------------------------------------------------------------
\* new node(std::move(value)): allocation + plain write of the payload + next = null (unpublished: no step needed)
StartPush(t) == /\ pc[t] = "idle" /\ budget[t].push > 0
                /\ budget' = [budget EXCEPT ![t].push = @ - 1]
                /\ \E n \in Nodes :
                     /\ nst[n] \in {"free", "dead"}
                     /\ nst' = [nst EXCEPT ![n] = "live"] /\ inc' = [inc EXCEPT ![n] = @ + 1]
                     /\ loc' = [loc EXCEPT ![t] = [L0 EXCEPT !.n = n, !.v = nextv]]
                     /\ PlainWr(t, DATA(n), nextv)
                /\ lin' = [lin EXCEPT !.mon = MonCall(@, t, "push", nextv, 0)]
                /\ nextv' = nextv + 1
                /\ Goto(t, "p_init") /\ Acc(t, "call", "push", nextv, 1)
                /\ UNCHANGED <<g, bad>>
\* the node constructor initialises _next (a recycled id must read null again); the node is not yet published
p_init(t) == /\ pc[t] = "p_init"
             /\ Store(t, NEXT(loc[t].n), 0, "rlx")
             /\ Goto(t, "p_acqt")
             /\ UNCHANGED <<loc, lin, budget, nextv, nst, inc, g, bad, last>>
p_acqt(t) == /\ pc[t] = "p_acqt"
             /\ \E i \in {Last(TAIL)} :      \* guard_ptr::acquire: publish + validate, never settles on a stale value (see note below)
                  /\ Load(t, TAIL, Ord["p_acqt"], i)
                  /\ g' = [g EXCEPT ![t].t = GuardOf(ValAt(TAIL, i))]
                  /\ Acc(t, "ld", "p_acqt", ValAt(TAIL, i), 1)
             /\ Goto(t, "p_ldn")
             /\ UNCHANGED <<loc, lin, budget, nextv, nst, inc, bad>>
p_ldn(t) == /\ pc[t] = "p_ldn"
            /\ Touch(g[t].t, "push reads next of a destroyed tail node")
            /\ LET x == NEXT(g[t].t.n) IN
               \E i \in Readable(t, x, Ord["p_ldn"]) :
                  /\ Load(t, x, Ord["p_ldn"], i)
                  /\ Acc(t, "ld", "p_ldn", ValAt(x, i), 1)
                  /\ loc' = [loc EXCEPT ![t].nx = ValAt(x, i)]
                  /\ Goto(t, IF ValAt(x, i) # 0 THEN "p_help" ELSE "p_link")
            /\ UNCHANGED <<lin, budget, nextv, nst, inc, g>>
p_help(t) == /\ pc[t] = "p_help"
             /\ IF Latest(TAIL) = g[t].t.n
                  THEN Rmw(t, TAIL, loc[t].nx, Ord["p_help"]) /\ Acc(t, "cas", "p_help", g[t].t.n, 1)
                  ELSE CasFail(t, TAIL, Ord["casf"]) /\ Acc(t, "cas", "p_help", Latest(TAIL), 0)
             /\ Goto(t, "p_acqt")
             /\ UNCHANGED <<loc, lin, budget, nextv, nst, inc, g, bad>>
p_link(t) == /\ pc[t] = "p_link"
             /\ Touch(g[t].t, "push links to a destroyed tail node")
             /\ LET x == NEXT(g[t].t.n) IN
                IF Latest(x) = 0
                  THEN /\ Rmw(t, x, loc[t].n, Ord["p_link"]) /\ Acc(t, "cas", "p_link", 0, 1)
                       /\ Goto(t, "p_swing")
                  ELSE /\ CasFail(t, x, Ord["casf"]) /\ Acc(t, "cas", "p_link", Latest(x), 0)
                       /\ Goto(t, "p_acqt")
             /\ UNCHANGED <<loc, lin, budget, nextv, nst, inc, g>>
p_swing(t) == /\ pc[t] = "p_swing"
              /\ IF Latest(TAIL) = g[t].t.n
                   THEN Rmw(t, TAIL, loc[t].n, Ord["p_swing"]) /\ Acc(t, "cas", "p_swing", g[t].t.n, 1)
                   ELSE CasFail(t, TAIL, Ord["casf"]) /\ Acc(t, "cas", "p_swing", Latest(TAIL), 0)
              /\ g' = [g EXCEPT ![t].t = NoG]
              /\ Return(t, 1, loc[t].v)
              /\ UNCHANGED <<loc, budget, nextv, nst, inc, bad>>

\* ---- pop -------------------------------------------------------------------------------------
StartPop(t) == /\ pc[t] = "idle" /\ budget[t].pop > 0
               /\ budget' = [budget EXCEPT ![t].pop = @ - 1]
               /\ lin' = [lin EXCEPT !.mon = MonCall(@, t, "pop", 0, 0)]
               /\ loc' = [loc EXCEPT ![t] = L0]
               /\ Goto(t, "q_acqh") /\ Acc(t, "call", "pop", 0, 1)
               /\ UNCHANGED <<nextv, nst, inc, g, bad, memvars>>
q_acqh(t) == /\ pc[t] = "q_acqh"
             /\ \E i \in {Last(HEAD)} :      \* guard_ptr::acquire: publish + validate, never settles on a stale value (see note below)
                  /\ Load(t, HEAD, Ord["q_acqh"], i)
                  /\ g' = [g EXCEPT ![t].h = GuardOf(ValAt(HEAD, i)), ![t].x = NoG]
                  /\ Acc(t, "ld", "q_acqh", ValAt(HEAD, i), 1)
             /\ Goto(t, "q_acqn")
             /\ UNCHANGED <<loc, lin, budget, nextv, nst, inc, bad>>
q_acqn(t) == /\ pc[t] = "q_acqn"
             /\ Touch(g[t].h, "pop reads next of a destroyed head node")
             /\ LET x == NEXT(g[t].h.n) IN
                \E i \in {Last(x)} :
                   /\ Load(t, x, Ord["q_acqn"], i)
                   /\ g' = [g EXCEPT ![t].x = GuardOf(ValAt(x, i))]
                   /\ Acc(t, "ld", "q_acqn", ValAt(x, i), 1)
             /\ Goto(t, IF HeadRecheck THEN "q_ldh" ELSE "q_null")
             /\ UNCHANGED <<loc, lin, budget, nextv, nst, inc>>
q_ldh(t) == /\ pc[t] = "q_ldh"
            /\ \E i \in Readable(t, HEAD, Ord["q_ldh"]) :
                 /\ Load(t, HEAD, Ord["q_ldh"], i)
                 /\ Acc(t, "ld", "q_ldh", ValAt(HEAD, i), 1)
                 /\ Goto(t, IF ValAt(HEAD, i) # g[t].h.n THEN "q_acqh" ELSE "q_null")
            /\ UNCHANGED <<loc, lin, budget, nextv, nst, inc, g, bad>>
\* next == nullptr: the queue is empty (no access)
q_null(t) == /\ pc[t] = "q_null"
             /\ IF g[t].x.n = 0
                  THEN /\ g' = [g EXCEPT ![t].h = NoG, ![t].x = NoG] /\ Return(t, 0, 0)
                  ELSE /\ Goto(t, "q_ldt") /\ UNCHANGED <<g, lin>>
             /\ UNCHANGED <<loc, budget, nextv, nst, inc, bad, last, memvars>>
q_ldt(t) == /\ pc[t] = "q_ldt"
            /\ \E i \in Readable(t, TAIL, Ord["q_ldt"]) :
                 /\ Load(t, TAIL, Ord["q_ldt"], i)
                 /\ Acc(t, "ld", "q_ldt", ValAt(TAIL, i), 1)
                 /\ loc' = [loc EXCEPT ![t].tl = ValAt(TAIL, i)]
                 /\ Goto(t, IF HelpTail /\ g[t].h.n = ValAt(TAIL, i) THEN "q_help" ELSE "q_cas")
            /\ UNCHANGED <<lin, budget, nextv, nst, inc, g, bad>>
q_help(t) == /\ pc[t] = "q_help"
             /\ IF Latest(TAIL) = loc[t].tl
                  THEN Rmw(t, TAIL, g[t].x.n, Ord["q_help"]) /\ Acc(t, "cas", "q_help", loc[t].tl, 1)
                  ELSE CasFail(t, TAIL, Ord["casf"]) /\ Acc(t, "cas", "q_help", Latest(TAIL), 0)
             /\ Goto(t, "q_acqh")
             /\ UNCHANGED <<loc, lin, budget, nextv, nst, inc, g, bad>>
q_cas(t) == /\ pc[t] = "q_cas"
            /\ IF Latest(HEAD) = g[t].h.n
                 THEN /\ Rmw(t, HEAD, g[t].x.n, Ord["q_cas"]) /\ Acc(t, "cas", "q_cas", g[t].h.n, 1)
                      /\ nst' = [nst EXCEPT ![g[t].h.n] = "retired"]          \* h.reclaim()
                      /\ g' = [g EXCEPT ![t].h = NoG]
                      /\ Goto(t, "q_data")
                 ELSE /\ CasFail(t, HEAD, Ord["casf"]) /\ Acc(t, "cas", "q_cas", Latest(HEAD), 0)
                      /\ Goto(t, "q_acqh") /\ UNCHANGED <<nst, g>>
            /\ UNCHANGED <<loc, lin, budget, nextv, inc, bad>>
\* result = std::move(n->_data): plain read of the payload of the new dummy node through guard x
q_data(t) == /\ pc[t] = "q_data"
             /\ Touch(g[t].x, "pop reads the payload of a destroyed node")
             /\ PlainRd(t, DATA(g[t].x.n))
             /\ g' = [g EXCEPT ![t].x = NoG]
             /\ Return(t, 1, Latest(DATA(g[t].x.n)))
             /\ UNCHANGED <<loc, budget, nextv, nst, inc, last>>

ThreadStep(t) == \/ StartPush(t) \/ p_init(t) \/ p_acqt(t) \/ p_ldn(t) \/ p_help(t) \/ p_link(t) \/ p_swing(t)
                 \/ StartPop(t) \/ q_acqh(t) \/ q_acqn(t) \/ q_ldh(t) \/ q_null(t) \/ q_ldt(t) \/ q_help(t) \/ q_cas(t) \/ q_data(t)
Next == Destroy \/ \E t \in Threads : ThreadStep(t)
Spec == Init /\ [][Next]_vars

\* C04 (+ C01 on the container side): linearizable FIFO, never touches a destroyed node
Linearizable == lin.mon # {}
Conservation == lin.bad = "ok"
MemorySafe == bad = "ok"
=============================================================================
