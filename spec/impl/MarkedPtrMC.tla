----------------------------- MODULE MarkedPtrMC -----------------------------
(* TLC checks the marked_ptr algebra for every mark width 0..32 and upper-bit budget U (C15a). *)
(* One state per (M, U): the "behaviour" just enumerates the configurations.                    *)
EXTENDS MarkedPtr, TLC
CONSTANTS Us
VARIABLES m, u
Init == m = 0 /\ u \in Us
Next == m < 32 /\ m' = m + 1 /\ u' = u
Spec == Init /\ [][Next]_<<m, u>>
AllRoundTrip == \A g \in Generators(m, u) : RoundTrip(m, u, g[1], g[2])
AllDisjoint == Disjoint(m, u)
=============================================================================
