---------------------------- MODULE NikolaevQueue ----------------------------
(***************************************************************************)
(* xenium::nikolaev_queue (unbounded LSCQ: a list of nodes, each with an   *)
(* "allocated" and a "free" index ring) on top of detail::nikolaev_scq,    *)
(* one action per atomic access, sequentially consistent memory.           *)
(*                                                                         *)
(* The rings are transcribed at the level of the bit patterns the code     *)
(* uses (xenium/detail/nikolaev_scq.hpp):                                  *)
(*   n = 2 * capacity entries; _head / _tail count in steps of 2, the LSB  *)
(*   of _tail is the "finalized" flag; an entry is                         *)
(*        cycle * 2n  +  bit n  +  value (0 .. n-1, n-1 = nil)             *)
(*   and -1 (all ones) initially.  x | (2n-1), x & ~n, x ^ n, fetch_or of  *)
(*   n-1 are written with \div and % (floor semantics = two's complement). *)
(* Queue nodes are reclaimed by the adversarial abstract reclaimer (see     *)
(* MSQueue): a guard is effective only if the node was not yet retired     *)
(* when it was acquired; a retired node without effective guard may be     *)
(* destroyed at any step (node ids are not reused).  HelpTail = FALSE is   *)
(* the code before the fix of C04-lagging-tail: do_pop retired the head    *)
(* node while _tail could still point to it.                               *)
(*                                                                         *)
(* The value recorded for an access (variable `last`) is what the runtime  *)
(* records for the real access: the value read, the value stored, and for  *)
(* read-modify-writes the value found (NikolaevQueue_Step binds on it).    *)
(* KeepFin = FALSE is the code before the fix of catchup(): the CAS on     *)
(* _tail dropped the finalized flag.                                       *)
(***************************************************************************)
EXTENDS Integers, Sequences, FiniteSets, LinMon, Queues, TLC

CONSTANTS NT, Cap, PopRetries, MaxNodes,
          Progs,         \* per thread (index t + 1): the sequence of operations it performs, e.g. <<"push", "pop">>
          SetupOps,      \* thread 0 runs its first SetupOps operations before anybody else starts

          Bounded,       \* TRUE: xenium::nikolaev_bounded_queue - one pair of rings, try_push fails when no free entry is left
          KeepFin,       \* TRUE: catchup preserves the finalized flag of _tail (code)
          SecondLook,    \* TRUE: do_pop raises the threshold and dequeues once more before it moves _head on (code)
          HelpTail       \* TRUE: do_pop swings a _tail that still points to the node it is about to unlink and retire (code)

Threads == 0 .. NT - 1
N == 2 * Cap
M2 == 2 * N                      \* is_safe_and_value_mask + 1
ThrFull == N + Cap - 1           \* 3 * capacity - 1
Nodes == 1 .. MaxNodes

\* ---- bit patterns --------------------------------------------------------------------------------
OrMask(x) == (x \div M2) * M2 + (M2 - 1)          \* x | is_safe_and_value_mask
HasN(x) == (x \div N) % 2 = 1
OrN(x) == IF HasN(x) THEN x ELSE x + N            \* x | n
ClearN(x) == IF HasN(x) THEN x - N ELSE x         \* x & ~n
ValOf(x) == x % N                                  \* x & value_mask
OrVal(x) == (x \div N) * N + (N - 1)              \* fetch_or(value_mask)
Slot(i) == (i \div 2) % N                          \* remap_index for rings that fit into a cache line
Fin(t) == t % 2                                    \* finalized flag of a _tail value

\* ring constructors (empty_tag is not used by nikolaev_queue)
RingFull == [head |-> 0, thr |-> ThrFull, tail |-> Cap * 2, ent |-> [i \in 0 .. N - 1 |-> IF i < Cap THEN N + i ELSE -1]]
RingFirstUsed == [head |-> 0, thr |-> ThrFull, tail |-> 2, ent |-> [i \in 0 .. N - 1 |-> IF i = 0 THEN N ELSE -1]]
RingFirstEmpty == [head |-> 2, thr |-> ThrFull, tail |-> Cap * 2, ent |-> [i \in 0 .. N - 1 |-> IF i = 0 THEN -1 ELSE IF i < Cap THEN N + i ELSE -1]]
\* nikolaev_queue::node(): allocated queue empty - written as "full" ring of nils? no: the default node uses empty/full tags
RingEmpty == [head |-> 0, thr |-> -1, tail |-> 0, ent |-> [i \in 0 .. N - 1 |-> -1]]

VARIABLES pc, loc, lin, budget, nextv, ring, stor, nxt, qhead, qtail, used, nst, bad, last
vars == <<pc, loc, lin, budget, nextv, ring, stor, nxt, qhead, qtail, used, nst, bad, last>>
mcview == <<pc, loc, lin, budget, nextv, ring, stor, nxt, qhead, qtail, used, nst, bad>>

L0 == [n |-> 0, v |-> 0, r |-> "aq", cont |-> "idle", finz |-> FALSE, x |-> 0, i |-> 0, E |-> 0, Enew |-> 0, att |-> 0, ok |-> FALSE, val |-> 0,
       ev |-> 0, m |-> 0, t |-> 0, h |-> 0, idx |-> 0, g |-> 0, geff |-> FALSE]
Init == /\ pc = [t \in Threads |-> "idle"]
        /\ loc = [t \in Threads |-> L0]
        /\ lin = [mon |-> MonInit(IF Bounded THEN QCfg(QInit, "kind_nikbounded", Cap, 0) ELSE QInit), taken |-> {}, bad |-> "ok"]
        /\ budget = [t \in Threads |-> 1]                 \* index of the next operation in Progs[t + 1]
        /\ nextv = 1
        \* the first node: nikolaev_queue() : new node() - allocated queue empty, free queue full
        /\ ring = [k \in Nodes |-> [aq |-> RingEmpty, fq |-> RingFull]]
        /\ stor = [k \in Nodes |-> [i \in 0 .. Cap - 1 |-> 0]]
        /\ nxt = [k \in Nodes |-> 0]
        /\ qhead = 1 /\ qtail = 1
        /\ used = 1
        /\ nst = [k \in Nodes |-> "live"]             \* node k: live | retired | dead (abstract reclaimer, see MSQueue)
        /\ bad = "ok"
        /\ last = [t |-> -1, k |-> "init", lab |-> "init", v |-> 0, ok |-> 1, n |-> 0]

Goto(t, l) == pc' = [pc EXCEPT ![t] = l]
Acc(t, k, lab, v, ok) == last' = [t |-> t, k |-> k, lab |-> lab, v |-> v, ok |-> ok, n |-> last.n + 1]
R(t) == ring[loc[t].n][loc[t].r]
SetR(t, f, v) == ring' = [ring EXCEPT ![loc[t].n][loc[t].r][f] = v]
SetEnt(t, j, v) == ring' = [ring EXCEPT ![loc[t].n][loc[t].r].ent[j] = v]
UQ == UNCHANGED <<lin, budget, nextv, stor, nxt, qhead, qtail, used, nst, bad>>

IsPop(t) == loc[t].cont = "q_done"
Return(t, r, v, popping) ==
  /\ lin' = [mon |-> MonRet(lin.mon, t, r, v),
             taken |-> IF (popping /\ r = 1) \/ (~popping /\ r = 0) THEN lin.taken \cup {v} ELSE lin.taken,   \* popped, or rejected by try_push
             bad |-> IF popping /\ r = 1 /\ lin.bad = "ok" /\ (v \notin 1 .. nextv - 1 \/ v \in lin.taken)
                       THEN "a value was popped twice or invented" ELSE lin.bad]
  /\ Goto(t, "idle")

\* ---------------------------------------------------------------- SCQ::enqueue<false, Finalizable>(value)
\* entered with loc.n / loc.r = ring, loc.ev = value, loc.finz = Finalizable, loc.cont = continuation; leaves loc.ok
CallEnq(l, n, r, v, finz, cont) == [l EXCEPT !.n = n, !.r = r, !.ev = v, !.finz = finz, !.cont = cont]
e_faa(t) == /\ pc[t] = "e_faa"
            /\ LET T == R(t).tail IN
               /\ SetR(t, "tail", T + 2) /\ Acc(t, "faa", "e_faa", T, 1)
               /\ IF Fin(T) = 1
                    THEN /\ loc' = [loc EXCEPT ![t].ok = FALSE] /\ Goto(t, loc[t].cont)
                         /\ bad' = IF ~loc[t].finz /\ bad = "ok" THEN "enqueue on a finalized ring that must not be finalized" ELSE bad
                    ELSE /\ loc' = [loc EXCEPT ![t].x = T] /\ Goto(t, "e_ld") /\ UNCHANGED bad
            /\ UNCHANGED <<lin, budget, nextv, stor, nxt, qhead, qtail, used, nst>>
e_ld(t) == /\ pc[t] = "e_ld"
           /\ loc' = [loc EXCEPT ![t].E = R(t).ent[Slot(loc[t].x)]] /\ Acc(t, "ld", "e_ld", R(t).ent[Slot(loc[t].x)], 1)
           /\ Goto(t, "e_chk") /\ UNCHANGED ring /\ UQ
\* retry: the condition; the _head load only happens for an entry that is nil with bit n clear
e_chk(t) == /\ pc[t] = "e_chk"
            /\ LET E == loc[t].E ec == OrMask(E) tc == OrMask(loc[t].x) IN
               IF ec - tc < 0 /\ E = ec THEN Goto(t, "e_cas") /\ UNCHANGED last
               ELSE IF ec - tc < 0 /\ E = ec - N
                      THEN /\ Acc(t, "ld", "e_ldh", R(t).head, 1)
                           /\ Goto(t, IF R(t).head - loc[t].x <= 0 THEN "e_cas" ELSE "e_faa")
                      ELSE Goto(t, "e_faa") /\ UNCHANGED last
            /\ UNCHANGED <<loc, ring>> /\ UQ
e_cas(t) == /\ pc[t] = "e_cas"
            /\ LET j == Slot(loc[t].x) cur == R(t).ent[j] new == (loc[t].x \div M2) * M2 + loc[t].ev IN
               IF cur = loc[t].E
                 THEN /\ SetEnt(t, j, new) /\ Acc(t, "cas", "e_cas", cur, 1) /\ Goto(t, "e_thr") /\ UNCHANGED loc
                 ELSE /\ loc' = [loc EXCEPT ![t].E = cur] /\ Acc(t, "cas", "e_cas", cur, 0) /\ Goto(t, "e_chk") /\ UNCHANGED ring
            /\ UQ
e_thr(t) == /\ pc[t] = "e_thr"
            /\ Acc(t, "ld", "e_thr", R(t).thr, 1)
            /\ IF R(t).thr # ThrFull THEN Goto(t, "e_sthr") /\ UNCHANGED loc
               ELSE loc' = [loc EXCEPT ![t].ok = TRUE] /\ Goto(t, loc[t].cont)
            /\ UNCHANGED ring /\ UQ
e_sthr(t) == /\ pc[t] = "e_sthr"
             /\ SetR(t, "thr", ThrFull) /\ Acc(t, "st", "e_sthr", ThrFull, 1)
             /\ loc' = [loc EXCEPT ![t].ok = TRUE] /\ Goto(t, loc[t].cont) /\ UQ

\* ---------------------------------------------------------------- SCQ::dequeue<false, PopRetries>(value)
CallDeq(l, n, r, cont) == [l EXCEPT !.n = n, !.r = r, !.cont = cont]
d_thr(t) == /\ pc[t] = "d_thr"
            /\ Acc(t, "ld", "d_thr", R(t).thr, 1)
            /\ IF R(t).thr < 0 THEN loc' = [loc EXCEPT ![t].ok = FALSE] /\ Goto(t, loc[t].cont)
               ELSE Goto(t, "d_faa") /\ UNCHANGED loc
            /\ UNCHANGED ring /\ UQ
d_faa(t) == /\ pc[t] = "d_faa"
            /\ LET H == R(t).head IN
               /\ SetR(t, "head", H + 2) /\ Acc(t, "faa", "d_faa", H, 1)
               /\ loc' = [loc EXCEPT ![t].x = H, ![t].att = 0]
            /\ Goto(t, "d_ld") /\ UQ
d_ld(t) == /\ pc[t] = "d_ld"
           /\ loc' = [loc EXCEPT ![t].E = R(t).ent[Slot(loc[t].x)]] /\ Acc(t, "ld", "d_ld", R(t).ent[Slot(loc[t].x)], 1)
           /\ Goto(t, "d_chk") /\ UNCHANGED ring /\ UQ
\* body of the do-while: decides what to do with the entry just read
d_chk(t) == /\ pc[t] = "d_chk"
            /\ LET E == loc[t].E ec == OrMask(E) hc == OrMask(loc[t].x) IN
               IF ec = hc THEN Goto(t, "d_for") /\ UNCHANGED <<loc, last>>
               ELSE IF OrN(E) # ec                                   \* the entry holds a value of an older cycle: clear bit n
                      THEN IF E = ClearN(E) THEN Goto(t, "d_after") /\ UNCHANGED <<loc, last>>
                           ELSE /\ loc' = [loc EXCEPT ![t].Enew = ClearN(E)]
                                /\ Goto(t, IF ec - hc < 0 THEN "d_cas" ELSE "d_after") /\ UNCHANGED last
                      ELSE \* nil: look at _tail first (pop_retries), then move the entry to this cycle
                           /\ Acc(t, "ld", "d_ldt", R(t).tail, 1)
                           /\ IF R(t).tail - (loc[t].x + 2) > 0 /\ loc[t].att + 1 <= PopRetries
                                THEN loc' = [loc EXCEPT ![t].att = @ + 1] /\ Goto(t, "d_ld")
                                ELSE /\ loc' = [loc EXCEPT ![t].Enew = hc, ![t].att = @ + 1]
                                     /\ Goto(t, IF ec - hc < 0 THEN "d_cas" ELSE "d_after")
            /\ UNCHANGED ring /\ UQ
d_for(t) == /\ pc[t] = "d_for"
            /\ LET j == Slot(loc[t].x) IN
               /\ SetEnt(t, j, OrVal(R(t).ent[j])) /\ Acc(t, "for", "d_for", R(t).ent[j], 1)
            /\ loc' = [loc EXCEPT ![t].ok = TRUE, ![t].val = ValOf(loc[t].E)]
            /\ bad' = IF bad = "ok" /\ ValOf(loc[t].E) >= Cap THEN "dequeued index out of range" ELSE bad
            /\ Goto(t, loc[t].cont)
            /\ UNCHANGED <<lin, budget, nextv, stor, nxt, qhead, qtail, used, nst>>
d_cas(t) == /\ pc[t] = "d_cas"
            /\ LET j == Slot(loc[t].x) cur == R(t).ent[j] IN
               IF cur = loc[t].E
                 THEN /\ SetEnt(t, j, loc[t].Enew) /\ Acc(t, "cas", "d_cas", cur, 1) /\ Goto(t, "d_after") /\ UNCHANGED loc
                 ELSE /\ loc' = [loc EXCEPT ![t].E = cur] /\ Acc(t, "cas", "d_cas", cur, 0) /\ Goto(t, "d_chk") /\ UNCHANGED ring
            /\ UQ
d_after(t) == /\ pc[t] = "d_after"
              /\ Acc(t, "ld", "d_ldt2", R(t).tail, 1)
              /\ IF R(t).tail - (loc[t].x + 2) <= 0
                   THEN loc' = [loc EXCEPT ![t].t = R(t).tail, ![t].h = loc[t].x + 2] /\ Goto(t, "c_cas")
                   ELSE Goto(t, "d_fsub") /\ UNCHANGED loc
              /\ UNCHANGED ring /\ UQ
\* catchup(tail, head)
c_cas(t) == /\ pc[t] = "c_cas"
            /\ LET new == IF KeepFin THEN loc[t].h + Fin(loc[t].t) ELSE loc[t].h IN
               IF R(t).tail = loc[t].t
                 THEN /\ SetR(t, "tail", new) /\ Acc(t, "cas", "c_cas", loc[t].t, 1) /\ Goto(t, "d_fsube") /\ UNCHANGED loc
                 ELSE /\ loc' = [loc EXCEPT ![t].t = R(t).tail] /\ Acc(t, "cas", "c_cas", R(t).tail, 0) /\ Goto(t, "c_ldh") /\ UNCHANGED ring
            /\ UQ
c_ldh(t) == /\ pc[t] = "c_ldh"
            /\ Acc(t, "ld", "c_ldh", R(t).head, 1)
            /\ loc' = [loc EXCEPT ![t].h = R(t).head]
            /\ Goto(t, IF loc[t].t - R(t).head >= 0 THEN "d_fsube" ELSE "c_cas")
            /\ UNCHANGED ring /\ UQ
\* _threshold.fetch_sub(1) after a catchup: the ring is empty
d_fsube(t) == /\ pc[t] = "d_fsube"
              /\ SetR(t, "thr", R(t).thr - 1) /\ Acc(t, "fas", "d_fsube", R(t).thr, 1)
              /\ loc' = [loc EXCEPT ![t].ok = FALSE] /\ Goto(t, loc[t].cont) /\ UQ
d_fsub(t) == /\ pc[t] = "d_fsub"
             /\ SetR(t, "thr", R(t).thr - 1) /\ Acc(t, "fas", "d_fsub", R(t).thr, 1)
             /\ IF R(t).thr <= 0 THEN loc' = [loc EXCEPT ![t].ok = FALSE] /\ Goto(t, loc[t].cont)
                ELSE Goto(t, "d_faa") /\ UNCHANGED loc
             /\ UQ

\* ---------------------------------------------------------------- nikolaev_queue::push
MayStart(t, op) == /\ pc[t] = "idle" /\ budget[t] <= Len(Progs[t + 1]) /\ Progs[t + 1][budget[t]] = op
                   /\ (t = 0 \/ (budget[0] > SetupOps /\ (budget[0] > SetupOps + 1 \/ pc[0] = "idle" \/ SetupOps = 0)))
StartPush(t) == /\ MayStart(t, "push")
                /\ budget' = [budget EXCEPT ![t] = @ + 1]
                /\ loc' = [loc EXCEPT ![t] = IF Bounded THEN CallDeq([L0 EXCEPT !.v = nextv, !.m = 1], 1, "fq", "b_deq") ELSE [L0 EXCEPT !.v = nextv]]
                /\ nextv' = nextv + 1
                /\ lin' = [lin EXCEPT !.mon = MonCall(@, t, "push", nextv, 0)]
                /\ Goto(t, IF Bounded THEN "d_thr" ELSE "p_tail") /\ Acc(t, "call", "push", nextv, 1)
                /\ UNCHANGED <<ring, stor, nxt, qhead, qtail, used, nst, bad>>
p_tail(t) == /\ pc[t] = "p_tail"
             /\ loc' = [loc EXCEPT ![t].m = qtail, ![t].g = qtail, ![t].geff = nst[qtail] = "live"] /\ Acc(t, "ld", "p_tail", qtail, 1)
             /\ Goto(t, "p_next") /\ UNCHANGED ring /\ UQ
p_next(t) == /\ pc[t] = "p_next"
             /\ Acc(t, "ld", "p_next", nxt[loc[t].m], 1)
             /\ IF nxt[loc[t].m] # 0 THEN Goto(t, "p_ldn") /\ UNCHANGED loc
                ELSE \* try_push: _free_queue.dequeue
                     /\ loc' = [loc EXCEPT ![t] = CallDeq(@, loc[t].m, "fq", "tp_deq")] /\ Goto(t, "d_thr")
             /\ UNCHANGED ring /\ UQ
p_ldn(t) == /\ pc[t] = "p_ldn"              \* (2) the acquire-load of _next (never null here: _next is set once)
            /\ Acc(t, "ld", "p_ldn", nxt[loc[t].m], 1) /\ Goto(t, "p_help")
            /\ UNCHANGED <<loc, ring>> /\ UQ
p_help(t) == /\ pc[t] = "p_help"
             /\ qtail' = IF qtail = loc[t].m THEN nxt[loc[t].m] ELSE qtail
             /\ Acc(t, "cas", "p_help", 0, IF qtail = loc[t].m THEN 1 ELSE 0)
             /\ Goto(t, "p_tail")
             /\ UNCHANGED <<loc, lin, budget, nextv, ring, stor, nxt, qhead, used, nst, bad>>
tp_deq(t) == /\ pc[t] = "tp_deq"
             /\ IF ~loc[t].ok
                  THEN \* no free entry: _allocated_queue.finalize()
                       /\ ring' = [ring EXCEPT ![loc[t].m].aq.tail = IF Fin(@) = 1 THEN @ ELSE @ + 1]
                       /\ Acc(t, "for", "tp_fin", ring[loc[t].m].aq.tail, 1) /\ Goto(t, "p_new") /\ UNCHANGED <<loc, stor>>
                  ELSE \* construct the element in its slot (plain), then _allocated_queue.enqueue<false, true>
                       /\ stor' = [stor EXCEPT ![loc[t].m][loc[t].val] = loc[t].v]
                       /\ loc' = [loc EXCEPT ![t] = CallEnq([@ EXCEPT !.idx = loc[t].val], loc[t].m, "aq", loc[t].val, TRUE, "tp_enq")]
                       /\ Goto(t, "e_faa") /\ UNCHANGED <<ring, last>>
             /\ UNCHANGED <<lin, budget, nextv, nxt, qhead, qtail, used, nst, bad>>
tp_enq(t) == /\ pc[t] = "tp_enq"
             /\ IF loc[t].ok THEN Return(t, 1, loc[t].v, FALSE) /\ UNCHANGED loc
                ELSE \* the ring was finalized meanwhile: take the value back, return the slot to the free queue
                     /\ loc' = [loc EXCEPT ![t] = CallEnq(@, loc[t].m, "fq", loc[t].idx, FALSE, "p_new")]
                     /\ Goto(t, "e_faa") /\ UNCHANGED lin
             /\ UNCHANGED <<budget, nextv, ring, stor, nxt, qhead, qtail, used, nst, bad, last>>
\* new node(std::move(value)): allocated queue holds entry 0 (first_used), free queue lacks it (first_empty)
p_new(t) == /\ pc[t] = "p_new" /\ used < MaxNodes
            /\ LET k == used + 1 IN
               /\ used' = k
               /\ ring' = [ring EXCEPT ![k] = [aq |-> RingFirstUsed, fq |-> RingFirstEmpty]]
               /\ stor' = [stor EXCEPT ![k][0] = loc[t].v]
               /\ loc' = [loc EXCEPT ![t].h = k]
            /\ Goto(t, "p_link")
            /\ UNCHANGED <<lin, budget, nextv, nxt, qhead, qtail, nst, bad, last>>
p_link(t) == /\ pc[t] = "p_link"
             /\ IF nxt[loc[t].m] = 0
                  THEN /\ nxt' = [nxt EXCEPT ![loc[t].m] = loc[t].h] /\ Acc(t, "cas", "p_link", 0, 1) /\ Goto(t, "p_swing")
                       /\ UNCHANGED loc
                  ELSE \* lost the race: steal_init_value takes the value back out of the private node (a dequeue on its allocated
                       \* ring, an enqueue on its free ring), `delete next` drains the allocated ring once more (~node), then start over
                       /\ Acc(t, "cas", "p_link", nxt[loc[t].m], 0) /\ UNCHANGED nxt
                       /\ loc' = [loc EXCEPT ![t] = CallDeq(@, loc[t].h, "aq", "st_deq")] /\ Goto(t, "d_thr")
             /\ UNCHANGED <<lin, budget, nextv, ring, stor, qhead, qtail, used, nst, bad>>
st_deq(t) == /\ pc[t] = "st_deq"
             /\ loc' = [loc EXCEPT ![t] = CallEnq(@, loc[t].h, "fq", loc[t].val, FALSE, "st_dtor")]
             /\ bad' = IF bad = "ok" /\ ~loc[t].ok THEN "steal_init_value found no value" ELSE bad
             /\ Goto(t, "e_faa")
             /\ UNCHANGED <<lin, budget, nextv, ring, stor, nxt, qhead, qtail, used, nst, last>>
st_dtor(t) == /\ pc[t] = "st_dtor"          \* ~node: while (_allocated_queue.dequeue(idx)) destroy the element
              /\ loc' = [loc EXCEPT ![t] = CallDeq(@, loc[t].h, "aq", "st_dtor2")] /\ Goto(t, "d_thr")
              /\ UNCHANGED <<ring, last>> /\ UQ
st_dtor2(t) == /\ pc[t] = "st_dtor2"
               /\ Goto(t, IF loc[t].ok THEN "st_dtor" ELSE "p_tail")
               /\ UNCHANGED <<loc, ring, last>> /\ UQ
p_swing(t) == /\ pc[t] = "p_swing"
              /\ qtail' = IF qtail = loc[t].m THEN loc[t].h ELSE qtail
              /\ Acc(t, "cas", "p_swing", 0, IF qtail = loc[t].m THEN 1 ELSE 0)
              /\ Return(t, 1, loc[t].v, FALSE)
              /\ UNCHANGED <<loc, budget, nextv, ring, stor, nxt, qhead, used, nst, bad>>

\* ---------------------------------------------------------------- nikolaev_queue::do_pop
StartPop(t) == /\ MayStart(t, "pop")
               /\ budget' = [budget EXCEPT ![t] = @ + 1]
               /\ loc' = [loc EXCEPT ![t] = IF Bounded THEN CallDeq([L0 EXCEPT !.m = 1], 1, "aq", "b_pdeq") ELSE L0]
               /\ lin' = [lin EXCEPT !.mon = MonCall(@, t, "pop", 0, 0)]
               /\ Goto(t, IF Bounded THEN "d_thr" ELSE "q_head") /\ Acc(t, "call", "pop", 0, 1)
               /\ UNCHANGED <<nextv, ring, stor, nxt, qhead, qtail, used, nst, bad>>
q_head(t) == /\ pc[t] = "q_head"
             /\ loc' = [loc EXCEPT ![t] = CallDeq([@ EXCEPT !.m = qhead, !.g = qhead, !.geff = nst[qhead] = "live"], qhead, "aq", "q_deq1")] /\ Acc(t, "ld", "q_head", qhead, 1)
             /\ Goto(t, "d_thr") /\ UNCHANGED ring /\ UQ
q_deq1(t) == /\ pc[t] = "q_deq1"
             /\ IF loc[t].ok THEN Goto(t, "q_take") /\ UNCHANGED <<last, lin>>
                ELSE /\ Acc(t, "ld", "q_next", nxt[loc[t].m], 1)
                     /\ IF nxt[loc[t].m] = 0 THEN Return(t, 0, 0, TRUE)
                        ELSE Goto(t, IF SecondLook THEN "q_thr" ELSE "q_ldn") /\ UNCHANGED lin
             /\ UNCHANGED <<loc, budget, nextv, ring, stor, nxt, qhead, qtail, used, nst, bad>>
q_thr(t) == /\ pc[t] = "q_thr"
            /\ ring' = [ring EXCEPT ![loc[t].m].aq.thr = ThrFull] /\ Acc(t, "st", "q_thr", ThrFull, 1)
            /\ loc' = [loc EXCEPT ![t] = CallDeq(@, loc[t].m, "aq", "q_deq2")]
            /\ Goto(t, "d_thr") /\ UQ
q_deq2(t) == /\ pc[t] = "q_deq2"
             /\ Goto(t, IF loc[t].ok THEN "q_take" ELSE "q_ldn")
             /\ UNCHANGED <<loc, ring, last>> /\ UQ
q_ldn(t) == /\ pc[t] = "q_ldn"             \* (7) the acquire-load of _next
            /\ Acc(t, "ld", "q_ldn", nxt[loc[t].m], 1) /\ Goto(t, IF HelpTail THEN "q_ldt" ELSE "q_cas")
            /\ UNCHANGED <<loc, ring>> /\ UQ
\* _tail must not lag behind _head: the node is retired only once it is unreachable through _tail as well
q_ldt(t) == /\ pc[t] = "q_ldt"
            /\ Acc(t, "ld", "q_ldt", qtail, 1) /\ Goto(t, IF qtail = loc[t].m THEN "q_helpt" ELSE "q_cas")
            /\ UNCHANGED <<loc, ring>> /\ UQ
q_helpt(t) == /\ pc[t] = "q_helpt"
              /\ qtail' = IF qtail = loc[t].m THEN nxt[loc[t].m] ELSE qtail
              /\ Acc(t, "cas", "q_helpt", 0, IF qtail = loc[t].m THEN 1 ELSE 0)
              /\ Goto(t, "q_cas")
              /\ UNCHANGED <<loc, lin, budget, nextv, ring, stor, nxt, qhead, used, nst, bad>>
q_cas(t) == /\ pc[t] = "q_cas"             \* (8) CAS on _head
            /\ qhead' = IF qhead = loc[t].m THEN nxt[loc[t].m] ELSE qhead
            /\ Acc(t, "cas", "q_cas", 0, IF qhead = loc[t].m THEN 1 ELSE 0)
            /\ nst' = IF qhead = loc[t].m THEN [nst EXCEPT ![loc[t].m] = "retired"] ELSE nst           \* n.reclaim()
            /\ loc' = IF qhead = loc[t].m THEN [loc EXCEPT ![t].g = 0, ![t].geff = FALSE] ELSE loc
            /\ Goto(t, "q_head")
            /\ UNCHANGED <<lin, budget, nextv, ring, stor, nxt, qtail, used, bad>>
q_take(t) == /\ pc[t] = "q_take"           \* move the element out (plain), give the slot back to the free queue
             /\ loc' = [loc EXCEPT ![t] = CallEnq([@ EXCEPT !.v = stor[loc[t].m][loc[t].val]], loc[t].m, "fq", loc[t].val, FALSE, "q_done")]
             /\ Goto(t, "e_faa") /\ UNCHANGED <<ring, last>> /\ UQ
q_done(t) == /\ pc[t] = "q_done"
             /\ Return(t, 1, loc[t].v, TRUE)
             /\ UNCHANGED <<loc, budget, nextv, ring, stor, nxt, qhead, qtail, used, nst, bad, last>>

\* ---------------------------------------------------------------- nikolaev_bounded_queue::try_push / try_pop
b_deq(t) == /\ pc[t] = "b_deq"
            /\ IF ~loc[t].ok THEN Return(t, 0, loc[t].v, FALSE) /\ UNCHANGED <<loc, stor>>
               ELSE /\ stor' = [stor EXCEPT ![1][loc[t].val] = loc[t].v]
                    /\ loc' = [loc EXCEPT ![t] = CallEnq(@, 1, "aq", loc[t].val, FALSE, "b_enq")]
                    /\ Goto(t, "e_faa") /\ UNCHANGED lin
            /\ UNCHANGED <<budget, nextv, ring, nxt, qhead, qtail, used, nst, bad, last>>
b_enq(t) == /\ pc[t] = "b_enq"
            /\ Return(t, 1, loc[t].v, FALSE)
            /\ bad' = IF bad = "ok" /\ ~loc[t].ok THEN "enqueue on the allocated ring failed" ELSE bad
            /\ UNCHANGED <<loc, budget, nextv, ring, stor, nxt, qhead, qtail, used, nst, last>>
b_pdeq(t) == /\ pc[t] = "b_pdeq"
             /\ IF loc[t].ok THEN Goto(t, "q_take") /\ UNCHANGED lin ELSE Return(t, 0, 0, TRUE)
             /\ UNCHANGED <<loc, budget, nextv, ring, stor, nxt, qhead, qtail, used, nst, bad, last>>

ThreadStep(t) == \/ StartPush(t) \/ StartPop(t) \/ b_deq(t) \/ b_enq(t) \/ b_pdeq(t)
                 \/ e_faa(t) \/ e_ld(t) \/ e_chk(t) \/ e_cas(t) \/ e_thr(t) \/ e_sthr(t)
                 \/ d_thr(t) \/ d_faa(t) \/ d_ld(t) \/ d_chk(t) \/ d_for(t) \/ d_cas(t) \/ d_after(t) \/ c_cas(t) \/ c_ldh(t) \/ d_fsube(t) \/ d_fsub(t)
                 \/ p_tail(t) \/ p_next(t) \/ p_ldn(t) \/ p_help(t) \/ tp_deq(t) \/ tp_enq(t) \/ p_new(t) \/ p_link(t) \/ st_deq(t) \/ st_dtor(t) \/ st_dtor2(t) \/ p_swing(t)
                 \/ q_head(t) \/ q_deq1(t) \/ q_thr(t) \/ q_deq2(t) \/ q_ldn(t) \/ q_ldt(t) \/ q_helpt(t) \/ q_cas(t) \/ q_take(t) \/ q_done(t)
\* the abstract reclaimer destroys a retired node that no effective guard of a running operation refers to
Guarded(k) == \E t \in Threads : pc[t] # "idle" /\ loc[t].g = k /\ loc[t].geff
Destroy == /\ \E k \in Nodes : nst[k] = "retired" /\ ~Guarded(k) /\ nst' = [nst EXCEPT ![k] = "dead"]
           /\ UNCHANGED <<pc, loc, lin, budget, nextv, ring, stor, nxt, qhead, qtail, used, bad, last>>
Next == Destroy \/ \E t \in Threads : ThreadStep(t)
Spec == Init /\ [][Next]_vars

\* ---------------------------------------------------------------- properties
Linearizable == lin.mon # {}
Conservation == lin.bad = "ok" /\ bad = "ok"
\* no operation is about to access a node that was destroyed
SCQpcs == {"e_faa", "e_ld", "e_chk", "e_cas", "e_thr", "e_sthr", "d_thr", "d_faa", "d_ld", "d_chk", "d_for", "d_cas", "d_after", "c_cas", "c_ldh", "d_fsube", "d_fsub"}
NodeAccessedNext(t) == IF pc[t] \in SCQpcs THEN loc[t].n
                       ELSE IF pc[t] \in {"p_next", "p_ldn", "p_link", "tp_deq", "q_deq1", "q_thr", "q_ldn", "q_take"} THEN loc[t].m ELSE 0
MemorySafe == Bounded \/ \A t \in Threads : NodeAccessedNext(t) # 0 => nst[NodeAccessedNext(t)] # "dead"
\* when every operation is over, the values pushed and not popped are exactly those a drain would find: the allocated entries
\* of the nodes reachable from _head
Reach == LET RECURSIVE F(_) F(k) == IF k = 0 THEN {} ELSE {k} \cup F(nxt[k]) IN F(qhead)
\* an entry of the allocated ring is live if it holds an index (not nil) of a position the ring's head has not passed
Live(k, i) == LET e == ring[k].aq.ent[i] IN e # -1 /\ ValOf(e) < Cap /\ (e \div M2) * N + i >= ring[k].aq.head \div 2
Stored == UNION {{stor[k][ValOf(ring[k].aq.ent[i])] : i \in {j \in 0 .. N - 1 : Live(k, j)}} : k \in Reach}
Done == \A t \in Threads : pc[t] = "idle" /\ budget[t] > Len(Progs[t + 1])
\* programs
ProgLost == << <<"push", "push", "pop">>, <<"pop", "push">> >>          \* push1; push2,pop | pop,push3
ProgPP == << <<"push", "push">>, <<"pop", "pop">> >>
ProgFill == << <<"push", "push", "pop">>, <<"push", "pop", "push">> >>      \* more pushes than entries (bounded: capacity 1 or 2)
ProgMix == << <<"push", "pop", "push">>, <<"push", "pop">> >>
Prog3 == << <<"push", "push">>, <<"pop", "push">>, <<"pop">> >>
ProgTail == << <<"push", "push">>, <<"pop", "pop", "push">> >>      \* a push meets a _tail that lags behind _head
ConservedAtEnd == Done => Stored = (1 .. nextv - 1) \ lin.taken
=============================================================================
