-------------------------------- MODULE QSBR --------------------------------
(***************************************************************************)
(* xenium::reclamation::quiescent_state_based, one action per atomic       *)
(* access / fence of impl/quiescent_state_based.hpp, driven by the generic *)
(* client (acquire, reset, replace + reclaim, touch, thread exit, idle     *)
(* flush cycles).                                                          *)
(*                                                                         *)
(* Shared: GE global epoch (0..2), per thread block LE (local_epoch) and   *)
(* ACT (is_active), ABND the list of orphans (each: target epoch + nodes). *)
(* Thread local: region_entries, retire lists rl[0..2] (an adopted orphan  *)
(* is kept as a pseudo node whose deletion deletes its nodes).             *)
(* A guard keeps its thread inside a region; the quiescent state is passed *)
(* when the last region is left.  The epoch may advance from e to e+1 only *)
(* if no active thread still has local epoch e-1.                          *)
(***************************************************************************)
EXTENDS Mem, TLC

CONSTANTS NT, NG, NCells, NNodes, MaxOps, MaxFlush, Ord,
          CheckOld,      \* TRUE: try_update_epoch refuses while an active thread is still in the previous epoch (code)
          FullCycle,     \* TRUE: orphans get the target epoch global - 1, a full cycle away (code); FALSE: the current epoch
          ConfirmEpoch   \* TRUE: a thread that (re)activates its record confirms with a CAS that the global epoch did not move since it
                         \* published its local epoch, and retries otherwise (code); FALSE: publishes what it read once (seeded change c17_2)

OrdCode == [a_ld1 |-> "rlx", a_ld2 |-> "acq", b_ldge |-> "rlx", b_stle |-> "rlx", b_cas |-> "ar", q_ldge |-> "acq", q_ldle |-> "rlx",
            t_ldle |-> "rlx", t_act |-> "rlx", t_ldge |-> "rlx", t_fence |-> "acq", t_cas |-> "ar", casf |-> "rlx", t_adopt |-> "acq",
            q_stle |-> "rel", r_ldle |-> "rlx", x_cas |-> "rel", x_ldge |-> "rlx", x_abandon |-> "rel", x_release |-> "rel"]

ThreadsDef == 0 .. NT - 1
Nodes == 1 .. NNodes
Cells == 0 .. NCells - 1
NE == 3
GE == <<"ge", 0, 0>>
LE(t) == <<"le", t, 0>>
ACT(t) == <<"act", t, 0>>
ABND == <<"abnd", 0, 0>>
CELL(c) == <<"cell", c, 0>>
PAY(n) == <<"pay", n, 0>>
LocsDef == {GE, ABND} \cup {LE(t) : t \in ThreadsDef} \cup {ACT(t) : t \in ThreadsDef} \cup {CELL(c) : c \in Cells} \cup {PAY(n) : n \in Nodes}
           \cup (IF Weak THEN {RT(PAY(n), u) : n \in Nodes, u \in ThreadsDef} ELSE {})
InitValDef(x) == IF x[1] = "cell" THEN x[2] + 1
                 ELSE IF x[1] = "abnd" THEN {}
                 ELSE IF x[1] = "act" THEN FALSE
                 ELSE 0

VARIABLES pc, loc, guards, tl, nstate, budget, flush, alive, bad, last
vars == <<pc, loc, guards, tl, nstate, budget, flush, alive, bad, last, memvars>>
mcview == <<pc, loc, guards, tl, nstate, budget, flush, alive, bad, memvars>>

\* rl[e]: set of plain nodes; orl[e]: set of adopted orphans (each a set of nodes)
TL0 == [block |-> FALSE, regions |-> 0, rl |-> [e \in 0 .. NE - 1 |-> {}], orl |-> [e \in 0 .. NE - 1 |-> {}]]
L0 == [op |-> "none", g |-> 0, c |-> 0, fresh |-> 0, epoch |-> 0, u |-> 0, after |-> "idle", old |-> 0]
\* operations per thread (a definition the configurations may override: asymmetric programs keep weak-memory runs small)
OpsOf(t) == MaxOps
FlushOf(t) == MaxFlush
MayStart(t, op) == TRUE
Init == /\ MemInit
        /\ pc = [t \in Threads |-> "idle"]
        /\ loc = [t \in Threads |-> L0]
        /\ guards = [t \in Threads |-> [g \in 1 .. NG |-> 0]]
        /\ tl = [t \in Threads |-> TL0]
        /\ nstate = [n \in Nodes |-> IF n <= NCells THEN "live" ELSE "free"]
        /\ budget = [t \in Threads |-> OpsOf(t)]
        /\ flush = [t \in Threads |-> FlushOf(t)]
        /\ alive = [t \in Threads |-> TRUE]
        /\ bad = "ok"
        /\ last = [t |-> -1, k |-> "init", lab |-> "init", v |-> 0, ok |-> 1, n |-> 0]

Goto(t, l) == pc' = [pc EXCEPT ![t] = l]
Acc(t, k, lab, v, ok) == last' = [t |-> t, k |-> k, lab |-> lab, v |-> v, ok |-> ok, n |-> last.n + 1]
UG == UNCHANGED <<guards, tl, nstate, budget, flush, alive, bad>>
Delete(t, S) == /\ nstate' = [n \in Nodes |-> IF n \in S THEN "des" ELSE nstate[n]]
                /\ bad' = IF bad = "ok" /\ \E n \in S : nstate[n] # "ret" THEN "deleted a node that is not retired"
                          ELSE IF bad = "ok" /\ \E n \in S : PlainWrRaces(t, PAY(n)) THEN "delete races with an access to the object" ELSE bad

\* ---------------------------------------------------------------- client operations
Begin(t, op, g, c, first, cost) ==
  /\ pc[t] = "idle" /\ alive[t] /\ MayStart(t, op)
  /\ IF cost THEN budget[t] > 0 /\ budget' = [budget EXCEPT ![t] = @ - 1] /\ UNCHANGED flush
     ELSE /\ \A u \in Threads : pc[u] = "idle" /\ budget[u] = 0
          /\ \A u \in Threads : alive[u] => flush[t] >= flush[u]        \* idle cycles take turns (every thread keeps passing quiescent states)
          /\ flush[t] > 0 /\ flush' = [flush EXCEPT ![t] = @ - 1] /\ UNCHANGED budget
  /\ loc' = [loc EXCEPT ![t] = [L0 EXCEPT !.op = op, !.g = g, !.c = c]]
  /\ Goto(t, first) /\ Acc(t, "call", op, g, 1)
  /\ UNCHANGED <<guards, tl, nstate, alive, bad, memvars>>
StartAcquire(t) == \E g \in 1 .. NG, c \in Cells : Begin(t, "acquire", g, c, "a_ld1", TRUE)
StartReplace(t) == \E g \in 1 .. NG, c \in Cells : Begin(t, "replace", g, c, "a_ld1", TRUE)
StartReset(t) == \E g \in 1 .. NG : guards[t][g] # 0 /\ Begin(t, "reset", g, 0, "r_begin", TRUE)
StartFlush(t) == \E g \in 1 .. NG : guards[t][g] = 0 /\ Begin(t, "flushcycle", g, 0, "a_ld1", FALSE)
Touch(t) == /\ pc[t] = "idle" /\ alive[t]
            /\ \E g \in 1 .. NG : LET n == guards[t][g] IN
                 /\ n # 0
                 /\ bad' = IF bad = "ok" /\ nstate[n] \notin {"live", "ret"} THEN "touch of a destroyed object" ELSE bad
                 /\ PlainRd(t, PAY(n))
            /\ UNCHANGED <<pc, loc, guards, tl, nstate, budget, flush, alive, last>>

\* ---------------------------------------------------------------- guard_ptr::acquire
a_ld1(t) == /\ pc[t] = "a_ld1"
            /\ LET x == CELL(loc[t].c) IN
               \E i \in Readable(t, x, Ord["a_ld1"]) :
                  /\ Load(t, x, Ord["a_ld1"], i) /\ Acc(t, "ld", "a_ld1", ValAt(x, i), 1)
                  /\ IF ValAt(x, i) = 0 THEN Goto(t, "r_begin")
                     ELSE IF guards[t][loc[t].g] = 0 THEN Goto(t, "er_begin") ELSE Goto(t, "a_ld2")
            /\ loc' = [loc EXCEPT ![t].after = "a_ld2"] /\ UG
a_ld2(t) == /\ pc[t] = "a_ld2"
            /\ LET x == CELL(loc[t].c) IN
               \E i \in Readable(t, x, Ord["a_ld2"]) :
                  /\ Load(t, x, Ord["a_ld2"], i) /\ Acc(t, "ld", "a_ld2", ValAt(x, i), 1)
                  /\ guards' = [guards EXCEPT ![t][loc[t].g] = ValAt(x, i)]
                  /\ Goto(t, IF ValAt(x, i) = 0 THEN "lr_begin" ELSE "op_done")
            /\ loc' = [loc EXCEPT ![t].after = "op_done"]
            /\ UNCHANGED <<tl, nstate, budget, flush, alive, bad>>
r_begin(t) == /\ pc[t] = "r_begin"
              /\ IF guards[t][loc[t].g] # 0
                   THEN /\ guards' = [guards EXCEPT ![t][loc[t].g] = 0] /\ Goto(t, "lr_begin") /\ loc' = [loc EXCEPT ![t].after = "op_done"]
                   ELSE /\ Goto(t, "op_done") /\ UNCHANGED <<guards, loc>>
              /\ UNCHANGED <<tl, nstate, budget, flush, alive, bad, last, memvars>>

\* ---------------------------------------------------------------- enter_region (ensure_has_control_block on first use)
er_begin(t) == /\ pc[t] = "er_begin"
               /\ tl' = [tl EXCEPT ![t].regions = @ + 1, ![t].block = TRUE]
               /\ IF tl[t].block THEN Goto(t, loc[t].after) /\ UNCHANGED <<last, memvars>>
                  ELSE \* acquire_entry: the block becomes active
                       /\ Store(t, ACT(t), TRUE, "rel") /\ Acc(t, "st", "b_act", 1, 1) /\ Goto(t, "b_ldge")
               /\ UNCHANGED <<loc, guards, nstate, budget, flush, alive, bad>>
b_ldge(t) == /\ pc[t] = "b_ldge"
             /\ \E i \in Readable(t, GE, Ord["b_ldge"]) :
                  /\ Load(t, GE, Ord["b_ldge"], i) /\ Acc(t, "ld", "b_ldge", ValAt(GE, i), 1)
                  /\ loc' = [loc EXCEPT ![t].epoch = ValAt(GE, i)]
             /\ Goto(t, "b_stle") /\ UG
b_stle(t) == /\ pc[t] = "b_stle"
             /\ Store(t, LE(t), loc[t].epoch, Ord["b_stle"]) /\ Acc(t, "st", "b_stle", loc[t].epoch, 1)
             /\ Goto(t, IF ConfirmEpoch THEN "b_cas" ELSE loc[t].after) /\ UNCHANGED loc /\ UG
b_cas(t) == /\ pc[t] = "b_cas"
            /\ IF Latest(GE) = loc[t].epoch
                 THEN /\ Rmw(t, GE, loc[t].epoch, Ord["b_cas"]) /\ Acc(t, "cas", "b_cas", loc[t].epoch, 1) /\ Goto(t, loc[t].after) /\ UNCHANGED loc
                 ELSE /\ CasFail(t, GE, Ord["casf"]) /\ Acc(t, "cas", "b_cas", Latest(GE), 0)
                      /\ loc' = [loc EXCEPT ![t].epoch = Latest(GE)] /\ Goto(t, "b_stle")
            /\ UG

\* ---------------------------------------------------------------- leave_region -> quiescent_state
lr_begin(t) == /\ pc[t] = "lr_begin"
               /\ tl' = [tl EXCEPT ![t].regions = @ - 1]
               /\ Goto(t, IF tl[t].regions = 1 THEN "q_ldge" ELSE loc[t].after)
               /\ UNCHANGED <<loc, guards, nstate, budget, flush, alive, bad, last, memvars>>
q_ldge(t) == /\ pc[t] = "q_ldge"
             /\ \E i \in Readable(t, GE, Ord["q_ldge"]) :
                  /\ Load(t, GE, Ord["q_ldge"], i) /\ Acc(t, "ld", "q_ldge", ValAt(GE, i), 1)
                  /\ loc' = [loc EXCEPT ![t].epoch = ValAt(GE, i)]
             /\ Goto(t, "q_ldle") /\ UG
q_ldle(t) == /\ pc[t] = "q_ldle"
             /\ \E i \in Readable(t, LE(t), Ord["q_ldle"]) :
                  /\ Load(t, LE(t), Ord["q_ldle"], i) /\ Acc(t, "ld", "q_ldle", ValAt(LE(t), i), 1)
                  /\ IF ValAt(LE(t), i) = loc[t].epoch
                       THEN loc' = [loc EXCEPT ![t].u = 0, ![t].old = (loc[t].epoch + NE - 1) % NE] /\ Goto(t, "t_ldle")
                       ELSE UNCHANGED loc /\ Goto(t, "q_stle")
             /\ UG
\* try_update_epoch: any_of over all blocks: local_epoch == old_epoch && is_active
t_ldle(t) == /\ pc[t] = "t_ldle"
             /\ IF loc[t].u = NT THEN Goto(t, "t_ldge") /\ UNCHANGED <<loc, last, memvars>>
                ELSE \E i \in Readable(t, LE(loc[t].u), Ord["t_ldle"]) :
                        /\ Load(t, LE(loc[t].u), Ord["t_ldle"], i) /\ Acc(t, "ld", "t_ldle", ValAt(LE(loc[t].u), i), 1)
                        /\ IF ValAt(LE(loc[t].u), i) = loc[t].old /\ CheckOld THEN Goto(t, "t_act") /\ UNCHANGED loc
                           ELSE loc' = [loc EXCEPT ![t].u = @ + 1] /\ UNCHANGED pc
             /\ UG
t_act(t) == /\ pc[t] = "t_act"
            /\ \E i \in Readable(t, ACT(loc[t].u), Ord["t_act"]) :
                 /\ Load(t, ACT(loc[t].u), Ord["t_act"], i) /\ Acc(t, "ld", "t_act", 0, 1)
                 /\ IF ValAt(ACT(loc[t].u), i) THEN Goto(t, loc[t].after) /\ UNCHANGED loc       \* cannot update: quiescent_state returns
                    ELSE loc' = [loc EXCEPT ![t].u = @ + 1] /\ Goto(t, "t_ldle")
            /\ UG
t_ldge(t) == /\ pc[t] = "t_ldge"
             /\ \E i \in Readable(t, GE, Ord["t_ldge"]) :
                  /\ Load(t, GE, Ord["t_ldge"], i) /\ Acc(t, "ld", "t_ldge", ValAt(GE, i), 1)
                  /\ Goto(t, IF ValAt(GE, i) = loc[t].epoch THEN "t_fence" ELSE "t_done")
             /\ UNCHANGED loc /\ UG
t_fence(t) == /\ pc[t] = "t_fence"
              /\ Fence(t, Ord["t_fence"]) /\ Acc(t, "fence", "t_fence", 0, 1)
              /\ Goto(t, "t_cas") /\ UNCHANGED loc /\ UG
t_cas(t) == /\ pc[t] = "t_cas"
            /\ IF Latest(GE) = loc[t].epoch
                 THEN /\ Rmw(t, GE, (loc[t].epoch + 1) % NE, Ord["t_cas"]) /\ Acc(t, "cas", "t_cas", loc[t].epoch, 1) /\ Goto(t, "t_adopt")
                 ELSE /\ CasFail(t, GE, Ord["casf"]) /\ Acc(t, "cas", "t_cas", Latest(GE), 0) /\ Goto(t, "t_done")
            /\ UNCHANGED loc /\ UG
\* adopt_orphans: every orphan goes to the retire list of its target epoch
t_adopt(t) == /\ pc[t] = "t_adopt"
              /\ LET S == Latest(ABND) IN
                 /\ Rmw(t, ABND, {}, Ord["t_adopt"]) /\ Acc(t, "xchg", "t_adopt", 0, 1)
                 /\ tl' = [tl EXCEPT ![t].orl = [e \in 0 .. NE - 1 |-> @[e] \cup {o.nodes : o \in {p \in S : p.target = e}}]]
              /\ Goto(t, "t_done")
              /\ UNCHANGED <<loc, guards, nstate, budget, flush, alive, bad>>
t_done(t) == /\ pc[t] = "t_done"
             /\ loc' = [loc EXCEPT ![t].epoch = (@ + 1) % NE]
             /\ Goto(t, "q_stle")
             /\ UNCHANGED <<guards, tl, nstate, budget, flush, alive, bad, last, memvars>>
\* local_epoch.store(epoch, release); delete_objects(retire_lists[epoch])
q_stle(t) == /\ pc[t] = "q_stle"
             /\ Store(t, LE(t), loc[t].epoch, Ord["q_stle"]) /\ Acc(t, "st", "q_stle", loc[t].epoch, 1)
             /\ LET e == loc[t].epoch S == tl[t].rl[e] \cup UNION tl[t].orl[e] IN
                /\ Delete(t, S)
                /\ tl' = [tl EXCEPT ![t].rl[e] = {}, ![t].orl[e] = {}]
             /\ Goto(t, loc[t].after)
             /\ UNCHANGED <<loc, guards, budget, flush, alive>>

\* ---------------------------------------------------------------- replace: CAS a fresh node in, reclaim the old one
FreshIds == {n \in Nodes : nstate[n] = "free"}
op_done(t) ==
  /\ pc[t] = "op_done"
  /\ CASE loc[t].op = "replace" /\ guards[t][loc[t].g] # 0 /\ FreshIds # {} ->
            /\ \E n \in FreshIds : /\ loc' = [loc EXCEPT ![t].fresh = n, ![t].op = "replace2"]
                                   /\ nstate' = [nstate EXCEPT ![n] = "live"]
                                   /\ FreshWr(t, PAY(n), 0)           \* the constructor writes the payload
            /\ Goto(t, "x_cas") /\ UNCHANGED guards
       [] loc[t].op = "flushcycle" /\ guards[t][loc[t].g] # 0 ->
            /\ loc' = [loc EXCEPT ![t].op = "flushreset"] /\ Goto(t, "r_begin") /\ UNCHANGED <<nstate, guards, memvars>>
       [] OTHER -> Goto(t, "idle") /\ UNCHANGED <<loc, nstate, guards, memvars>>
  /\ UNCHANGED <<tl, budget, flush, alive, bad, last>>
x_cas(t) == /\ pc[t] = "x_cas"
            /\ LET x == CELL(loc[t].c) old == guards[t][loc[t].g] IN
               IF Latest(x) = old
                 THEN /\ Rmw(t, x, loc[t].fresh, Ord["x_cas"]) /\ Acc(t, "cas", "x_cas", old, 1)
                      /\ nstate' = [nstate EXCEPT ![old] = "ret"]
                      /\ loc' = [loc EXCEPT ![t].old = old, ![t].op = "replace3"]
                      /\ Goto(t, "r_ldle")
                 ELSE /\ CasFail(t, x, Ord["casf"]) /\ Acc(t, "cas", "x_cas", Latest(x), 0)
                      /\ nstate' = [nstate EXCEPT ![loc[t].fresh] = "free"]
                      /\ loc' = [loc EXCEPT ![t].op = "replace3"]
                      /\ Goto(t, "op_done")
            /\ UNCHANGED <<guards, tl, budget, flush, alive, bad>>
\* reclaim(): add_retired_node(ptr, local_epoch.load(relaxed)), then reset()
r_ldle(t) == /\ pc[t] = "r_ldle"
             /\ \E i \in Readable(t, LE(t), Ord["r_ldle"]) :
                  /\ Load(t, LE(t), Ord["r_ldle"], i) /\ Acc(t, "ld", "r_ldle", ValAt(LE(t), i), 1)
                  /\ tl' = [tl EXCEPT ![t].rl[ValAt(LE(t), i)] = @ \cup {loc[t].old}]
             /\ Goto(t, "r_begin")
             /\ UNCHANGED <<loc, guards, nstate, budget, flush, alive, bad>>

\* ---------------------------------------------------------------- thread exit: ~thread_data
HasRetired(t) == \E e \in 0 .. NE - 1 : tl[t].rl[e] # {} \/ tl[t].orl[e] # {}
StartExit(t) == /\ pc[t] = "idle" /\ alive[t] /\ budget[t] = 0 /\ loc[t].op # "exit" /\ \A g \in 1 .. NG : guards[t][g] = 0
                /\ \A u \in Threads : flush[u] = FlushOf(u)
                /\ \E u \in Threads \ {t} : alive[u] /\ loc[u].op # "exit"
                /\ loc' = [loc EXCEPT ![t] = [L0 EXCEPT !.op = "exit"]]
                /\ Goto(t, IF ~tl[t].block THEN "x_dead" ELSE IF HasRetired(t) THEN "x_ldge" ELSE "x_release") /\ Acc(t, "call", "exit", 0, 1)
                /\ UNCHANGED <<guards, tl, nstate, budget, flush, alive, bad, memvars>>
x_ldge(t) == /\ pc[t] = "x_ldge"
             /\ \E i \in Readable(t, GE, Ord["x_ldge"]) :
                  /\ Load(t, GE, Ord["x_ldge"], i) /\ Acc(t, "ld", "x_ldge", ValAt(GE, i), 1)
                  /\ loc' = [loc EXCEPT ![t].epoch = IF FullCycle THEN (ValAt(GE, i) + NE - 1) % NE ELSE ValAt(GE, i)]
             /\ Goto(t, "x_abandon") /\ UG
x_abandon(t) == /\ pc[t] = "x_abandon"
                /\ LET all == UNION {tl[t].rl[e] \cup UNION tl[t].orl[e] : e \in 0 .. NE - 1} IN
                   /\ Rmw(t, ABND, Latest(ABND) \cup {[target |-> loc[t].epoch, nodes |-> all]}, Ord["x_abandon"])
                   /\ Acc(t, "cas", "x_abandon", 0, 1)
                /\ tl' = [tl EXCEPT ![t].rl = [e \in 0 .. NE - 1 |-> {}], ![t].orl = [e \in 0 .. NE - 1 |-> {}]]
                /\ Goto(t, "x_release")
                /\ UNCHANGED <<loc, guards, nstate, budget, flush, alive, bad>>
x_release(t) == /\ pc[t] = "x_release"
                /\ Store(t, ACT(t), FALSE, Ord["x_release"]) /\ Acc(t, "st", "x_release", 0, 1)
                /\ alive' = [alive EXCEPT ![t] = FALSE] /\ Goto(t, "idle")
                /\ UNCHANGED <<loc, guards, tl, nstate, budget, flush, bad>>
x_dead(t) == /\ pc[t] = "x_dead"
             /\ alive' = [alive EXCEPT ![t] = FALSE] /\ Goto(t, "idle")
             /\ UNCHANGED <<loc, guards, tl, nstate, budget, flush, bad, last, memvars>>

ThreadStep(t) == \/ StartAcquire(t) \/ StartReplace(t) \/ StartReset(t) \/ StartFlush(t) \/ Touch(t) \/ StartExit(t)
                 \/ a_ld1(t) \/ a_ld2(t) \/ r_begin(t) \/ er_begin(t) \/ b_ldge(t) \/ b_stle(t) \/ b_cas(t)
                 \/ lr_begin(t) \/ q_ldge(t) \/ q_ldle(t) \/ t_ldle(t) \/ t_act(t) \/ t_ldge(t) \/ t_fence(t) \/ t_cas(t) \/ t_adopt(t) \/ t_done(t) \/ q_stle(t)
                 \/ op_done(t) \/ x_cas(t) \/ r_ldle(t) \/ x_ldge(t) \/ x_abandon(t) \/ x_release(t) \/ x_dead(t)
Next == \E t \in Threads : ThreadStep(t)
Spec == Init /\ [][Next]_vars

\* ---------------------------------------------------------------- properties
Established(t, g) == pc[t] = "idle" \/ loc[t].g # g
Safe == /\ bad = "ok"
        /\ \A t \in Threads, g \in 1 .. NG : (Established(t, g) /\ guards[t][g] # 0) => nstate[guards[t][g]] \in {"live", "ret"}
\* once every thread has finished (exited, or run its idle cycles), nothing retired remains
Quiescent == /\ \A t \in Threads : pc[t] = "idle" /\ budget[t] = 0 /\ (~alive[t] \/ flush[t] = 0) /\ \A g \in 1 .. NG : guards[t][g] = 0
             /\ \E t \in Threads : alive[t]
NoLeak == Quiescent => \A n \in Nodes : nstate[n] # "ret"
=============================================================================
