------------------------------ MODULE QueuesMC ------------------------------
(***************************************************************************)
(* Model checking the ORACLE: every sequential behaviour of abs/Queues     *)
(* (all kinds, all parameters in the config) satisfies what the property   *)
(* statements promise - conservation (each pushed value popped at most     *)
(* once, nothing invented), at most k-1 overtakes, capacity and rejection  *)
(* rules.  This guards against a vacuous or over-permissive trace oracle.  *)
(***************************************************************************)
EXTENDS Queues, TLC
CONSTANTS Kind, CapV, KV, SegsV, MaxOps
VARIABLES s, pushed, popped, n, overt
vars == <<s, pushed, popped, n, overt>>
S0 == [QInit EXCEPT !.kind = Kind, !.cap = CapV, !.k = KV, !.segs = SegsV]
Init == s = S0 /\ pushed = <<>> /\ popped = <<>> /\ n = 0 /\ overt = 0
Ctx == [tags |-> {}, nother |-> 0, t |-> 0]
Push == /\ n < MaxOps
        /\ \E o \in QStep(s, "push", Len(pushed) + 1, 0, Ctx) :
             /\ s' = o.abs /\ n' = n + 1
             /\ pushed' = IF o.r = 1 THEN Append(pushed, Len(pushed) + 1) ELSE pushed
             /\ UNCHANGED <<popped, overt>>
\* number of older values still stored when v is popped
Older(v) == Cardinality({i \in 1 .. Len(s.q) : s.q[i] < v})
Pop == /\ n < MaxOps
       /\ \E o \in QStep(s, "pop", 0, 0, Ctx) :
            /\ s' = o.abs /\ n' = n + 1
            /\ popped' = IF o.r = 1 THEN Append(popped, o.v) ELSE popped
            /\ overt' = IF o.r = 1 /\ Older(o.v) > overt THEN Older(o.v) ELSE overt
            /\ UNCHANGED pushed
Next == Push \/ Pop
Spec == Init /\ [][Next]_vars
Range(f) == {f[i] : i \in DOMAIN f}
Conservation == /\ Range(popped) \subseteq Range(pushed)
                /\ Cardinality(Range(popped)) = Len(popped)
                /\ Range(s.q) \cup Range(popped) = Range(pushed)
                /\ Range(s.q) \cap Range(popped) = {}
KBound == overt <= (IF Kind \in {"kfifo", "bkfifo"} THEN KV - 1 ELSE 0)
CapBound == /\ (Kind \in {"bounded", "nikbounded"} => Len(s.q) <= CapV)
            /\ (Kind = "bkfifo" => Len(s.q) <= SegsV * KV)
\* sequentially: pop fails exactly on an empty queue, push is rejected only when the statement allows it
SeqRules == [][ /\ (n' = n + 1 /\ popped' = popped /\ pushed' = pushed /\ s' = s) =>
                     \/ Len(s.q) = 0
                     \/ (Kind = "bounded" /\ Len(s.q) = CapV) \/ (Kind = "nikbounded" /\ Len(s.q) >= CapV)
                     \/ (Kind = "bkfifo" /\ Len(s.q) >= (SegsV - 1) * KV + 1) ]_vars
=============================================================================
