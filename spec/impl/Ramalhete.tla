------------------------------- MODULE Ramalhete -------------------------------
(***************************************************************************)
(* xenium::ramalhete_queue (xenium/ramalhete_queue.hpp), one action per    *)
(* atomic access of push / pop, over the ADVERSARIAL abstract reclaimer    *)
(* (see MSQueue): guard_ptr::acquire(cell) reads the cell and protects the *)
(* node, effective only if the node was not yet retired; a retired node    *)
(* without effective guard may be destroyed at any step and its id reused. *)
(*                                                                         *)
(* A node has tickets pop_idx / push_idx that advance in steps of StepSz   *)
(* (step_size = 11 in the code), EPN entries (entries_per_node) addressed  *)
(* by ticket % EPN, and a next pointer.  An entry holds 0 (nullptr), a     *)
(* value v > 0, or -1 (the "taken" mark a pop leaves behind when it gave   *)
(* up waiting for the push that owns the same ticket).                     *)
(* Indices are over-incremented: every push that meets a full node and     *)
(* every pop that meets a drained node still adds StepSz.                  *)
(*                                                                         *)
(* Ownership of the values (C07) is a ghost: own[v] in caller / queue /    *)
(* consumer / destroyed; ~node (run when a node is deleted: by the abstract*)
(* reclaimer, by a push that lost the race for next, by ~ramalhete_queue)  *)
(* deletes entries[i % EPN] for i = pop_idx, pop_idx + StepSz .. below     *)
(* min(push_idx, max_idx) - with the code's arithmetic, so that an index   *)
(* state in which this range is wrong shows as a double delete or a leak.  *)
(*                                                                         *)
(* The value recorded for an access (`last`) is what the runtime records   *)
(* for the real access: value read / stored, for read-modify-writes the    *)
(* value found (Ramalhete_Step binds the index words on it).               *)
(***************************************************************************)
EXTENDS Mem, LinMon, Queues, TLC

CONSTANTS NT, NNodes, EPN, StepSz, PopRetries, Ord,
          Progs,          \* per thread (index t + 1): the sequence of operations it performs, e.g. <<"push", "pop">>
          SetupOps,       \* thread 0 runs its first SetupOps operations before anybody else starts
          Invalidate,     \* TRUE: a pop that finds its entry empty exchanges it with the "taken" mark (code)
          ResetPushIdx,   \* TRUE: the loser of the CAS on next resets push_idx of its private node before deleting it (code)
          DtorClamp,      \* TRUE: ~node clamps push_idx to max_idx (code since the fix of C07-ramalhete-dtor)
          EmptyNeedsNext, \* TRUE: pop reports empty at pop_idx >= push_idx only if there is no next node (code)
          HelpTail        \* TRUE: before pop unlinks a drained node it swings a _tail that still points to it (code since the fix
                          \* of C04-ramalhete-lagging-tail); FALSE: the node is retired while _tail may still refer to it

OrdCode == [p_acqt |-> "acq", p_faa |-> "rlx", p_ldt |-> "rlx", p_ldn |-> "rlx", p_link |-> "rel", p_swing |-> "rel", p_reset |-> "rlx",
            p_ldn2 |-> "acq", p_help |-> "rel", p_cas |-> "rel",
            q_acqh |-> "acq", q_ldpop |-> "acq", q_ldpush |-> "rlx", q_ldnx0 |-> "rlx", q_faa |-> "rel", q_ldnx |-> "acq", q_cas |-> "rel",
            q_ldt |-> "rlx", q_help |-> "rel",
            q_ldent |-> "rlx", q_retry |-> "rlx", q_ldacq |-> "acq", q_xchg |-> "acq", casf |-> "rlx"]

ThreadsDef == 0 .. NT - 1
Nodes == 1 .. NNodes
NVals == LET RECURSIVE Cnt(_) Cnt(i) == IF i > Len(Progs) THEN 0 ELSE Cardinality({j \in 1 .. Len(Progs[i]) : Progs[i][j] = "push"}) + Cnt(i + 1) IN Cnt(1)
Vals == 1 .. NVals
MaxIdx == StepSz * EPN
HEAD == <<"head", 0>>
TAIL == <<"tail", 0>>
NEXT(n) == <<"next", n>>
PUSHI(n) == <<"pushi", n>>
POPI(n) == <<"popi", n>>
ENT(n, s) == <<"ent", n, s>>
PAY(v) == <<"pay", v>>               \* the object a value points to: plain, written by the producer, read by the consumer
NodeLocs(n) == {NEXT(n), PUSHI(n), POPI(n)} \cup {ENT(n, s) : s \in 0 .. EPN - 1}
LocsDef == {HEAD, TAIL} \cup UNION {NodeLocs(n) : n \in Nodes} \cup {PAY(v) : v \in Vals}
           \cup (IF Weak THEN {RT(PAY(v), u) : v \in Vals, u \in ThreadsDef} ELSE {})
\* ramalhete_queue(): new node(nullptr), push_idx reset to 0
InitValDef(x) == IF x = HEAD \/ x = TAIL THEN 1 ELSE 0

VARIABLES pc, loc, lin, budget, nextv, nst, inc, g, own, bad, dtor, last
vars == <<pc, loc, lin, budget, nextv, nst, inc, g, own, bad, dtor, last, memvars>>
mcview == <<pc, loc, lin, budget, nextv, nst, inc, g, own, bad, dtor, memvars>>

NoG == [n |-> 0, i |-> 0, eff |-> FALSE]
L0 == [n |-> 0, v |-> 0, idx |-> 0, pushi |-> 0, nx |-> 0, cnt |-> 0, val |-> 0]
Init == /\ MemInit
        /\ pc = [t \in Threads |-> "idle"]
        /\ loc = [t \in Threads |-> L0]
        /\ lin = [mon |-> MonInit(QInit), taken |-> {}, bad |-> "ok"]
        /\ budget = [t \in Threads |-> 1]
        /\ nextv = 1
        /\ nst = [n \in Nodes |-> IF n = 1 THEN "live" ELSE "free"]
        /\ inc = [n \in Nodes |-> 0]
        /\ g = [t \in Threads |-> [h |-> NoG, t |-> NoG]]
        /\ own = [v \in Vals |-> "caller"]
        /\ bad = "ok"
        /\ dtor = FALSE
        /\ last = [t |-> -1, k |-> "init", lab |-> "init", v |-> 0, ok |-> 1, n |-> 0]

Goto(t, l) == pc' = [pc EXCEPT ![t] = l]
Acc(t, k, lab, v, ok) == last' = [t |-> t, k |-> k, lab |-> lab, v |-> v, ok |-> ok, n |-> last.n + 1]
IsPop(t) == pc[t] \in {"q_ldnx0", "q_ldpush", "q_ldnx", "q_ldacq", "q_xchg"}
Return(t, r, v) == /\ lin' = [mon |-> MonRet(lin.mon, t, r, v),
                              taken |-> IF IsPop(t) /\ r = 1 THEN lin.taken \cup {v} ELSE lin.taken,
                              bad |-> IF IsPop(t) /\ r = 1 /\ lin.bad = "ok" /\ (v \notin 1 .. nextv - 1 \/ v \in lin.taken)
                                        THEN "a value was popped twice or invented" ELSE lin.bad]
                   /\ Goto(t, "idle")
SetBad(what) == bad' = IF bad = "ok" THEN what ELSE bad

\* ---- abstract reclaimer ------------------------------------------------------------------------
GuardOf(c) == IF c = 0 THEN NoG ELSE [n |-> c, i |-> inc[c], eff |-> nst[c] = "live"]
Dangling(gd) == gd.n # 0 /\ (nst[gd.n] \in {"dead", "free"} \/ inc[gd.n] # gd.i)
TouchErr(gd, what) == IF bad = "ok" /\ Dangling(gd) THEN what ELSE bad
Touch(gd, what) == bad' = TouchErr(gd, what)
Protected(n) == \E t \in Threads : \E f \in {"h", "t"} : g[t][f].n = n /\ g[t][f].i = inc[n] /\ g[t][f].eff

\* ---- ~node: the values it deletes, in order ----------------------------------------------------
Min2(a, b) == IF a < b THEN a ELSE b
DropsOf(n) == LET p == Latest(POPI(n))
                  e == IF DtorClamp THEN Min2(Latest(PUSHI(n)), MaxIdx) ELSE Latest(PUSHI(n))
                  c == IF e > p THEN (e - p + StepSz - 1) \div StepSz ELSE 0
              IN [k \in 1 .. c |-> Latest(ENT(n, (p + (k - 1) * StepSz) % EPN))]
RECURSIVE DropSeq(_, _, _)
DropSeq(o, e, s) == IF s = <<>> THEN [own |-> o, err |-> e]
                    ELSE LET v == Head(s) IN
                         IF v <= 0 THEN DropSeq(o, e, Tail(s))         \* delete of nullptr / of the stripped "taken" mark
                         ELSE DropSeq([o EXCEPT ![v] = "destroyed"],
                                      IF e # "ok" THEN e
                                      ELSE IF o[v] = "queue" THEN "ok"
                                      ELSE IF o[v] = "caller" THEN "a value was destroyed while its producer still holds it"
                                      ELSE IF o[v] = "consumer" THEN "a value was destroyed after it was handed to a consumer"
                                      ELSE "a value was destroyed twice", Tail(s))
ApplyDrops(s) == LET r == DropSeq(own, "ok", s) IN
                 /\ own' = r.own
                 /\ bad' = IF bad = "ok" /\ r.err # "ok" THEN r.err ELSE bad

Destroy == /\ ~dtor
           /\ \E n \in Nodes : /\ nst[n] = "retired" /\ ~Protected(n)
                               /\ nst' = [nst EXCEPT ![n] = "dead"]
                               /\ ApplyDrops(DropsOf(n))
           /\ UNCHANGED <<pc, loc, lin, budget, nextv, inc, g, dtor, last, memvars>>

\* ---- programs ----------------------------------------------------------------------------------
MayStart(t, op) == /\ pc[t] = "idle" /\ ~dtor /\ budget[t] <= Len(Progs[t + 1]) /\ Progs[t + 1][budget[t]] = op
                   /\ (t = 0 \/ (budget[0] > SetupOps /\ (budget[0] > SetupOps + 1 \/ pc[0] = "idle" \/ SetupOps = 0)))
Done == \A t \in Threads : pc[t] = "idle" /\ budget[t] > Len(Progs[t + 1])

\* ---- push --------------------------------------------------------------------------------------
StartPush(t) == /\ MayStart(t, "push")
                /\ budget' = [budget EXCEPT ![t] = @ + 1]
                /\ loc' = [loc EXCEPT ![t] = [L0 EXCEPT !.v = nextv]]
                /\ PlainWr(t, PAY(nextv), nextv)
                /\ lin' = [lin EXCEPT !.mon = MonCall(@, t, "push", nextv, 0)]
                /\ nextv' = nextv + 1
                /\ Goto(t, "p_acqt") /\ Acc(t, "call", "push", nextv, 1)
                /\ UNCHANGED <<nst, inc, g, own, bad, dtor>>
\* (3) t.acquire(_tail): never settles on a value replaced before the node's retirement became visible (see MSQueue)
p_acqt(t) == /\ pc[t] = "p_acqt"
             /\ Load(t, TAIL, Ord["p_acqt"], Last(TAIL))
             /\ g' = [g EXCEPT ![t].t = GuardOf(Latest(TAIL))]
             /\ Acc(t, "ld", "p_acqt", Latest(TAIL), 1)
             /\ Goto(t, "p_faa")
             /\ UNCHANGED <<loc, lin, budget, nextv, nst, inc, own, bad, dtor>>
p_faa(t) == /\ pc[t] = "p_faa"
            /\ Touch(g[t].t, "push increments push_idx of a destroyed node")
            /\ LET x == PUSHI(g[t].t.n) old == Latest(x) IN
               /\ Rmw(t, x, old + StepSz, Ord["p_faa"])
               /\ Acc(t, "faa", "p_faa", old, 1)
               /\ loc' = [loc EXCEPT ![t].idx = old]
               /\ Goto(t, IF old >= MaxIdx THEN "p_ldt" ELSE "p_cas")
            /\ UNCHANGED <<lin, budget, nextv, nst, inc, g, own, dtor>>
\* the node is full
p_ldt(t) == /\ pc[t] = "p_ldt"
            /\ \E i \in Readable(t, TAIL, Ord["p_ldt"]) :
                 /\ Load(t, TAIL, Ord["p_ldt"], i)
                 /\ Acc(t, "ld", "p_ldt", ValAt(TAIL, i), 1)
                 /\ Goto(t, IF ValAt(TAIL, i) # g[t].t.n THEN "p_acqt" ELSE "p_ldn")
            /\ UNCHANGED <<loc, lin, budget, nextv, nst, inc, g, own, bad, dtor>>
p_ldn(t) == /\ pc[t] = "p_ldn"
            /\ Touch(g[t].t, "push reads next of a destroyed node")
            /\ LET x == NEXT(g[t].t.n) IN
               \E i \in Readable(t, x, Ord["p_ldn"]) :
                 /\ Load(t, x, Ord["p_ldn"], i)
                 /\ Acc(t, "ld", "p_ldn", ValAt(x, i), 1)
                 /\ loc' = [loc EXCEPT ![t].nx = ValAt(x, i)]
                 /\ Goto(t, IF ValAt(x, i) = 0 THEN "p_new" ELSE "p_ldn2")
            /\ UNCHANGED <<lin, budget, nextv, nst, inc, g, own, dtor>>
\* new node(raw_val): pop_idx = 0, push_idx = step_size, next = null, entries[0] = value, the others null (not yet published)
p_new(t) == /\ pc[t] = "p_new"
            /\ \E n \in Nodes :
                 /\ nst[n] \in {"free", "dead"}
                 /\ nst' = [nst EXCEPT ![n] = "live"] /\ inc' = [inc EXCEPT ![n] = @ + 1]
                 /\ loc' = [loc EXCEPT ![t].n = n]
                 /\ LET iv(x) == IF x = PUSHI(n) THEN StepSz ELSE IF x = ENT(n, 0) THEN loc[t].v ELSE 0 IN
                    BulkStore(t, NodeLocs(n), iv)
            /\ Goto(t, "p_link")
            /\ UNCHANGED <<lin, budget, nextv, g, own, bad, dtor, last>>
\* (4)
p_link(t) == /\ pc[t] = "p_link"
             /\ Touch(g[t].t, "push links to a destroyed node")
             /\ LET x == NEXT(g[t].t.n) IN
                IF Latest(x) = 0
                  THEN /\ Rmw(t, x, loc[t].n, Ord["p_link"]) /\ Acc(t, "cas", "p_link", 0, 1)
                       /\ own' = [own EXCEPT ![loc[t].v] = "queue"]
                       /\ Goto(t, "p_swing")
                  ELSE /\ CasFail(t, x, Ord["casf"]) /\ Acc(t, "cas", "p_link", Latest(x), 0)
                       /\ Goto(t, IF ResetPushIdx THEN "p_reset" ELSE "p_del") /\ UNCHANGED own
             /\ UNCHANGED <<loc, lin, budget, nextv, nst, inc, g, dtor>>
\* (5)
p_swing(t) == /\ pc[t] = "p_swing"
              /\ IF Latest(TAIL) = g[t].t.n
                   THEN Rmw(t, TAIL, loc[t].n, Ord["p_swing"]) /\ Acc(t, "cas", "p_swing", g[t].t.n, 1)
                   ELSE CasFail(t, TAIL, Ord["casf"]) /\ Acc(t, "cas", "p_swing", Latest(TAIL), 0)
              /\ g' = [g EXCEPT ![t].t = NoG]
              /\ Return(t, 1, loc[t].v)
              /\ UNCHANGED <<loc, budget, nextv, nst, inc, own, bad, dtor>>
\* "prevent the pre-stored value from being deleted"
p_reset(t) == /\ pc[t] = "p_reset"
              /\ Store(t, PUSHI(loc[t].n), 0, Ord["p_reset"]) /\ Acc(t, "st", "p_reset", 0, 1)
              /\ Goto(t, "p_del")
              /\ UNCHANGED <<loc, lin, budget, nextv, nst, inc, g, own, bad, dtor>>
\* delete new_node (never published: deleted directly)
p_del(t) == /\ pc[t] = "p_del"
            /\ nst' = [nst EXCEPT ![loc[t].n] = "dead"]
            /\ ApplyDrops(DropsOf(loc[t].n))
            /\ Goto(t, "p_acqt")
            /\ UNCHANGED <<loc, lin, budget, nextv, inc, g, dtor, last, memvars>>
\* (6)
p_ldn2(t) == /\ pc[t] = "p_ldn2"
             /\ Touch(g[t].t, "push reads next of a destroyed node")
             /\ LET x == NEXT(g[t].t.n) IN
                \E i \in Readable(t, x, Ord["p_ldn2"]) :
                  /\ Load(t, x, Ord["p_ldn2"], i)
                  /\ Acc(t, "ld", "p_ldn2", ValAt(x, i), 1)
                  /\ loc' = [loc EXCEPT ![t].nx = ValAt(x, i)]
             /\ Goto(t, "p_help")
             /\ UNCHANGED <<lin, budget, nextv, nst, inc, g, own, dtor>>
\* (7)
p_help(t) == /\ pc[t] = "p_help"
             /\ IF Latest(TAIL) = g[t].t.n
                  THEN Rmw(t, TAIL, loc[t].nx, Ord["p_help"]) /\ Acc(t, "cas", "p_help", g[t].t.n, 1)
                  ELSE CasFail(t, TAIL, Ord["casf"]) /\ Acc(t, "cas", "p_help", Latest(TAIL), 0)
             /\ Goto(t, "p_acqt")
             /\ UNCHANGED <<loc, lin, budget, nextv, nst, inc, g, own, bad, dtor>>
\* (8)
p_cas(t) == /\ pc[t] = "p_cas"
            /\ Touch(g[t].t, "push stores into an entry of a destroyed node")
            /\ LET x == ENT(g[t].t.n, loc[t].idx % EPN) IN
               IF Latest(x) = 0
                 THEN /\ Rmw(t, x, loc[t].v, Ord["p_cas"]) /\ Acc(t, "cas", "p_cas", 0, 1)
                      /\ own' = [own EXCEPT ![loc[t].v] = "queue"]
                      /\ g' = [g EXCEPT ![t].t = NoG]
                      /\ Return(t, 1, loc[t].v)
                 ELSE /\ CasFail(t, x, Ord["casf"]) /\ Acc(t, "cas", "p_cas", Latest(x), 0)
                      /\ Goto(t, "p_acqt") /\ UNCHANGED <<own, g, lin>>
            /\ UNCHANGED <<loc, budget, nextv, nst, inc, dtor>>

\* ---- pop ---------------------------------------------------------------------------------------
StartPop(t) == /\ MayStart(t, "pop")
               /\ budget' = [budget EXCEPT ![t] = @ + 1]
               /\ lin' = [lin EXCEPT !.mon = MonCall(@, t, "pop", 0, 0)]
               /\ loc' = [loc EXCEPT ![t] = L0]
               /\ Goto(t, "q_acqh") /\ Acc(t, "call", "pop", 0, 1)
               /\ UNCHANGED <<nextv, nst, inc, g, own, bad, dtor, memvars>>
\* (9)
q_acqh(t) == /\ pc[t] = "q_acqh"
             /\ Load(t, HEAD, Ord["q_acqh"], Last(HEAD))
             /\ g' = [g EXCEPT ![t].h = GuardOf(Latest(HEAD))]
             /\ Acc(t, "ld", "q_acqh", Latest(HEAD), 1)
             /\ Goto(t, "q_ldpop")
             /\ UNCHANGED <<loc, lin, budget, nextv, nst, inc, own, bad, dtor>>
\* (10)
q_ldpop(t) == /\ pc[t] = "q_ldpop"
              /\ Touch(g[t].h, "pop reads pop_idx of a destroyed node")
              /\ LET x == POPI(g[t].h.n) IN
                 \E i \in Readable(t, x, Ord["q_ldpop"]) :
                   /\ Load(t, x, Ord["q_ldpop"], i)
                   /\ Acc(t, "ld", "q_ldpop", ValAt(x, i), 1)
                   /\ loc' = [loc EXCEPT ![t].idx = ValAt(x, i)]
              /\ Goto(t, "q_ldpush")
              /\ UNCHANGED <<lin, budget, nextv, nst, inc, g, own, dtor>>
q_ldpush(t) == /\ pc[t] = "q_ldpush"
               /\ Touch(g[t].h, "pop reads push_idx of a destroyed node")
               /\ LET x == PUSHI(g[t].h.n) IN
                  \E i \in Readable(t, x, Ord["q_ldpush"]) :
                    /\ Load(t, x, Ord["q_ldpush"], i)
                    /\ Acc(t, "ld", "q_ldpush", ValAt(x, i), 1)
                    /\ loc' = [loc EXCEPT ![t].pushi = ValAt(x, i)]
                    /\ IF loc[t].idx >= ValAt(x, i)
                         THEN IF EmptyNeedsNext THEN Goto(t, "q_ldnx0") /\ UNCHANGED <<g, lin>>
                              ELSE g' = [g EXCEPT ![t].h = NoG] /\ Return(t, 0, 0)
                         ELSE Goto(t, "q_faa") /\ UNCHANGED <<g, lin>>
               /\ UNCHANGED <<budget, nextv, nst, inc, own, dtor>>
q_ldnx0(t) == /\ pc[t] = "q_ldnx0"
              /\ Touch(g[t].h, "pop reads next of a destroyed node")
              /\ LET x == NEXT(g[t].h.n) IN
                 \E i \in Readable(t, x, Ord["q_ldnx0"]) :
                   /\ Load(t, x, Ord["q_ldnx0"], i)
                   /\ Acc(t, "ld", "q_ldnx0", ValAt(x, i), 1)
                   /\ IF ValAt(x, i) = 0
                        THEN g' = [g EXCEPT ![t].h = NoG] /\ Return(t, 0, 0)
                        ELSE Goto(t, "q_faa") /\ UNCHANGED <<g, lin>>
              /\ UNCHANGED <<loc, budget, nextv, nst, inc, own, dtor>>
\* (11)
q_faa(t) == /\ pc[t] = "q_faa"
            /\ Touch(g[t].h, "pop increments pop_idx of a destroyed node")
            /\ LET x == POPI(g[t].h.n) old == Latest(x) IN
               /\ Rmw(t, x, old + StepSz, Ord["q_faa"])
               /\ Acc(t, "faa", "q_faa", old, 1)
               /\ loc' = [loc EXCEPT ![t].idx = old, ![t].cnt = 0]
               /\ Goto(t, IF old >= MaxIdx THEN "q_ldnx" ELSE "q_ldent")
            /\ UNCHANGED <<lin, budget, nextv, nst, inc, g, own, dtor>>
\* (12) the node is drained
q_ldnx(t) == /\ pc[t] = "q_ldnx"
             /\ Touch(g[t].h, "pop reads next of a destroyed node")
             /\ LET x == NEXT(g[t].h.n) IN
                \E i \in Readable(t, x, Ord["q_ldnx"]) :
                  /\ Load(t, x, Ord["q_ldnx"], i)
                  /\ Acc(t, "ld", "q_ldnx", ValAt(x, i), 1)
                  /\ loc' = [loc EXCEPT ![t].nx = ValAt(x, i)]
                  /\ IF ValAt(x, i) = 0
                       THEN g' = [g EXCEPT ![t].h = NoG] /\ Return(t, 0, 0)
                       ELSE Goto(t, IF HelpTail THEN "q_ldt" ELSE "q_cas") /\ UNCHANGED <<g, lin>>
             /\ UNCHANGED <<budget, nextv, nst, inc, own, dtor>>
\* _tail must not lag behind _head: a node is retired only after it was made unreachable through _tail as well
q_ldt(t) == /\ pc[t] = "q_ldt"
            /\ \E i \in Readable(t, TAIL, Ord["q_ldt"]) :
                 /\ Load(t, TAIL, Ord["q_ldt"], i)
                 /\ Acc(t, "ld", "q_ldt", ValAt(TAIL, i), 1)
                 /\ Goto(t, IF ValAt(TAIL, i) = g[t].h.n THEN "q_help" ELSE "q_cas")
            /\ UNCHANGED <<loc, lin, budget, nextv, nst, inc, g, own, bad, dtor>>
q_help(t) == /\ pc[t] = "q_help"
             /\ IF Latest(TAIL) = g[t].h.n
                  THEN Rmw(t, TAIL, loc[t].nx, Ord["q_help"]) /\ Acc(t, "cas", "q_help", g[t].h.n, 1)
                  ELSE CasFail(t, TAIL, Ord["casf"]) /\ Acc(t, "cas", "q_help", Latest(TAIL), 0)
             /\ Goto(t, "q_cas")
             /\ UNCHANGED <<loc, lin, budget, nextv, nst, inc, g, own, bad, dtor>>
\* (13)
q_cas(t) == /\ pc[t] = "q_cas"
            /\ IF Latest(HEAD) = g[t].h.n
                 THEN /\ Rmw(t, HEAD, loc[t].nx, Ord["q_cas"]) /\ Acc(t, "cas", "q_cas", g[t].h.n, 1)
                      /\ nst' = [nst EXCEPT ![g[t].h.n] = "retired"]          \* h.reclaim()
                      /\ g' = [g EXCEPT ![t].h = NoG]
                 ELSE /\ CasFail(t, HEAD, Ord["casf"]) /\ Acc(t, "cas", "q_cas", Latest(HEAD), 0)
                      /\ UNCHANGED <<nst, g>>
            /\ Goto(t, "q_acqh")
            /\ UNCHANGED <<loc, lin, budget, nextv, inc, own, bad, dtor>>
q_ldent(t) == /\ pc[t] = "q_ldent"
              /\ Touch(g[t].h, "pop reads an entry of a destroyed node")
              /\ LET x == ENT(g[t].h.n, loc[t].idx % EPN) IN
                 \E i \in Readable(t, x, Ord["q_ldent"]) :
                   /\ Load(t, x, Ord["q_ldent"], i)
                   /\ Acc(t, "ld", "q_ldent", ValAt(x, i), 1)
                   /\ loc' = [loc EXCEPT ![t].val = ValAt(x, i)]
                   /\ Goto(t, IF ValAt(x, i) # 0 THEN "q_ldacq" ELSE IF PopRetries > 0 THEN "q_retry" ELSE "q_xchg")
              /\ UNCHANGED <<lin, budget, nextv, nst, inc, g, own, dtor>>
\* while (value == nullptr && ++cnt <= pop_retries) value = load(relaxed)
q_retry(t) == /\ pc[t] = "q_retry"
              /\ Touch(g[t].h, "pop reads an entry of a destroyed node")
              /\ LET x == ENT(g[t].h.n, loc[t].idx % EPN) IN
                 \E i \in Readable(t, x, Ord["q_retry"]) :
                   /\ Load(t, x, Ord["q_retry"], i)
                   /\ Acc(t, "ld", "q_retry", ValAt(x, i), 1)
                   /\ loc' = [loc EXCEPT ![t].val = ValAt(x, i), ![t].cnt = @ + 1]
                   /\ Goto(t, IF ValAt(x, i) # 0 THEN "q_ldacq" ELSE IF loc[t].cnt + 1 < PopRetries THEN "q_retry" ELSE "q_xchg")
              /\ UNCHANGED <<lin, budget, nextv, nst, inc, g, own, dtor>>
\* handing a value to the consumer
Consume(t, v) == IF v \in Vals
                   THEN /\ own' = [own EXCEPT ![v] = "consumer"]
                        /\ bad' = IF TouchErr(g[t].h, "pop reads an entry of a destroyed node") # "ok" THEN TouchErr(g[t].h, "pop reads an entry of a destroyed node")
                                  ELSE IF own[v] # "queue" THEN "pop returned a value the queue does not own: " \o own[v] ELSE bad
                        /\ PlainRd(t, PAY(v))
                   ELSE /\ bad' = IF bad = "ok" THEN "pop returned something that is not a value" ELSE bad
                        /\ UNCHANGED <<own, memvars>>
\* (14) the acquire load is only there to synchronize with (8); the value returned is the one seen before
q_ldacq(t) == /\ pc[t] = "q_ldacq"
              /\ \/ /\ ~Weak
                    /\ Consume(t, loc[t].val)
                 \/ /\ Weak       \* under weak memory the load and the payload read are two accesses: the load first
                    /\ LET x == ENT(g[t].h.n, loc[t].idx % EPN) IN
                       \E i \in Readable(t, x, Ord["q_ldacq"]) : Load(t, x, Ord["q_ldacq"], i)
                    /\ UNCHANGED <<own, bad>>
              /\ Acc(t, "ld", "q_ldacq", loc[t].val, 1)
              /\ IF Weak THEN Goto(t, "q_pay") /\ UNCHANGED <<g, lin>>
                 ELSE g' = [g EXCEPT ![t].h = NoG] /\ Return(t, 1, loc[t].val)
              /\ UNCHANGED <<loc, budget, nextv, nst, inc, dtor>>
q_pay(t) == /\ pc[t] = "q_pay"
            /\ Consume(t, loc[t].val)
            /\ g' = [g EXCEPT ![t].h = NoG]
            /\ lin' = [mon |-> MonRet(lin.mon, t, 1, loc[t].val), taken |-> lin.taken \cup {loc[t].val},
                       bad |-> IF lin.bad = "ok" /\ (loc[t].val \notin 1 .. nextv - 1 \/ loc[t].val \in lin.taken) THEN "a value was popped twice or invented" ELSE lin.bad]
            /\ Goto(t, "idle")
            /\ UNCHANGED <<loc, budget, nextv, nst, inc, dtor, last>>
\* (15)
q_xchg(t) == /\ pc[t] = "q_xchg"
             /\ LET x == ENT(g[t].h.n, loc[t].idx % EPN) old == Latest(x) IN
                /\ IF Invalidate THEN Rmw(t, x, -1, Ord["q_xchg"]) ELSE Load(t, x, Ord["q_xchg"], Last(x))
                /\ Acc(t, "xchg", "q_xchg", old, 1)
                /\ loc' = [loc EXCEPT ![t].val = old]
                /\ IF old # 0
                     THEN IF Weak THEN /\ Goto(t, "q_pay") /\ UNCHANGED <<g, lin, own>>
                                       /\ Touch(g[t].h, "pop exchanges an entry of a destroyed node")
                          ELSE /\ g' = [g EXCEPT ![t].h = NoG] /\ Return(t, 1, old)
                               /\ IF old \in Vals
                                    THEN /\ own' = [own EXCEPT ![old] = "consumer"]
                                         /\ bad' = IF TouchErr(g[t].h, "pop exchanges an entry of a destroyed node") # "ok"
                                                     THEN TouchErr(g[t].h, "pop exchanges an entry of a destroyed node")
                                                   ELSE IF own[old] # "queue" THEN "pop returned a value the queue does not own: " \o own[old] ELSE bad
                                    ELSE /\ bad' = IF bad = "ok" THEN "pop returned something that is not a value" ELSE bad
                                         /\ UNCHANGED own
                     ELSE /\ Goto(t, "q_acqh") /\ UNCHANGED <<g, lin, own>>
                          /\ Touch(g[t].h, "pop exchanges an entry of a destroyed node")
             /\ UNCHANGED <<budget, nextv, nst, inc, dtor>>

\* ---- ~ramalhete_queue: delete every node from _head on; afterwards the queue must not own anything
Chain == LET RECURSIVE F(_, _) F(n, k) == IF n = 0 \/ k = 0 THEN <<>> ELSE <<n>> \o F(Latest(NEXT(n)), k - 1) IN F(Latest(HEAD), NNodes)
AllDrops == LET RECURSIVE C(_) C(s) == IF s = <<>> THEN <<>> ELSE DropsOf(Head(s)) \o C(Tail(s)) IN C(Chain)
QueueDtor == /\ Done /\ ~dtor
             /\ dtor' = TRUE
             /\ LET r == DropSeq(own, "ok", AllDrops) IN
                /\ own' = r.own
                /\ bad' = IF bad # "ok" THEN bad
                          ELSE IF r.err # "ok" THEN r.err
                          ELSE IF \E v \in Vals : r.own[v] = "queue" THEN "a value is still owned by the queue after its destructor (leaked)"
                          ELSE bad
             /\ nst' = [n \in Nodes |-> IF \E k \in 1 .. Len(Chain) : Chain[k] = n THEN "dead" ELSE nst[n]]
             /\ UNCHANGED <<pc, loc, lin, budget, nextv, inc, g, last, memvars>>

ThreadStep(t) == \/ StartPush(t) \/ p_acqt(t) \/ p_faa(t) \/ p_ldt(t) \/ p_ldn(t) \/ p_new(t) \/ p_link(t) \/ p_swing(t) \/ p_reset(t) \/ p_del(t)
                 \/ p_ldn2(t) \/ p_help(t) \/ p_cas(t)
                 \/ StartPop(t) \/ q_acqh(t) \/ q_ldpop(t) \/ q_ldpush(t) \/ q_ldnx0(t) \/ q_faa(t) \/ q_ldnx(t) \/ q_ldt(t) \/ q_help(t) \/ q_cas(t) \/ q_ldent(t) \/ q_retry(t)
                 \/ q_ldacq(t) \/ q_pay(t) \/ q_xchg(t)
Next == Destroy \/ QueueDtor \/ \E t \in Threads : ThreadStep(t)
Spec == Init /\ [][Next]_vars

\* ---- properties --------------------------------------------------------------------------------
Linearizable == lin.mon # {}                        \* C04
Conservation == lin.bad = "ok"                      \* C04 / C03 (memory-model independent)
MemorySafe == bad \notin {"push increments push_idx of a destroyed node", "push reads next of a destroyed node", "push links to a destroyed node",
                          "push stores into an entry of a destroyed node", "pop reads pop_idx of a destroyed node", "pop reads push_idx of a destroyed node",
                          "pop reads next of a destroyed node", "pop increments pop_idx of a destroyed node", "pop reads an entry of a destroyed node",
                          "pop exchanges an entry of a destroyed node"}
Ownership == bad = "ok"                             \* C07 (includes MemorySafe)
\* when everything is over the values the queue owns are exactly those pushed and not popped
ConservedAtEnd == Done /\ ~dtor => {v \in Vals : own[v] = "queue"} = (1 .. nextv - 1) \ lin.taken

\* ---- programs ----------------------------------------------------------------------------------
ProgPP == << <<"push", "push">>, <<"pop", "pop">> >>
ProgP1 == << <<"push", "push">>, <<"pop">> >>
ProgTiny == << <<"push">>, <<"pop">> >>
ProgLost == << <<"push", "push", "pop">>, <<"pop", "push">> >>
ProgMix == << <<"push", "pop", "push">>, <<"push", "pop">> >>
ProgFull == << <<"push", "push", "push">>, <<"push", "pop">> >>        \* two producers meet a full node (EPN 1 or 2)
Prog3 == << <<"push", "push">>, <<"pop", "push">>, <<"pop">> >>
ProgTail == << <<"push", "push">>, <<"pop", "pop", "push">> >>      \* a push meets a _tail that lags behind _head
Prog3P == << <<"push", "push">>, <<"push">>, <<"push", "pop">> >>
ProgStep == << <<"push", "push", "pop">>, <<"pop", "push">> >>
=============================================================================
