------------------------------- MODULE Seqlock -------------------------------
(***************************************************************************)
(* xenium::seqlock<T, slots>, one action per atomic access / fence         *)
(* (xenium/seqlock.hpp).                                                   *)
(*                                                                         *)
(* T occupies NW 8-byte chunks (the last one possibly partial); the code   *)
(* copies CW = sizeof(T) / sizeof(uintptr_t) words.  A stored value v is   *)
(* the tuple (v, ..., v) of NW chunks; a load result is well formed iff    *)
(* all NW chunks carry the same value - a torn or truncated result is not  *)
(* a stored value.  Chunks that were never copied hold -1 (indeterminate). *)
(*                                                                         *)
(* Threads 0 .. NWriters-1 write (store / update), the others read.        *)
(***************************************************************************)
EXTENDS Mem, LinMon, Register, TLC

CONSTANTS Slots, NW, CW, NWriters, NReaders, MaxWrites, MaxLoads, Ord,
          DistSlack,   \* 0 = the code's validation `seq2 - seq < 2*slots - 1`; 1 = one more (mechanism toggle)
          SpinOdd,     \* TRUE = a 1-slot reader waits for an even sequence (code); FALSE = toggle
          WriteNext    \* TRUE = writers fill the NEXT slot (code); FALSE = the current one (toggle)

OrdCode == [ld_seq |-> "acq", ld_spin |-> "acq", rd_w |-> "rlx", rd_fence |-> "acq", ld_seq2 |-> "acq",
            al_ld |-> "rlx", al_spin |-> "rlx", al_cas |-> "acq", al_casf |-> "rlx",
            sd_fence |-> "rel", sd_w |-> "rlx", rl_st |-> "rel"]

ThreadsDef == 0 .. NWriters + NReaders - 1
Writers == 0 .. NWriters - 1
SEQ == <<"seq", 0, 0>>
D(s, w) == <<"d", s, w>>
LocsDef == {SEQ} \cup {D(s, w) : s \in 0 .. Slots - 1, w \in 0 .. NW - 1}
InitV == 1                                          \* seqlock(const T&) with value 1 in slot 0
InitValDef(x) == IF x = SEQ THEN 0 ELSE IF x[2] = 0 THEN InitV ELSE -1

VARIABLES pc, loc, lin, budget, nextv, last
vars == <<pc, loc, lin, budget, nextv, last, memvars>>
mcview == <<pc, loc, lin, budget, nextv, memvars>>

Garbage == [i \in 0 .. NW - 1 |-> -1]
L0 == [seq |-> 0, seq2 |-> 0, idx |-> 0, widx |-> 0, i |-> 0, buf |-> Garbage, arg |-> 0, op |-> "none", old |-> 0]
\* value denoted by a buffer: the common chunk value, or -1 if torn / not fully copied
ValOf(buf) == IF \A i \in 0 .. NW - 1 : buf[i] = buf[0] THEN buf[0] ELSE -1

Init == /\ MemInit
        /\ pc = [t \in Threads |-> "idle"]
        /\ loc = [t \in Threads |-> L0]
        /\ lin = [mon |-> MonInit(InitV), bad |-> "ok"]
        /\ budget = [t \in Threads |-> IF t \in Writers THEN MaxWrites ELSE MaxLoads]
        /\ nextv = 2
        /\ last = [t |-> -1, k |-> "init", lab |-> "init", v |-> 0, ok |-> 1, n |-> 0]

Goto(t, l) == pc' = [pc EXCEPT ![t] = l]
Acc(t, k, lab, v, ok) == last' = [t |-> t, k |-> k, lab |-> lab, v |-> v, ok |-> ok, n |-> last.n + 1]    \* n: access counter
\* `lin` = linearizability monitor (real-time order, sequential consistency) + a memory-model independent ghost:
\* a load must return all chunks of ONE value (never a torn or truncated mixture)
Return(t, r, v) == /\ lin' = [mon |-> MonRet(lin.mon, t, r, v),
                              bad |-> IF loc[t].op = "load" /\ v = -1 /\ lin.bad = "ok" THEN "torn or truncated load result" ELSE lin.bad]
                   /\ Goto(t, "idle")

\* ------------------------------------------------------------------ load
StartLoad(t) == /\ t \notin Writers /\ pc[t] = "idle" /\ budget[t] > 0
                /\ budget' = [budget EXCEPT ![t] = @ - 1]
                /\ lin' = [lin EXCEPT !.mon = MonCall(@, t, "load", 0, 0)]
                /\ loc' = [loc EXCEPT ![t] = [L0 EXCEPT !.op = "load"]]
                /\ Goto(t, "ld_seq") /\ Acc(t, "call", "load", 0, 1)
                /\ UNCHANGED <<nextv, memvars>>
\* after a sequence value has been obtained: slot selection (no access)
AfterSeq(t, s) == IF Slots = 1
                    THEN IF s % 2 = 1 /\ SpinOdd THEN [loc[t] EXCEPT !.seq = s] ELSE [loc[t] EXCEPT !.seq = s, !.idx = 0, !.i = 0]
                    ELSE [loc[t] EXCEPT !.seq = (s \div 2) * 2, !.idx = (s \div 2) % Slots, !.i = 0]
NextPcAfterSeq(s) == IF Slots = 1 /\ s % 2 = 1 /\ SpinOdd THEN "ld_spin" ELSE "rd_w"
LdSeq(t, from, lab) ==
  /\ pc[t] = from
  /\ \E i \in Readable(t, SEQ, Ord[lab]) :
       LET s == ValAt(SEQ, i) IN
       /\ Load(t, SEQ, Ord[lab], i)
       /\ loc' = [loc EXCEPT ![t] = AfterSeq(t, s)]
       /\ Acc(t, "ld", lab, s, 1)
       /\ Goto(t, NextPcAfterSeq(s))
  /\ UNCHANGED <<lin, budget, nextv>>
ld_seq(t) == LdSeq(t, "ld_seq", "ld_seq")
ld_spin(t) == LdSeq(t, "ld_spin", "ld_spin")
\* read_data: CW relaxed word loads, then the acquire fence
rd_w(t) == /\ pc[t] = "rd_w" /\ loc[t].i < CW
           /\ LET x == D(loc[t].idx, loc[t].i) IN
              \E j \in Readable(t, x, Ord["rd_w"]) :
                 /\ Load(t, x, Ord["rd_w"], j)
                 /\ loc' = [loc EXCEPT ![t].buf[loc[t].i] = ValAt(x, j), ![t].i = @ + 1]
                 /\ Acc(t, "ld", "rd_w", ValAt(x, j), 1)
           /\ UNCHANGED <<pc, lin, budget, nextv>>
rd_fence(t) == /\ pc[t] = "rd_w" /\ loc[t].i = CW
               /\ Fence(t, Ord["rd_fence"]) /\ Acc(t, "fence", "rd_fence", 0, 1)
               /\ Goto(t, IF loc[t].op = "load" THEN "ld_seq2" ELSE "up_func")
               /\ UNCHANGED <<loc, lin, budget, nextv>>
ld_seq2(t) == /\ pc[t] = "ld_seq2"
              /\ \E i \in Readable(t, SEQ, Ord["ld_seq2"]) :
                   LET s2 == ValAt(SEQ, i) IN
                   /\ Load(t, SEQ, Ord["ld_seq2"], i)
                   /\ Acc(t, "ld", "ld_seq2", s2, 1)
                   /\ IF s2 - loc[t].seq < 2 * Slots - 1 + DistSlack
                        THEN Return(t, 0, ValOf(loc[t].buf)) /\ UNCHANGED loc
                        ELSE /\ loc' = [loc EXCEPT ![t] = [AfterSeq(t, s2) EXCEPT !.buf = Garbage]]
                             /\ Goto(t, NextPcAfterSeq(s2)) /\ UNCHANGED lin
              /\ UNCHANGED <<budget, nextv>>

\* ------------------------------------------------------------------ store / update
StartStore(t) == /\ t \in Writers /\ pc[t] = "idle" /\ budget[t] > 0
                 /\ budget' = [budget EXCEPT ![t] = @ - 1]
                 /\ lin' = [lin EXCEPT !.mon = MonCall(@, t, "store", nextv, 0)]
                 /\ loc' = [loc EXCEPT ![t] = [L0 EXCEPT !.op = "store", !.arg = nextv]]
                 /\ nextv' = nextv + 1
                 /\ Goto(t, "al_ld") /\ Acc(t, "call", "store", nextv, 1)
                 /\ UNCHANGED memvars
StartUpdate(t) == /\ t \in Writers /\ pc[t] = "idle" /\ budget[t] > 0
                  /\ budget' = [budget EXCEPT ![t] = @ - 1]
                  /\ lin' = [lin EXCEPT !.mon = MonCall(@, t, "update", 10, 0)]       \* func adds 10 to the value it sees
                  /\ loc' = [loc EXCEPT ![t] = [L0 EXCEPT !.op = "update", !.arg = 10]]
                  /\ Goto(t, "al_ld") /\ Acc(t, "call", "update", 10, 1)
                  /\ UNCHANGED <<nextv, memvars>>
AlLd(t, from, lab) ==
  /\ pc[t] = from
  /\ \E i \in Readable(t, SEQ, Ord[lab]) :
       LET s == ValAt(SEQ, i) IN
       /\ Load(t, SEQ, Ord[lab], i)
       /\ loc' = [loc EXCEPT ![t].seq = s]
       /\ Acc(t, "ld", lab, s, 1)
       /\ Goto(t, IF s % 2 = 1 THEN "al_spin" ELSE "al_cas")
  /\ UNCHANGED <<lin, budget, nextv>>
al_ld(t) == AlLd(t, "al_ld", "al_ld")
al_spin(t) == AlLd(t, "al_spin", "al_spin")
al_cas(t) == /\ pc[t] = "al_cas"
             /\ IF Latest(SEQ) = loc[t].seq
                  THEN /\ Rmw(t, SEQ, loc[t].seq + 1, Ord["al_cas"])
                       /\ Acc(t, "cas", "al_cas", loc[t].seq, 1)
                       /\ LET s == loc[t].seq + 1 IN      \* the locked (odd) value returned by acquire_lock
                          IF loc[t].op = "store"
                            THEN /\ loc' = [loc EXCEPT ![t].seq = s, ![t].widx = ((s \div 2) + (IF WriteNext THEN 1 ELSE 0)) % Slots, ![t].i = 0,
                                                       ![t].buf = [i \in 0 .. NW - 1 |-> loc[t].arg]]
                                 /\ Goto(t, "sd_fence")
                            ELSE /\ loc' = [loc EXCEPT ![t].seq = s, ![t].idx = (s \div 2) % Slots,
                                                       ![t].widx = (((s \div 2) % Slots) + (IF WriteNext THEN 1 ELSE 0)) % Slots, ![t].i = 0]
                                 /\ Goto(t, "rd_w")
                  ELSE /\ CasFail(t, SEQ, Ord["al_casf"])
                       /\ Acc(t, "cas", "al_cas", Latest(SEQ), 0)
                       /\ loc' = [loc EXCEPT ![t].seq = Latest(SEQ)]
                       /\ Goto(t, IF Latest(SEQ) % 2 = 1 THEN "al_spin" ELSE "al_cas")
             /\ UNCHANGED <<lin, budget, nextv>>
\* update: func(data) - no shared access; the functor sees ValOf(buf) and adds arg to every chunk it was given
up_func(t) == /\ pc[t] = "up_func"
              /\ LET seen == ValOf(loc[t].buf) IN
                 loc' = [loc EXCEPT ![t].old = seen,
                                    ![t].buf = [i \in 0 .. NW - 1 |-> IF seen = -1 THEN -1 ELSE seen + loc[t].arg],
                                    ![t].i = 0]
              /\ Goto(t, "sd_fence")
              /\ UNCHANGED <<lin, budget, nextv, last, memvars>>
sd_fence(t) == /\ pc[t] = "sd_fence"
               /\ Fence(t, Ord["sd_fence"]) /\ Acc(t, "fence", "sd_fence", 0, 1)
               /\ Goto(t, "sd_w")
               /\ UNCHANGED <<loc, lin, budget, nextv>>
sd_w(t) == /\ pc[t] = "sd_w" /\ loc[t].i < CW
           /\ Store(t, D(loc[t].widx, loc[t].i), loc[t].buf[loc[t].i], Ord["sd_w"])
           /\ Acc(t, "st", "sd_w", loc[t].buf[loc[t].i], 1)
           /\ loc' = [loc EXCEPT ![t].i = @ + 1]
           /\ UNCHANGED <<pc, lin, budget, nextv>>
rl_st(t) == /\ pc[t] = "sd_w" /\ loc[t].i = CW
            /\ Store(t, SEQ, loc[t].seq + 1, Ord["rl_st"])
            /\ Acc(t, "st", "rl_st", loc[t].seq + 1, 1)
            /\ Return(t, 0, IF loc[t].op = "update" THEN loc[t].old ELSE 0)
            /\ UNCHANGED <<loc, budget, nextv>>

ThreadStep(t) == \/ StartLoad(t) \/ ld_seq(t) \/ ld_spin(t) \/ rd_w(t) \/ rd_fence(t) \/ ld_seq2(t)
                 \/ StartStore(t) \/ StartUpdate(t) \/ al_ld(t) \/ al_spin(t) \/ al_cas(t) \/ up_func(t)
                 \/ sd_fence(t) \/ sd_w(t) \/ rl_st(t)
Next == \E t \in Threads : ThreadStep(t)
Spec == Init /\ [][Next]_vars

\* C14: every history of load / store / update is linearizable w.r.t. an atomic register; in particular
\* every load result is (all NW chunks of) the initial value or some stored / updated value.
Linearizable == lin.mon # {}
NoTornLoad == lin.bad = "ok"
NoTornValue == \A t \in Threads : (pc[t] = "idle" /\ loc[t].op = "load") => TRUE
=============================================================================
