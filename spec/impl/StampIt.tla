------------------------------- MODULE StampIt -------------------------------
(***************************************************************************)
(* xenium::reclamation::stamp_it at the grain of its reclamation rule:     *)
(* the thread_order_queue (a lock-free doubly linked list with helping,    *)
(* impl/stamp_it.hpp 41-532) is abstracted to its sequential meaning -     *)
(*   push(block)   block.stamp := headStamp; headStamp := headStamp + 1    *)
(*   remove(block) unlink; wasTail iff block had the lowest stamp; if so   *)
(*                 tailStamp := max(tailStamp, s) in a later step, with s  *)
(*                 the "next best guess" stamp + 1, or the stamp of the    *)
(*                 actual new last block, or headStamp if no block is left *)
(*   head_stamp(), tail_stamp()                                            *)
(* while thread_data (enter_region / leave_region / add_retired_node /     *)
(* process_local_nodes / process_global_nodes incl. its restart loop /     *)
(* thread exit, lines 534-700) and guard_ptr are modelled step by step,    *)
(* driven by the generic client (acquire, reset, replace + reclaim, touch, *)
(* thread exit, idle flush cycles).                                        *)
(*                                                                         *)
(* Rule: a retired node carries the head stamp of the moment it was        *)
(* retired and is deleted only when stamp <= tailStamp, i.e. when every    *)
(* thread that was inside a region at that moment has left.                *)
(* Retired nodes travel in chunks (a thread's local list is one chunk);    *)
(* the last thread to leave works on the global list of chunks.            *)
(***************************************************************************)
EXTENDS Integers, Sequences, FiniteSets, TLC

CONSTANTS NT, NG, NCells, NNodes, MaxOps, MaxFlush,
          TryThr,        \* try_reclaim_threshold (40 in the code)
          MaxRemain,     \* max_remaining_retired_nodes (20 in the code)
          RetireAtHead,  \* TRUE: a retired node gets the head stamp (code); FALSE: the retiring thread's own stamp
          GuessOk,       \* TRUE: the tail stamp is raised to a stamp no remaining or future block undercuts (code); FALSE: beyond the head stamp
          RequeueAll,    \* TRUE: process_global_nodes hands ALL remaining chunks back (code); FALSE: only the first one
          ExitHandsOver  \* TRUE: a thread that exits moves its remaining retired nodes to the global list (code); FALSE: drops them

Threads == 0 .. NT - 1
Nodes == 1 .. NNodes
Cells == 0 .. NCells - 1

VARIABLES pc, loc, cell, guards, tl, nstate, budget, flush, alive, HS, TS, inq, GR, bad, last
vars == <<pc, loc, cell, guards, tl, nstate, budget, flush, alive, HS, TS, inq, GR, bad, last>>
mcview == <<pc, loc, cell, guards, tl, nstate, budget, flush, alive, HS, TS, inq, GR, bad>>

\* rl: the local retire list, a sequence of [n, s] in retirement order (stamps ascending)
TL0 == [regions |-> 0, rl |-> <<>>]
L0 == [op |-> "none", g |-> 0, c |-> 0, fresh |-> 0, old |-> 0, after |-> "idle", wasTail |-> FALSE, s |-> 0, ts |-> 0, chunks |-> <<>>, low |-> 0]
Init == /\ pc = [t \in Threads |-> "idle"]
        /\ loc = [t \in Threads |-> L0]
        /\ cell = [c \in Cells |-> c + 1]
        /\ guards = [t \in Threads |-> [g \in 1 .. NG |-> 0]]
        /\ tl = [t \in Threads |-> TL0]
        /\ nstate = [n \in Nodes |-> IF n <= NCells THEN "live" ELSE "free"]
        /\ budget = [t \in Threads |-> MaxOps]
        /\ flush = [t \in Threads |-> MaxFlush]
        /\ alive = [t \in Threads |-> TRUE]
        /\ HS = 1 /\ TS = 1
        /\ inq = [t \in Threads |-> 0]
        /\ GR = <<>>
        /\ bad = "ok"
        /\ last = [t |-> -1, lab |-> "init"]

Goto(t, l) == pc' = [pc EXCEPT ![t] = l]
Lab(t, l) == last' = [t |-> t, lab |-> l]
Max(a, b) == IF a >= b THEN a ELSE b
Min(a, b) == IF a <= b THEN a ELSE b
UQ == UNCHANGED <<HS, TS, inq, GR>>
UC == UNCHANGED <<cell, guards, nstate, budget, flush, alive, bad>>
Delete(S) == /\ nstate' = [n \in Nodes |-> IF n \in S THEN "des" ELSE nstate[n]]
             /\ bad' = IF bad = "ok" /\ \E n \in S : nstate[n] # "ret" THEN "deleted a node that is not retired (or twice)" ELSE bad
\* longest prefix of a chunk whose stamps are <= ts
RECURSIVE PrefLen(_, _)
PrefLen(ch, ts) == IF ch = <<>> \/ Head(ch).s > ts THEN 0 ELSE 1 + PrefLen(Tail(ch), ts)
NodesOf(ch, k) == {ch[i].n : i \in 1 .. k}

\* ---------------------------------------------------------------- client operations
Begin(t, op, g, c, first, cost) ==
  /\ pc[t] = "idle" /\ alive[t]
  /\ IF cost THEN budget[t] > 0 /\ budget' = [budget EXCEPT ![t] = @ - 1] /\ UNCHANGED flush
     ELSE /\ \A u \in Threads : pc[u] = "idle" /\ budget[u] = 0
          /\ \A u \in Threads : alive[u] => flush[t] >= flush[u]
          /\ flush[t] > 0 /\ flush' = [flush EXCEPT ![t] = @ - 1] /\ UNCHANGED budget
  /\ loc' = [loc EXCEPT ![t] = [L0 EXCEPT !.op = op, !.g = g, !.c = c]]
  /\ Goto(t, first) /\ Lab(t, op)
  /\ UNCHANGED <<cell, guards, tl, nstate, alive, bad>> /\ UQ
StartAcquire(t) == \E g \in 1 .. NG, c \in Cells : Begin(t, "acquire", g, c, "a_ld1", TRUE)
StartReplace(t) == \E g \in 1 .. NG, c \in Cells : Begin(t, "replace", g, c, "a_ld1", TRUE)
StartReset(t) == \E g \in 1 .. NG : guards[t][g] # 0 /\ Begin(t, "reset", g, 0, "r_begin", TRUE)
StartFlush(t) == \E g \in 1 .. NG : guards[t][g] = 0 /\ Begin(t, "flushcycle", g, 0, "a_ld1", FALSE)
Touch(t) == /\ pc[t] = "idle" /\ alive[t]
            /\ \E g \in 1 .. NG : guards[t][g] # 0 /\ nstate[guards[t][g]] \notin {"live", "ret"}
            /\ bad' = IF bad = "ok" THEN "touch of a destroyed object" ELSE bad
            /\ UNCHANGED <<pc, loc, cell, guards, tl, nstate, budget, flush, alive, last>> /\ UQ

\* ---------------------------------------------------------------- guard_ptr::acquire / reset
a_ld1(t) == /\ pc[t] = "a_ld1"
            /\ IF cell[loc[t].c] = 0 THEN Goto(t, "r_begin") /\ UNCHANGED loc
               ELSE IF guards[t][loc[t].g] = 0 THEN Goto(t, "er_begin") /\ loc' = [loc EXCEPT ![t].after = "a_ld2"]
               ELSE Goto(t, "a_ld2") /\ UNCHANGED loc
            /\ Lab(t, "a_ld1") /\ UNCHANGED tl /\ UC /\ UQ
a_ld2(t) == /\ pc[t] = "a_ld2"
            /\ guards' = [guards EXCEPT ![t][loc[t].g] = cell[loc[t].c]]
            /\ loc' = [loc EXCEPT ![t].after = "op_done"]
            /\ Goto(t, IF cell[loc[t].c] = 0 THEN "lr_begin" ELSE "op_done")
            /\ Lab(t, "a_ld2")
            /\ UNCHANGED <<cell, tl, nstate, budget, flush, alive, bad>> /\ UQ
r_begin(t) == /\ pc[t] = "r_begin"
              /\ IF guards[t][loc[t].g] # 0
                   THEN /\ guards' = [guards EXCEPT ![t][loc[t].g] = 0] /\ Goto(t, "lr_begin") /\ loc' = [loc EXCEPT ![t].after = "op_done"]
                   ELSE /\ Goto(t, "op_done") /\ UNCHANGED <<guards, loc>>
              /\ UNCHANGED <<cell, tl, nstate, budget, flush, alive, bad, last>> /\ UQ

\* ---------------------------------------------------------------- enter_region / leave_region
er_begin(t) == /\ pc[t] = "er_begin"
               /\ tl' = [tl EXCEPT ![t].regions = @ + 1]
               /\ Goto(t, IF tl[t].regions = 0 THEN "e_push" ELSE loc[t].after)
               /\ UNCHANGED <<loc, last>> /\ UC /\ UQ
\* queue.push(control_block)
e_push(t) == /\ pc[t] = "e_push"
             /\ inq' = [inq EXCEPT ![t] = HS] /\ HS' = HS + 1
             /\ Goto(t, loc[t].after) /\ Lab(t, "e_push")
             /\ UNCHANGED <<loc, tl, TS, GR>> /\ UC
lr_begin(t) == /\ pc[t] = "lr_begin"
               /\ tl' = [tl EXCEPT ![t].regions = @ - 1]
               /\ Goto(t, IF tl[t].regions = 1 THEN "l_remove" ELSE loc[t].after)
               /\ UNCHANGED <<loc, last>> /\ UC /\ UQ
\* queue.remove(control_block): unlink, wasTail, and the stamp update_tail_stamp will try to install
InQ == {u \in Threads : inq[u] # 0}
l_remove(t) == /\ pc[t] = "l_remove"
               /\ LET others == InQ \ {t}
                      wasTail == \A u \in others : inq[u] > inq[t]
                      lowest == IF others = {} THEN HS ELSE CHOOSE s \in {inq[u] : u \in others} : \A u \in others : s <= inq[u]
                      cands == IF GuessOk THEN {inq[t] + 1, lowest} ELSE {HS + 2}
                  IN /\ \E s \in cands : loc' = [loc EXCEPT ![t].wasTail = wasTail, ![t].s = s]
                     /\ Goto(t, IF wasTail THEN "l_tail" ELSE "p_ts")
               /\ inq' = [inq EXCEPT ![t] = 0]
               /\ Lab(t, "l_remove")
               /\ UNCHANGED <<tl, HS, TS, GR>> /\ UC
l_tail(t) == /\ pc[t] = "l_tail"
             /\ TS' = Max(TS, loc[t].s)
             /\ Goto(t, "g_ts") /\ Lab(t, "l_tail")
             /\ UNCHANGED <<loc, tl, HS, inq, GR>> /\ UC

\* ---------------------------------------------------------------- process_local_nodes (+ hand-over of a long list)
p_ts(t) == /\ pc[t] = "p_ts"
           /\ loc' = [loc EXCEPT ![t].ts = TS]
           /\ Goto(t, "p_proc") /\ Lab(t, "p_ts")
           /\ UNCHANGED tl /\ UC /\ UQ
p_proc(t) == /\ pc[t] = "p_proc"
             /\ LET k == PrefLen(tl[t].rl, loc[t].ts) rest == SubSeq(tl[t].rl, k + 1, Len(tl[t].rl)) IN
                /\ Delete(NodesOf(tl[t].rl, k))
                /\ tl' = [tl EXCEPT ![t].rl = rest]
                /\ Goto(t, IF loc[t].op = "exit" THEN "x_hand"
                           ELSE IF loc[t].op = "retiring" THEN "r_begin"
                           ELSE IF Len(rest) > MaxRemain THEN "p_add" ELSE loc[t].after)
             /\ Lab(t, "p_proc")
             /\ UNCHANGED <<loc, cell, guards, budget, flush, alive>> /\ UQ
p_add(t) == /\ pc[t] = "p_add"
            /\ GR' = <<tl[t].rl>> \o GR
            /\ tl' = [tl EXCEPT ![t].rl = <<>>]
            /\ Goto(t, loc[t].after) /\ Lab(t, "p_add")
            /\ UNCHANGED <<loc, HS, TS, inq>> /\ UC

\* ---------------------------------------------------------------- process_global_nodes (the last thread to leave)
g_ts(t) == /\ pc[t] = "g_ts"
           /\ loc' = [loc EXCEPT ![t].ts = TS]
           /\ Goto(t, "g_steal") /\ Lab(t, "g_ts")
           /\ UNCHANGED tl /\ UC /\ UQ
g_steal(t) == /\ pc[t] = "g_steal"
              /\ LET all == (IF tl[t].rl = <<>> THEN <<>> ELSE <<tl[t].rl>>) \o GR IN
                 /\ loc' = [loc EXCEPT ![t].chunks = all]
                 /\ Goto(t, IF all = <<>> THEN loc[t].after ELSE "g_proc")
              /\ GR' = <<>>
              /\ tl' = [tl EXCEPT ![t].rl = <<>>]
              /\ Lab(t, "g_steal")
              /\ UNCHANGED <<HS, TS, inq>> /\ UC
\* one pass over all chunks with the tail stamp read before
g_proc(t) == /\ pc[t] = "g_proc"
             /\ LET chs == loc[t].chunks ts == loc[t].ts
                    k(i) == PrefLen(chs[i], ts)
                    freed == UNION {NodesOf(chs[i], k(i)) : i \in 1 .. Len(chs)}
                    remaining == SelectSeq([i \in 1 .. Len(chs) |-> SubSeq(chs[i], k(i) + 1, Len(chs[i]))], LAMBDA c : c # <<>>)
                    \* lowest stamp among the nodes deleted in this pass (the first node of a chunk has its lowest stamp)
                    low == IF \E i \in 1 .. Len(chs) : k(i) > 0
                             THEN CHOOSE s \in {chs[i][1].s : i \in {m \in 1 .. Len(chs) : k(m) > 0}} :
                                    \A i \in {m \in 1 .. Len(chs) : k(m) > 0} : s <= chs[i][1].s
                             ELSE 1000000
                IN /\ Delete(freed)
                   /\ loc' = [loc EXCEPT ![t].chunks = remaining, ![t].low = low]
                   /\ Goto(t, IF remaining = <<>> THEN loc[t].after ELSE "g_ts2")
             /\ Lab(t, "g_proc")
             /\ UNCHANGED <<cell, guards, tl, budget, flush, alive>> /\ UQ
g_ts2(t) == /\ pc[t] = "g_ts2"
            /\ IF loc[t].low < TS
                 THEN loc' = [loc EXCEPT ![t].ts = TS] /\ Goto(t, "g_proc")        \* goto restart
                 ELSE UNCHANGED loc /\ Goto(t, "g_add")
            /\ Lab(t, "g_ts2")
            /\ UNCHANGED tl /\ UC /\ UQ
g_add(t) == /\ pc[t] = "g_add"
            /\ GR' = (IF RequeueAll THEN loc[t].chunks ELSE <<loc[t].chunks[1]>>) \o GR
            /\ loc' = [loc EXCEPT ![t].chunks = <<>>]
            /\ Goto(t, loc[t].after) /\ Lab(t, "g_add")
            /\ UNCHANGED <<tl, HS, TS, inq>> /\ UC

\* ---------------------------------------------------------------- replace: CAS a fresh node in, reclaim the old one
FreshIds == {n \in Nodes : nstate[n] = "free"}
op_done(t) ==
  /\ pc[t] = "op_done"
  /\ CASE loc[t].op = "replace" /\ guards[t][loc[t].g] # 0 /\ FreshIds # {} ->
            /\ \E n \in FreshIds : /\ loc' = [loc EXCEPT ![t].fresh = n, ![t].op = "replace2"]
                                   /\ nstate' = [nstate EXCEPT ![n] = "live"]
            /\ Goto(t, "x_cas") /\ UNCHANGED guards
       [] loc[t].op = "flushcycle" /\ guards[t][loc[t].g] # 0 ->
            /\ loc' = [loc EXCEPT ![t].op = "flushreset"] /\ Goto(t, "r_begin") /\ UNCHANGED <<nstate, guards>>
       [] OTHER -> Goto(t, "idle") /\ UNCHANGED <<loc, nstate, guards>>
  /\ UNCHANGED <<cell, tl, budget, flush, alive, bad, last>> /\ UQ
x_cas(t) == /\ pc[t] = "x_cas"
            /\ LET old == guards[t][loc[t].g] IN
               IF cell[loc[t].c] = old
                 THEN /\ cell' = [cell EXCEPT ![loc[t].c] = loc[t].fresh]
                      /\ nstate' = [nstate EXCEPT ![old] = "ret"]
                      /\ loc' = [loc EXCEPT ![t].old = old, ![t].op = "replace3"]
                      /\ Goto(t, "rt_hs")
                 ELSE /\ nstate' = [nstate EXCEPT ![loc[t].fresh] = "free"]
                      /\ loc' = [loc EXCEPT ![t].op = "replace3"]
                      /\ Goto(t, "op_done") /\ UNCHANGED cell
            /\ Lab(t, "x_cas")
            /\ UNCHANGED <<guards, tl, budget, flush, alive, bad>> /\ UQ
\* reclaim(): add_retired_node (stamp := head_stamp()), process_local_nodes if the list got long, then reset()
rt_hs(t) == /\ pc[t] = "rt_hs"
            /\ LET s == IF RetireAtHead THEN HS ELSE inq[t] IN
               tl' = [tl EXCEPT ![t].rl = Append(@, [n |-> loc[t].old, s |-> s])]
            /\ IF Len(tl[t].rl) + 1 > TryThr
                 THEN loc' = [loc EXCEPT ![t].op = "retiring"] /\ Goto(t, "p_ts")
                 ELSE UNCHANGED loc /\ Goto(t, "r_begin")
            /\ Lab(t, "rt_hs")
            /\ UC /\ UQ

\* ---------------------------------------------------------------- thread exit: ~thread_data
StartExit(t) == /\ pc[t] = "idle" /\ alive[t] /\ budget[t] = 0 /\ loc[t].op # "exit" /\ \A g \in 1 .. NG : guards[t][g] = 0
                /\ \A u \in Threads : flush[u] = MaxFlush
                /\ \E u \in Threads \ {t} : alive[u] /\ loc[u].op # "exit"
                /\ loc' = [loc EXCEPT ![t] = [L0 EXCEPT !.op = "exit"]]
                /\ Goto(t, "p_ts") /\ Lab(t, "exit")
                /\ UNCHANGED <<cell, guards, tl, nstate, budget, flush, alive, bad>> /\ UQ
x_hand(t) == /\ pc[t] = "x_hand"
             /\ IF tl[t].rl # <<>> /\ ExitHandsOver THEN GR' = <<tl[t].rl>> \o GR ELSE UNCHANGED GR
             /\ tl' = [tl EXCEPT ![t].rl = <<>>]
             /\ alive' = [alive EXCEPT ![t] = FALSE]
             /\ Goto(t, "idle") /\ Lab(t, "x_hand")
             /\ UNCHANGED <<loc, cell, guards, nstate, budget, flush, bad, HS, TS, inq>>

ThreadStep(t) == \/ StartAcquire(t) \/ StartReplace(t) \/ StartReset(t) \/ StartFlush(t) \/ Touch(t) \/ StartExit(t)
                 \/ a_ld1(t) \/ a_ld2(t) \/ r_begin(t) \/ er_begin(t) \/ e_push(t) \/ lr_begin(t) \/ l_remove(t) \/ l_tail(t)
                 \/ p_ts(t) \/ p_proc(t) \/ p_add(t) \/ g_ts(t) \/ g_steal(t) \/ g_proc(t) \/ g_ts2(t) \/ g_add(t)
                 \/ op_done(t) \/ x_cas(t) \/ rt_hs(t) \/ x_hand(t)
Next == \E t \in Threads : ThreadStep(t)
Spec == Init /\ [][Next]_vars

\* ---------------------------------------------------------------- properties
Established(t, g) == pc[t] = "idle" \/ loc[t].g # g
Safe == /\ bad = "ok"
        /\ \A t \in Threads, g \in 1 .. NG : (Established(t, g) /\ guards[t][g] # 0) => nstate[guards[t][g]] \in {"live", "ret"}
\* the tail stamp never overtakes a thread inside a region
TailBound == \A t \in Threads : inq[t] # 0 => TS <= inq[t]
\* once every thread has finished (exited, or run its idle cycles), nothing retired remains
Quiescent == /\ \A t \in Threads : pc[t] = "idle" /\ budget[t] = 0 /\ (~alive[t] \/ flush[t] = 0) /\ \A g \in 1 .. NG : guards[t][g] = 0
             /\ \E t \in Threads : alive[t]
NoLeak == Quiescent => \A n \in Nodes : nstate[n] # "ret"
\* every retired node is on exactly one list (nothing falls off a list: the census of C02)
OnLists == LET listed == UNION {{tl[t].rl[i].n : i \in 1 .. Len(tl[t].rl)} : t \in Threads}
                         \cup UNION {{GR[i][j].n : j \in 1 .. Len(GR[i])} : i \in 1 .. Len(GR)}
                         \cup UNION {UNION {{loc[t].chunks[i][j].n : j \in 1 .. Len(loc[t].chunks[i])} : i \in 1 .. Len(loc[t].chunks)} : t \in Threads}
                         \cup {loc[t].old : t \in {u \in Threads : pc[u] = "rt_hs"}}
           IN \A n \in Nodes : nstate[n] = "ret" => n \in listed
=============================================================================
