---------------------------- MODULE StampItQueue ----------------------------
(***************************************************************************)
(* xenium::reclamation::stamp_it::thread_order_queue (impl/stamp_it.hpp    *)
(* 41-532) at the grain of its atomic accesses: the lock-free doubly       *)
(* linked list of thread control blocks between the sentinels head and     *)
(* tail, with version tags and a delete mark in every link, stamps with    *)
(* the PendingPush / NotInList flags, and helping.  One action per atomic  *)
(* access of push, remove, set_mark_flag, remove_from_prev_list,           *)
(* remove_from_next_list, remove_or_skip_marked_block,                     *)
(* save_next_as_last_and_move_next_to_next_prev, mark_next and             *)
(* update_tail_stamp; the control flow between two accesses is folded into *)
(* the access that precedes it.  The coarse spec StampIt abstracts this    *)
(* module to "push hands out the head stamp, remove unlinks, wasTail iff   *)
(* lowest stamp, the tail stamp is only raised to a stamp no present or    *)
(* future block undercuts"; here that abstraction is checked against the   *)
(* algorithm itself.                                                       *)
(*                                                                         *)
(* Clients: every thread has a control block (its own, or with Exits the   *)
(* one it adopts from a thread that has ended) and repeatedly enters      *)
(* (push) and leaves (remove) the critical region, MaxOps times.           *)
(*                                                                         *)
(* Checked: TailSafe (C01: the tail stamp never exceeds the stamp of a     *)
(* block whose thread is inside its region - a node retired with the head  *)
(* stamp while such a thread is inside is therefore not reclaimable),      *)
(* the code's assertions (Asserts), NoLostTail (C02 / C17: a thread that   *)
(* leaves while nobody else is around is told that it was the last one,    *)
(* so that the global retire list gets processed), QuiescentShape (with    *)
(* nobody inside, head and tail point to each other and the tail stamp has *)
(* caught up), and - in StampItQueueSolo - that push and remove finish in  *)
(* a bounded number of solo steps from every reachable state (C16).        *)
(***************************************************************************)
EXTENDS Mem, TLC

CONSTANTS NT, MaxOps, MaxOps0, Ord,   \* MaxOps0: enter / leave cycles of thread 0, MaxOps: of every other thread
          HeadBump,     \* TRUE: update_tail_stamp takes the stamp of head only after invalidating pending pushes with a CAS on head->prev (code)
          Recheck,      \* TRUE: push re-reads head->prev after publishing its pending stamp (code); FALSE is exploratory: no property here depends on it
                        \* within 2 threads x (2, 1) regions (2.5 M states) - the insertion CAS fails anyway when head->prev has changed
          ClearPending, \* TRUE: helpers complete a pending stamp with a CAS (code); FALSE: they move on without helping (a leaving thread then waits
                        \* for the pusher: SoloBound of StampItQueueSolo is violated - seeded change c16_5)
          Exits,        \* TRUE: threads exit after a region and later threads adopt the control blocks they abandoned (thread_block_list)
          MarkChecksStamp \* TRUE: mark_next gives up when the stamp of the block has changed (code); FALSE: marks regardless (exploratory)

StampInc == 4
PendingPush == 2
NotInList == 1

OrdCode == [p_stn |-> "rel", p_ldhp |-> "rlx", p_ldhp2 |-> "rlx", p_faa |-> "sc", p_stpend |-> "rel", p_ldhp3 |-> "rlx", p_stprev |-> "rel",
            p_cas |-> "ar", p_ststamp |-> "rel", p_ldlink |-> "acq", p_ldprev |-> "rlx", p_casnext |-> "rel", p_casnextf |-> "acq",
            r_ldprev |-> "acq", r_markprev |-> "ar", r_markprevf |-> "acq", r_ldnext |-> "acq", r_marknext |-> "acq", r_marknextf |-> "acq", f_ldnextb |-> "acq", f_ldpp |-> "acq", f_ldps |-> "rlx", f_ldprev |-> "acq", f_ldnp |-> "acq", f_ldns |-> "acq",
            f_ldnn |-> "acq", f_cas |-> "rel", n_ldnp |-> "acq", n_ldns |-> "acq", n_ldnn |-> "acq", n_ldpn |-> "acq", n_ldps |-> "rlx",
            n_ldprev |-> "acq", n_cas |-> "rel", k_cas |-> "rel", k_ldnn |-> "acq", s_ldst |-> "acq", s_cas |-> "rlx",
            m_ldlink |-> "acq", m_cas |-> "rel", m_casf |-> "acq", u_ldlast |-> "acq", u_ldlp |-> "acq", u_cashead |-> "rlx", u_cas |-> "rel",
            rlx |-> "rlx"]

ThreadsDef == 0 .. NT - 1
HEADB == NT
TAILB == NT + 1
Blocks == 0 .. NT + 1
NIL == -1
PREV(b) == <<"prev", b>>
NEXT(b) == <<"next", b>>
STAMP(b) == <<"stamp", b>>
LocsDef == {PREV(b) : b \in Blocks} \cup {NEXT(b) : b \in Blocks} \cup {STAMP(b) : b \in Blocks}
P(p, m) == [p |-> p, m |-> m]
NullP == P(NIL, 0)
InitValDef(x) == IF x = PREV(HEADB) THEN P(TAILB, 0)
                 ELSE IF x = NEXT(TAILB) THEN P(HEADB, 0)
                 ELSE IF x[1] = "stamp" THEN (IF x[2] \in {HEADB, TAILB} THEN StampInc ELSE 0)
                 ELSE NullP

Odd(n) == n % 2 = 1
Marked(q) == Odd(q.m)                       \* DeleteMark
MakeMarked(p, q) == P(p, q.m + 2)           \* make_marked: same delete mark, next tag
CleanMarked(p, q) == P(p, (q.m + 2) - (q.m % 2))   \* make_clean_marked: next tag, delete mark cleared
WithMark(q) == P(q.p, q.m + (IF Odd(q.m) THEN 0 ELSE 1))
HasPending(s) == (s \div 2) % 2 = 1
HasNotInList(s) == Odd(s)
Flagged(s) == s % 4 # 0

VARIABLES pc, loc, budget, own, inreg, alone, wasLast, bad, last
vars == <<pc, loc, budget, own, inreg, alone, wasLast, bad, last, memvars>>
mcview == <<pc, loc, budget, own, inreg, alone, bad, memvars>>

\* locals (names as in the code where possible)
\*  push: hp head_prev, mp my_prev, st stamp, lk link
\*  remove: pv prev, nx next, la last, ms my_stamp, pp prev_prev, ps prev_stamp, np next_prev, ns next_stamp, pn prev_next, mode which list
\*  mark_next: mb block, mst stamp, mret return site;  save_next: nps;  update_tail_stamp: us stamp, ul last, ulp last_prev, uls last_stamp, uts tail_stamp
L0 == [hp |-> NullP, mp |-> NullP, st |-> 0, lk |-> NullP,
       pv |-> NullP, nx |-> NullP, la |-> NullP, ms |-> 0, pp |-> NullP, ps |-> 0, np |-> NullP, ns |-> 0, pn |-> NullP, mode |-> "none",
       mb |-> NullP, mst |-> 0, mret |-> "none", nps |-> 0, us |-> 0, ul |-> NullP, ulp |-> NullP, uls |-> 0, uts |-> 0, tmp |-> NullP]

Init == /\ MemInit
        /\ pc = [t \in Threads |-> "idle"]
        /\ loc = [t \in Threads |-> L0]
        /\ budget = [t \in Threads |-> IF t = 0 THEN MaxOps0 ELSE MaxOps]
        /\ own = [t \in Threads |-> IF Exits THEN NIL ELSE t]   \* the control block of thread t (thread_block_list hands out free records)
        /\ inreg = [t \in Threads |-> 0]         \* the stamp of t's block while t is inside its region (set by the inserting CAS, cleared when remove starts)
        /\ alone = [t \in Threads |-> FALSE]     \* ghost of NoLostTail
        /\ wasLast = [t \in Threads |-> FALSE]   \* result of t's latest remove
        /\ bad = "ok"
        /\ last = [t |-> -1, k |-> "init", lab |-> "init", v |-> 0, ok |-> 1, n |-> 0]

Acc(t, k, lab, v, ok) == last' = [t |-> t, k |-> k, lab |-> lab, v |-> v, ok |-> ok, n |-> last.n + 1]
Fail(msg) == bad' = IF bad = "ok" THEN msg ELSE bad
UG == UNCHANGED <<budget, own, inreg, alone, wasLast>>
B(t) == own[t]

\* ---------------------------------------------------------------- control flow between accesses
\* each operator maps the locals l of thread t (block t) to <<next label, locals, assertion message or "ok">>
\* the start of a loop iteration: everything loaded in the previous iteration is dead
Dead(l) == [l EXCEPT !.pp = NullP, !.ps = 0, !.np = NullP, !.ns = 0, !.pn = NullP, !.mb = NullP, !.mst = 0, !.mret = "none", !.nps = 0, !.lk = NullP]
Top(l0) == LET l == Dead(l0) IN
           IF l.mode = "prev" THEN (IF l.nx.p = l.pv.p THEN <<"f_ldnextb", l, "ok">> ELSE <<"f_ldpp", l, "ok">>)
           ELSE <<"n_ldnp", l, "ok">>
\* remove_from_prev_list returned (fully_removed or not)
PrevListDone(l, fully) == IF fully THEN <<"r_ldstamp", L0, "ok">> ELSE <<"n_ldms", [Dead(l) EXCEPT !.mode = "next", !.la = NullP], "ok">>
NextListDone(l) == <<"r_ldstamp", L0, "ok">>
\* next carries a flagged stamp: step back to last, or forward along next->next
SkipFlagged(l) == IF l.la.p # NIL THEN Top([l EXCEPT !.nx = l.la, !.la = NullP])
                  ELSE <<IF l.mode = "prev" THEN "f_ldnn" ELSE "n_ldnn", l, "ok">>
\* remove_or_skip_marked_block and what follows it in the two loops
AfterSkipCheck(t, l) ==
  IF Marked(l.np)
    THEN IF l.la.p # NIL
           THEN <<"m_ldlink", [l EXCEPT !.mb = l.nx, !.mst = l.ns, !.mret = "k"], IF Marked(l.nx) THEN "assert: next is marked in remove_or_skip_marked_block" ELSE "ok">>
           ELSE <<"k_ldnn", l, "ok">>
  ELSE IF l.mode = "prev"
    THEN IF l.np.p # B(t) THEN <<"s_ldst", l, "ok">> ELSE <<"f_cas", l, "ok">>
    ELSE IF l.np.p # l.pv.p THEN <<"s_ldst", l, "ok">>
         ELSE IF l.ns <= l.ms \/ l.pn.p = l.nx.p THEN NextListDone(l)
         ELSE <<"n_ldnp3", l, "ok">>
\* save_next_as_last_and_move_next_to_next_prev: the move itself
MoveOn(l) == Top([l EXCEPT !.la = l.nx, !.nx = l.np])
\* mark_next returned
MarkNextDone(l, res) ==
  IF l.mret = "f" THEN (IF res THEN <<"f_ldprev", l, "ok">> ELSE PrevListDone(l, TRUE))
  ELSE IF res THEN <<"k_ldlp", l, "ok">> ELSE Top([l EXCEPT !.nx = l.la, !.la = NullP])

Set(t, r) == /\ pc' = [pc EXCEPT ![t] = r[1]]
             /\ loc' = [loc EXCEPT ![t] = r[2]]
             /\ bad' = IF bad = "ok" /\ r[3] # "ok" THEN r[3] ELSE bad

\* a load of location x with order label lab; K maps the value read to <<label, locals, msg>>
\* an access through a null pointer (only reachable when a stale value was read): the thread stops, Asserts reports it
NullDeref(t, at) == /\ bad' = IF bad = "ok" THEN "null pointer dereferenced at " \o at ELSE bad
                    /\ pc' = [pc EXCEPT ![t] = "crashed"]
                    /\ UNCHANGED <<loc, last, memvars>>
LoadStep(t, at, x, lab, K(_)) ==
  /\ pc[t] = at
  /\ IF x[2] = NIL THEN NullDeref(t, at)
     ELSE \E i \in Readable(t, x, Ord[lab]) :
            /\ Load(t, x, Ord[lab], i)
            /\ Set(t, K(ValAt(x, i)))
            /\ Acc(t, "ld", at, ValAt(x, i), 1)
  /\ UG
\* compare-and-swap; KS / KF: continuation on success / failure (KF gets the value found)
CasStep(t, at, x, exp, new, lab, labf, KS, KF(_)) ==
  /\ pc[t] = at
  /\ IF x[2] = NIL THEN NullDeref(t, at)
     ELSE IF Latest(x) = exp
       THEN /\ Rmw(t, x, new, Ord[lab]) /\ Set(t, KS) /\ Acc(t, "cas", at, exp, 1)     \* observed: the value read
       ELSE /\ CasFail(t, x, Ord[labf]) /\ Set(t, KF(Latest(x))) /\ Acc(t, "cas", at, Latest(x), 0)

\* ---------------------------------------------------------------- client
FreeBlocks == ThreadsDef \ {own[u] : u \in Threads}
Enter(t) == /\ pc[t] = "idle" /\ budget[t] > 0 /\ inreg[t] = 0
            /\ budget' = [budget EXCEPT ![t] = @ - 1]
            /\ IF own[t] # NIL THEN UNCHANGED own ELSE \E b \in FreeBlocks : own' = [own EXCEPT ![t] = b]
            /\ pc' = [pc EXCEPT ![t] = "p_ldn"] /\ loc' = [loc EXCEPT ![t] = L0]
            /\ alone' = [u \in Threads |-> FALSE]
            /\ Acc(t, "call", "push", 0, 1)
            /\ UNCHANGED <<inreg, wasLast, bad, memvars>>
\* the thread ends: its control block is abandoned and may be adopted by a thread that starts later
ExitT(t) == /\ Exits /\ pc[t] = "idle" /\ inreg[t] = 0 /\ own[t] # NIL
            /\ own' = [own EXCEPT ![t] = NIL]
            /\ Acc(t, "call", "exit", 0, 1)
            /\ UNCHANGED <<pc, loc, budget, inreg, alone, wasLast, bad, memvars>>
Leave(t) == /\ pc[t] = "idle" /\ inreg[t] # 0
            /\ inreg' = [inreg EXCEPT ![t] = 0]
            /\ alone' = [alone EXCEPT ![t] = \A u \in Threads \ {t} : pc[u] = "idle" /\ inreg[u] = 0]
            /\ pc' = [pc EXCEPT ![t] = "r_ldprev"] /\ loc' = [loc EXCEPT ![t] = L0]
            /\ Acc(t, "call", "remove", 0, 1)
            /\ UNCHANGED <<budget, own, wasLast, bad, memvars>>

\* ---------------------------------------------------------------- push(block)
\* make_clean_marked(head, block->next) reads block->next, (1) stores
p_ldn(t) == LoadStep(t, "p_ldn", NEXT(B(t)), "rlx", LAMBDA v : <<"p_stn", [loc[t] EXCEPT !.tmp = v], "ok">>)
p_stn(t) == /\ pc[t] = "p_stn"
            /\ Store(t, NEXT(B(t)), CleanMarked(HEADB, loc[t].tmp), Ord["p_stn"])
            /\ Set(t, <<"p_ldhp", [loc[t] EXCEPT !.tmp = NullP], "ok">>) /\ Acc(t, "st", "p_stn", CleanMarked(HEADB, loc[t].tmp), 1) /\ UG
p_ldhp(t) == LoadStep(t, "p_ldhp", PREV(HEADB), "p_ldhp", LAMBDA v : <<"p_ldhp2", [loc[t] EXCEPT !.hp = v], "ok">>)
p_ldhp2(t) == LoadStep(t, "p_ldhp2", PREV(HEADB), "p_ldhp2",
                LAMBDA v : IF v # loc[t].hp THEN <<"p_ldhp2", [loc[t] EXCEPT !.hp = v], IF Marked(loc[t].hp) THEN "assert: head must never be marked" ELSE "ok">>
                           ELSE <<"p_faa", loc[t], IF Marked(loc[t].hp) THEN "assert: head must never be marked" ELSE "ok">>)
\* (2)
p_faa(t) == /\ pc[t] = "p_faa"
            /\ LET s == Latest(STAMP(HEADB)) IN
               /\ Rmw(t, STAMP(HEADB), s + StampInc, Ord["p_faa"])
               /\ Set(t, <<"p_stpend", [loc[t] EXCEPT !.st = s], "ok">>)
               /\ Acc(t, "faa", "p_faa", s, 1)
            /\ UG
\* (3)
p_stpend(t) == /\ pc[t] = "p_stpend"
               /\ Store(t, STAMP(B(t)), loc[t].st - (StampInc - PendingPush), Ord["p_stpend"])
               /\ Set(t, <<IF Recheck THEN "p_ldhp3" ELSE "p_ldprev0", loc[t], "ok">>)
               /\ Acc(t, "st", "p_stpend", loc[t].st - (StampInc - PendingPush), 1) /\ UG
p_ldhp3(t) == LoadStep(t, "p_ldhp3", PREV(HEADB), "p_ldhp3",
                LAMBDA v : IF v # loc[t].hp THEN <<"p_ldhp2", loc[t], "ok">> ELSE <<"p_ldprev0", loc[t], "ok">>)
\* make_clean_marked(head_prev.get(), block->prev), (4)
p_ldprev0(t) == LoadStep(t, "p_ldprev0", PREV(B(t)), "rlx", LAMBDA v : <<"p_stprev", [loc[t] EXCEPT !.mp = CleanMarked(loc[t].hp.p, v)], "ok">>)
p_stprev(t) == /\ pc[t] = "p_stprev"
               /\ Store(t, PREV(B(t)), loc[t].mp, Ord["p_stprev"])
               /\ Set(t, <<"p_cas", loc[t], "ok">>) /\ Acc(t, "st", "p_stprev", loc[t].mp, 1) /\ UG
\* (5) the insertion
p_cas(t) == /\ CasStep(t, "p_cas", PREV(HEADB), loc[t].hp, MakeMarked(B(t), loc[t].hp), "p_cas", "rlx",
                       <<"p_ststamp", loc[t], "ok">>,
                       LAMBDA v : <<"p_ldhp2", [loc[t] EXCEPT !.hp = v], "ok">>)
            /\ inreg' = [inreg EXCEPT ![t] = IF Latest(PREV(HEADB)) = loc[t].hp THEN loc[t].st ELSE 0]
            /\ UNCHANGED <<budget, own, alone, wasLast>>
\* (6)
p_ststamp(t) == /\ pc[t] = "p_ststamp"
                /\ Store(t, STAMP(B(t)), loc[t].st, Ord["p_ststamp"])
                /\ Set(t, <<"p_ldlink", loc[t], "ok">>) /\ Acc(t, "st", "p_ststamp", loc[t].st, 1) /\ UG
\* (7)
PushLinkCheck(t, l) == IF l.lk.p = B(t) \/ Marked(l.lk) THEN <<"idle", L0, "ok">> ELSE <<"p_ldprev", l, "ok">>
p_ldlink(t) == LoadStep(t, "p_ldlink", NEXT(loc[t].mp.p), "p_ldlink", LAMBDA v : PushLinkCheck(t, [loc[t] EXCEPT !.lk = v]))
p_ldprev(t) == LoadStep(t, "p_ldprev", PREV(B(t)), "p_ldprev",
                 LAMBDA v : IF v # loc[t].mp THEN <<"idle", L0, "ok">>
                            ELSE <<"p_casnext", loc[t], IF loc[t].lk.p = TAILB THEN "assert: link.get() != tail" ELSE "ok">>)
\* (8)
p_casnext(t) == /\ CasStep(t, "p_casnext", NEXT(loc[t].mp.p), loc[t].lk, MakeMarked(B(t), loc[t].lk), "p_casnext", "p_casnextf",
                           <<"idle", L0, "ok">>,
                           LAMBDA v : PushLinkCheck(t, [loc[t] EXCEPT !.lk = v]))
                /\ UG

\* ---------------------------------------------------------------- remove(block)
\* set_mark_flag(block->prev, acq_rel) (9), set_mark_flag(block->next, relaxed)
r_ldprev(t) == LoadStep(t, "r_ldprev", PREV(B(t)), "r_ldprev",
                 LAMBDA v : IF Marked(v) THEN <<"r_ldnext", [loc[t] EXCEPT !.pv = v], "ok">> ELSE <<"r_markprev", [loc[t] EXCEPT !.pv = v], "ok">>)
r_markprev(t) == /\ CasStep(t, "r_markprev", PREV(B(t)), loc[t].pv, WithMark(loc[t].pv), "r_markprev", "r_markprevf",
                            <<"r_ldnext", loc[t], "ok">>,
                            LAMBDA v : IF Marked(v) THEN <<"r_ldnext", [loc[t] EXCEPT !.pv = v], "ok">> ELSE <<"r_markprev", [loc[t] EXCEPT !.pv = v], "ok">>)
                 /\ UG
r_ldnext(t) == LoadStep(t, "r_ldnext", NEXT(B(t)), "r_ldnext",
                 LAMBDA v : IF Marked(v) THEN <<"f_ldms", [loc[t] EXCEPT !.nx = v], "ok">> ELSE <<"r_marknext", [loc[t] EXCEPT !.nx = v], "ok">>)
r_marknext(t) == /\ CasStep(t, "r_marknext", NEXT(B(t)), loc[t].nx, WithMark(loc[t].nx), "r_marknext", "r_marknextf",
                            <<"f_ldms", loc[t], "ok">>,
                            LAMBDA v : IF Marked(v) THEN <<"f_ldms", [loc[t] EXCEPT !.nx = v], "ok">> ELSE <<"r_marknext", [loc[t] EXCEPT !.nx = v], "ok">>)
                 /\ UG

\* ---- remove_from_prev_list
f_ldms(t) == LoadStep(t, "f_ldms", STAMP(B(t)), "rlx", LAMBDA v : Top([loc[t] EXCEPT !.ms = v, !.mode = "prev", !.la = NullP]))
\* "the block is already deleted": next = b->next; return false
f_ldnextb(t) == LoadStep(t, "f_ldnextb", NEXT(B(t)), "f_ldnextb", LAMBDA v : PrevListDone([loc[t] EXCEPT !.nx = v], FALSE))
f_ldpp(t) == LoadStep(t, "f_ldpp", PREV(loc[t].pv.p), "f_ldpp", LAMBDA v : <<"f_ldps", [loc[t] EXCEPT !.pp = v], "ok">>)
f_ldps(t) == LoadStep(t, "f_ldps", STAMP(loc[t].pv.p), "f_ldps",
               LAMBDA v : LET l == [loc[t] EXCEPT !.ps = v] IN
                          IF v > l.ms \/ HasNotInList(v) THEN PrevListDone(l, TRUE)
                          ELSE IF Marked(l.pp)
                                 THEN <<"m_ldlink", [l EXCEPT !.mb = l.pv, !.mst = v, !.mret = "f"], IF Flagged(v) THEN "assert: mark_next with a flagged stamp" ELSE "ok">>
                          ELSE <<"f_ldnp", l, "ok">>)
\* (17)
f_ldprev(t) == LoadStep(t, "f_ldprev", PREV(loc[t].pv.p), "f_ldprev", LAMBDA v : Top([loc[t] EXCEPT !.pv = v]))
\* (18), (19), reload
f_ldnp(t) == LoadStep(t, "f_ldnp", PREV(loc[t].nx.p), "f_ldnp", LAMBDA v : <<"f_ldns", [loc[t] EXCEPT !.np = v], "ok">>)
f_ldns(t) == LoadStep(t, "f_ldns", STAMP(loc[t].nx.p), "f_ldns", LAMBDA v : <<"f_ldnp2", [loc[t] EXCEPT !.ns = v], "ok">>)
f_ldnp2(t) == LoadStep(t, "f_ldnp2", PREV(loc[t].nx.p), "rlx",
                LAMBDA v : LET l == loc[t] IN
                           IF v # l.np THEN Top(l)
                           ELSE IF l.ns < l.ms THEN <<"f_ldnextb", l, "ok">>
                           ELSE IF Flagged(l.ns) THEN SkipFlagged(l)
                           ELSE AfterSkipCheck(t, l))
\* (20)
f_ldnn(t) == LoadStep(t, "f_ldnn", NEXT(loc[t].nx.p), "f_ldnn", LAMBDA v : Top([loc[t] EXCEPT !.nx = v]))
\* (21) unlink b from the prev list
f_cas(t) == /\ CasStep(t, "f_cas", PREV(loc[t].nx.p), loc[t].np, MakeMarked(loc[t].pv.p, loc[t].np), "f_cas", "rlx",
                       PrevListDone(loc[t], FALSE),
                       LAMBDA v : Top([loc[t] EXCEPT !.np = v]))
            /\ UG

\* ---- remove_from_next_list
n_ldms(t) == LoadStep(t, "n_ldms", STAMP(B(t)), "rlx", LAMBDA v : <<"n_ldnp", [loc[t] EXCEPT !.ms = v], "ok">>)
\* (22), (23), reload
n_ldnp(t) == LoadStep(t, "n_ldnp", PREV(loc[t].nx.p), "n_ldnp", LAMBDA v : <<"n_ldns", [loc[t] EXCEPT !.np = v], "ok">>)
n_ldns(t) == LoadStep(t, "n_ldns", STAMP(loc[t].nx.p), "n_ldns", LAMBDA v : <<"n_ldnp2", [loc[t] EXCEPT !.ns = v], "ok">>)
n_ldnp2(t) == LoadStep(t, "n_ldnp2", PREV(loc[t].nx.p), "rlx",
                LAMBDA v : LET l == loc[t] IN
                           IF v # l.np THEN Top(l)
                           ELSE IF Flagged(l.ns) THEN SkipFlagged(l)
                           ELSE <<"n_ldpn", l, "ok">>)
\* (24)
n_ldnn(t) == LoadStep(t, "n_ldnn", NEXT(loc[t].nx.p), "n_ldnn", LAMBDA v : Top([loc[t] EXCEPT !.nx = v]))
\* (25)
n_ldpn(t) == LoadStep(t, "n_ldpn", NEXT(loc[t].pv.p), "n_ldpn", LAMBDA v : <<"n_ldps", [loc[t] EXCEPT !.pn = v], "ok">>)
n_ldps(t) == LoadStep(t, "n_ldps", STAMP(loc[t].pv.p), "n_ldps",
               LAMBDA v : LET l == [loc[t] EXCEPT !.ps = v]
                              msg == IF l.pv.p = B(t) /\ ~(v > l.ms) THEN "assert: prev == removed with a stamp that is not newer" ELSE "ok" IN
                          IF v > l.ms \/ HasNotInList(v) THEN <<"r_ldstamp", L0, msg>>
                          ELSE IF Marked(l.pn) THEN <<"n_ldprev", l, msg>>
                          ELSE IF l.nx.p = l.pv.p THEN <<"r_ldstamp", L0, msg>>
                          ELSE LET r == AfterSkipCheck(t, l) IN <<r[1], r[2], IF msg # "ok" THEN msg ELSE r[3]>>)
\* (26)
n_ldprev(t) == LoadStep(t, "n_ldprev", PREV(loc[t].pv.p), "n_ldprev", LAMBDA v : Top([loc[t] EXCEPT !.pv = v]))
n_ldnp3(t) == LoadStep(t, "n_ldnp3", PREV(loc[t].nx.p), "rlx",
                LAMBDA v : IF v = loc[t].np THEN <<"n_cas", loc[t], "ok">> ELSE Top(loc[t]))
\* (27)
n_cas(t) == /\ CasStep(t, "n_cas", NEXT(loc[t].pv.p), loc[t].pn, MakeMarked(loc[t].nx.p, loc[t].pn), "n_cas", "rlx",
                       <<"n_ldnn2", loc[t], "ok">>,
                       LAMBDA v : Top([loc[t] EXCEPT !.pn = v]))
            /\ UG
n_ldnn2(t) == LoadStep(t, "n_ldnn2", NEXT(loc[t].nx.p), "rlx", LAMBDA v : IF Marked(v) THEN Top(loc[t]) ELSE NextListDone(loc[t]))

\* ---- remove_or_skip_marked_block (the part with accesses)
\* last->prev.load() == next, (28)
k_ldlp(t) == LoadStep(t, "k_ldlp", PREV(loc[t].la.p), "rlx",
               LAMBDA v : IF v = loc[t].nx THEN <<"k_cas", loc[t], "ok">> ELSE Top([loc[t] EXCEPT !.nx = loc[t].la, !.la = NullP]))
k_cas(t) == /\ CasStep(t, "k_cas", PREV(loc[t].la.p), loc[t].nx, MakeMarked(loc[t].np.p, loc[t].nx), "k_cas", "rlx",
                       Top([loc[t] EXCEPT !.nx = loc[t].la, !.la = NullP]),
                       LAMBDA v : Top([loc[t] EXCEPT !.nx = loc[t].la, !.la = NullP]))
            /\ UG
\* (29)
k_ldnn(t) == LoadStep(t, "k_ldnn", NEXT(loc[t].nx.p), "k_ldnn", LAMBDA v : Top([loc[t] EXCEPT !.nx = v]))

\* ---- save_next_as_last_and_move_next_to_next_prev
\* (30)
s_ldst(t) == LoadStep(t, "s_ldst", STAMP(loc[t].np.p), "s_ldst",
               LAMBDA v : IF HasPending(v) /\ ClearPending THEN <<"s_ldnp", [loc[t] EXCEPT !.nps = v], "ok">> ELSE MoveOn(loc[t]))
s_ldnp(t) == LoadStep(t, "s_ldnp", PREV(loc[t].nx.p), "rlx",
               LAMBDA v : IF v = loc[t].np
                            THEN <<"s_cas", loc[t], IF HasNotInList(loc[t].nps) THEN "assert: pending stamp with NotInList" ELSE "ok">>
                            ELSE MoveOn(loc[t]))
s_cas(t) == /\ CasStep(t, "s_cas", STAMP(loc[t].np.p), loc[t].nps, loc[t].nps + (StampInc - PendingPush), "s_cas", "rlx",
                       MoveOn(loc[t]),
                       LAMBDA v : IF v # loc[t].nps + (StampInc - PendingPush) THEN Top(loc[t]) ELSE MoveOn(loc[t]))
            /\ UG

\* ---- mark_next(block, stamp)
\* (31)
m_ldlink(t) == LoadStep(t, "m_ldlink", NEXT(loc[t].mb.p), "m_ldlink", LAMBDA v : <<"m_ldst", [loc[t] EXCEPT !.lk = v], "ok">>)
m_ldst(t) == LoadStep(t, "m_ldst", STAMP(loc[t].mb.p), "rlx",
               LAMBDA v : IF v # loc[t].mst /\ MarkChecksStamp THEN MarkNextDone(loc[t], FALSE)
                          ELSE IF Marked(loc[t].lk) THEN MarkNextDone(loc[t], TRUE)
                          ELSE <<"m_cas", loc[t], "ok">>)
\* (32)
m_cas(t) == /\ CasStep(t, "m_cas", NEXT(loc[t].mb.p), loc[t].lk, WithMark(loc[t].lk), "m_cas", "m_casf",
                       MarkNextDone(loc[t], TRUE),
                       LAMBDA v : <<"m_ldst", [loc[t] EXCEPT !.lk = v], "ok">>)
            /\ UG

\* ---- the end of remove
r_ldstamp(t) == LoadStep(t, "r_ldstamp", STAMP(B(t)), "rlx",
                  LAMBDA v : <<"r_ststamp", [loc[t] EXCEPT !.us = v], IF Flagged(v) THEN "assert: flagged stamp at the end of remove" ELSE "ok">>)
r_ststamp(t) == /\ pc[t] = "r_ststamp"
                /\ Store(t, STAMP(B(t)), loc[t].us + NotInList, "rlx")
                /\ Set(t, <<"r_ldprev2", loc[t], "ok">>) /\ Acc(t, "st", "r_ststamp", loc[t].us + NotInList, 1) /\ UG
Finish(t, wl) == /\ wasLast' = [wasLast EXCEPT ![t] = wl]
                 /\ bad' = IF bad = "ok" /\ alone[t] /\ ~wl THEN "a thread that left all by itself was not told that it was the last one" ELSE bad
r_ldprev2(t) == /\ pc[t] = "r_ldprev2"
                /\ \E i \in Readable(t, PREV(B(t)), "rlx") :
                     /\ Load(t, PREV(B(t)), "rlx", i)
                     /\ Acc(t, "ld", "r_ldprev2", ValAt(PREV(B(t)), i), 1)
                     /\ IF ValAt(PREV(B(t)), i).p = TAILB
                          THEN /\ pc' = [pc EXCEPT ![t] = "u_ldlast"] /\ loc' = [loc EXCEPT ![t].us = @ + StampInc]
                               /\ UNCHANGED <<wasLast, bad>>
                          ELSE /\ pc' = [pc EXCEPT ![t] = "idle"] /\ loc' = [loc EXCEPT ![t] = L0] /\ Finish(t, FALSE)
                /\ UNCHANGED <<budget, own, inreg, alone>>

\* ---- update_tail_stamp(stamp)
\* (14), (15)
u_ldlast(t) == LoadStep(t, "u_ldlast", NEXT(TAILB), "u_ldlast", LAMBDA v : <<"u_ldlp", [loc[t] EXCEPT !.ul = v], "ok">>)
u_ldlp(t) == LoadStep(t, "u_ldlp", PREV(loc[t].ul.p), "u_ldlp", LAMBDA v : <<"u_ldls", [loc[t] EXCEPT !.ulp = v], "ok">>)
u_ldls(t) == LoadStep(t, "u_ldls", STAMP(loc[t].ul.p), "rlx",
               LAMBDA v : IF v > loc[t].us /\ loc[t].ulp.p = TAILB THEN <<"u_ldlast2", [loc[t] EXCEPT !.uls = v], "ok">>
                          ELSE <<"u_ldts", loc[t], "ok">>)
u_ldlast2(t) == LoadStep(t, "u_ldlast2", NEXT(TAILB), "rlx",
                  LAMBDA v : LET l == loc[t] IN
                             IF v # l.ul THEN <<"u_ldts", l, "ok">>
                             ELSE LET msg == IF Flagged(l.uls) THEN "assert: flagged stamp of the last block in update_tail_stamp" ELSE "ok" IN
                                  IF l.ul.p # HEADB THEN <<"u_ldts", [l EXCEPT !.us = l.uls], msg>>
                                  ELSE IF ~HeadBump THEN <<"u_ldts", [l EXCEPT !.us = l.uls], msg>>
                                  ELSE IF l.us < l.uls - StampInc THEN <<"u_cashead", l, msg>>
                                  ELSE <<"u_ldts", l, msg>>)
u_cashead(t) == /\ CasStep(t, "u_cashead", PREV(HEADB), loc[t].ulp, MakeMarked(loc[t].ulp.p, loc[t].ulp), "u_cashead", "rlx",
                           <<"u_ldts", [loc[t] EXCEPT !.us = loc[t].uls], "ok">>,
                           LAMBDA v : <<"u_ldts", loc[t], "ok">>)
                /\ UG
UDone(t, l) == IF l.uts < l.us THEN <<"u_cas", l, "ok">> ELSE <<"idle", L0, "ok">>
u_ldts(t) == /\ pc[t] = "u_ldts"
             /\ \E i \in Readable(t, STAMP(TAILB), "rlx") :
                  /\ Load(t, STAMP(TAILB), "rlx", i)
                  /\ Acc(t, "ld", "u_ldts", ValAt(STAMP(TAILB), i), 1)
                  /\ LET r == UDone(t, [loc[t] EXCEPT !.uts = ValAt(STAMP(TAILB), i)]) IN
                     /\ pc' = [pc EXCEPT ![t] = r[1]] /\ loc' = [loc EXCEPT ![t] = r[2]]
                     /\ IF r[1] = "idle" THEN Finish(t, TRUE) ELSE UNCHANGED <<wasLast, bad>>
             /\ UNCHANGED <<budget, own, inreg, alone>>
\* (16)
u_cas(t) == /\ pc[t] = "u_cas"
            /\ LET x == STAMP(TAILB) IN
               IF Latest(x) = loc[t].uts
                 THEN /\ Rmw(t, x, loc[t].us, Ord["u_cas"]) /\ Acc(t, "cas", "u_cas", loc[t].uts, 1)
                      /\ pc' = [pc EXCEPT ![t] = "idle"] /\ loc' = [loc EXCEPT ![t] = L0] /\ Finish(t, TRUE)
                 ELSE /\ CasFail(t, x, "rlx") /\ Acc(t, "cas", "u_cas", Latest(x), 0)
                      /\ LET r == UDone(t, [loc[t] EXCEPT !.uts = Latest(x)]) IN
                         /\ pc' = [pc EXCEPT ![t] = r[1]] /\ loc' = [loc EXCEPT ![t] = r[2]]
                         /\ IF r[1] = "idle" THEN Finish(t, TRUE) ELSE UNCHANGED <<wasLast, bad>>
            /\ UNCHANGED <<budget, own, inreg, alone>>

ThreadStep(t) ==
  \/ Enter(t) \/ Leave(t) \/ ExitT(t)
  \/ p_ldn(t) \/ p_stn(t) \/ p_ldhp(t) \/ p_ldhp2(t) \/ p_faa(t) \/ p_stpend(t) \/ p_ldhp3(t) \/ p_ldprev0(t) \/ p_stprev(t) \/ p_cas(t)
  \/ p_ststamp(t) \/ p_ldlink(t) \/ p_ldprev(t) \/ p_casnext(t)
  \/ r_ldprev(t) \/ r_markprev(t) \/ r_ldnext(t) \/ r_marknext(t)
  \/ f_ldms(t) \/ f_ldnextb(t) \/ f_ldpp(t) \/ f_ldps(t) \/ f_ldprev(t) \/ f_ldnp(t) \/ f_ldns(t) \/ f_ldnp2(t) \/ f_ldnn(t) \/ f_cas(t)
  \/ n_ldms(t) \/ n_ldnp(t) \/ n_ldns(t) \/ n_ldnp2(t) \/ n_ldnn(t) \/ n_ldpn(t) \/ n_ldps(t) \/ n_ldprev(t) \/ n_ldnp3(t) \/ n_cas(t) \/ n_ldnn2(t)
  \/ k_ldlp(t) \/ k_cas(t) \/ k_ldnn(t) \/ s_ldst(t) \/ s_ldnp(t) \/ s_cas(t)
  \/ m_ldlink(t) \/ m_ldst(t) \/ m_cas(t)
  \/ r_ldstamp(t) \/ r_ststamp(t) \/ r_ldprev2(t)
  \/ u_ldlast(t) \/ u_ldlp(t) \/ u_ldls(t) \/ u_ldlast2(t) \/ u_cashead(t) \/ u_ldts(t) \/ u_cas(t)
Next == \E t \in Threads : ThreadStep(t)
Spec == Init /\ [][Next]_vars

\* ---------------------------------------------------------------- properties
TailStamp == Latest(STAMP(TAILB))
\* C01: nothing retired while t is inside (stamp of the retired node = head stamp > inreg[t]) can be reclaimed (node stamp <= tail stamp)
TailSafe == \A t \in Threads : inreg[t] # 0 => TailStamp <= inreg[t]
Asserts == bad = "ok"
NoNullDeref == \A t \in Threads : pc[t] # "crashed"
Quiet == \A t \in Threads : pc[t] = "idle" /\ inreg[t] = 0
\* with nobody inside: head->prev is tail, and the tail stamp has caught up with the stamp handed out last
QuiescentShape == Quiet => /\ Latest(PREV(HEADB)).p = TAILB
                           /\ TailStamp >= Latest(STAMP(HEADB)) - StampInc
\* with everybody back outside or inside (no operation in progress) the prev list from head is exactly the blocks inside, newest first
RECURSIVE PrevChain(_, _)
PrevChain(b, n) == IF b = TAILB \/ n = 0 THEN <<>> ELSE <<b>> \o PrevChain(Latest(PREV(b)).p, n - 1)
NoOp == \A t \in Threads : pc[t] = "idle"
InsideSet == {own[t] : t \in {u \in Threads : inreg[u] # 0}}
StampOfBlock(b) == LET t == CHOOSE u \in Threads : own[u] = b IN inreg[t]
ChainOk == NoOp => LET c == PrevChain(Latest(PREV(HEADB)).p, NT + 1) IN
                   /\ {c[i] : i \in 1 .. Len(c)} = InsideSet /\ Len(c) = Cardinality(InsideSet)
                   /\ \A i \in 1 .. Len(c) - 1 : StampOfBlock(c[i]) > StampOfBlock(c[i + 1])
=============================================================================
