---- MODULE StampItQueueSolo ----
(***************************************************************************)
(* C16 for the impl spec StampItQueue: solo mode.  From ANY reachable state (other   *)
(* threads stopped wherever they are, in the middle of their operations)   *)
(* TLC may pick a thread that is inside an operation documented as         *)
(* lock-free; from then on only that thread takes steps.  It must return   *)
(* within Bound of its own steps (SoloBound) and is never disabled, i.e.   *)
(* it never waits for another thread (SoloNeverStuck).  A spin loop in the *)
(* code is a pc loop in the spec, so waiting shows as exceeding Bound.     *)
(***************************************************************************)
EXTENDS StampItQueue
CONSTANT Bound
VARIABLES solo, sc
svars == <<vars, solo, sc>>
sview == <<mcview, solo, sc>>
SInit == Init /\ solo = -1 /\ sc = 0
LockFreeOp(t) == TRUE
SoloStep(t) == ThreadStep(t)
SNext == \/ solo = -1 /\ Next /\ UNCHANGED <<solo, sc>>
         \/ solo = -1 /\ \E t \in Threads : pc[t] # "idle" /\ LockFreeOp(t) /\ solo' = t /\ sc' = 0 /\ UNCHANGED vars
         \/ solo # -1 /\ pc[solo] # "idle" /\ SoloStep(solo) /\ sc' = sc + 1 /\ UNCHANGED solo
SSpec == SInit /\ [][SNext]_svars
SoloBound == sc <= Bound
SoloNeverStuck == (solo # -1 /\ pc[solo] # "idle") => ENABLED SoloStep(solo)
====
