--------------------------- MODULE ThreadBlockList ---------------------------
(***************************************************************************)
(* xenium::reclamation::detail::thread_block_list - the list of per-thread *)
(* records every reclaimer keeps (hazard pointer / era blocks, epoch and    *)
(* stamp control blocks) - one action per atomic access.                   *)
(*                                                                         *)
(* Records are never removed.  A thread that starts using a reclaimer      *)
(* walks the list from head and adopts the first record whose state is     *)
(* free (CAS free -> active); if there is none it allocates a record and   *)
(* pushes it (CAS on head).  A thread that exits stores free into its      *)
(* record.  next_entry is a PLAIN field written before the record is       *)
(* published and read by every walker.                                     *)
(* The list also carries the retired nodes exited threads could not        *)
(* reclaim (hazard pointers / eras): abandon_retired_nodes pushes a whole  *)
(* chain (links are plain), adopt_abandoned_retired_nodes takes everything *)
(* with an exchange.                                                       *)
(*                                                                         *)
(* Threads live several lives (generations): start, own a record, retire   *)
(* a few nodes, optionally adopt what others abandoned, abandon their own  *)
(* rest, release the record.  C17: records are exclusive, their number is  *)
(* bounded by the peak number of simultaneously live threads, no retired   *)
(* node is lost or duplicated on its way through the abandoned list.       *)
(***************************************************************************)
EXTENDS Mem, TLC

CONSTANTS NT, NEntries, NNodes, Lives, MaxRetire, Ord,
          AdoptCas,     \* TRUE: a free record is adopted with a CAS (code); FALSE: with a plain store after the check
          ReuseFree     \* TRUE: free records are adopted before a new one is allocated (code); FALSE: always allocate

OrdCode == [a_ldh |-> "acq", a_ldst |-> "rlx", a_cas |-> "acq", a_init |-> "rlx", a_ldh2 |-> "rlx", a_push |-> "rel", casf |-> "rlx",
            x_rel |-> "rel", b_ld |-> "rlx", b_cas |-> "rel", d_ld |-> "rlx", d_xchg |-> "acq"]

ThreadsDef == 0 .. NT - 1
Entries == 1 .. NEntries
Nodes == 1 .. NNodes
HEADL == <<"head", 0>>
ABN == <<"abn", 0>>
RST(e) == <<"state", e>>
NEXTE(e) == <<"nexte", e>>
NXT(n) == <<"nxt", n>>
PAY(e) == <<"pay", e>>     \* the plain members of a record that its owner reads and writes and that adoption does not reset (hazard_eras: last_hazard_era, guard counts ...)
LocsDef == {HEADL, ABN} \cup {RST(e) : e \in Entries} \cup {NEXTE(e) : e \in Entries} \cup {NXT(n) : n \in Nodes} \cup {PAY(e) : e \in Entries}
           \cup (IF Weak THEN {RT(NEXTE(e), u) : e \in Entries, u \in ThreadsDef} \cup {RT(NXT(n), u) : n \in Nodes, u \in ThreadsDef}
                               \cup {RT(PAY(e), u) : e \in Entries, u \in ThreadsDef} ELSE {})
InitValDef(x) == IF x[1] = "state" THEN "none" ELSE 0

VARIABLES pc, loc, lives, own, used, usedn, mine, livecnt, peak, bad
vars == <<pc, loc, lives, own, used, usedn, mine, livecnt, peak, bad, memvars>>
mcview == <<pc, loc, lives, own, used, usedn, mine, livecnt, peak, bad, memvars>>

\* locals: cur record being inspected, e new record, h head snapshot, first / last of the chain being abandoned, got adopted chain head, k counter
L0 == [cur |-> 0, e |-> 0, h |-> 0, first |-> 0, lastn |-> 0, got |-> 0, k |-> 0]
Init == /\ MemInit
        /\ pc = [t \in Threads |-> "idle"]
        /\ loc = [t \in Threads |-> L0]
        /\ lives = [t \in Threads |-> Lives]
        /\ own = [t \in Threads |-> 0]            \* the record thread t owns
        /\ used = 0 /\ usedn = 0                  \* records / nodes allocated so far
        /\ mine = [t \in Threads |-> <<>>]        \* t's local retire list (sequence of nodes)
        /\ livecnt = 0 /\ peak = 0
        /\ bad = "ok"

Goto(t, l) == pc' = [pc EXCEPT ![t] = l]
UA == UNCHANGED <<lives, own, used, usedn, mine, livecnt, peak, bad>>

\* ---------------------------------------------------------------- acquire_entry
Start(t) == /\ pc[t] = "idle" /\ lives[t] > 0
            /\ lives' = [lives EXCEPT ![t] = @ - 1]
            /\ livecnt' = livecnt + 1 /\ peak' = IF livecnt + 1 > peak THEN livecnt + 1 ELSE peak
            /\ loc' = [loc EXCEPT ![t] = L0]
            /\ Goto(t, IF ReuseFree THEN "a_ldh" ELSE "a_new")
            /\ UNCHANGED <<own, used, usedn, mine, bad, memvars>>
\* (7)
a_ldh(t) == /\ pc[t] = "a_ldh"
            /\ \E i \in Readable(t, HEADL, Ord["a_ldh"]) :
                 /\ Load(t, HEADL, Ord["a_ldh"], i)
                 /\ loc' = [loc EXCEPT ![t].cur = ValAt(HEADL, i)]
                 /\ Goto(t, IF ValAt(HEADL, i) = 0 THEN "a_new" ELSE "a_ldst")
            /\ UA
a_ldst(t) == /\ pc[t] = "a_ldst"
             /\ LET x == RST(loc[t].cur) IN
                \E i \in Readable(t, x, Ord["a_ldst"]) :
                  /\ Load(t, x, Ord["a_ldst"], i)
                  /\ Goto(t, IF ValAt(x, i) = "free" THEN "a_cas" ELSE "a_next")
             /\ UNCHANGED loc /\ UA
\* (2)
a_cas(t) == /\ pc[t] = "a_cas"
            /\ LET x == RST(loc[t].cur) IN
               IF AdoptCas
                 THEN IF Latest(x) = "free"
                        THEN /\ Rmw(t, x, "active", Ord["a_cas"]) /\ own' = [own EXCEPT ![t] = loc[t].cur] /\ Goto(t, "use")
                        ELSE /\ CasFail(t, x, Ord["casf"]) /\ UNCHANGED own /\ Goto(t, "a_next")
                 ELSE /\ Store(t, x, "active", "rlx") /\ own' = [own EXCEPT ![t] = loc[t].cur] /\ Goto(t, "use")
            /\ bad' = IF bad = "ok" /\ own'[t] # 0 /\ \E u \in Threads \ {t} : own[u] = own'[t] THEN "two threads own the same record" ELSE bad
            /\ UNCHANGED <<loc, lives, used, usedn, mine, livecnt, peak>>
\* result = result->next_entry (plain)
a_next(t) == /\ pc[t] = "a_next"
             /\ LET x == NEXTE(loc[t].cur) IN
                /\ PlainRd(t, x)
                /\ loc' = [loc EXCEPT ![t].cur = Latest(x)]
                /\ Goto(t, IF Latest(x) = 0 THEN "a_new" ELSE "a_ldst")
             /\ UA
\* new T(); state.store(initial_state, relaxed)
a_new(t) == /\ pc[t] = "a_new" /\ used < NEntries
            /\ used' = used + 1
            /\ loc' = [loc EXCEPT ![t].e = used + 1]
            /\ Store(t, RST(used + 1), "active", Ord["a_init"])
            /\ own' = [own EXCEPT ![t] = used + 1]
            /\ Goto(t, "a_ldh2")
            /\ UNCHANGED <<lives, usedn, mine, livecnt, peak, bad>>
a_ldh2(t) == /\ pc[t] = "a_ldh2"
             /\ \E i \in Readable(t, HEADL, Ord["a_ldh2"]) :
                  /\ Load(t, HEADL, Ord["a_ldh2"], i)
                  /\ loc' = [loc EXCEPT ![t].h = ValAt(HEADL, i)]
             /\ Goto(t, "a_setn") /\ UA
a_setn(t) == /\ pc[t] = "a_setn"
             /\ PlainWr(t, NEXTE(loc[t].e), loc[t].h)
             /\ Goto(t, "a_push") /\ UNCHANGED loc /\ UA
\* (6)
a_push(t) == /\ pc[t] = "a_push"
             /\ IF Latest(HEADL) = loc[t].h
                  THEN /\ Rmw(t, HEADL, loc[t].e, Ord["a_push"]) /\ Goto(t, "use") /\ UNCHANGED loc
                  ELSE /\ CasFail(t, HEADL, Ord["casf"]) /\ loc' = [loc EXCEPT ![t].h = Latest(HEADL)] /\ Goto(t, "a_setn")
             /\ UA

\* the new owner of a record reads and then writes the record's plain members (what the previous owner left there): ordered after the previous
\* owner's accesses only through release (x_rel) / acquire (a_cas) on the record's state word
p_rd(t) == /\ pc[t] = "use"
           /\ PlainRd(t, PAY(own[t]))
           /\ Goto(t, "use2") /\ UNCHANGED loc /\ UA
p_wr(t) == /\ pc[t] = "use2"
           /\ PlainWr(t, PAY(own[t]), t + 1)
           /\ Goto(t, "work") /\ UNCHANGED loc /\ UA

\* ---------------------------------------------------------------- the thread works: it retires up to MaxRetire nodes it cannot reclaim
Retire(t) == /\ pc[t] = "work" /\ Len(mine[t]) < MaxRetire /\ usedn < NNodes
             /\ usedn' = usedn + 1
             /\ mine' = [mine EXCEPT ![t] = Append(@, usedn + 1)]
             /\ UNCHANGED <<pc, loc, lives, own, used, livecnt, peak, bad, memvars>>
\* scan: adopt_abandoned_retired_nodes (5)
d_ld(t) == /\ pc[t] = "work"
           /\ \E i \in Readable(t, ABN, Ord["d_ld"]) :
                /\ Load(t, ABN, Ord["d_ld"], i)
                /\ Goto(t, IF ValAt(ABN, i) = 0 THEN "work" ELSE "d_xchg")
           /\ UNCHANGED loc /\ UA
d_xchg(t) == /\ pc[t] = "d_xchg"
             /\ loc' = [loc EXCEPT ![t].got = Latest(ABN)]
             /\ Rmw(t, ABN, 0, Ord["d_xchg"])
             /\ Goto(t, IF Latest(ABN) = 0 THEN "work" ELSE "d_walk") /\ UA
\* the adopter walks the chain (plain reads of the links) and takes every node into its own list
d_walk(t) == /\ pc[t] = "d_walk"
             /\ LET n == loc[t].got IN
                /\ PlainRd(t, NXT(n))
                /\ mine' = [mine EXCEPT ![t] = Append(@, n)]
                /\ bad' = IF bad = "ok" /\ \E u \in Threads : \E i \in 1 .. Len(mine[u]) : mine[u][i] = n THEN "a retired node is on two lists" ELSE bad
                /\ loc' = [loc EXCEPT ![t].got = Latest(NXT(n))]
                /\ Goto(t, IF Latest(NXT(n)) = 0 THEN "work" ELSE "d_walk")
             /\ UNCHANGED <<lives, own, used, usedn, livecnt, peak>>

\* ---------------------------------------------------------------- thread exit: abandon the retired nodes, release the record
StartExit(t) == /\ pc[t] = "work"
                /\ Goto(t, IF mine[t] = <<>> THEN "x_rel" ELSE "b_link")
                /\ loc' = [loc EXCEPT ![t].k = 1]
                /\ UA /\ UNCHANGED memvars
\* the local list is a chain: obj->next ... (plain links, written by the owner)
b_link(t) == /\ pc[t] = "b_link"
             /\ LET k == loc[t].k n == mine[t][k] IN
                IF k < Len(mine[t])
                  THEN /\ PlainWr(t, NXT(n), mine[t][k + 1]) /\ loc' = [loc EXCEPT ![t].k = k + 1] /\ UNCHANGED pc
                  ELSE /\ UNCHANGED memvars /\ loc' = [loc EXCEPT ![t].first = mine[t][1], ![t].lastn = n] /\ Goto(t, "b_ld")
             /\ UA
b_ld(t) == /\ pc[t] = "b_ld"
           /\ \E i \in Readable(t, ABN, Ord["b_ld"]) :
                /\ Load(t, ABN, Ord["b_ld"], i)
                /\ loc' = [loc EXCEPT ![t].h = ValAt(ABN, i)]
           /\ Goto(t, "b_setn") /\ UA
b_setn(t) == /\ pc[t] = "b_setn"
             /\ PlainWr(t, NXT(loc[t].lastn), loc[t].h)
             /\ Goto(t, "b_cas") /\ UNCHANGED loc /\ UA
\* (4)
b_cas(t) == /\ pc[t] = "b_cas"
            /\ IF Latest(ABN) = loc[t].h
                 THEN /\ Rmw(t, ABN, loc[t].first, Ord["b_cas"]) /\ mine' = [mine EXCEPT ![t] = <<>>] /\ Goto(t, "x_rel") /\ UNCHANGED loc
                 ELSE /\ CasFail(t, ABN, Ord["casf"]) /\ loc' = [loc EXCEPT ![t].h = Latest(ABN)] /\ Goto(t, "b_setn") /\ UNCHANGED mine
            /\ UNCHANGED <<lives, own, used, usedn, livecnt, peak, bad>>
\* (1) release_entry
x_rel(t) == /\ pc[t] = "x_rel"
            /\ Store(t, RST(own[t]), "free", Ord["x_rel"])
            /\ own' = [own EXCEPT ![t] = 0]
            /\ livecnt' = livecnt - 1
            /\ Goto(t, "idle")
            /\ UNCHANGED <<loc, lives, used, usedn, mine, peak, bad>>

ThreadStep(t) == \/ p_rd(t) \/ p_wr(t) \/ Start(t) \/ a_ldh(t) \/ a_ldst(t) \/ a_cas(t) \/ a_next(t) \/ a_new(t) \/ a_ldh2(t) \/ a_setn(t) \/ a_push(t)
                 \/ Retire(t) \/ d_ld(t) \/ d_xchg(t) \/ d_walk(t) \/ StartExit(t) \/ b_link(t) \/ b_ld(t) \/ b_setn(t) \/ b_cas(t) \/ x_rel(t)
Next == \E t \in Threads : ThreadStep(t)
Spec == Init /\ [][Next]_vars

\* ---------------------------------------------------------------- properties (C17)
Exclusive == bad = "ok" /\ \A t, u \in Threads : (t # u /\ own[t] # 0) => own[t] # own[u]
\* per-thread bookkeeping is bounded by the peak number of simultaneously live threads
Bounded == used <= peak
\* every retired node is on exactly one list: a thread's local list, or the abandoned chain (reachable from its head), or in transit
Chain == LET RECURSIVE F(_, _) F(n, k) == IF n = 0 \/ k = 0 THEN {} ELSE {n} \cup F(Latest(NXT(n)), k - 1) IN F(Latest(ABN), NNodes)
InTransit == UNION {IF pc[t] = "d_walk" THEN (LET RECURSIVE F(_, _) F(n, k) == IF n = 0 \/ k = 0 THEN {} ELSE {n} \cup F(Latest(NXT(n)), k - 1) IN F(loc[t].got, NNodes)) ELSE {} : t \in Threads}
Local == UNION {{mine[t][i] : i \in 1 .. Len(mine[t])} : t \in Threads}
NoNodeLost == 1 .. usedn = Local \cup Chain \cup InTransit
\* the list of records: every allocated record that was pushed is reachable from head
Reach == LET RECURSIVE F(_, _) F(e, k) == IF e = 0 \/ k = 0 THEN {} ELSE {e} \cup F(Latest(NEXTE(e)), k - 1) IN F(Latest(HEADL), NEntries)
AllReachable == \A e \in 1 .. used : e \in Reach \/ \E t \in Threads : pc[t] \in {"a_ldh2", "a_setn", "a_push"} /\ loc[t].e = e
=============================================================================
