---------------------------- MODULE VyukovBounded ----------------------------
(***************************************************************************)
(* xenium::vyukov_bounded_queue, one action per atomic access of           *)
(* do_try_push / do_try_pop (strong and weak variants).  A ring of Cap     *)
(* cells, each with a sequence number; enqueue_pos / dequeue_pos grow      *)
(* without bound, so the model runs several laps of the ring.              *)
(* Cell payloads are plain locations (data races under Weak = C03).        *)
(***************************************************************************)
EXTENDS Mem, LinMon, Queues, TLC

CONSTANTS NT, Cap, MaxPush, MaxPop, AllowWeak, Ord,
          StrongRecheck    \* TRUE: a strong operation gives up only if the opposite position confirms full/empty (code)

OrdCode == [u_pos |-> "rlx", u_seq |-> "acq", u_cas |-> "rlx", u_pos2 |-> "rlx", u_deq |-> "rlx", u_pub |-> "rel",
            o_pos |-> "rlx", o_seq |-> "acq", o_cas |-> "rlx", o_pos2 |-> "rlx", o_enq |-> "rlx", o_pub |-> "rel", casf |-> "rlx"]

ThreadsDef == 0 .. NT - 1
ENQ == <<"enq", 0>>
DEQ == <<"deq", 0>>
SEQ(i) == <<"seq", i>>
DATA(i) == <<"data", i>>
LocsDef == {ENQ, DEQ} \cup {SEQ(i) : i \in 0 .. Cap - 1} \cup {DATA(i) : i \in 0 .. Cap - 1}
           \cup (IF Weak THEN {RT(DATA(i), u) : i \in 0 .. Cap - 1, u \in ThreadsDef} ELSE {})
InitValDef(x) == IF x[1] = "seq" THEN x[2] ELSE 0

VARIABLES pc, loc, lin, budget, nextv, last
vars == <<pc, loc, lin, budget, nextv, last, memvars>>
mcview == <<pc, loc, lin, budget, nextv, memvars>>

L0 == [pos |-> 0, pos2 |-> 0, seq |-> 0, v |-> 0, weak |-> FALSE]
Init == /\ MemInit
        /\ pc = [t \in Threads |-> "idle"]
        /\ loc = [t \in Threads |-> L0]
        /\ lin = [mon |-> MonInit([QInit EXCEPT !.kind = "bounded", !.cap = Cap]), taken |-> {}, bad |-> "ok"]
        /\ budget = [t \in Threads |-> [push |-> MaxPush, pop |-> MaxPop]]
        /\ nextv = 1
        /\ last = [t |-> -1, k |-> "init", lab |-> "init", v |-> 0, ok |-> 1, n |-> 0]

Goto(t, l) == pc' = [pc EXCEPT ![t] = l]
Acc(t, k, lab, v, ok) == last' = [t |-> t, k |-> k, lab |-> lab, v |-> v, ok |-> ok, n |-> last.n + 1]    \* n: access counter
\* `lin` = linearizability monitor (real-time order, SC) + conservation ghost (memory-model independent)
IsPop(t) == pc[t] \in {"o_pos", "o_seq", "o_cas", "o_pos2", "o_enq", "o_data", "o_pub"}
Return(t, r, v) == /\ lin' = [mon |-> MonRet(lin.mon, t, r, v),
                              taken |-> IF IsPop(t) /\ r = 1 THEN lin.taken \cup {v} ELSE lin.taken,
                              bad |-> IF IsPop(t) /\ r = 1 /\ lin.bad = "ok" /\ (v \notin 1 .. nextv - 1 \/ v \in lin.taken)
                                        THEN "a value was popped twice or invented" ELSE lin.bad]
                   /\ Goto(t, "idle")
Cell(pos) == pos % Cap

LdTo(t, from, lab, x, f, to) ==
  /\ pc[t] = from
  /\ \E i \in Readable(t, x, Ord[lab]) :
       /\ Load(t, x, Ord[lab], i)
       /\ loc' = [loc EXCEPT ![t][f] = ValAt(x, i)]
       /\ Acc(t, "ld", lab, ValAt(x, i), 1)
  /\ Goto(t, to)
  /\ UNCHANGED <<lin, budget, nextv>>

\* ---------------------------------------------------------------- push
StartPush(t) == /\ pc[t] = "idle" /\ budget[t].push > 0
                /\ \E w \in (IF AllowWeak THEN BOOLEAN ELSE {FALSE}) :
                     /\ lin' = [lin EXCEPT !.mon = MonCall(@, t, IF w THEN "wpush" ELSE "push", nextv, 0)]
                     /\ loc' = [loc EXCEPT ![t] = [L0 EXCEPT !.v = nextv, !.weak = w]]
                /\ budget' = [budget EXCEPT ![t].push = @ - 1]
                /\ nextv' = nextv + 1
                /\ Goto(t, "u_pos") /\ last' = [t |-> t, k |-> "call", lab |-> IF loc'[t].weak THEN "wpush" ELSE "push", v |-> nextv, ok |-> 1, n |-> last.n + 1]
                /\ UNCHANGED memvars
u_pos(t) == LdTo(t, "u_pos", "u_pos", ENQ, "pos", "u_seq")
u_seq(t) == /\ pc[t] = "u_seq"
            /\ LET x == SEQ(Cell(loc[t].pos)) IN
               \E i \in Readable(t, x, Ord["u_seq"]) :
                  LET s == ValAt(x, i) IN
                  /\ Load(t, x, Ord["u_seq"], i)
                  /\ Acc(t, "ld", "u_seq", s, 1)
                  /\ loc' = [loc EXCEPT ![t].seq = s]
                  /\ IF s = loc[t].pos THEN Goto(t, "u_cas") /\ UNCHANGED lin
                     ELSE IF loc[t].weak
                            THEN IF s < loc[t].pos THEN Return(t, 0, loc[t].v) ELSE Goto(t, "u_pos") /\ UNCHANGED lin
                            ELSE Goto(t, "u_pos2") /\ UNCHANGED lin
            /\ UNCHANGED <<budget, nextv>>
u_cas(t) == /\ pc[t] = "u_cas"
            /\ IF Latest(ENQ) = loc[t].pos
                 THEN /\ Rmw(t, ENQ, loc[t].pos + 1, Ord["u_cas"]) /\ Acc(t, "cas", "u_cas", loc[t].pos, 1)
                      /\ Goto(t, "u_data") /\ UNCHANGED loc
                 ELSE /\ CasFail(t, ENQ, Ord["casf"]) /\ Acc(t, "cas", "u_cas", Latest(ENQ), 0)
                      /\ loc' = [loc EXCEPT ![t].pos = Latest(ENQ)]
                      /\ Goto(t, "u_seq")
            /\ UNCHANGED <<lin, budget, nextv>>
u_pos2(t) == /\ pc[t] = "u_pos2"
             /\ \E i \in Readable(t, ENQ, Ord["u_pos2"]) :
                  LET p2 == ValAt(ENQ, i) IN
                  /\ Load(t, ENQ, Ord["u_pos2"], i)
                  /\ Acc(t, "ld", "u_pos2", p2, 1)
                  /\ IF p2 = loc[t].pos
                       THEN /\ loc' = [loc EXCEPT ![t].pos2 = p2]
                            /\ IF StrongRecheck THEN Goto(t, "u_deq") /\ UNCHANGED lin ELSE Return(t, 0, loc[t].v)
                       ELSE /\ loc' = [loc EXCEPT ![t].pos = p2] /\ Goto(t, "u_seq") /\ UNCHANGED lin
             /\ UNCHANGED <<budget, nextv>>
u_deq(t) == /\ pc[t] = "u_deq"
            /\ \E i \in Readable(t, DEQ, Ord["u_deq"]) :
                 LET d == ValAt(DEQ, i) IN
                 /\ Load(t, DEQ, Ord["u_deq"], i)
                 /\ Acc(t, "ld", "u_deq", d, 1)
                 /\ IF d + Cap = loc[t].pos THEN Return(t, 0, loc[t].v) ELSE Goto(t, "u_seq") /\ UNCHANGED lin
            /\ UNCHANGED <<loc, budget, nextv>>
u_data(t) == /\ pc[t] = "u_data"
             /\ PlainWr(t, DATA(Cell(loc[t].pos)), loc[t].v)
             /\ Goto(t, "u_pub")
             /\ UNCHANGED <<loc, lin, budget, nextv, last>>
u_pub(t) == /\ pc[t] = "u_pub"
            /\ Store(t, SEQ(Cell(loc[t].pos)), loc[t].pos + 1, Ord["u_pub"])
            /\ Acc(t, "st", "u_pub", loc[t].pos + 1, 1)
            /\ Return(t, 1, loc[t].v)
            /\ UNCHANGED <<loc, budget, nextv>>

\* ---------------------------------------------------------------- pop
StartPop(t) == /\ pc[t] = "idle" /\ budget[t].pop > 0
               /\ \E w \in (IF AllowWeak THEN BOOLEAN ELSE {FALSE}) :
                    /\ lin' = [lin EXCEPT !.mon = MonCall(@, t, IF w THEN "wpop" ELSE "pop", 0, 0)]
                    /\ loc' = [loc EXCEPT ![t] = [L0 EXCEPT !.weak = w]]
               /\ budget' = [budget EXCEPT ![t].pop = @ - 1]
               /\ Goto(t, "o_pos") /\ last' = [t |-> t, k |-> "call", lab |-> IF loc'[t].weak THEN "wpop" ELSE "pop", v |-> 0, ok |-> 1, n |-> last.n + 1]
               /\ UNCHANGED <<nextv, memvars>>
o_pos(t) == LdTo(t, "o_pos", "o_pos", DEQ, "pos", "o_seq")
o_seq(t) == /\ pc[t] = "o_seq"
            /\ LET x == SEQ(Cell(loc[t].pos)) IN
               \E i \in Readable(t, x, Ord["o_seq"]) :
                  LET s == ValAt(x, i) IN
                  /\ Load(t, x, Ord["o_seq"], i)
                  /\ Acc(t, "ld", "o_seq", s, 1)
                  /\ loc' = [loc EXCEPT ![t].seq = s]
                  /\ IF s = loc[t].pos + 1 THEN Goto(t, "o_cas") /\ UNCHANGED lin
                     ELSE IF loc[t].weak
                            THEN IF s < loc[t].pos + 1 THEN Return(t, 0, 0) ELSE Goto(t, "o_pos") /\ UNCHANGED lin
                            ELSE Goto(t, "o_pos2") /\ UNCHANGED lin
            /\ UNCHANGED <<budget, nextv>>
o_cas(t) == /\ pc[t] = "o_cas"
            /\ IF Latest(DEQ) = loc[t].pos
                 THEN /\ Rmw(t, DEQ, loc[t].pos + 1, Ord["o_cas"]) /\ Acc(t, "cas", "o_cas", loc[t].pos, 1)
                      /\ Goto(t, "o_data") /\ UNCHANGED loc
                 ELSE /\ CasFail(t, DEQ, Ord["casf"]) /\ Acc(t, "cas", "o_cas", Latest(DEQ), 0)
                      /\ loc' = [loc EXCEPT ![t].pos = Latest(DEQ)]
                      /\ Goto(t, "o_seq")
            /\ UNCHANGED <<lin, budget, nextv>>
o_pos2(t) == /\ pc[t] = "o_pos2"
             /\ \E i \in Readable(t, DEQ, Ord["o_pos2"]) :
                  LET p2 == ValAt(DEQ, i) IN
                  /\ Load(t, DEQ, Ord["o_pos2"], i)
                  /\ Acc(t, "ld", "o_pos2", p2, 1)
                  /\ IF p2 = loc[t].pos
                       THEN /\ UNCHANGED loc
                            /\ IF StrongRecheck THEN Goto(t, "o_enq") /\ UNCHANGED lin ELSE Return(t, 0, 0)
                       ELSE /\ loc' = [loc EXCEPT ![t].pos = p2] /\ Goto(t, "o_seq") /\ UNCHANGED lin
             /\ UNCHANGED <<budget, nextv>>
o_enq(t) == /\ pc[t] = "o_enq"
            /\ \E i \in Readable(t, ENQ, Ord["o_enq"]) :
                 LET e == ValAt(ENQ, i) IN
                 /\ Load(t, ENQ, Ord["o_enq"], i)
                 /\ Acc(t, "ld", "o_enq", e, 1)
                 /\ IF e = loc[t].pos THEN Return(t, 0, 0) ELSE Goto(t, "o_seq") /\ UNCHANGED lin
            /\ UNCHANGED <<loc, budget, nextv>>
o_data(t) == /\ pc[t] = "o_data"
             /\ PlainRd(t, DATA(Cell(loc[t].pos)))
             /\ loc' = [loc EXCEPT ![t].v = Latest(DATA(Cell(loc[t].pos)))]
             /\ Goto(t, "o_pub")
             /\ UNCHANGED <<lin, budget, nextv, last>>
o_pub(t) == /\ pc[t] = "o_pub"
            /\ Store(t, SEQ(Cell(loc[t].pos)), loc[t].pos + Cap, Ord["o_pub"])
            /\ Acc(t, "st", "o_pub", loc[t].pos + Cap, 1)
            /\ Return(t, 1, loc[t].v)
            /\ UNCHANGED <<loc, budget, nextv>>

ThreadStep(t) == \/ StartPush(t) \/ u_pos(t) \/ u_seq(t) \/ u_cas(t) \/ u_pos2(t) \/ u_deq(t) \/ u_data(t) \/ u_pub(t)
                 \/ StartPop(t) \/ o_pos(t) \/ o_seq(t) \/ o_cas(t) \/ o_pos2(t) \/ o_enq(t) \/ o_data(t) \/ o_pub(t)
Next == \E t \in Threads : ThreadStep(t)
Spec == Init /\ [][Next]_vars

Linearizable == lin.mon # {}
Conservation == lin.bad = "ok"
=============================================================================
