------------------------------ MODULE VyukovGrow ------------------------------
(***************************************************************************)
(* xenium::vyukov_hash_map across resizing (impl/vyukov_hash_map.hpp:      *)
(* lock_bucket 800-822, grow / do_grow 616-713, the head of try_get_value  *)
(* 509-520).  The inside of a bucket is the subject of VyukovMap; here a   *)
(* bucket is [lk, ver, m] (lock bit, version, content as a key -> value    *)
(* function) and the steps are the atomic accesses that order operations   *)
(* against a concurrent grow:                                              *)
(*   writer   block.acquire(data_block); load bucket state; CAS lock;      *)
(*            modify + unlock (one store: new version);  a full bucket:    *)
(*            exchange resize_lock, unlock, then wait or do_grow           *)
(*   do_grow  load data_block, lock EVERY bucket of the old block (they    *)
(*            stay locked for ever), rehash into a block of twice the      *)
(*            size, publish it, release resize_lock, retire the old block  *)
(*   reader   acquire_guard(data_block) ONCE, then bucket state, content,  *)
(*            version re-validation - on whatever block it acquired        *)
(* Blocks are reclaimed by the adversarial abstract reclaimer (a guard is  *)
(* effective only if taken before the block was retired).                  *)
(* KeyIds hash to themselves: bucket index = key % bucket count.             *)
(***************************************************************************)
EXTENDS Integers, Sequences, FiniteSets, LinMon, SetMap, TLC

CONSTANTS NT, NKeys, CAP,        \* items a bucket holds before the writer grows the table (array + extension items)
          NBlocks, Progs,
          LockAll,               \* TRUE: do_grow locks every bucket of the old block before it copies (code)
          ReacquireBlock,        \* TRUE: lock_bucket re-reads data_block on every attempt (code)
          NodeStorage            \* TRUE: values live in heap nodes retired on erase (string / managed_ptr storage); FALSE: trivial storage.
                                 \* With node storage a reader that stayed on a replaced block can validate against cells nobody updates
                                 \* any more and dereference a node that was erased through the NEW block and reclaimed: known finding
                                 \* C10-stale-block-read is a behaviour of this spec

Threads == 0 .. NT - 1
KeyIds == 1 .. NKeys
Blocks == 1 .. NBlocks
BCount(b) == LET RECURSIVE P(_) P(n) == IF n = 1 THEN 1 ELSE 2 * P(n - 1) IN P(b)        \* block b has 2^(b-1) buckets
NoKey == [k \in KeyIds |-> 0]
B0 == [lk |-> FALSE, ver |-> 0, m |-> NoKey]

VARIABLES pc, loc, lin, budget, data, resize, blk, bst, g, vn, ng, bad
vars == <<pc, loc, lin, budget, data, resize, blk, bst, g, vn, ng, bad>>
mcview == vars

NoG == [b |-> 0, eff |-> FALSE]
L0 == [op |-> "none", k |-> 0, st |-> B0, idx |-> 0, i |-> 0, nb |-> 0, val |-> 0, ver |-> 0, res |-> 0]
Init == /\ pc = [t \in Threads |-> "idle"]
        /\ loc = [t \in Threads |-> L0]
        /\ lin = MonInit(SMInit)
        /\ budget = [t \in Threads |-> 1]
        /\ data = 1 /\ resize = 0
        /\ blk = [b \in Blocks |-> [i \in 0 .. BCount(NBlocks) - 1 |-> B0]]
        /\ bst = [b \in Blocks |-> IF b = 1 THEN "live" ELSE "free"]
        /\ g = [t \in Threads |-> NoG]
        /\ vn = [k \in KeyIds |-> "none"]                 \* the heap node holding the value of key k: none | live | retired | dead
        /\ ng = [t \in Threads |-> [k |-> 0, eff |-> FALSE]]   \* the reader's guard on a value node
        /\ bad = "ok"

Goto(t, l) == pc' = [pc EXCEPT ![t] = l]
Count(m) == Cardinality({k \in KeyIds : m[k] # 0})
Touch(t) == bad' = IF bad = "ok" /\ g[t].b # 0 /\ bst[g[t].b] \in {"dead", "free"} THEN "access to a block that was reclaimed" ELSE bad
Bkt(t) == blk[g[t].b][loc[t].idx]
Return(t, r, v) == lin' = MonRet(lin, t, r, v) /\ Goto(t, "idle") /\ g' = [g EXCEPT ![t] = NoG] /\ ng' = [ng EXCEPT ![t] = [k |-> 0, eff |-> FALSE]]
\* the abstract reclaimer: a retired block without effective guard may go at any step
Destroy == /\ \/ /\ \E b \in Blocks : bst[b] = "retired" /\ ~(\E t \in Threads : g[t].b = b /\ g[t].eff) /\ bst' = [bst EXCEPT ![b] = "dead"]
                 /\ UNCHANGED vn
              \/ /\ \E k \in KeyIds : vn[k] = "retired" /\ ~(\E t \in Threads : ng[t].k = k /\ ng[t].eff) /\ vn' = [vn EXCEPT ![k] = "dead"]
                 /\ UNCHANGED bst
           /\ UNCHANGED <<pc, loc, lin, budget, data, resize, blk, g, ng, bad>>

MayStart(t, op) == pc[t] = "idle" /\ budget[t] <= Len(Progs[t + 1]) /\ Progs[t + 1][budget[t]][1] = op
Arg(t) == Progs[t + 1][budget[t]][2]
\* ---------------------------------------------------------------- writers: emplace(k) / erase(k)
StartWrite(t) == /\ pc[t] = "idle" /\ budget[t] <= Len(Progs[t + 1]) /\ Progs[t + 1][budget[t]][1] \in {"emplace", "erase"}
                 /\ budget' = [budget EXCEPT ![t] = @ + 1]
                 /\ loc' = [loc EXCEPT ![t] = [L0 EXCEPT !.op = Progs[t + 1][budget[t]][1], !.k = Arg(t)]]
                 /\ lin' = MonCall(lin, t, Progs[t + 1][budget[t]][1], Arg(t), IF Progs[t + 1][budget[t]][1] = "emplace" THEN 10 * Arg(t) ELSE 0)
                 /\ Goto(t, "w_acq")
                 /\ UNCHANGED <<data, resize, blk, bst, g, bad>>
                 /\ UNCHANGED <<vn, ng>>
\* (33) block.acquire(data_block)
w_acq(t) == /\ pc[t] = "w_acq"
            /\ g' = [g EXCEPT ![t] = [b |-> data, eff |-> bst[data] = "live"]]
            /\ loc' = [loc EXCEPT ![t].idx = loc[t].k % BCount(data)]
            /\ Goto(t, "w_ldst")
            /\ UNCHANGED <<lin, budget, data, resize, blk, bst, bad>>
            /\ UNCHANGED <<vn, ng>>
w_ldst(t) == /\ pc[t] = "w_ldst"
             /\ Touch(t)
             /\ loc' = [loc EXCEPT ![t].st = Bkt(t)]
             /\ Goto(t, IF Bkt(t).lk THEN (IF ReacquireBlock THEN "w_acq" ELSE "w_ldst") ELSE "w_lock")
             /\ UNCHANGED <<lin, budget, data, resize, blk, bst, g>>
             /\ UNCHANGED <<vn, ng>>
\* (34)
w_lock(t) == /\ pc[t] = "w_lock"
             /\ Touch(t)
             /\ IF Bkt(t) = loc[t].st
                  THEN /\ blk' = [blk EXCEPT ![g[t].b][loc[t].idx].lk = TRUE] /\ Goto(t, "w_mod")
                  ELSE /\ UNCHANGED blk /\ Goto(t, IF ReacquireBlock THEN "w_acq" ELSE "w_ldst")
             /\ UNCHANGED <<loc, lin, budget, data, resize, bst, g>>
             /\ UNCHANGED <<vn, ng>>
\* the critical section (VyukovMap) and the unlocking store with a new version; a full bucket makes emplace grow the table
w_mod(t) == /\ pc[t] = "w_mod"
            /\ Touch(t)
            /\ LET bk == Bkt(t) k == loc[t].k IN
               IF loc[t].op = "emplace"
                 THEN IF bk.m[k] # 0
                        THEN /\ blk' = [blk EXCEPT ![g[t].b][loc[t].idx].lk = FALSE] /\ Return(t, 0, 0) /\ UNCHANGED <<loc, resize, vn>>
                      ELSE IF Count(bk.m) < CAP
                        THEN /\ blk' = [blk EXCEPT ![g[t].b][loc[t].idx] = [lk |-> FALSE, ver |-> bk.ver, m |-> [bk.m EXCEPT ![k] = 10 * k]]]
                             /\ vn' = [vn EXCEPT ![k] = "live"]
                             /\ Return(t, 1, 0) /\ UNCHANGED <<loc, resize>>
                      ELSE \* grow(bucket, state): resize_lock.exchange(1), then release the bucket lock
                           /\ loc' = [loc EXCEPT ![t].res = resize] /\ resize' = 1
                           /\ UNCHANGED <<blk, lin, g, vn, ng>> /\ Goto(t, "gr_unlock")
                 ELSE IF bk.m[k] = 0
                        THEN /\ blk' = [blk EXCEPT ![g[t].b][loc[t].idx].lk = FALSE] /\ Return(t, 0, 0) /\ UNCHANGED <<loc, resize, vn>>
                        ELSE \* the removed value node is retired (accessor.reclaim() after the unlock)
                             /\ blk' = [blk EXCEPT ![g[t].b][loc[t].idx] = [lk |-> FALSE, ver |-> bk.ver + 1, m |-> [bk.m EXCEPT ![k] = 0]]]
                             /\ vn' = [vn EXCEPT ![k] = "retired"]
                             /\ Return(t, 1, 0) /\ UNCHANGED <<loc, resize>>
            /\ UNCHANGED <<budget, data, bst>>
gr_unlock(t) == /\ pc[t] = "gr_unlock"
                /\ Touch(t)
                /\ blk' = [blk EXCEPT ![g[t].b][loc[t].idx].lk = FALSE]
                /\ Goto(t, IF loc[t].res # 0 THEN "gr_wait" ELSE "gr_ldd")
                /\ UNCHANGED <<loc, lin, budget, data, resize, bst, g>>
                /\ UNCHANGED <<vn, ng>>
\* (28) another thread is resizing: wait for it, then start over
gr_wait(t) == /\ pc[t] = "gr_wait" /\ resize = 0
              /\ Goto(t, "w_acq")
              /\ UNCHANGED <<loc, lin, budget, data, resize, blk, bst, g, bad>>
              /\ UNCHANGED <<vn, ng>>
\* do_grow: (29) old_block = data_block.load
gr_ldd(t) == /\ pc[t] = "gr_ldd"
             /\ \E nb \in Blocks : /\ nb = data + 1            \* allocate_block(2 * bucket_count)
                                   /\ bst' = [bst EXCEPT ![nb] = "live"]
                                   /\ loc' = [loc EXCEPT ![t].nb = nb, ![t].i = 0]
             /\ g' = [g EXCEPT ![t] = [b |-> data, eff |-> TRUE]]
             /\ Goto(t, IF LockAll THEN "gr_lock" ELSE "gr_copy")
             /\ UNCHANGED <<lin, budget, data, resize, blk, bad>>
             /\ UNCHANGED <<vn, ng>>
\* (30) lock all buckets, one CAS per bucket (spins while somebody holds it)
gr_lock(t) == /\ pc[t] = "gr_lock"
              /\ ~blk[g[t].b][loc[t].i].lk
              /\ blk' = [blk EXCEPT ![g[t].b][loc[t].i].lk = TRUE]
              /\ IF loc[t].i + 1 = BCount(g[t].b) THEN Goto(t, "gr_copy") /\ UNCHANGED loc
                 ELSE loc' = [loc EXCEPT ![t].i = @ + 1] /\ UNCHANGED pc
              /\ UNCHANGED <<lin, budget, data, resize, bst, g, bad>>
              /\ UNCHANGED <<vn, ng>>
\* rehash every item into the new block (private until published)
gr_copy(t) == /\ pc[t] = "gr_copy"
              /\ LET ob == g[t].b nb == loc[t].nb
                     all == [k \in KeyIds |-> blk[ob][k % BCount(ob)].m[k]]
                 IN blk' = [blk EXCEPT ![nb] = [i \in 0 .. BCount(NBlocks) - 1 |->
                                                  [lk |-> FALSE, ver |-> 0, m |-> [k \in KeyIds |-> IF i < BCount(nb) /\ k % BCount(nb) = i THEN all[k] ELSE 0]]]]
              /\ Goto(t, "gr_pub")
              /\ UNCHANGED <<loc, lin, budget, data, resize, bst, g, bad>>
              /\ UNCHANGED <<vn, ng>>
\* (31) data_block.store(new_block)
gr_pub(t) == /\ pc[t] = "gr_pub"
             /\ data' = loc[t].nb
             /\ Goto(t, "gr_rel")
             /\ UNCHANGED <<loc, lin, budget, resize, blk, bst, g, bad>>
             /\ UNCHANGED <<vn, ng>>
\* (32) resize_lock.store(0); reclaim the old block; the interrupted operation starts over
gr_rel(t) == /\ pc[t] = "gr_rel"
             /\ resize' = 0
             /\ bst' = [bst EXCEPT ![g[t].b] = "retired"]
             /\ g' = [g EXCEPT ![t] = NoG]
             /\ Goto(t, "w_acq")
             /\ UNCHANGED <<loc, lin, budget, data, blk, bad>>
             /\ UNCHANGED <<vn, ng>>

\* ---------------------------------------------------------------- reader: try_get_value(k)
StartRead(t) == /\ MayStart(t, "get")
                /\ budget' = [budget EXCEPT ![t] = @ + 1]
                /\ loc' = [loc EXCEPT ![t] = [L0 EXCEPT !.op = "get", !.k = Arg(t)]]
                /\ lin' = MonCall(lin, t, "get", Arg(t), 0)
                /\ Goto(t, "r_acq")
                /\ UNCHANGED <<data, resize, blk, bst, g, bad>>
                /\ UNCHANGED <<vn, ng>>
\* (22) once per call
r_acq(t) == /\ pc[t] = "r_acq"
            /\ g' = [g EXCEPT ![t] = [b |-> data, eff |-> bst[data] = "live"]]
            /\ loc' = [loc EXCEPT ![t].idx = loc[t].k % BCount(data)]
            /\ Goto(t, "r_st")
            /\ UNCHANGED <<lin, budget, data, resize, blk, bst, bad>>
            /\ UNCHANGED <<vn, ng>>
r_st(t) == /\ pc[t] = "r_st"
           /\ Touch(t)
           /\ loc' = [loc EXCEPT ![t].ver = Bkt(t).ver]
           /\ Goto(t, "r_rd")
           /\ UNCHANGED <<lin, budget, data, resize, blk, bst, g>>
           /\ UNCHANGED <<vn, ng>>
\* the value cell: with node storage traits::acquire takes a guard on the node through the cell (effective only if the node is
\* not yet retired - the cell of a REPLACED block keeps pointing to a node that was erased through the new block)
r_rd(t) == /\ pc[t] = "r_rd"
           /\ Touch(t)
           /\ LET v == Bkt(t).m[loc[t].k] IN
              /\ loc' = [loc EXCEPT ![t].val = v]
              /\ ng' = IF NodeStorage /\ v # 0 THEN [ng EXCEPT ![t] = [k |-> loc[t].k, eff |-> vn[loc[t].k] = "live"]] ELSE ng
           /\ Goto(t, "r_chk")
           /\ UNCHANGED <<lin, budget, data, resize, blk, bst, g, vn>>
r_chk(t) == /\ pc[t] = "r_chk"
            /\ Touch(t)
            /\ IF Bkt(t).ver # loc[t].ver THEN Goto(t, "r_st") /\ UNCHANGED <<lin, g, ng>>
               ELSE IF loc[t].val # 0 THEN (IF NodeStorage THEN Goto(t, "r_deref") /\ UNCHANGED <<lin, g, ng>> ELSE Return(t, 1, loc[t].val))
               ELSE Return(t, 0, 0)
            /\ UNCHANGED <<loc, budget, data, resize, blk, bst, vn>>
\* the caller reads the value through the accessor
r_deref(t) == /\ pc[t] = "r_deref"
              /\ bad' = IF bad = "ok" /\ vn[ng[t].k] = "dead" THEN "reader dereferences a value node that was reclaimed (it validated against the cells of a replaced block)" ELSE bad
              /\ Return(t, 1, loc[t].val)
              /\ UNCHANGED <<loc, budget, data, resize, blk, bst, vn>>

ThreadStep(t) == \/ StartWrite(t) \/ w_acq(t) \/ w_ldst(t) \/ w_lock(t) \/ w_mod(t) \/ gr_unlock(t) \/ gr_wait(t) \/ gr_ldd(t) \/ gr_lock(t) \/ gr_copy(t)
                 \/ gr_pub(t) \/ gr_rel(t) \/ StartRead(t) \/ r_acq(t) \/ r_st(t) \/ r_rd(t) \/ r_chk(t) \/ r_deref(t)
Next == Destroy \/ \E t \in Threads : ThreadStep(t)
Spec == Init /\ [][Next]_vars

\* ---------------------------------------------------------------- properties (C10 across grow)
Linearizable == lin # {}
\* known finding C10-stale-block-read concerns exactly this: a reader keeps its block; with trivial storage nothing is freed under it,
\* but the BLOCK must stay alive while the reader uses it
MemorySafe == bad = "ok"
\* nothing is lost or duplicated by the rehash: the current block holds what the abstract map holds whenever nobody is inside an operation
Quiescent == \A t \in Threads : pc[t] = "idle"
Content == [k \in KeyIds |-> blk[data][k % BCount(data)].m[k]]
ContentOk == Quiescent => \E c \in Clo(lin) : \A k \in KeyIds : (Content[k] # 0) = (\E i \in 1 .. Len(c.abs.m) : c.abs.m[i][1] = k)

\* ---------------------------------------------------------------- programs: <<op, key>>
ProgGrow == << << <<"emplace", 1>>, <<"emplace", 2>> >>, << <<"emplace", 3>>, <<"get", 1>> >> >>
ProgGrowErase == << << <<"emplace", 1>>, <<"emplace", 2>>, <<"erase", 1>> >>, << <<"emplace", 3>>, <<"get", 1>>, <<"get", 2>> >> >>
ProgTwoGrowers == << << <<"emplace", 1>>, <<"emplace", 3>> >>, << <<"emplace", 2>>, <<"emplace", 4>> >> >>
Prog3 == << << <<"emplace", 1>>, <<"emplace", 2>> >>, << <<"emplace", 3>>, <<"erase", 1>> >>, << <<"get", 1>>, <<"get", 3>> >> >>
=============================================================================
