------------------------------- MODULE VyukovMap -------------------------------
(***************************************************************************)
(* One bucket of xenium::vyukov_hash_map (trivial key / value storage):    *)
(* the writer side under the bucket lock - one action per STORE of         *)
(* do_get_or_emplace, do_extract (three removal shapes) and                *)
(* erase(iterator&) - and the lock-free reader try_get_value, one action   *)
(* per atomic load.  B array slots, a pool of P extension items that are   *)
(* reused adversarially (the ABA the bucket version exists for).           *)
(*                                                                         *)
(* Bucket state = [lk, cnt, mk, ver] (lock bit, item count, delete marker, *)
(* version).  Keys are 1 .. NKeys, the value stored with key k is 10 * k.  *)
(* Thread 0 is the writer (ordinary operations and iterator erase), the    *)
(* other threads are readers.                                              *)
(***************************************************************************)
EXTENDS Mem, LinMon, SetMap, TLC

CONSTANTS NReaders, B, P, NKeys, MaxWrites, MaxReads, Ord, AllowIterErase,
          VersionKept,     \* TRUE: erase(iterator&) remembers the bumped version (fixed code); FALSE: unlock restores the old one
          MarkerCheck,     \* TRUE: the reader skips the slot named by the delete marker (code)
          FinalCheck       \* TRUE: the reader re-validates the version before reporting "absent" (code)

OrdCode == [r_st |-> "acq", r_k |-> "rlx", r_v |-> "acq", r_st2 |-> "rlx", r_h |-> "acq", r_ek |-> "rlx", r_ev |-> "acq", r_en |-> "acq",
            w_lock |-> "acq", w_k |-> "rlx", w_v |-> "rlx", w_vrel |-> "rel", w_unlock |-> "rel", w_str |-> "rlx", w_strel |-> "rel",
            w_head |-> "rel", w_link |-> "rlx",
            w_fence |-> "rel",     \* release fence after lock_bucket's CAS and after every store of a delete marker ("none" before the fix)
            r_fence |-> "acq"]     \* acquire fence before every re-validation of the bucket version in try_get_value ("none" before the fix)
FENCE == <<"fence", 0>>

ThreadsDef == 0 .. NReaders
Writer == 0
ST == <<"st", 0>>
HEAD == <<"head", 0>>
KEY(i) == <<"key", i>>
VAL(i) == <<"val", i>>
EK(e) == <<"ek", e>>
EV(e) == <<"ev", e>>
EN(e) == <<"en", e>>
Ext == 1 .. P
LocsDef == {ST, HEAD} \cup {KEY(i) : i \in 0 .. B - 1} \cup {VAL(i) : i \in 0 .. B - 1}
           \cup {EK(e) : e \in Ext} \cup {EV(e) : e \in Ext} \cup {EN(e) : e \in Ext}
S0 == [lk |-> 0, cnt |-> 0, mk |-> 0, ver |-> 0]
InitValDef(x) == IF x = ST THEN S0 ELSE 0

VARIABLES pc, loc, lin, budget, freeExt, w, it, last,
          gh      \* ghost for the weak-memory runs (constant under SC): the abstract contents after every writer operation, the operation each message
                  \* of the bucket state belongs to, and the verdict of the happens-before aware read oracle (HbRegular below)
vars == <<pc, loc, lin, budget, freeExt, w, it, last, gh, memvars>>
mcview == <<pc, loc, lin, budget, freeExt, w, it, gh, memvars>>

\* reader locals
L0 == [key |-> 0, st |-> S0, i |-> 0, ext |-> 0, v |-> 0, lo |-> 1, nxt |-> "idle"]
\* writer: script of pending stores <<loc, value, order-label>>, then the result to return
W0 == [script |-> <<>>, r |-> 0, v |-> 0, free |-> {}]
\* iterator state kept between writer operations: locked? and the state to store at unlock
It0 == [on |-> FALSE, st |-> S0]

Init == /\ MemInit
        /\ pc = [t \in Threads |-> "idle"]
        /\ loc = [t \in Threads |-> L0]
        /\ lin = MonInit(SMInit)
        /\ budget = [t \in Threads |-> IF t = Writer THEN MaxWrites ELSE MaxReads]
        /\ freeExt = Ext
        /\ w = W0 /\ it = It0
        /\ gh = [abs |-> << [k \in 1 .. NKeys |-> 0] >>, stq |-> << [q |-> 1, fin |-> TRUE] >>, bad |-> FALSE]
        /\ last = [t |-> -1, k |-> "init", lab |-> "init", v |-> 0, ok |-> 1, n |-> 0]

Goto(t, l) == pc' = [pc EXCEPT ![t] = l]
Acc(t, k, lab, v, ok) == last' = [t |-> t, k |-> k, lab |-> lab, v |-> v, ok |-> ok, n |-> last.n + 1]    \* n: access counter
Return(t, r, v) == lin' = MonRet(lin, t, r, v) /\ Goto(t, "idle")
NG == UNCHANGED gh
Locked(s) == [s EXCEPT !.lk = 1]
Unlocked(s) == [s EXCEPT !.lk = 0]
NewVer(s) == [s EXCEPT !.ver = @ + 1]

\* ---------------------------------------------------------------- writer: content of the bucket as the lock holder sees it
Cur(x) == Latest(x)
ArrIdx(k) == {i \in 0 .. Cur(ST).cnt - 1 : Cur(KEY(i)) = k}
RECURSIVE Chain(_)
Chain(e) == IF e = 0 THEN <<>> ELSE <<e>> \o Chain(Cur(EN(e)))
ExtChain == Chain(Cur(HEAD))
ExtIdx(k) == {j \in 1 .. Len(ExtChain) : Cur(EK(ExtChain[j])) = k}

\* the stores of one writer operation, in program order; st = unlocked state read when the lock was taken
EmplaceScript(k, st) ==
  IF ArrIdx(k) # {} \/ ExtIdx(k) # {} THEN [script |-> << <<FENCE, 0, "w_fence">>, <<ST, st, "w_str">> >>, r |-> 0, v |-> 0, free |-> {}]
  ELSE IF st.cnt < B
    THEN [script |-> << <<FENCE, 0, "w_fence">>, <<KEY(st.cnt), k, "w_k">>, <<VAL(st.cnt), 10 * k, "w_v">>, <<ST, [st EXCEPT !.cnt = @ + 1], "w_unlock">> >>, r |-> 1, v |-> 0, free |-> {}]
    ELSE LET e == CHOOSE x \in freeExt : TRUE IN
         [script |-> << <<FENCE, 0, "w_fence">>, <<EK(e), k, "w_k">>, <<EV(e), 10 * k, "w_v">>, <<EN(e), Cur(HEAD), "w_link">>, <<HEAD, e, "w_head">>, <<ST, st, "w_unlock">> >>,
          r |-> 1, v |-> 0, free |-> {}]
\* removal; `final` = state stored at the unlock, `keep` = TRUE for the iterator (the lock is kept, the final store is deferred)
EraseStores(k, st) ==
  IF ArrIdx(k) # {}
    THEN LET i == CHOOSE x \in ArrIdx(k) : TRUE  e == Cur(HEAD) ls == Locked(st) IN
         IF e # 0
           THEN [stores |-> << <<ST, [ls EXCEPT !.mk = i + 1], "w_str">>, <<FENCE, 0, "w_fence">>, <<KEY(i), Cur(EK(e)), "w_k">>, <<VAL(i), Cur(EV(e)), "w_vrel">>,
                               <<ST, NewVer(ls), "w_strel">>, <<HEAD, Cur(EN(e)), "w_head">> >>,
                 final |-> Unlocked(NewVer(NewVer(ls))), bumps |-> 2, free |-> {e}, found |-> TRUE, shape |-> 1]
           ELSE [stores |-> IF i # st.cnt - 1
                              THEN << <<ST, [ls EXCEPT !.mk = i + 1], "w_str">>, <<FENCE, 0, "w_fence">>, <<KEY(i), Cur(KEY(st.cnt - 1)), "w_k">>, <<VAL(i), Cur(VAL(st.cnt - 1)), "w_vrel">> >>
                              ELSE <<>>,
                 final |-> [NewVer(st) EXCEPT !.cnt = @ - 1], bumps |-> 1, free |-> {}, found |-> TRUE, shape |-> 2]
  ELSE IF ExtIdx(k) # {}
    THEN LET j == CHOOSE x \in ExtIdx(k) : TRUE  e == ExtChain[j]
             prev == IF j = 1 THEN HEAD ELSE EN(ExtChain[j - 1]) IN
         [stores |-> << <<prev, Cur(EN(e)), "w_link">> >>, final |-> NewVer(st), bumps |-> 1, free |-> {e}, found |-> TRUE, shape |-> 3]
  ELSE [stores |-> <<>>, final |-> st, bumps |-> 0, free |-> {}, found |-> FALSE, shape |-> 0]

\* ---------------------------------------------------------------- ghost of the weak-memory oracle
LastOf(q) == q[Len(q)]
GhOp(a) == gh' = IF Weak THEN [gh EXCEPT !.abs = Append(@, a)] ELSE gh                 \* a writer operation starts: its post-state gets the next index
GhSt(fin) == gh' = IF Weak THEN [gh EXCEPT !.stq = Append(@, [q |-> Len(gh.abs), fin |-> fin])] ELSE gh     \* a store to the bucket state
\* abstract states the reader must not go behind: everything completed before the newest bucket-state message in its view
GhLo(t) == IF Weak THEN LET m == gh.stq[cur[t][ST]] IN IF m.fin THEN m.q ELSE m.q - 1 ELSE 1
GhRet(t, r, v) == gh' = IF Weak /\ ~\E j \in loc[t].lo .. Len(gh.abs) : gh.abs[j][loc[t].key] = (IF r = 1 THEN v ELSE 0)
                          THEN [gh EXCEPT !.bad = TRUE] ELSE gh

\* ---------------------------------------------------------------- writer operations
WriterIdle == pc[Writer] = "idle" /\ budget[Writer] > 0
TakeBudget == budget' = [budget EXCEPT ![Writer] = @ - 1]
\* lock_bucket: CAS on the state (only the writer ever locks; the iterator may already hold the lock)
StartEmplace == /\ WriterIdle /\ ~it.on
                /\ \E k \in 1 .. NKeys :
                     /\ (Cur(ST).cnt = B /\ ArrIdx(k) = {} /\ ExtIdx(k) = {}) => freeExt # {}      \* no grow in this model
                     /\ lin' = MonCall(lin, Writer, "emplace", k, 10 * k)
                     /\ GhOp([LastOf(gh.abs) EXCEPT ![k] = IF @ = 0 THEN 10 * k ELSE @])
                     /\ LET st == Cur(ST) sc == EmplaceScript(k, st) IN
                        /\ w' = [sc EXCEPT !.script = << <<ST, Locked(st), "w_lock">> >> \o @]
                        /\ freeExt' = IF st.cnt = B /\ sc.r = 1 THEN freeExt \ {CHOOSE x \in freeExt : TRUE} ELSE freeExt
                /\ TakeBudget /\ Goto(Writer, "w_run") /\ Acc(Writer, "call", "emplace", 0, 1)
                /\ UNCHANGED <<loc, it, memvars>>
StartErase == /\ WriterIdle /\ ~it.on
              /\ \E k \in 1 .. NKeys :
                   /\ lin' = MonCall(lin, Writer, "erase", k, 0)
                   /\ GhOp([LastOf(gh.abs) EXCEPT ![k] = 0])
                   /\ LET st == Cur(ST) es == EraseStores(k, st) IN
                      w' = [script |-> << <<ST, Locked(st), "w_lock">> >> \o es.stores \o << <<ST, es.final, "w_unlock">> >>,
                            r |-> IF es.found THEN 1 ELSE 0, v |-> 0, free |-> es.free]
              /\ TakeBudget /\ Goto(Writer, "w_run") /\ Acc(Writer, "call", "erase", 0, 1)
              /\ UNCHANGED <<loc, freeExt, it, memvars>>
\* iterator positioned on key k (find / begin + ++: takes the bucket lock), erase(iterator&), later reset (unlock)
StartIterErase == /\ AllowIterErase /\ WriterIdle /\ ~it.on
                  /\ \E k \in 1 .. NKeys :
                       /\ (ArrIdx(k) # {} \/ ExtIdx(k) # {})
                       /\ lin' = MonCall(lin, Writer, "erase", k, 0)
                       /\ GhOp([LastOf(gh.abs) EXCEPT ![k] = 0])
                       /\ LET st == Cur(ST) es == EraseStores(k, st) IN
                          /\ w' = [script |-> << <<ST, Locked(st), "w_lock">> >> \o es.stores
                                                \o (IF es.shape = 1 THEN << <<ST, Locked(es.final), "w_strel">> >>
                                                    ELSE IF es.shape = 3 THEN << <<ST, Locked(es.final), "w_strel">> >>
                                                    ELSE << <<ST, Locked(es.final), "w_strel">> >>),
                                   r |-> 1, v |-> 0, free |-> es.free]
                          \* the state the iterator will store when it lets go of the bucket
                          /\ it' = [on |-> TRUE, st |-> IF VersionKept \/ es.shape = 2 THEN es.final
                                                        ELSE [es.final EXCEPT !.ver = st.ver]]
                  /\ TakeBudget /\ Goto(Writer, "w_run") /\ Acc(Writer, "call", "it_erase", 0, 1)
                  /\ UNCHANGED <<loc, freeExt, memvars>>
IterReset == /\ pc[Writer] = "idle" /\ it.on
             /\ Store(Writer, ST, it.st, Ord["w_unlock"])
             /\ Acc(Writer, "st", "w_unlock", 0, 1)
             /\ it' = It0 /\ GhSt(TRUE)
             /\ UNCHANGED <<pc, loc, lin, budget, freeExt, w>>
\* perform the next store of the script
w_run == /\ pc[Writer] = "w_run"
         /\ IF w.script = <<>>
              THEN /\ Return(Writer, w.r, w.v)
                   /\ freeExt' = freeExt \cup w.free          \* free_extension_item: back to the pool
                   /\ w' = W0
                   /\ UNCHANGED <<memvars, last, gh>>
              ELSE LET s == Head(w.script) IN
                   /\ IF s[3] = "w_lock" THEN Rmw(Writer, s[1], s[2], Ord["w_lock"])
                      ELSE IF s[1] = FENCE THEN Fence(Writer, Ord["w_fence"])
                      ELSE Store(Writer, s[1], s[2], Ord[s[3]])
                   /\ Acc(Writer, IF s[1] = FENCE THEN "fence" ELSE "st", s[3], 0, 1)
                   /\ w' = [w EXCEPT !.script = Tail(@)]
                   /\ IF s[1] = ST THEN GhSt(Len(w.script) = 1) ELSE UNCHANGED gh
                   /\ UNCHANGED <<pc, lin, freeExt>>
         /\ UNCHANGED <<loc, budget, it>>

\* ---------------------------------------------------------------- reader: try_get_value
StartGet(t) == /\ t # Writer /\ pc[t] = "idle" /\ budget[t] > 0
               /\ budget' = [budget EXCEPT ![t] = @ - 1]
               /\ \E k \in 1 .. NKeys : /\ lin' = MonCall(lin, t, "xget", k, 0)
                                        /\ loc' = [loc EXCEPT ![t] = [L0 EXCEPT !.key = k, !.lo = GhLo(t)]]
               /\ Goto(t, "r_st") /\ Acc(t, "call", "xget", 0, 1)
               /\ UNCHANGED <<freeExt, w, it, gh, memvars>>
RU == UNCHANGED <<budget, freeExt, w, it>>
r_st(t) == /\ pc[t] = "r_st"
           /\ \E i \in Readable(t, ST, Ord["r_st"]) :
                /\ Load(t, ST, Ord["r_st"], i) /\ Acc(t, "ld", "r_st", 0, 1)
                /\ loc' = [loc EXCEPT ![t].st = ValAt(ST, i), ![t].i = 0, ![t].ext = 0]
           /\ Goto(t, "r_k") /\ UNCHANGED lin /\ RU /\ NG
r_k(t) == /\ pc[t] = "r_k"
          /\ IF loc[t].i >= loc[t].st.cnt
               THEN /\ Goto(t, "r_h") /\ UNCHANGED <<loc, last, memvars>>
               ELSE \E j \in Readable(t, KEY(loc[t].i), Ord["r_k"]) :
                      /\ Load(t, KEY(loc[t].i), Ord["r_k"], j) /\ Acc(t, "ld", "r_k", ValAt(KEY(loc[t].i), j), 1)
                      /\ IF ValAt(KEY(loc[t].i), j) = loc[t].key
                           THEN Goto(t, "r_v") /\ UNCHANGED loc
                           ELSE loc' = [loc EXCEPT ![t].i = @ + 1] /\ UNCHANGED pc
          /\ UNCHANGED lin /\ RU /\ NG
r_v(t) == /\ pc[t] = "r_v"
          /\ \E j \in Readable(t, VAL(loc[t].i), Ord["r_v"]) :
               /\ Load(t, VAL(loc[t].i), Ord["r_v"], j) /\ Acc(t, "ld", "r_v", ValAt(VAL(loc[t].i), j), 1)
               /\ loc' = [loc EXCEPT ![t].v = ValAt(VAL(loc[t].i), j), ![t].nxt = "r_st2"]
          /\ Goto(t, "r_fence") /\ UNCHANGED lin /\ RU /\ NG
\* the acquire fence in front of every re-validation of the version
r_fence(t) == /\ pc[t] = "r_fence"
              /\ Fence(t, Ord["r_fence"]) /\ Acc(t, "fence", "r_fence", 0, 1)
              /\ Goto(t, loc[t].nxt) /\ UNCHANGED <<loc, lin>> /\ RU /\ NG
r_st2(t) == /\ pc[t] = "r_st2"
            /\ \E j \in Readable(t, ST, Ord["r_st2"]) :
                 LET s2 == ValAt(ST, j) IN
                 /\ Load(t, ST, Ord["r_st2"], j) /\ Acc(t, "ld", "r_st2", 0, 1)
                 /\ IF s2.ver # loc[t].st.ver THEN Goto(t, "r_st") /\ UNCHANGED <<loc, lin>> /\ NG
                    ELSE IF MarkerCheck /\ s2.mk = loc[t].i + 1 THEN /\ loc' = [loc EXCEPT ![t].i = @ + 1] /\ Goto(t, "r_k") /\ UNCHANGED lin /\ NG
                    ELSE Return(t, 1, loc[t].v) /\ GhRet(t, 1, loc[t].v) /\ UNCHANGED loc
            /\ RU
r_h(t) == /\ pc[t] = "r_h"
          /\ \E j \in Readable(t, HEAD, Ord["r_h"]) :
               /\ Load(t, HEAD, Ord["r_h"], j) /\ Acc(t, "ld", "r_h", ValAt(HEAD, j), 1)
               /\ loc' = [loc EXCEPT ![t].ext = ValAt(HEAD, j)]
          /\ Goto(t, "r_ek") /\ UNCHANGED lin /\ RU /\ NG
r_ek(t) == /\ pc[t] = "r_ek"
           /\ IF loc[t].ext = 0
                THEN Goto(t, "r_fence") /\ loc' = [loc EXCEPT ![t].nxt = "r_end"] /\ UNCHANGED <<last, memvars>>
                ELSE \E j \in Readable(t, EK(loc[t].ext), Ord["r_ek"]) :
                       /\ Load(t, EK(loc[t].ext), Ord["r_ek"], j) /\ Acc(t, "ld", "r_ek", ValAt(EK(loc[t].ext), j), 1)
                       /\ Goto(t, IF ValAt(EK(loc[t].ext), j) = loc[t].key THEN "r_ev" ELSE "r_en") /\ UNCHANGED loc
           /\ UNCHANGED lin /\ RU /\ NG
r_ev(t) == /\ pc[t] = "r_ev"
           /\ \E j \in Readable(t, EV(loc[t].ext), Ord["r_ev"]) :
                /\ Load(t, EV(loc[t].ext), Ord["r_ev"], j) /\ Acc(t, "ld", "r_ev", ValAt(EV(loc[t].ext), j), 1)
                /\ loc' = [loc EXCEPT ![t].v = ValAt(EV(loc[t].ext), j), ![t].nxt = "r_st3"]
           /\ Goto(t, "r_fence") /\ UNCHANGED lin /\ RU /\ NG
r_st3(t) == /\ pc[t] = "r_st3"
            /\ \E j \in Readable(t, ST, Ord["r_st2"]) :
                 /\ Load(t, ST, Ord["r_st2"], j) /\ Acc(t, "ld", "r_st2", 0, 1)
                 /\ IF ValAt(ST, j).ver # loc[t].st.ver THEN Goto(t, "r_st") /\ UNCHANGED lin /\ NG
                    ELSE Return(t, 1, loc[t].v) /\ GhRet(t, 1, loc[t].v)
            /\ UNCHANGED loc /\ RU
r_en(t) == /\ pc[t] = "r_en"
           /\ \E j \in Readable(t, EN(loc[t].ext), Ord["r_en"]) :
                /\ Load(t, EN(loc[t].ext), Ord["r_en"], j) /\ Acc(t, "ld", "r_en", ValAt(EN(loc[t].ext), j), 1)
                /\ loc' = [loc EXCEPT ![t].ext = ValAt(EN(loc[t].ext), j), ![t].nxt = "r_st4"]
           /\ Goto(t, "r_fence") /\ UNCHANGED lin /\ RU /\ NG
r_st4(t) == /\ pc[t] = "r_st4"
            /\ \E j \in Readable(t, ST, Ord["r_st2"]) :
                 /\ Load(t, ST, Ord["r_st2"], j) /\ Acc(t, "ld", "r_st2", 0, 1)
                 /\ Goto(t, IF ValAt(ST, j).ver # loc[t].st.ver THEN "r_st" ELSE "r_ek")
            /\ UNCHANGED <<loc, lin>> /\ RU /\ NG
r_end(t) == /\ pc[t] = "r_end"
            /\ IF FinalCheck
                 THEN \E j \in Readable(t, ST, Ord["r_st2"]) :
                        /\ Load(t, ST, Ord["r_st2"], j) /\ Acc(t, "ld", "r_st2", 0, 1)
                        /\ IF ValAt(ST, j).ver # loc[t].st.ver THEN Goto(t, "r_st") /\ UNCHANGED lin /\ NG
                           ELSE Return(t, 0, 0) /\ GhRet(t, 0, 0)
                 ELSE Return(t, 0, 0) /\ GhRet(t, 0, 0) /\ UNCHANGED <<last, memvars>>
            /\ UNCHANGED loc /\ RU

ReaderStep(t) == StartGet(t) \/ r_fence(t) \/ r_st(t) \/ r_k(t) \/ r_v(t) \/ r_st2(t) \/ r_h(t) \/ r_ek(t) \/ r_ev(t) \/ r_st3(t) \/ r_en(t) \/ r_st4(t) \/ r_end(t)
Next == StartEmplace \/ StartErase \/ StartIterErase \/ IterReset \/ w_run \/ \E t \in Threads \ {Writer} : ReaderStep(t)
Spec == Init /\ [][Next]_vars

\* C10 / C11: every history (writer operations, lock-free reads) is linearizable w.r.t. abs/SetMap:
\* a read returns absent or a value the key held at some instant of the call, never a value of another key
Linearizable == lin # {}
\* weak-memory runs: real-time order means nothing between threads that have not synchronized, so the read oracle is happens-before aware:
\* a read answers with the content the key had after SOME writer operation that is not older than what the reader had already seen of the
\* bucket state when it was called (everything completed before the newest state message in its view) - in particular a key that was present
\* in all of these states is found, and a value never belongs to another key
HbRegular == ~gh.bad
=============================================================================
