SPECIFICATION Spec
CONSTANTS
  AbsInit <- DequeInit
  AbsCfg <- DequeCfg
  AbsStep <- DequeStep
  AbsFinal <- DequeFinal
CONSTRAINT Progress
POSTCONDITION Report
CHECK_DEADLOCK FALSE
