----------------------------- MODULE Deque_Hist -----------------------------
(* History-level oracle for chase_work_stealing_deque (C12): recorded       *)
(* histories of the real code must be linearizable w.r.t. abs/Deque.        *)
EXTENDS LinHist, Deque
=============================================================================
