---- MODULE HarrisMichael_Step ----
(***************************************************************************)
(* Step-level trace validation of xenium::harris_michael_list_based_set    *)
(* against the impl spec HarrisMichael: every atomic access the real code  *)
(* performs inside find / emplace / erase / contains (records of the       *)
(* reclaimer - incl. the loads of acquire_if_equal, taken silently -, of   *)
(* thread registration and of node construction are filtered out by        *)
(* call-site symbolization) must be the next action of that thread in the  *)
(* spec: same kind of access, same CAS outcome, and the same link word up  *)
(* to node identity: null / non-null and the delete mark (marked_ptr keeps *)
(* it in the topmost bit: recorded as 2^18 on a heap pointer, 2^15 on a    *)
(* null pointer).  Keys of the operations are bound at the call records.   *)
(***************************************************************************)
EXTENDS HarrisMichael, Json, IOUtils

H == ndJsonDeserialize(IOEnv.TRACE)
NRec == Len(H)
VARIABLES l, ex, ord
svars == <<vars, l, ex, ord>>
ResetLines == {i \in 1 .. NRec : H[i].e = "reset"}
E == IF l \in 1 .. NRec THEN H[l] ELSE [e |-> "eof", t |-> 9, op |-> "", a |-> 0, b |-> 0, r |-> 0, v |-> 0]
AccKinds == {"ld", "st", "cas", "xchg", "faa", "fas", "for", "fence"}
Labels == DOMAIN OrdCode
Unbound == {"f_acq", "b_acq", "n_acq"}      \* guard_ptr::acquire / acquire_if_equal: inside the reclaimer
RecNull == E.b = 0 \/ E.b = -3
RecMark == IF E.b = -3 THEN (IF E.v = 32768 THEN 1 ELSE 0) ELSE IF E.b > 0 THEN (IF E.v >= 262144 THEN 1 ELSE 0) ELSE 0
ValueOk(lab, v) == (Ptr(v) = 0) = RecNull /\ Mark(v) = RecMark
SInit == /\ Init
         /\ \E i \in ResetLines : l = i + 1 /\ ex = H[i].a
         /\ ord = [lab \in Labels |-> {}]
StepEv == /\ l \in 1 .. NRec /\ E.e \in AccKinds /\ E.t \in Threads
          /\ ThreadStep(E.t)
          /\ last'.n = last.n + 1 /\ last'.t = E.t /\ last'.k = E.e /\ last'.ok = E.r /\ last'.lab \notin Unbound
          /\ ValueOk(last'.lab, last'.v)
          /\ ord' = IF last'.lab \in Labels THEN [ord EXCEPT ![last'.lab] = @ \cup {E.op}] ELSE ord
          /\ l' = l + 1 /\ UNCHANGED ex
CallEv == /\ l \in 1 .. NRec /\ E.e = "call" /\ E.t \in Threads
          /\ ThreadStep(E.t)
          /\ last'.n = last.n + 1 /\ last'.t = E.t /\ last'.k = "call" /\ last'.lab = E.op /\ last'.v = E.a
          /\ l' = l + 1 /\ UNCHANGED <<ex, ord>>
\* spec steps without a record: allocation / deletion of a private node, and the guarded loads of _tail / _head
Silent == /\ l \in 1 .. NRec
          /\ \E t \in Threads :
               ThreadStep(t) /\ ((last' = last) \/ (last'.n = last.n + 1 /\ last'.t = t /\ last'.lab \in Unbound))
          /\ UNCHANGED <<l, ex, ord>>
SkipEv == /\ l \in 1 .. NRec /\ (E.t = 9 \/ E.e \in {"ret", "cfg", "quiescent", "ev", "choice"}) /\ E.e # "reset"
          /\ l' = l + 1 /\ UNCHANGED <<vars, ex, ord>>
Accept == /\ l > 0 /\ (l = NRec + 1 \/ E.e = "reset")
          /\ PrintT(<<"ACC", ex>>) /\ PrintT(<<"ORD", ex, ord>>)
          /\ l' = 0 /\ UNCHANGED <<vars, ex, ord>>
SNext == StepEv \/ CallEv \/ Silent \/ SkipEv \/ Accept
Progress == TLCSet(1, IF l > TLCGet(1) THEN l ELSE TLCGet(1))
ASSUME TLCSet(1, 0)
Report == PrintT(<<"FURTHEST", TLCGet(1), "OF", NRec>>)
====
