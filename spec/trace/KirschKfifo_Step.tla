---- MODULE KirschKfifo_Step ----
(***************************************************************************)
(* Step-level trace validation of xenium::kirsch_kfifo_queue against the   *)
(* impl spec KirschKfifo: every atomic access the real code performs       *)
(* inside push / do_pop / find_index / committed / advance_head /           *)
(* advance_tail (records of the reclaimer, of thread registration and of    *)
(* segment allocation / release are filtered out by call-site              *)
(* symbolization) must be the next action of that thread in the spec:      *)
(* same kind of access, same CAS outcome, and the same word -               *)
(*   slots: value (the driver pushes pointers into a named array, the      *)
(*     runtime records index + tag * 2^20, b = -2; an empty slot with a    *)
(*     tag is b = -3, v = tag) - value AND tag must agree,                 *)
(*   head_ / tail_ / next: null / non-null and the tag (heap pointers are  *)
(*     recorded as block id + (mark bits, tag * 8)),                       *)
(*   the deleted flag exactly.                                             *)
(* The random start index of find_index is inferred by TLC.                *)
(***************************************************************************)
EXTENDS KirschKfifo, Json, IOUtils

H == ndJsonDeserialize(IOEnv.TRACE)
NRec == Len(H)
VARIABLES l, ex, ord, vmap        \* vmap: value number of the spec -> value the driver pushed
svars == <<vars, l, ex, ord, vmap>>
ResetLines == {i \in 1 .. NRec : H[i].e = "reset"}
E == IF l \in 1 .. NRec THEN H[l] ELSE [e |-> "eof", t |-> 9, op |-> "", a |-> 0, b |-> 0, r |-> 0, v |-> 0]
AccKinds == {"ld", "st", "cas", "xchg", "faa", "fas", "for", "fence"}
Labels == DOMAIN OrdCode
Unbound == {"u_acqt", "o_acqh"}            \* guard_ptr::acquire(tail_ / head_): inside the reclaimer
ItemLabels == {"f_ld", "u_cas", "c_ld", "c_rm", "o_cas"}
FlagLabels == {"c_del", "c_del2", "h_del"}
\* does the recorded word agree with the word of the spec's access?
ValueOk(lab, w) ==
  IF lab \in FlagLabels THEN E.b = 0 /\ w.p = E.v
  ELSE IF lab \in ItemLabels
    THEN IF w.p = 0 THEN (w.m = 0 /\ E.b = 0 /\ E.v = 0) \/ (w.m > 0 /\ E.b = -3 /\ E.v = w.m)
         ELSE E.b = -2 /\ w.p \in Vals /\ E.v = vmap[w.p] + w.m * 1048576
  ELSE IF w.p = 0 THEN (w.m = 0 /\ E.b = 0 /\ E.v = 0) \/ (w.m > 0 /\ E.b = -3 /\ E.v = w.m)
       ELSE E.b > 0 /\ E.v \div 8 = w.m
SInit == /\ Init
         /\ \E i \in ResetLines : l = i + 1 /\ ex = H[i].a
         /\ ord = [lab \in Labels |-> {}]
         /\ vmap = [v \in Vals |-> 0]
StepEv == /\ l \in 1 .. NRec /\ E.e \in AccKinds /\ E.t \in Threads
          /\ ThreadStep(E.t)
          /\ last'.n = last.n + 1 /\ last'.t = E.t /\ last'.k = E.e /\ last'.ok = E.r /\ last'.lab \notin Unbound
          /\ ValueOk(last'.lab, last'.v)
          /\ ord' = IF last'.lab \in Labels THEN [ord EXCEPT ![last'.lab] = @ \cup {E.op}] ELSE ord
          /\ l' = l + 1 /\ UNCHANGED <<ex, vmap>>
CallEv == /\ l \in 1 .. NRec /\ E.e = "call" /\ E.t \in Threads
          /\ ThreadStep(E.t)
          /\ last'.n = last.n + 1 /\ last'.t = E.t /\ last'.k = "call" /\ last'.lab = E.op
          /\ vmap' = IF E.op = "push" THEN [vmap EXCEPT ![nextv] = E.a] ELSE vmap
          /\ l' = l + 1 /\ UNCHANGED <<ex, ord>>
\* spec steps without a record: allocation / deletion of a private node, and the guarded loads of _tail / _head
Silent == /\ l \in 1 .. NRec
          /\ \E t \in Threads :
               ThreadStep(t) /\ ((last' = last) \/ (last'.n = last.n + 1 /\ last'.t = t /\ last'.lab \in Unbound))
          /\ UNCHANGED <<l, ex, ord, vmap>>
SkipEv == /\ l \in 1 .. NRec /\ (E.t = 9 \/ E.e \in {"ret", "cfg", "quiescent", "ev", "choice"}) /\ E.e # "reset"
          /\ l' = l + 1 /\ UNCHANGED <<vars, ex, ord, vmap>>
Accept == /\ l > 0 /\ (l = NRec + 1 \/ E.e = "reset")
          /\ PrintT(<<"ACC", ex>>) /\ PrintT(<<"ORD", ex, ord>>)
          /\ l' = 0 /\ UNCHANGED <<vars, ex, ord, vmap>>
SNext == StepEv \/ CallEv \/ Silent \/ SkipEv \/ Accept
Progress == TLCSet(1, IF l > TLCGet(1) THEN l ELSE TLCGet(1))
ASSUME TLCSet(1, 0)
Report == PrintT(<<"FURTHEST", TLCGet(1), "OF", NRec>>)
====
