--------------------------- MODULE KnownFindings ---------------------------
(***************************************************************************)
(* Finding predicates: each operator describes exactly one recorded,       *)
(* genuine defect of mpoeter/xenium (see /verif/known-findings.json) as a  *)
(* property of the step-level trace of a rejected execution.  A rejected   *)
(* execution is excused (KNOWN-FINDING) only if its predicate holds; any   *)
(* other violation of the same property is still reported.                 *)
(* TRACE = labelled step trace (records carry fn = innermost xenium        *)
(* function of the access), KF = predicate to evaluate.                    *)
(***************************************************************************)
EXTENDS Integers, Sequences, TLC, Json, IOUtils

H == ndJsonDeserialize(IOEnv.TRACE)
N == Len(H)
AccKinds == {"ld", "st", "cas", "xchg", "faa", "fas", "for", "fand", "fxor", "fence"}
IsAcc(i) == H[i].e \in AccKinds
\* k is the next access of thread t after i
NextAcc(t, i, k) == /\ k > i /\ IsAcc(k) /\ H[k].t = t
                    /\ \A m \in i + 1 .. k - 1 : ~(IsAcc(m) /\ H[m].t = t)

\* Predicates are evaluated per execution: the records between two "reset" records, lo..hi.

\* C12: growing_circular_array::get loads the capacity and then the entry; the owner grows the array
\* in between (store to the capacity), so the thief indexes the entry with a stale capacity.
C12_StaleCapacity(lo, hi) ==
  \E i \in lo .. hi :
     /\ H[i].e = "ld" /\ H[i].t \notin {0, 9} /\ H[i].fn = "growing_circular_array::get"
     /\ \E k \in i + 1 .. hi :
          /\ NextAcc(H[i].t, i, k) /\ H[k].e = "ld" /\ H[k].fn = "growing_circular_array::get"
          /\ \E j \in i + 1 .. k - 1 : H[j].e = "st" /\ H[j].a = H[i].a /\ H[j].t # H[i].t

Eval(lo, hi) == CASE IOEnv.KF = "C12_StaleCapacity" -> C12_StaleCapacity(lo, hi)
                  [] OTHER -> FALSE
Resets == {i \in 1 .. N : H[i].e = "reset"}
SegEnd(i) == LET later == {j \in Resets : j > i} IN
             IF later = {} THEN N ELSE (CHOOSE j \in later : \A m \in later : j <= m) - 1
ASSUME \A i \in Resets : PrintT(<<"KF", IOEnv.KF, H[i].a, Eval(i + 1, SegEnd(i))>>)

VARIABLE x
Init == x = 0
Next == UNCHANGED x
=============================================================================
