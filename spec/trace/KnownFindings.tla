--------------------------- MODULE KnownFindings ---------------------------
(***************************************************************************)
(* Finding predicates: each operator describes exactly one recorded,       *)
(* genuine defect of mpoeter/xenium (see /verif/known-findings.json) as a  *)
(* property of the step-level trace of a rejected execution.  A rejected   *)
(* execution is excused (KNOWN-FINDING) only if its predicate holds; any   *)
(* other violation of the same property is still reported.                 *)
(* TRACE = labelled step trace (records carry fn = innermost xenium        *)
(* function of the access), KF = predicate to evaluate.                    *)
(***************************************************************************)
EXTENDS Integers, Sequences, FiniteSets, TLC, Json, IOUtils

H == ndJsonDeserialize(IOEnv.TRACE)
N == Len(H)
AccKinds == {"ld", "st", "cas", "xchg", "faa", "fas", "for", "fand", "fxor", "fence"}
IsAcc(i) == H[i].e \in AccKinds
\* k is the next access of thread t after i
NextAcc(t, i, k) == /\ k > i /\ IsAcc(k) /\ H[k].t = t
                    /\ \A m \in i + 1 .. k - 1 : ~(IsAcc(m) /\ H[m].t = t)

\* Predicates are evaluated per execution: the records between two "reset" records, lo..hi.

\* C12: growing_circular_array::get loads the capacity and then the entry; the owner grows the array
\* in between (store to the capacity), so the thief indexes the entry with a stale capacity.
C12_StaleCapacity(lo, hi) ==
  \E i \in lo .. hi :
     /\ H[i].e = "ld" /\ H[i].t \notin {0, 9} /\ H[i].fn = "growing_circular_array::get"
     /\ \E k \in i + 1 .. hi :
          /\ NextAcc(H[i].t, i, k) /\ H[k].e = "ld" /\ H[k].fn = "growing_circular_array::get"
          /\ \E j \in i + 1 .. k - 1 : H[j].e = "st" /\ H[j].a = H[i].a /\ H[j].t # H[i].t

\* C10 / C11: vyukov_hash_map::try_get_value keeps reading the block it acquired at its start although a concurrent
\* grow has replaced it: thread t loads location X (data_block) inside an "xget" call, another thread stores X from
\* do_grow, and t's call is still open afterwards.  Elements removed through the new block are then invisible to
\* the version validation of the old bucket (use after free with pointer-based reclaimers and node-based storage).
OpenXget(t, c, i) == /\ H[c].e = "call" /\ H[c].t = t /\ H[c].op = "xget" /\ c < i
                     /\ \A m \in c + 1 .. i : ~(H[m].e = "ret" /\ H[m].t = t)
\* The finding is about elements REMOVED THROUGH THE NEW BLOCK: the key the reader looks for is erased / extracted (by a call issued after the new block
\* was published) while the reader's call is still open.  A reader that misses a key nobody removes is not this finding (seeded change c10_5).
C10_StaleBlockRead(lo, hi) ==
  \E i \in lo .. hi :
     /\ H[i].e = "ld" /\ H[i].t # 9
     /\ \E c \in lo .. i : OpenXget(H[i].t, c, i)
     /\ \E j \in i + 1 .. hi :
          /\ H[j].e = "st" /\ H[j].a = H[i].a /\ H[j].t # H[i].t /\ H[j].fn = "vyukov_hash_map::do_grow"
          /\ \E c \in lo .. i :
               /\ OpenXget(H[i].t, c, j)
               /\ \E e \in j + 1 .. hi :
                    /\ H[e].e = "call" /\ H[e].op \in {"erase", "extract", "it_erase"} /\ H[e].a = H[c].a /\ H[e].t # H[i].t
                    /\ OpenXget(H[i].t, c, e)

\* C10: the accessor of the (non-trivial key, managed_ptr value) storage mode acquires the node guard and then the
\* value guard INSIDE the node (node_guard->value) before try_get_value has validated the bucket version: the first
\* access to reclaimed memory happens in accessor::accessor called from traits::acquire called from try_get_value.
C10_NestedAccessorDeref(lo, hi) ==
  LET uafs == {i \in lo .. hi : H[i].e = "uaf"} IN
  /\ uafs # {}
  /\ LET first == CHOOSE i \in uafs : \A j \in uafs : i <= j IN
     H[first].ctx = "impl::vyukov_hash_map_traits::accessor::accessor<impl::vyukov_hash_map_traits::acquire<vyukov_hash_map::try_get_value"

\* C06: kirsch_bounded_kfifo_queue::try_push - queue_full() compares the whole head word (index and ABA tag); a concurrent
\* committed() that only bumps the tag makes it report "not full", and try_push then advances the tail onto the head's
\* segment although the old tail segment still holds elements: these are overtaken by more than k-1 later pushes.
\* Signature: the head value loaded in queue_full differs from the head_old loaded in try_push only in its tag (upper bits).
C06_HeadTagBump(lo, hi) ==
  \E i \in lo .. hi :
     /\ H[i].e = "ld" /\ H[i].fn = "kirsch_bounded_kfifo_queue::queue_full"
     /\ \E j \in lo .. i - 1 :
          /\ H[j].e = "ld" /\ H[j].t = H[i].t /\ H[j].a = H[i].a /\ H[j].fn = "kirsch_bounded_kfifo_queue::try_push"
          /\ H[j].v # H[i].v /\ H[j].v % 65536 = H[i].v % 65536
          /\ \A m \in j + 1 .. i - 1 : ~(H[m].e = "ld" /\ H[m].t = H[i].t /\ H[m].a = H[i].a /\ H[m].fn = "kirsch_bounded_kfifo_queue::try_push")

\* C06: kirsch_bounded_kfifo_queue::try_push inserts its value with a CAS and only then checks `committed`; when committed()
\* finds the slot outside the valid region (or loses the race for the head tag) it takes the value OUT again and retries.
\* Between the insertion and the withdrawal the value is visible: a concurrent try_push sees a full queue and is rejected,
\* a later pop sees the queue empty again - a history no bounded k-FIFO has (a push rejected although nothing was stored).
\* Signature: a successful CAS inside committed() on a slot (the word found is a value pointer, not an index word).
C06_PushRollback(lo, hi) ==
  \E i \in lo .. hi :
     /\ H[i].e = "cas" /\ H[i].r = 1 /\ H[i].t # 9 /\ H[i].fn = "kirsch_bounded_kfifo_queue::committed"
     /\ H[i].b \notin {0, -3}

\* C05: nikolaev_bounded_queue operated by more threads than it has entries.  nikolaev_scq's _threshold (3n-1, decremented by
\* every failing dequeue, reset by an enqueue) then goes negative while the ring still holds (or is about to receive) an index:
\* several try_push calls fail in the free ring's dequeue at the same time and keep decrementing after the only index has been
\* returned.  From then on dequeues on that ring fail at once or miss the entry: the queue refuses try_push although it is empty
\* and quiescent.  Signature: more client threads than the configured capacity, and a fetch_sub on a _threshold inside
\* nikolaev_scq::dequeue that finds it already <= 0.
C05_ThresholdUnderflow(lo, hi) ==
  LET caps == {H[i].a : i \in {j \in lo .. hi : H[j].e = "cfg" /\ H[j].op = "kind_nikbounded"}}
      clients == {H[i].t : i \in lo .. hi} \ {9}
  IN /\ caps # {} /\ \A c \in caps : Cardinality(clients) > c
     /\ \E k \in lo .. hi :
          /\ H[k].e = "fas" /\ H[k].fn = "nikolaev_scq::dequeue" /\ H[k].t # 9
          /\ (H[k].b = 0 /\ H[k].v <= 0) \/ H[k].b = -1

Eval(lo, hi) == CASE IOEnv.KF = "C12_StaleCapacity" -> C12_StaleCapacity(lo, hi)
                  [] IOEnv.KF = "C06_HeadTagBump" -> C06_HeadTagBump(lo, hi)
                  [] IOEnv.KF = "C05_ThresholdUnderflow" -> C05_ThresholdUnderflow(lo, hi)
                  [] IOEnv.KF = "C06_PushRollback" -> C06_PushRollback(lo, hi)
                  [] IOEnv.KF = "C10_NestedAccessorDeref" -> C10_NestedAccessorDeref(lo, hi)
                  [] IOEnv.KF = "C10_StaleBlockRead" -> C10_StaleBlockRead(lo, hi)
                  [] OTHER -> FALSE
Resets == {i \in 1 .. N : H[i].e = "reset"}
SegEnd(i) == LET later == {j \in Resets : j > i} IN
             IF later = {} THEN N ELSE (CHOOSE j \in later : \A m \in later : j <= m) - 1
ASSUME \A i \in Resets : PrintT(<<"KF", IOEnv.KF, H[i].a, Eval(i + 1, SegEnd(i))>>)

VARIABLE x
Init == x = 0
Next == UNCHANGED x
=============================================================================
