--------------------------- MODULE LeftRight_Hist ---------------------------
(* History-level oracle for left_right (C13): linearizable w.r.t. an atomic register, and  *)
(* no read functor ever runs on the instance an update functor is modifying (abs/LRReg).    *)
EXTENDS LinHist, LRReg
=============================================================================
