---- MODULE MSQueue_Step ----
(***************************************************************************)
(* Step-level trace validation of xenium::michael_scott_queue against the  *)
(* impl spec MSQueue: every atomic access the real code performs inside    *)
(* push / pop_node (records of the reclaimer - incl. the guarded loads of  *)
(* _head, _tail and _next, which are taken silently - of thread            *)
(* registration and of the node constructor are filtered out by call-site  *)
(* symbolization) must be the next action of that thread in the spec: same *)
(* kind of access, same CAS outcome, pointers equal in null / non-null.    *)
(* The memory order of every matched record is collected per action label. *)
(***************************************************************************)
EXTENDS MSQueue, Json, IOUtils

H == ndJsonDeserialize(IOEnv.TRACE)
NRec == Len(H)
VARIABLES l, ex, ord
svars == <<vars, l, ex, ord>>
ResetLines == {i \in 1 .. NRec : H[i].e = "reset"}
E == IF l \in 1 .. NRec THEN H[l] ELSE [e |-> "eof", t |-> 9, op |-> "", a |-> 0, b |-> 0, r |-> 0, v |-> 0]
AccKinds == {"ld", "st", "cas", "xchg", "faa", "fas", "for", "fence"}
Labels == DOMAIN OrdCode
Unbound == {"p_acqt", "q_acqh", "q_acqn"}   \* guard_ptr::acquire(_tail / _head / h->_next): inside the reclaimer
ValueOk(lab, v) == (v = 0) = (E.b = 0 /\ E.v = 0)      \* node pointers
SInit == /\ Init
         /\ \E i \in ResetLines : l = i + 1 /\ ex = H[i].a
         /\ ord = [lab \in Labels |-> {}]
StepEv == /\ l \in 1 .. NRec /\ E.e \in AccKinds /\ E.t \in Threads
          /\ ThreadStep(E.t)
          /\ last'.n = last.n + 1 /\ last'.t = E.t /\ last'.k = E.e /\ last'.ok = E.r /\ last'.lab \notin Unbound
          /\ ValueOk(last'.lab, last'.v)
          /\ ord' = IF last'.lab \in Labels THEN [ord EXCEPT ![last'.lab] = @ \cup {E.op}] ELSE ord
          /\ l' = l + 1 /\ UNCHANGED ex
CallEv == /\ l \in 1 .. NRec /\ E.e = "call" /\ E.t \in Threads
          /\ ThreadStep(E.t)
          /\ last'.n = last.n + 1 /\ last'.t = E.t /\ last'.k = "call" /\ last'.lab = E.op
          /\ l' = l + 1 /\ UNCHANGED <<ex, ord>>
\* spec steps without a record: allocation / deletion of a private node, and the guarded loads of _tail / _head
Silent == /\ l \in 1 .. NRec
          /\ \E t \in Threads :
               ThreadStep(t) /\ ((last' = last) \/ (last'.n = last.n + 1 /\ last'.t = t /\ last'.lab \in Unbound))
          /\ UNCHANGED <<l, ex, ord>>
SkipEv == /\ l \in 1 .. NRec /\ (E.t = 9 \/ E.e \in {"ret", "cfg", "quiescent", "ev", "choice"}) /\ E.e # "reset"
          /\ l' = l + 1 /\ UNCHANGED <<vars, ex, ord>>
Accept == /\ l > 0 /\ (l = NRec + 1 \/ E.e = "reset")
          /\ PrintT(<<"ACC", ex>>) /\ PrintT(<<"ORD", ex, ord>>)
          /\ l' = 0 /\ UNCHANGED <<vars, ex, ord>>
SNext == StepEv \/ CallEv \/ Silent \/ SkipEv \/ Accept
Progress == TLCSet(1, IF l > TLCGet(1) THEN l ELSE TLCGet(1))
ASSUME TLCSet(1, 0)
Report == PrintT(<<"FURTHEST", TLCGet(1), "OF", NRec>>)
====
