---------------------------- MODULE MarkedPtr_Vec ----------------------------
(***************************************************************************)
(* Translation validation of the real marked_ptr against abs/MarkedPtr     *)
(* (C15a).  The harness instantiates marked_ptr<T, M> for every M and, for *)
(* every generator vector, logs                                            *)
(*   mp   a = M (+ 100 * MaxUpperMarkBits if explicit)  b = pointer bit     *)
(*        (-1 none, 64 all canonical bits)                                 *)
(*        r = mark bit (-1 none, 64 all mark bits)  v = flags              *)
(*        (1: get()==p  2: mark()==mark  4: equality is value equality)    *)
(*   mpw  a, b, r = bits 0..20, 21..41, 42..63 of the raw word             *)
(* TLC recomputes the word from the TLA+ definition and compares.          *)
(***************************************************************************)
EXTENDS MarkedPtr, Sequences, TLC, Json, IOUtils

H == ndJsonDeserialize(IOEnv.TRACE)
N == Len(H)
\* a = M + 100 * MaxUpperMarkBits when the third template parameter is given explicitly, M alone for the default (16)
MOf(i) == H[i].a % 100
UOf(i) == IF H[i].a \div 100 = 0 THEN 16 ELSE H[i].a \div 100
Bits(x, base, n) == {base + i : i \in {j \in 0 .. n - 1 : (x \div (2 ^ j)) % 2 = 1}}
WordOf(i) == Bits(H[i].a, 0, 21) \cup Bits(H[i].b, 21, 21) \cup Bits(H[i].r, 42, 22)
PtrOf(M, U, b) == IF b = -1 THEN {} ELSE IF b = 64 THEN PMask(M, U) ELSE {b}
MarkOfVec(M, r) == IF r = -1 THEN {} ELSE IF r = 64 THEN MarkSet(M) ELSE {r}
OkAt(i) == LET M == MOf(i) U == UOf(i) P == PtrOf(M, U, H[i].b) Mk == MarkOfVec(M, H[i].r) IN
           /\ H[i + 1].e = "mpw"
           /\ H[i].v = 7
           /\ Canonical(M, U, P)
           /\ WordOf(i + 1) = Make(M, U, P, Mk)
Vecs == {i \in 1 .. N : H[i].e = "mp"}
Bad == {i \in Vecs : ~OkAt(i)}
ASSUME PrintT(<<"MPVEC", Cardinality(Vecs), Cardinality(Bad), IF Bad = {} THEN 0 ELSE CHOOSE i \in Bad : TRUE>>)
VARIABLE x
Init == x = 0
Next == UNCHANGED x
=============================================================================
