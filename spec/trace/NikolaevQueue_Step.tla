---- MODULE NikolaevQueue_Step ----
(***************************************************************************)
(* Step-level trace validation of xenium::nikolaev_queue against the impl  *)
(* spec NikolaevQueue: every atomic access the real code performs inside   *)
(* nikolaev_queue.hpp / detail/nikolaev_scq.hpp (records of the reclaimer, *)
(* of thread registration and of the ring constructors are filtered out    *)
(* by call-site symbolization before TLC sees the trace) must be the next  *)
(* action of that thread in the spec: same kind of access, same CAS        *)
(* outcome and - for the index rings, whose words are small integers or    *)
(* all ones - exactly the same value.  Pointer-valued accesses (_head,     *)
(* _tail, _next) are bound by kind and outcome only; the guarded loads of  *)
(* _head / _tail happen inside the reclaimer and are taken silently.       *)
(***************************************************************************)
EXTENDS NikolaevQueue, Json, IOUtils

H == ndJsonDeserialize(IOEnv.TRACE)
NRec == Len(H)
VARIABLES l, ex
svars == <<vars, l, ex>>
ResetLines == {i \in 1 .. NRec : H[i].e = "reset"}
E == IF l \in 1 .. NRec THEN H[l] ELSE [e |-> "eof", t |-> 9, op |-> "", a |-> 0, b |-> 0, r |-> 0, v |-> 0]
AccKinds == {"ld", "st", "cas", "xchg", "faa", "fas", "for", "fence"}
AllOnes == 582344007                       \* (2^64 - 1) % 1000000007: how the runtime records a word of all ones
HasValue == E.b = 0 \/ (E.b = -1 /\ E.v = AllOnes)
RecValue == IF E.b = 0 THEN E.v ELSE -1
Unbound == {"p_tail", "q_head"}            \* guard_ptr::acquire(_tail / _head): inside the reclaimer
SInit == /\ Init
         /\ \E i \in ResetLines : l = i + 1 /\ ex = H[i].a
StepEv == /\ l \in 1 .. NRec /\ E.e \in AccKinds /\ E.t \in Threads
          /\ ThreadStep(E.t)
          /\ last'.n = last.n + 1 /\ last'.t = E.t /\ last'.k = E.e /\ last'.ok = E.r /\ last'.lab \notin Unbound
          /\ HasValue => last'.v = RecValue
          /\ l' = l + 1 /\ UNCHANGED ex
CallEv == /\ l \in 1 .. NRec /\ E.e = "call" /\ E.t \in Threads
          /\ ThreadStep(E.t)
          /\ last'.n = last.n + 1 /\ last'.t = E.t /\ last'.k = "call" /\ last'.lab = E.op
          /\ l' = l + 1 /\ UNCHANGED ex
\* spec steps without a record: control steps, and the guarded loads of _tail / _head
Silent == /\ l \in 1 .. NRec
          /\ \E t \in Threads :
               ThreadStep(t) /\ ((last' = last) \/ (last'.n = last.n + 1 /\ last'.t = t /\ last'.lab \in Unbound))
          /\ UNCHANGED <<l, ex>>
SkipEv == /\ l \in 1 .. NRec /\ (E.t = 9 \/ E.e \in {"ret", "cfg", "quiescent", "ev", "choice"}) /\ E.e # "reset"
          /\ l' = l + 1 /\ UNCHANGED <<vars, ex>>
Accept == /\ l > 0 /\ (l = NRec + 1 \/ E.e = "reset")
          /\ PrintT(<<"ACC", ex>>)
          /\ l' = 0 /\ UNCHANGED <<vars, ex>>
SNext == StepEv \/ CallEv \/ Silent \/ SkipEv \/ Accept
Progress == TLCSet(1, IF l > TLCGet(1) THEN l ELSE TLCGet(1))
ASSUME TLCSet(1, 0)
Report == PrintT(<<"FURTHEST", TLCGet(1), "OF", NRec>>)
\* the client program of the step traces: nik10/<reclaimer>/I;;push1,push2,pop;pop,push3
ProgStep == << <<"push", "push", "pop">>, <<"pop", "push">> >>
====
