------------------------------ MODULE Queue_Hist ------------------------------
(* History-level oracle for all queues (C04, C05, C06, C07): linearizability w.r.t. abs/Queues *)
(* with the statement's slack, and the element-ownership monitor.                             *)
EXTENDS LinHist, Queues
=============================================================================
