---- MODULE Ramalhete_Step ----
(***************************************************************************)
(* Step-level trace validation of xenium::ramalhete_queue against the impl *)
(* spec Ramalhete: every atomic access the real code performs inside       *)
(* ramalhete_queue::push / pop (records of the reclaimer, of thread        *)
(* registration and of the node constructor / destructor are filtered out  *)
(* by call-site symbolization before TLC sees the trace) must be the next  *)
(* action of that thread in the spec: same kind of access, same CAS        *)
(* outcome, and the same value -                                           *)
(*   index words (push_idx / pop_idx) exactly (small integers),            *)
(*   entries exactly: the driver pushes pointers into a named array, the   *)
(*     runtime records them as their index (b = -2); nullptr is 0 and the  *)
(*     "taken" mark (marked_value(nullptr, 1)) is the word 2^63 (a null    *)
(*     pointer with a mark in the topmost bits: b = -3, v = 2^15) = spec -1*)
(*   node pointers (_head, _tail, next) by null / non-null.                *)
(* The guarded loads of _head / _tail happen inside the reclaimer and are  *)
(* taken silently.  The memory order of every matched record is collected  *)
(* per action label: the order table used by the weak-memory model runs    *)
(* (C03) is extracted from the code.                                       *)
(***************************************************************************)
EXTENDS Ramalhete, Json, IOUtils

H == ndJsonDeserialize(IOEnv.TRACE)
NRec == Len(H)
VARIABLES l, ex, ord, vmap        \* vmap: value number of the spec -> value the driver pushed
svars == <<vars, l, ex, ord, vmap>>
ResetLines == {i \in 1 .. NRec : H[i].e = "reset"}
E == IF l \in 1 .. NRec THEN H[l] ELSE [e |-> "eof", t |-> 9, op |-> "", a |-> 0, b |-> 0, r |-> 0, v |-> 0]
AccKinds == {"ld", "st", "cas", "xchg", "faa", "fas", "for", "fence"}
Labels == DOMAIN OrdCode
Unbound == {"p_acqt", "q_acqh"}            \* guard_ptr::acquire(_tail / _head): inside the reclaimer
IdxLabels == {"p_faa", "q_faa", "q_ldpop", "q_ldpush", "p_reset"}
EntLabels == {"p_cas", "q_ldent", "q_retry", "q_ldacq", "q_xchg"}
TakenMark == 32768                      \* marked_ptr<T, 1> keeps its mark in the topmost bit: bit 15 of the 16 top bits
\* does the recorded value agree with the value of the spec's access?
ValueOk(lab, v) ==
  IF lab \in IdxLabels THEN E.b = 0 /\ v = E.v
  ELSE IF lab \in EntLabels THEN (E.b = -2 /\ v \in Vals /\ vmap[v] = E.v) \/ (E.b = 0 /\ E.v = 0 /\ v = 0) \/ (E.b = -3 /\ E.v = TakenMark /\ v = -1)
  ELSE (v = 0) = (E.b = 0 /\ E.v = 0)      \* node pointers
SInit == /\ Init
         /\ \E i \in ResetLines : l = i + 1 /\ ex = H[i].a
         /\ ord = [lab \in Labels |-> {}]
         /\ vmap = [v \in Vals |-> 0]
StepEv == /\ l \in 1 .. NRec /\ E.e \in AccKinds /\ E.t \in Threads
          /\ ThreadStep(E.t)
          /\ last'.n = last.n + 1 /\ last'.t = E.t /\ last'.k = E.e /\ last'.ok = E.r /\ last'.lab \notin Unbound
          /\ ValueOk(last'.lab, last'.v)
          /\ ord' = IF last'.lab \in Labels THEN [ord EXCEPT ![last'.lab] = @ \cup {E.op}] ELSE ord
          /\ l' = l + 1 /\ UNCHANGED <<ex, vmap>>
CallEv == /\ l \in 1 .. NRec /\ E.e = "call" /\ E.t \in Threads
          /\ ThreadStep(E.t)
          /\ last'.n = last.n + 1 /\ last'.t = E.t /\ last'.k = "call" /\ last'.lab = E.op
          /\ vmap' = IF E.op = "push" THEN [vmap EXCEPT ![nextv] = E.a] ELSE vmap
          /\ l' = l + 1 /\ UNCHANGED <<ex, ord>>
\* spec steps without a record: allocation / deletion of a private node, and the guarded loads of _tail / _head
Silent == /\ l \in 1 .. NRec
          /\ \E t \in Threads :
               ThreadStep(t) /\ ((last' = last) \/ (last'.n = last.n + 1 /\ last'.t = t /\ last'.lab \in Unbound))
          /\ UNCHANGED <<l, ex, ord, vmap>>
SkipEv == /\ l \in 1 .. NRec /\ (E.t = 9 \/ E.e \in {"ret", "cfg", "quiescent", "ev", "choice"}) /\ E.e # "reset"
          /\ l' = l + 1 /\ UNCHANGED <<vars, ex, ord, vmap>>
Accept == /\ l > 0 /\ (l = NRec + 1 \/ E.e = "reset")
          /\ PrintT(<<"ACC", ex>>) /\ PrintT(<<"ORD", ex, ord>>)
          /\ l' = 0 /\ UNCHANGED <<vars, ex, ord, vmap>>
SNext == StepEv \/ CallEv \/ Silent \/ SkipEv \/ Accept
Progress == TLCSet(1, IF l > TLCGet(1) THEN l ELSE TLCGet(1))
ASSUME TLCSet(1, 0)
Report == PrintT(<<"FURTHEST", TLCGet(1), "OF", NRec>>)
====
