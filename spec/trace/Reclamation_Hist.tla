-------------------------- MODULE Reclamation_Hist --------------------------
(* History-level oracle for the reclamation schemes (C01, C02, C15, C17, C18): the events   *)
(* of the generic client running on the real code are checked against abs/Reclamation.       *)
EXTENDS LinHist, Reclamation
=============================================================================
