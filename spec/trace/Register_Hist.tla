---------------------------- MODULE Register_Hist ----------------------------
(* History-level oracle for seqlock (C14) and left_right (C13): recorded histories of the *)
(* real code must be linearizable w.r.t. abs/Register.                                    *)
EXTENDS LinHist, Register
=============================================================================
