----------------------------- MODULE SetMap_Hist -----------------------------
(* History-level oracle for harris_michael_list_based_set / hash_map and vyukov_hash_map     *)
(* (C08-C11): linearizability w.r.t. abs/SetMap incl. weakly consistent traversals.          *)
EXTENDS LinHist, SetMap
=============================================================================
