----------------------------- MODULE Solo_Check -----------------------------
(***************************************************************************)
(* C16 on the real code: records of solo continuations.  xvrt replays a    *)
(* prefix of an explored interleaving (all other threads stopped wherever  *)
(* they are), then runs ONE thread alone until its current operation       *)
(* returns.  Only operations documented as lock-free are probed.  Record:  *)
(*   solo  t = thread  op = operation  a = scheduling point of the switch  *)
(*         r = steps the thread needed alone   v = 1 completed, 0 blocked  *)
(*         (the thread re-read the same locations with nobody else able    *)
(*         to change them: it waits for another thread)                    *)
(* Every probe must complete within Bound solo steps.                      *)
(***************************************************************************)
EXTENDS Integers, Sequences, FiniteSets, TLC, Json, IOUtils
H == ndJsonDeserialize(IOEnv.TRACE)
N == Len(H)
Bound == atoi(IOEnv.SOLO_BOUND)
Probes == {i \in 1 .. N : H[i].e = "solo"}
Bad == {i \in Probes : ~(H[i].v = 1 /\ H[i].r <= Bound)}
MaxSteps == IF Probes = {} THEN 0 ELSE H[CHOOSE i \in Probes : \A j \in Probes : H[j].r <= H[i].r].r
ASSUME PrintT(<<"SOLO", Cardinality(Probes), Cardinality(Bad), IF Bad = {} THEN 0 ELSE CHOOSE i \in Bad : TRUE, MaxSteps>>)
VARIABLE x
Init == x = 0
Next == UNCHANGED x
=============================================================================
