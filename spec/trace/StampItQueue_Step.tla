---- MODULE StampItQueue_Step ----
(***************************************************************************)
(* Step-level trace validation of stamp_it::thread_order_queue against the *)
(* impl spec StampItQueue: every atomic access the real code performs      *)
(* inside push / remove / set_mark_flag / make_clean_marked /              *)
(* remove_from_prev_list / remove_from_next_list /                         *)
(* remove_or_skip_marked_block /                                           *)
(* save_next_as_last_and_move_next_to_next_prev / mark_next /              *)
(* update_tail_stamp (records of thread_data, of the thread_block_list and *)
(* of the client are filtered out by call-site symbolization) must be the  *)
(* next action of that thread in the spec: same kind of access, same CAS   *)
(* outcome, and the same word -                                            *)
(*   stamps exactly (with their PendingPush / NotInList bits),             *)
(*   links: the same control block (heap block numbers are bound to the    *)
(*     blocks of the spec on first sight and must agree ever after) and    *)
(*     the same mark value (delete mark + version tag; the runtime records *)
(*     the 16 mark bits kept in the top of the word times 8).              *)
(* Entering / leaving a region and thread exit have no record of their     *)
(* own: TLC infers them when the next record of the thread needs them.     *)
(* Which control block a starting thread adopts is inferred as well.       *)
(***************************************************************************)
EXTENDS StampItQueue, Json, IOUtils

H == ndJsonDeserialize(IOEnv.TRACE)
NRec == Len(H)
VARIABLES l, ex, ord, bmap        \* bmap: block of the spec -> heap block number of the real execution (0: not seen yet)
svars == <<vars, l, ex, ord, bmap>>
ResetLines == {i \in 1 .. NRec : H[i].e = "reset"}
E == IF l \in 1 .. NRec THEN H[l] ELSE [e |-> "eof", t |-> 9, op |-> "", a |-> 0, b |-> 0, r |-> 0, v |-> 0]
AccKinds == {"ld", "st", "cas", "xchg", "faa", "fas", "for", "fence"}
Labels == DOMAIN OrdCode
StampLabels == {"p_faa", "p_stpend", "p_ststamp", "f_ldms", "f_ldps", "f_ldns", "n_ldms", "n_ldns", "n_ldps", "s_ldst", "s_cas", "m_ldst",
                "r_ldstamp", "r_ststamp", "u_ldls", "u_ldts", "u_cas"}
\* does the recorded word agree with the word of the spec's access?
PtrOk(w) == IF w.p = NIL THEN E.b = 0 /\ E.v = w.m * 8
            ELSE /\ E.b > 0 /\ E.v = w.m * 8
                 /\ \/ bmap[w.p] = E.b
                    \/ bmap[w.p] = 0 /\ \A b \in Blocks : bmap[b] # E.b
ValueOk(lab, w) == IF lab \in StampLabels THEN E.b = 0 /\ E.v = w ELSE PtrOk(w)
Learn(lab, w) == IF lab \notin StampLabels /\ w.p # NIL /\ bmap[w.p] = 0 THEN [bmap EXCEPT ![w.p] = E.b] ELSE bmap
SInit == /\ Init
         /\ \E i \in ResetLines : l = i + 1 /\ ex = H[i].a
         /\ ord = [lab \in Labels |-> {}]
         /\ bmap = [b \in Blocks |-> 0]
StepEv == /\ l \in 1 .. NRec /\ E.e \in AccKinds /\ E.t \in Threads
          /\ ThreadStep(E.t)
          /\ last'.n = last.n + 1 /\ last'.t = E.t /\ last'.k = E.e /\ last'.ok = E.r
          /\ ValueOk(last'.lab, last'.v)
          /\ bmap' = Learn(last'.lab, last'.v)
          /\ ord' = IF last'.lab \in Labels THEN [ord EXCEPT ![last'.lab] = @ \cup {E.op}] ELSE ord
          /\ l' = l + 1 /\ UNCHANGED ex
\* enter_region / leave_region / thread exit: no record; taken when the thread whose record is next is idle
Silent == /\ l \in 1 .. NRec /\ E.e \in AccKinds /\ E.t \in Threads /\ pc[E.t] = "idle"
          /\ \/ Enter(E.t) \/ Leave(E.t)
             \/ own[E.t] = NIL /\ \E u \in Threads \ {E.t} : ExitT(u)
          /\ UNCHANGED <<l, ex, ord, bmap>>
SkipEv == /\ l \in 1 .. NRec /\ (E.t = 9 \/ E.e \in {"call", "ret", "cfg", "quiescent", "ev", "choice", "abort"}) /\ E.e # "reset"
          /\ l' = l + 1 /\ UNCHANGED <<vars, ex, ord, bmap>>
Accept == /\ l > 0 /\ (l = NRec + 1 \/ E.e = "reset")
          /\ PrintT(<<"ACC", ex>>) /\ PrintT(<<"ORD", ex, ord>>)
          /\ l' = 0 /\ UNCHANGED <<vars, ex, ord, bmap>>
SNext == StepEv \/ Silent \/ SkipEv \/ Accept
Progress == TLCSet(1, IF l > TLCGet(1) THEN l ELSE TLCGet(1))
ASSUME TLCSet(1, 0)
Report == PrintT(<<"FURTHEST", TLCGet(1), "OF", NRec>>)
====
