---- MODULE VyukovBounded_Step ----
(***************************************************************************)
(* Step-level trace validation: an execution of the REAL code, recorded    *)
(* by xvrt as one record per atomic access / fence (thread, kind, value,   *)
(* memory order), is replayed against the impl spec VyukovBounded: every   *)
(* record must be matched by the next action of that thread in the spec -  *)
(* same kind of access, same value read or written, same CAS outcome.      *)
(* This binds the spec to the code at the grain at which TLC model-checks  *)
(* it.  The memory order of each record is collected per action label      *)
(* (ord): the order table used by the weak-memory model runs (C03) is      *)
(* extracted from the code, not typed in.  A fence action of the spec that *)
(* has no record is taken silently and recorded with order "none".         *)
(* Records of the main thread (t = 9: setup, drain) are skipped: Init of   *)
(* the spec is the state after the setup.                                  *)
(***************************************************************************)
EXTENDS VyukovBounded, Json, IOUtils

H == ndJsonDeserialize(IOEnv.TRACE)
N == Len(H)
VARIABLES l, ex, ord
svars == <<vars, l, ex, ord>>
ResetLines == {i \in 1 .. N : H[i].e = "reset"}
E == IF l \in 1 .. N THEN H[l] ELSE [e |-> "eof", t |-> 9, op |-> "", a |-> 0, b |-> 0, r |-> 0, v |-> 0]
AccKinds == {"ld", "st", "cas", "xchg", "faa", "fas", "fence", "lock", "unlock"}
SpecKind(k) == IF k = "xchg" THEN "st" ELSE k
Labels == DOMAIN OrdCode
SInit == /\ Init
         /\ \E i \in ResetLines : l = i + 1 /\ ex = H[i].a
         /\ ord = [lab \in Labels |-> {}]
\* an access record of a client thread: the thread's next spec action must be this access
StepEv == /\ l \in 1 .. N /\ E.e \in AccKinds /\ E.t \in Threads
          /\ ThreadStep(E.t)
          /\ last'.n = last.n + 1 /\ last'.t = E.t /\ last'.k = SpecKind(E.e) /\ last'.ok = E.r
          /\ (E.e # "fence" /\ E.e # "lock" /\ E.e # "unlock") => last'.v = E.v
          /\ ord' = IF last'.lab \in Labels THEN [ord EXCEPT ![last'.lab] = @ \cup {E.op}] ELSE ord
          /\ l' = l + 1 /\ UNCHANGED ex
\* a call record: the thread starts that operation
CallEv == /\ l \in 1 .. N /\ E.e = "call" /\ E.t \in Threads
          /\ ThreadStep(E.t)
          /\ last'.n = last.n + 1 /\ last'.t = E.t /\ last'.k = "call" /\ last'.lab = E.op
          /\ (E.a # 0 => last'.v = E.a)
          /\ l' = l + 1 /\ UNCHANGED <<ex, ord>>
\* is the next record of thread t (at or after l) a fence?  (then the fence action has to consume it)
NextRecIsFence(t) == LET idx == {i \in l .. N : H[i].t = t /\ H[i].e # "reset"} IN
                     idx # {} /\ H[CHOOSE i \in idx : \A j \in idx : i <= j].e = "fence"
\* spec steps without a record: plain accesses (functor / payload), and fences the code does not have
Silent == /\ l \in 1 .. N
          /\ \E t \in Threads : /\ ThreadStep(t)
                                 /\ \/ last' = last
                                    \/ (last'.n = last.n + 1 /\ last'.t = t /\ last'.k = "fence" /\ ~NextRecIsFence(t))
                                 /\ ord' = IF last' # last /\ last'.lab \in Labels THEN [ord EXCEPT ![last'.lab] = @ \cup {"none"}] ELSE ord
          /\ UNCHANGED <<l, ex>>
SkipEv == /\ l \in 1 .. N /\ (E.t = 9 \/ E.e \in {"ret", "cfg", "quiescent", "ev", "choice"}) /\ E.e # "reset"
          /\ l' = l + 1 /\ UNCHANGED <<vars, ex, ord>>
Accept == /\ l > 0 /\ (l = N + 1 \/ E.e = "reset")
          /\ PrintT(<<"ACC", ex>>) /\ PrintT(<<"ORD", ex, ord>>)
          /\ l' = 0 /\ UNCHANGED <<vars, ex, ord>>
SNext == StepEv \/ CallEv \/ Silent \/ SkipEv \/ Accept
Progress == TLCSet(1, IF l > TLCGet(1) THEN l ELSE TLCGet(1))
ASSUME TLCSet(1, 0)
Report == PrintT(<<"FURTHEST", TLCGet(1), "OF", N>>)
====
