------------------------------- MODULE WeakSafe -------------------------------
(***************************************************************************)
(* History-level validation of WEAK-MEMORY executions of the real code     *)
(* (xvrt --weak: loads may return older messages that the C++ memory model *)
(* still allows, see harness/rt and common/Mem.tla).                        *)
(*                                                                         *)
(* Between client threads that have not synchronized, real-time order      *)
(* means nothing, so the linearizability oracles of LinHist do not apply.  *)
(* What must hold in EVERY execution the memory model allows is the        *)
(* memory-model independent part of the properties:                        *)
(*   queue / deque  a value handed out was offered before, and is handed   *)
(*                  out once; after the final drain (the main thread has   *)
(*                  joined everybody) nothing accepted is missing          *)
(*   map            a value found under a key was stored under THAT key    *)
(*   set            a key found was inserted; a key is not erased more     *)
(*                  often than it was inserted                             *)
(*   reg            no torn value (seqlock, left_right), no reader inside  *)
(*                  the instance a writer is modifying (left_right)        *)
(*   reclaim        no access to a destroyed object                        *)
(* and, for all of them: no crash, hang, use after free, double free.      *)
(* Records without an action below (outcome, uaf, dfree, race) reject.     *)
(***************************************************************************)
EXTENDS Integers, Sequences, FiniteSets, TLC, Json, IOUtils

CONSTANT Kind        \* "queue", "map", "set", "reg", "reclaim"

H == ndJsonDeserialize(IOEnv.TRACE)
N == Len(H)
Threads == {0, 1, 2, 3, 9}

VARIABLES l, ex,
          pend,      \* per thread: the call in progress
          offered,   \* queue: values whose push was called; map: <<key, value>> pairs; set: bag key -> number of insert calls
          taken,     \* queue: values handed out; set: bag key -> number of successful erases
          accepted,  \* queue: values whose push returned true
          busy       \* reg: <<"w" | "r", instance>> pairs inside a functor right now
vars == <<l, ex, pend, offered, taken, accepted, busy>>

Idle == [op |-> "none", a |-> 0, b |-> 0]
ResetLines == {i \in 1..N : H[i].e = "reset"}
Only == IF "ONLY" \in DOMAIN IOEnv THEN atoi(IOEnv.ONLY) ELSE 0
Init == /\ \E i \in ResetLines : /\ Only \in {0, H[i].a}
                                 /\ l = i + 1 /\ ex = H[i].a
        /\ pend = [t \in Threads |-> Idle]
        /\ offered = {} /\ taken = {} /\ accepted = {} /\ busy = {}

E == IF l \in 1..N THEN H[l] ELSE [e |-> "eof", t |-> 9, op |-> "", a |-> 0, b |-> 0, r |-> 0, v |-> 0]
Adv == l' = l + 1 /\ UNCHANGED ex
Count(bag, k) == Cardinality({p \in bag : p[1] = k})

PushOps == {"push", "wpush"}
PopOps == {"pop", "wpop", "steal"}
InsOps == {"emplace", "getorput", "goe", "emp", "insert", "getorputlazy", "emplace_or_get"}
GetOps == {"xget", "get", "find"}

Call == /\ l \in 1..N /\ E.e = "call"
        /\ pend' = [pend EXCEPT ![E.t] = [op |-> E.op, a |-> E.a, b |-> E.b]]
        /\ offered' = CASE Kind = "queue" /\ E.op \in PushOps -> offered \cup {E.a}
                        [] Kind = "map" /\ E.op \in InsOps -> offered \cup {<<E.a, E.b>>}
                        [] Kind = "set" /\ E.op \in InsOps -> offered \cup {<<E.a, Count(offered, E.a) + 1>>}
                        [] OTHER -> offered
        /\ Adv /\ UNCHANGED <<taken, accepted, busy>>

RetOk == LET p == pend[E.t] IN
  CASE Kind = "queue" /\ p.op \in PopOps /\ E.r = 1 -> E.v \in offered /\ E.v \notin taken
    [] Kind = "map" /\ p.op \in GetOps /\ E.r = 1 -> <<p.a, E.v>> \in offered
    [] Kind = "map" /\ p.op \in InsOps /\ E.r = 0 /\ E.v # 0 -> <<p.a, E.v>> \in offered     \* get_or_emplace found an existing value
    [] Kind = "set" /\ p.op \in {"contains", "con"} /\ E.r = 1 -> Count(offered, p.a) > 0
    [] Kind = "set" /\ p.op \in {"erase", "era"} /\ E.r = 1 -> Count(taken, p.a) < Count(offered, p.a)
    [] Kind = "reg" -> E.v >= 0
    [] OTHER -> TRUE

Ret == /\ l \in 1..N /\ E.e = "ret" /\ pend[E.t].op # "none"
       /\ RetOk
       /\ LET p == pend[E.t] IN
          /\ taken' = CASE Kind = "queue" /\ p.op \in PopOps /\ E.r = 1 -> taken \cup {E.v}
                        [] Kind = "set" /\ p.op \in {"erase", "era"} /\ E.r = 1 -> taken \cup {<<p.a, Count(taken, p.a) + 1>>}
                        [] OTHER -> taken
          /\ accepted' = IF Kind = "queue" /\ p.op \in PushOps /\ E.r = 1 THEN accepted \cup {p.a} ELSE accepted
       /\ pend' = [pend EXCEPT ![E.t] = Idle]
       /\ Adv /\ UNCHANGED <<offered, busy>>

Abort == /\ l \in 1..N /\ E.e = "abort"
         /\ pend' = [pend EXCEPT ![E.t] = Idle]
         /\ Adv /\ UNCHANGED <<offered, taken, accepted, busy>>

\* monitor events of the harness
EvOk == CASE Kind = "reclaim" /\ E.op = "touch" -> E.a = 1                     \* the guarded object is alive (magic intact)
          [] Kind = "reclaim" /\ E.op = "bad" -> FALSE
          [] E.op \in {"dtwice", "lost"} -> FALSE
          [] Kind = "reg" /\ E.op = "rd_in" -> <<"w", E.a>> \notin busy
          [] Kind = "reg" /\ E.op = "wr_in" -> <<"r", E.a>> \notin busy /\ <<"w", E.a>> \notin busy
          [] OTHER -> TRUE
Ev == /\ l \in 1..N /\ E.e = "ev"
      /\ EvOk
      /\ busy' = CASE Kind = "reg" /\ E.op = "rd_in" -> busy \cup {<<"r", E.a>>}
                   [] Kind = "reg" /\ E.op = "wr_in" -> busy \cup {<<"w", E.a>>}
                   [] Kind = "reg" /\ E.op = "rd_out" -> busy \ {<<"r", E.a>>}
                   [] Kind = "reg" /\ E.op = "wr_out" -> busy \ {<<"w", E.a>>}
                   [] OTHER -> busy
      /\ Adv /\ UNCHANGED <<pend, offered, taken, accepted>>

\* the main thread has joined every client thread and drained the container: nothing that was accepted may be missing
Quiescent == /\ l \in 1..N /\ E.e = "quiescent"
             /\ (Kind = "queue" /\ E.op = "end") => accepted \subseteq taken
             /\ Adv /\ UNCHANGED <<pend, offered, taken, accepted, busy>>

Skip == /\ l \in 1..N /\ E.e \in {"choice", "note", "cfg", "solo"}
        /\ Adv /\ UNCHANGED <<pend, offered, taken, accepted, busy>>

Accept == /\ l > 0 /\ (l = N + 1 \/ E.e = "reset")
          /\ PrintT(<<"ACC", ex>>)
          /\ l' = 0 /\ UNCHANGED <<ex, pend, offered, taken, accepted, busy>>

Next == Call \/ Ret \/ Abort \/ Ev \/ Quiescent \/ Skip \/ Accept
Spec == Init /\ [][Next]_vars

Progress == TLCSet(1, IF l > TLCGet(1) THEN l ELSE TLCGet(1))
ASSUME TLCSet(1, 0)
Report == PrintT(<<"FURTHEST", TLCGet(1), "OF", N>>)
=============================================================================
